"""Harness-side environment shim (first on PYTHONPATH for every check and subprocess).

`import dnachisel` fails in this sandbox for two reasons unrelated to the properties:
  * Bio.Align.AlignInfo.PSSM no longer exists in Biopython 1.88 (only MotifPssmPattern uses it);
  * python_codon_tables is not installed (shim package next to this file).
Nothing in /repo is changed by this file.
"""
try:
    import Bio.Align.AlignInfo as _ai
    if not hasattr(_ai, "PSSM"):
        class PSSM(object):  # stub: MotifPssmPattern is outside every property
            def __init__(self, *a, **k):
                raise NotImplementedError("PSSM stub (verif shim)")
        _ai.PSSM = PSSM
except Exception:  # pragma: no cover
    pass
