"""Deterministic synthetic stand-in for the `python_codon_tables` package (not installed here).

Tables follow the standard genetic code; frequencies are synthetic but fixed, sum to 1 per
amino acid, have no ties inside an amino acid, and are multiples of 1/64 (dyadic) so that
float arithmetic on them is exact.  A fresh dict is returned on every call (the real package
does the same), because DnaChisel adds keys to the table in place.
"""
from Bio.Data import CodonTable as _CT

available_codon_tables_names = [
    "b_subtilis", "c_elegans", "d_melanogaster", "e_coli", "g_gallus",
    "h_sapiens", "m_musculus", "m_musculus_domesticus", "s_cerevisiae",
]
available_codon_tables_shortnames = {n: n for n in available_codon_tables_names}

_WEIGHTS = {1: [64], 2: [40, 24], 3: [36, 20, 8], 4: [28, 20, 12, 4], 6: [20, 16, 12, 8, 6, 2]}


def _table(name):
    std = _CT.unambiguous_dna_by_name["Standard"]
    by_aa = {}
    for codon, aa in sorted(std.forward_table.items()):
        by_aa.setdefault(aa, []).append(codon)
    by_aa["*"] = sorted(std.stop_codons)
    rot = sum(ord(c) for c in name)
    out = {}
    for aa in sorted(by_aa):
        codons = by_aa[aa]
        n = len(codons)
        w = _WEIGHTS[n]
        k = (rot + ord(aa)) % n
        w = w[k:] + w[:k]
        out[aa] = {c: w[i] / 64.0 for i, c in enumerate(codons)}
    return out


def get_codons_table(table_name, replace_U_by_T=True, web_timeout=5):
    if table_name not in available_codon_tables_names:
        raise ValueError("unknown codon table %r (verif shim)" % (table_name,))
    return _table(table_name)


def get_all_available_codons_tables(replace_U_by_T=True):
    return {n: _table(n) for n in available_codon_tables_names}
