(* C09 / C08 for AvoidHairpins (model of the repaired code: absolute coordinates, clamped). *)
From Coq Require Import ZArith QArith Bool List Lia.
From DC Require Import Model.Base Model.Loc Model.Bio Model.Pattern Model.MSpace Model.Specs
                       Proofs.SpecsDefs.
Import ListNotations.
Open Scope Z_scope.

(* the hit test at offset i of the extracted segment depends only on sub[i, i+window) *)
Theorem hairpins_delta : forall st win l w s s',
  wf_spec (SHairpins st win l) (zlen s) -> window_in w (zlen s) -> agree_outside w s s' ->
  local_delta_law (SHairpins st win l) w s s'.
Proof.
Admitted.

Theorem hairpins_pass : forall st win l w s s',
  wf_spec (SHairpins st win l) (zlen s) -> window_in w (zlen s) -> agree_outside w s s' ->
  local_pass_law (SHairpins st win l) w s s'.
Proof.
Admitted.
