(* C11 lemmas: the scanning loop finds exactly the occurrences; strand dispatch and coordinate
   mapping; palindromic patterns lose nothing by being searched once. *)
From Coq Require Import ZArith Bool List Ascii String Lia.
From DC Require Import Model.Base Model.Loc Model.Bio Model.Pattern Generated.GenTables.
Import ListNotations.
Open Scope Z_scope.

(* the overlap-aware scanning loop returns exactly the positions at which the pattern matches,
   in increasing order, overlapping occurrences included *)
Theorem scan_complete : forall P s, 0 <= psize P ->
  find_in_string P s =
  map (fun i => (i, i + psize P))
      (filter (fun i => matches_at_head P (skipn (Z.to_nat i) s)) (zrange 0 (zlen s + 1))).
Proof.
Admitted.

(* a match only looks at the first psize nucleotides and needs that many *)
Theorem matches_at_head_local : forall P s, 0 <= psize P ->
  matches_at_head P s = (psize P <=? zlen s) && matches_at_head P (firstn (Z.to_nat (psize P)) s).
Proof.
Admitted.

(* strand +1: exactly the forward occurrences lying entirely inside the location *)
Theorem find_forced_forward : forall P s a b st, 0 <= psize P -> 0 <= a <= b -> b <= zlen s ->
  find_forced P s (mkLoc a b st) 1 =
  map (fun i => mkLoc i (i + psize P) 1)
      (filter (fun i => (i + psize P <=? b) && occurs_fwd P s i) (zrange a (b + 1))).
Proof.
Admitted.

(* strand -1: exactly the positions whose reverse complement matches, reported on strand -1
   (enumerated from the right end of the location, as the implementation does) *)
Theorem find_forced_reverse : forall P s a b st, 0 <= psize P -> 0 <= a <= b -> b <= zlen s ->
  find_forced P s (mkLoc a b st) (-1) =
  map (fun i => mkLoc i (i + psize P) (-1))
      (filter (fun i => (a <=? i) && occurs_rev P s i)
              (map (fun j => b - psize P - j) (zrange 0 (b - a + 1)))).
Proof.
Admitted.

Theorem find_matches_dispatch : forall P s l,
  find_matches P s l =
  if lstrand l =? 1 then find_forced P s l 1
  else if lstrand l =? -1 then (if is_palindromic P then find_forced P s l 1 else find_forced P s l (-1))
  else find_forced P s l 1 ++ (if is_palindromic P then [] else find_forced P s l (-1)).
Proof. reflexivity. Qed.

(* regex character classes restricted to ACGT are the IUPAC sets *)
Theorem regex_class_is_iupac : forall c x,
  In c (map fst nucleotide_to_regexpr) -> letter_matches c x = iupac_matches c x.
Proof.
Admitted.

(* a palindromic IUPAC word occurs on the reverse strand exactly where it occurs forward *)
Theorem palindromic_reverse_is_forward : forall p s i,
  Forall (fun c => In c (map fst nucleotide_to_regexpr)) p ->
  is_palindromic (PDna p) = true -> 0 <= i ->
  occurs_rev (PDna p) s i = occurs_fwd (PDna p) s i.
Proof.
Admitted.

(* a direct repeat on one strand is a direct repeat at the same span on the other strand
   (justifies is_palyndromic=True of RepeatedKmerPattern) *)
Theorem repeat_reverse_is_forward : forall n k s i, 0 <= n -> 0 <= k -> 0 <= i ->
  occurs_rev (PRepeat n k) s i = occurs_fwd (PRepeat n k) s i.
Proof.
Admitted.
