(* C09 / C08 for AvoidHairpins (model of the repaired code: absolute coordinates, clamped). *)
From Coq Require Import ZArith QArith Bool List Lia Lqa.
From DC Require Import Model.Base Model.Loc Model.Bio Model.Pattern Model.MSpace Model.Specs
                       Proofs.SpecsDefs Proofs.PatternProofs Proofs.SpecsLocalA.
Import ListNotations.
Open Scope Z_scope.

(* the hit test at offset i of the extracted segment depends only on sub[i, i+window) *)

(* hit test at absolute position p of sequence x, for a segment ending at e *)
Definition hp_hit (st win : Z) (x : dna) (e p : Z) : bool :=
  match find_sub (slice x p (p + st)) (rc (slice x (p + st) (Z.min e (p + win)))) 0 with
  | Some _ => true
  | None => false
  end.

Lemma hp_flat_map_len {A B} (F : A -> list B) (h : A -> bool) (l : list A) :
  (forall i, In i l -> zlen (F i) = if h i then 1 else 0) ->
  zlen (flat_map F l) = zlen (filter h l).
Proof.
  induction l as [|y l IHl]; intros Hall.
  - reflexivity.
  - cbn [flat_map filter]. rewrite zlen_app.
    rewrite (Hall y) by (left; reflexivity).
    rewrite IHl by (intros i Hi; apply Hall; right; exact Hi).
    destruct (h y).
    + rewrite zlen_cons. lia.
    + lia.
Qed.

(* rev[-(i+window) : -(i+stem)] is the reverse complement of sub[i+stem : min(n, i+window)] *)
Lemma hp_rest (x : dna) a b i st win :
  0 <= a <= b -> b <= zlen x -> 1 <= st -> st <= win -> 0 <= i -> i + st < b - a ->
  pyslice (rc (slice x a b)) (- (i + win)) (- (i + st)) =
  rc (slice x (i + a + st) (Z.min b (i + a + win))).
Proof.
  intros Hab Hb Hst Hwin Hi Hin.
  unfold pyslice, norm_idx.
  rewrite zlen_rc. rewrite zlen_slice by lia.
  destruct (Z.ltb_spec (- (i + win)) 0) as [H1|H1]; [|lia].
  destruct (Z.ltb_spec (- (i + st)) 0) as [H2|H2]; [|lia].
  rewrite (Z.max_r 0 (b - a + - (i + st))) by lia.
  unfold slice at 1.
  rewrite rc_window by (rewrite ?zlen_slice by lia; lia).
  rewrite zlen_slice by lia.
  f_equal.
  rewrite slice_window by lia.
  f_equal; lia.
Qed.

Lemma hairpins_score st win a b sd x :
  1 <= st -> st <= win -> 0 <= a <= b -> b <= zlen x -> sd <> -1 ->
  score (eval_hairpins st win (mkLoc a b sd) x) = zq (- cnt (hp_hit st win x b) a (b - st)).
Proof.
  intros Hst Hwin Hab Hb Hsd. unfold eval_hairpins. cbn [score]. f_equal. f_equal.
  unfold extract. cbn [lstart lend lstrand].
  destruct (Z.eqb_spec sd (-1)) as [He|He]; [contradiction|].
  rewrite pyslice_slice by lia. rewrite zlen_slice by lia.
  unfold cnt.
  replace (zrange a (b - st)) with (zrange (0 + a) (b - a - st + a)) by (f_equal; lia).
  rewrite zrange_shift. rewrite filter_map_comm. rewrite zlen_map.
  apply hp_flat_map_len.
  intros i Hin. apply pz_in_zrange in Hin.
  rewrite hp_rest by lia.
  rewrite pyslice_slice by (rewrite ?zlen_slice by lia; lia).
  rewrite slice_slice by lia.
  unfold hp_hit.
  destruct (find_sub (slice x (i + a) (i + a + st))
                     (rc (slice x (i + a + st) (Z.min b (i + a + win)))) 0); reflexivity.
Qed.

Lemma hp_hit_agree st win w s s' e p :
  agree_outside w s s' -> 1 <= st -> st <= win -> 0 <= p -> p + st <= e ->
  (Z.min e (p + win) <= lstart w \/ lend w <= p) ->
  hp_hit st win s e p = hp_hit st win s' e p.
Proof.
  intros Hag Hst Hwin Hp He Hdis. unfold hp_hit.
  rewrite (slice_agree w s s' p st Hag) by lia.
  replace (Z.min e (p + win)) with (p + st + (Z.min e (p + win) - (p + st))) by lia.
  rewrite (slice_agree w s s' (p + st) (Z.min e (p + win) - (p + st)) Hag) by lia.
  reflexivity.
Qed.

Lemma hp_hit_clamp st win x e e' p :
  Z.min e (p + win) = Z.min e' (p + win) -> hp_hit st win x e p = hp_hit st win x e' p.
Proof. intros Heq. unfold hp_hit. rewrite Heq. reflexivity. Qed.

Lemma hp_overlap_fields l w r : overlap_region l w = Some r ->
  lstart r = Z.max (lstart l) (lstart w) /\ lend r = Z.min (lend l) (lend w) /\
  lstrand r = lstrand l.
Proof.
  unfold overlap_region. intros Hov.
  destruct (Z.ltb_spec (lstart w) (lstart l)) as [H1|H1];
    rewrite Z.geb_leb in Hov;
    match type of Hov with context [?x <=? ?y] => destruct (Z.leb_spec x y) as [H2|H2] end;
    try discriminate; inversion Hov; subst r; cbn [lstart lend lstrand];
    repeat split; lia.
Qed.

Theorem hairpins_nonpos : forall st win l s, (score (eval_hairpins st win l s) <= 0)%Q.
Proof.
  intros st win l s. unfold eval_hairpins. cbn [score]. apply zq_nonpos. apply zlen_nonneg.
Qed.

Theorem hairpins_delta : forall st win l w s s',
  wf_spec (SHairpins st win l) (zlen s) -> window_in w (zlen s) -> agree_outside w s s' ->
  local_delta_law (SHairpins st win l) w s s'.
Proof.
  intros st win [a b sd] w s s' [Hst [Hwin [Hin Hsd]]] [Hw0 [Hw Hwn]] Hag.
  unfold loc_in in Hin. cbn [lstart lend lstrand] in Hin, Hsd.
  destruct Hin as [Ha [Hab [Hb _]]].
  pose proof (agree_len w s s' Hag) as Hlen.
  unfold local_delta_law, localized.
  cbn [accepts_righthand negb orb localized_raw].
  destruct (overlap_region (mkLoc a b sd) w) as [r|] eqn:Hov.
  - pose proof (overlap_some_cases _ _ _ Hov) as Hc.
    destruct (hp_overlap_fields _ _ _ Hov) as [Hrs [Hre Hrd]].
    cbn [lstart lend lstrand] in Hc, Hrs, Hre, Hrd.
    rewrite Hrs, Hre, Hrd.
    cbn [lstart lend lstrand].
    unfold delta. cbn [evaluate].
    rewrite !hairpins_score by lia.
    apply zq_diff.
    set (nls := Z.max a (lstart w)). set (nle := Z.min b (lend w)).
    set (a' := Z.max a (nls - win)). set (e' := Z.min b (nle + win)).
    set (lo := Z.max a (nls - win + 1)). set (hi := Z.min (b - st) nle).
    rewrite (cnt_diff_local (hp_hit st win s b) (hp_hit st win s' b) a (b - st) lo hi).
    + rewrite (cnt_diff_local (hp_hit st win s e') (hp_hit st win s' e') a' (e' - st) lo hi).
      * rewrite (cnt_ext (hp_hit st win s' b) (hp_hit st win s' e') lo hi)
          by (intros i Hi; apply hp_hit_clamp; unfold lo, hi, e', nle, nls in *; lia).
        rewrite (cnt_ext (hp_hit st win s b) (hp_hit st win s e') lo hi)
          by (intros i Hi; apply hp_hit_clamp; unfold lo, hi, e', nle, nls in *; lia).
        reflexivity.
      * intros i Hi Hni. apply (hp_hit_agree st win w s s' e' i Hag);
          unfold lo, hi, a', e', nle, nls in *; lia.
      * unfold lo, a'. lia.
      * unfold hi, e'. lia.
    + intros i Hi Hni. apply (hp_hit_agree st win w s s' b i Hag);
        unfold lo, hi, nle, nls in *; lia.
    + unfold lo. lia.
    + unfold hi. lia.
  - pose proof (overlap_none_dis _ _ Hov) as Hdis. cbn [lstart lend] in Hdis.
    unfold delta. cbn [evaluate].
    rewrite !hairpins_score by lia.
    rewrite (cnt_ext (hp_hit st win s b) (hp_hit st win s' b) a (b - st)).
    + unfold zq, Qeq, Qminus, Qplus, Qopp, inject_Z. simpl. lia.
    + intros i Hi. apply (hp_hit_agree st win w s s' b i Hag); lia.
Qed.

Theorem hairpins_pass : forall st win l w s s',
  wf_spec (SHairpins st win l) (zlen s) -> window_in w (zlen s) -> agree_outside w s s' ->
  local_pass_law (SHairpins st win l) w s s'.
Proof.
  intros st win l w s s' Hwf Hw Hag.
  apply pass_from_delta.
  - apply hairpins_delta; assumption.
  - intros sp' e0 Hloc Hev.
    unfold localized in Hloc. cbn [accepts_righthand negb orb localized_raw] in Hloc.
    destruct (overlap_region l w) as [nl|]; [|discriminate].
    inversion Hloc; subst sp'.
    cbn [evaluate] in Hev. injection Hev as Hev'. subst e0.
    apply hairpins_nonpos.
Qed.
