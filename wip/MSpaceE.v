(* C05 lemmas: wherever the code iterates a Python set of variants, the result does not depend on the
   iteration order (which depends on the interpreter's string-hash seed): two choices that carry the
   same SET of variants, listed in any order, behave identically for every oracle stream. *)
From Coq Require Import ZArith Bool List Lia Permutation Sorting.Sorted.
From DC Require Import Model.Base Model.Loc Model.MSpace Proofs.MSpaceDefs Proofs.MSpaceA.
Import ListNotations.
Open Scope Z_scope.

(* same segment, same set of variants (any order) *)
Definition choice_equiv (a b : choice) : Prop :=
  cstart a = cstart b /\ cend a = cend b /\ cany a = cany b /\ Permutation (cvariants a) (cvariants b).

(* sorted(variants) is canonical *)
Theorem sort_dna_canonical : forall l l', Permutation l l' -> sort_dna l = sort_dna l'.
Proof.
Admitted.

(* MutationChoice.random_variant: variants are sorted before the draw *)
Theorem random_variant_order_independent : forall c c' s r,
  choice_equiv c c' -> random_variant c s r = random_variant c' s r.
Proof.
Admitted.

(* all_variants: the (distance, variant) key is total on a duplicate-free variant set *)
Theorem sorted_by_distance_order_independent : forall c c' s,
  choice_equiv c c' -> NoDup (cvariants c) -> sorted_by_distance c s = sorted_by_distance c' s.
Proof.
Admitted.

Theorem slots_order_independent : forall mc mc' s,
  Forall2 choice_equiv mc mc' -> Forall (fun c => NoDup (cvariants c)) mc ->
  option_map (map snd) (slots_of mc s) = option_map (map snd) (slots_of mc' s) /\
  option_map (fun sl => product_apply sl s) (slots_of mc s) =
  option_map (fun sl => product_apply sl s) (slots_of mc' s).
Proof.
Admitted.

(* constrain_sequence: a single variant is written as is, several are sorted before the draw, the
   membership test does not depend on the order *)
Theorem constrain_loop_order_independent : forall cs cs' orig cur r,
  Forall2 choice_equiv cs cs' -> Forall (fun c => NoDup (cvariants c)) cs ->
  constrain_loop cs orig cur r = constrain_loop cs' orig cur r.
Proof.
Admitted.

(* random mutations over a list of picked choices *)
Theorem variants_for_order_independent : forall cs cs' s r,
  Forall2 choice_equiv cs cs' ->
  option_map (fun p => (map snd (fst p), snd p)) (variants_for cs s r) =
  option_map (fun p => (map snd (fst p), snd p)) (variants_for cs' s r).
Proof.
Admitted.

(* extract_varying_region does not depend on which variant serves as the reference: the pieces carry
   the same segments and the same sets of variants *)
Theorem extract_varying_region_order_independent : forall c c',
  choice_equiv c c' -> wf_choice c ->
  Forall2 choice_equiv (extract_varying_region c) (extract_varying_region c').
Proof.
Admitted.
