(* C19 lemmas, part B: windowed GC content (cumulative-sum algorithm) and sequence differences. *)
From Coq Require Import ZArith Bool List Lia Sorting.Sorted.
From DC Require Import Model.Base Model.Bio.
Import ListNotations.
Open Scope Z_scope.

Theorem gc_window_counts_spec : forall (s : dna) w, 1 <= w <= zlen s ->
  gc_window_counts s w = map (fun i => count_gc (slice s i (i + w))) (zrange 0 (zlen s - w + 1)).
Proof.
Admitted.

Theorem gc_window_counts_short : forall (s : dna) w, zlen s < w -> gc_window_counts s w = [].
Proof.
Admitted.

Theorem gc_window_counts_length : forall (s : dna) w, 1 <= w <= zlen s ->
  zlen (gc_window_counts s w) = zlen s - w + 1.
Proof.
Admitted.

Theorem count_gc_bounds : forall s : dna, 0 <= count_gc s <= zlen s.
Proof.
Admitted.

(* position i (0-based) is a mismatch between s and t *)
Definition mismatch (s t : dna) (i : Z) : Prop :=
  0 <= i /\ exists x y, nth_error s (Z.to_nat i) = Some x /\ nth_error t (Z.to_nat i) = Some y /\ x <> y.

Theorem diff_array_spec : forall s t i, List.length s = List.length t ->
  (0 <= i /\ nth_error (diff_array s t) (Z.to_nat i) = Some true) <-> mismatch s t i.
Proof.
Admitted.

Theorem diff_array_length : forall s t, List.length s = List.length t ->
  List.length (diff_array s t) = List.length s.
Proof.
Admitted.

Theorem diff_count_spec : forall s t, diff_count s t = zlen (filter (fun b : bool => b) (diff_array s t)).
Proof.
Admitted.

(* the segments are exactly the maximal runs of mismatching positions *)
Theorem diff_segments_spec : forall s t, List.length s = List.length t ->
  let segs := diff_segments s t in
  (forall i, (exists p, In p segs /\ fst p <= i < snd p) <-> mismatch s t i) /\
  Forall (fun p => 0 <= fst p < snd p /\ snd p <= zlen s) segs /\
  StronglySorted (fun p q => snd p < fst q) segs.
Proof.
Admitted.
