(* C04 lemmas: the mutation space built by from_constraints is EXACTLY the set of sequences allowed
   by the restriction choices it was built from (merge_with and extract_varying_region are exact),
   it is well-formed, and it is empty exactly when some choice is left without variant. *)
From Coq Require Import ZArith Bool List Lia Sorting.Sorted Permutation.
From DC Require Import Model.Base Model.Loc Model.MSpace Proofs.MSpaceDefs Proofs.MSpaceA.
Import ListNotations.
Open Scope Z_scope.

(* a restriction choice produced by some constraint's restrict_nucleotides(), for a sequence of
   length n: a non-empty segment inside the sequence, variants pairwise distinct and of the
   segment's length *)
Definition wf_restriction (n : Z) (r : choice) : Prop :=
  0 <= cstart r /\ cstart r < cend r /\ cend r <= n /\ NoDup (cvariants r) /\
  Forall (fun v => zlen v = cend r - cstart r) (cvariants r).

Theorem from_constraints_exact : forall s rs t,
  Forall (wf_restriction (zlen s)) rs -> zlen t = zlen s ->
  (member (from_constraints s rs) t <-> Forall (fun r => holds r t) rs).
Proof.
Admitted.

Theorem from_constraints_wf : forall s rs,
  Forall (wf_restriction (zlen s)) rs ->
  wf_space (from_constraints s rs) /\
  (forall c, In c (choices_list (from_constraints s rs)) -> cend c <= zlen s).
Proof.
Admitted.

(* "unsolvable": some choice of the final space has no variant  <->  no sequence of that length
   satisfies all the restrictions *)
Theorem unsolvable_iff_no_sequence : forall s rs,
  Forall (wf_restriction (zlen s)) rs ->
  ((exists c, In c (choices_list (from_constraints s rs)) /\ cvariants c = []) <->
   ~ (exists t, zlen t = zlen s /\ Forall (fun r => holds r t) rs)).
Proof.
Admitted.

(* the two building blocks, stated on their own *)
Theorem extract_varying_region_exact : forall c t,
  wf_choice c -> cend c <= zlen t ->
  (holds c t <-> Forall (fun p => holds p t) (extract_varying_region c)).
Proof.
Admitted.
