(* The mutation space built from pairwise disjoint restrictions (no merging ever happens), windows of a
   space that are closed (every choice meeting the window lies inside it) and covered, and the
   synonymous-codon space of EnforceTranslation on the forward strand: every codon of the coding region
   is such a window.  Used to discharge [block_searchable] (Proofs/CaiEnd.v) in Proofs/CaiFull.v. *)
From Coq Require Import ZArith QArith Bool List Lia Lqa Ascii String Sorting.Sorted Permutation.
From DC Require Import Model.Base Model.Loc Model.Bio Model.Pattern Model.MSpace Model.Specs Model.Solver
                       Generated.GenTables
                       Proofs.MSpaceDefs Proofs.MSpaceA Proofs.MSpaceB Proofs.MSpaceC Proofs.MSpaceD
                       Proofs.SpecsDefs Proofs.BioA Proofs.SpecsCodon
                       Proofs.SolverA Proofs.SolverB Proofs.SolverC Proofs.SolverE Proofs.Builtins Proofs.CaiEnd.
Import ListNotations.
Open Scope Z_scope.

(* ================================================================== pairwise disjoint restrictions *)
Definition rdisj (x y : choice) : Prop := cend x <= cstart y \/ cend y <= cstart x.
Definition pairwise_disj (L : list choice) : Prop :=
  NoDup L /\ forall x y, In x L -> In y L -> x = y \/ rdisj x y.

(* every choice of the index is an initial one-nucleotide choice or lies inside a placed restriction *)
Definition Inv2 (n : Z) (idx : list (option choice)) (done : list choice) : Prop :=
  Inv n idx done /\
  forall c, In (Some c) idx ->
    (exists i x, c = any_choice i x) \/
    (exists r, In r done /\ cstart r <= cstart c /\ cend c <= cend r).

Lemma step2 n idx done ch :
  Inv2 n idx done -> wf_restriction n ch -> (forall r, In r done -> rdisj r ch) ->
  Inv2 n (place_choice idx ch) (ch :: done).
Proof.
  intros [HI H2] Hr Hd. split; [apply step; assumption|].
  pose proof HI as (HP & HA & HM). pose proof Hr as (R1 & R2 & R3 & R4 & R5 & R6).
  assert (Wch : wf_choice ch) by (split; [lia | split; assumption]).
  pose proof HP as (P1 & P2 & P3).
  assert (Hany : forall c j, In (Some c) idx -> cstart c <= j < cend c ->
            cstart ch <= j < cend ch -> exists i x, c = any_choice i x).
  { intros c j Hc J1 J2. destruct (H2 c Hc) as [E|(r & Hrd & A & B)]; [exact E|].
    exfalso. destruct (Hd r Hrd) as [D|D]; lia. }
  assert (Eall : forallb any_flag (pyslice idx (cstart ch) (cend ch)) = true).
  { apply forallb_forall. intros o Ho. apply In_pyslice in Ho; [|lia|lia].
    destruct Ho as [j [Hj Ho]].
    destruct (P2 j ltac:(lia)) as [c Hc]. unfold ix in Hc. rewrite Ho in Hc. inversion Hc; subst o.
    assert (Hc' : ix idx j = Some (Some c)) by exact Ho.
    destruct (P3 j c ltac:(lia) Hc') as (_ & Hjc & _).
    destruct (Hany c j) as (i & x & E); [apply In_ix; exists j; split; [lia | exact Hc'] | exact Hjc | exact Hj|].
    subst c. reflexivity. }
  rewrite place_choice_eq, nc_eq, Eall.
  assert (Hcl : forall c j, In (Some c) idx -> cstart c <= j < cend c ->
            cstart ch <= j < cend ch -> cstart ch <= cstart c /\ cend c <= cend ch).
  { intros c j Hc J1 J2. destruct (Hany c j Hc J1 J2) as (i & x & E). subst c.
    cbn [any_choice cstart cend] in *. lia. }
  destruct (replace_spec n idx (cstart ch) (cend ch) (extract_varying_region ch)
              HP R1 R2 R3 (evr_tiles ch Wch) (evr_wf ch Wch) Hcl) as [_ HIn].
  intros c Hc. apply HIn in Hc. destruct Hc as [Hc|[Hc _]].
  - right. exists ch. split; [left; reflexivity|].
    destruct (tiles_bounds _ _ _ (evr_tiles ch Wch) c Hc) as (B1 & B2 & B3). lia.
  - destruct (H2 c Hc) as [E|(r & Hrd & A & B)]; [left; exact E|].
    right. exists r. split; [right; exact Hrd | lia].
Qed.

Lemma fold_inv2 n : forall l idx done, Inv2 n idx done -> Forall (wf_restriction n) l ->
  NoDup l -> (forall x y, In x l -> In y l -> x = y \/ rdisj x y) ->
  (forall r x, In r done -> In x l -> rdisj r x) ->
  Inv2 n (fold_left place_choice l idx) (rev l ++ done).
Proof.
  induction l as [|r l IH]; intros idx done HI Hl Hnd Hpw Hdl; simpl; [exact HI|].
  inversion Hl as [|r' l' Hr Hl']; subst. inversion Hnd as [|r' l' Hni Hnd']; subst.
  rewrite <- app_assoc. simpl. apply IH.
  - apply step2; [exact HI | exact Hr|]. intros r0 Hr0. apply Hdl; [exact Hr0 | left; reflexivity].
  - exact Hl'.
  - exact Hnd'.
  - intros x y Hx Hy. apply Hpw; right; assumption.
  - intros r0 x [E|Hr0] Hx.
    + subst r0. destruct (Hpw r x (or_introl eq_refl) (or_intror Hx)) as [E|D]; [|exact D].
      subst x. contradiction.
    + apply Hdl; [exact Hr0 | right; exact Hx].
Qed.

Lemma insert_stable_perm x : forall l, Permutation (insert_stable x l) (x :: l).
Proof.
  induction l as [|y l IH]; cbn [insert_stable]; [apply Permutation_refl|].
  destruct (rkey_ltb y x); [|apply Permutation_refl].
  eapply Permutation_trans; [apply perm_skip; exact IH | apply perm_swap].
Qed.

Lemma sort_restrictions_perm : forall l, Permutation (sort_restrictions l) l.
Proof.
  induction l as [|x l IH]; [apply Permutation_refl|].
  unfold sort_restrictions in *. cbn [fold_right].
  eapply Permutation_trans; [apply insert_stable_perm | apply perm_skip; exact IH].
Qed.

Lemma final_inv2 s rs : Forall (wf_restriction (zlen s)) rs -> pairwise_disj rs ->
  Inv2 (zlen s) (choices_index (from_constraints s rs)) (rev (sort_restrictions rs) ++ []).
Proof.
  intros H [Hnd Hpw]. unfold from_constraints, from_constraints_on. cbn [choices_index].
  pose proof (sort_restrictions_perm rs) as HPm.
  apply fold_inv2.
  - split.
    + split; [apply init_part|]. split; [apply init_any|].
      intros t Ht. rewrite member_ix. split.
      * intros _ r [].
      * intros _ c Hc. apply In_ix in Hc. destruct Hc as [i [Hi Hc]].
        destruct (init_ix s i c Hi Hc) as [x [Hx Ec]]. subst c.
        assert (Hlt : (Z.to_nat i < List.length s)%nat) by (apply nth_error_Some; congruence).
        apply any_holds; [exact Hi | unfold zlen in *; lia].
    + intros c Hc. left.
      apply In_ix in Hc. destruct Hc as [i [Hi Hc]].
      destruct (init_ix s i c Hi Hc) as [x [_ Ec]]. exists i, x. exact Ec.
  - rewrite Forall_forall in *. intros r Hr. apply H. apply sort_restrictions_In. exact Hr.
  - eapply Permutation_NoDup; [apply Permutation_sym; exact HPm | exact Hnd].
  - intros x y Hx Hy. apply Hpw; apply sort_restrictions_In; assumption.
  - intros r x [].
Qed.

(* the structure of a space built from pairwise disjoint restrictions *)
Theorem disjoint_restrictions_space : forall s rs,
  Forall (wf_restriction (zlen s)) rs -> pairwise_disj rs ->
  let space := from_constraints s rs in
  (forall c, In c (choices_list space) ->
     cend c = cstart c + 1 \/ exists r, In r rs /\ cstart r <= cstart c /\ cend c <= cend r) /\
  (forall i, 0 <= i < zlen s -> exists c, In c (choices_list space) /\ cstart c <= i < cend c).
Proof.
  intros s rs Hrs Hpd space.
  destruct (final_inv2 s rs Hrs Hpd) as [((P1 & P2 & P3) & _ & _) H2]. split.
  - intros c Hc. unfold choices_list in Hc. apply In_dedupe_None in Hc.
    destruct (H2 c Hc) as [(i & x & E)|(r & Hr & A & B)].
    + left. subst c. reflexivity.
    + right. exists r. split; [|lia].
      rewrite app_nil_r, <- in_rev, sort_restrictions_In in Hr. exact Hr.
  - intros i Hi. destruct (P2 i Hi) as [c Hc]. exists c.
    destruct (P3 i c ltac:(lia) Hc) as (_ & Hic & _). split; [|exact Hic].
    unfold choices_list. apply In_dedupe_None. apply In_ix. exists i. split; [lia | exact Hc].
Qed.

(* ================================================================== counting variants *)
Fixpoint kmers (k : nat) : list dna :=
  match k with
  | O => [[]]
  | S k' => flat_map (fun x => map (cons x) (kmers k')) [nA; nC; nG; nT]
  end.

Lemma kmers_in : forall v : dna, In v (kmers (List.length v)).
Proof.
  induction v as [|a v IH]; [left; reflexivity|].
  cbn [List.length kmers]. apply in_flat_map. exists a. split.
  - destruct a; cbn [In]; tauto.
  - apply in_map. exact IH.
Qed.

Lemma kmers_len : forall k, zlen (kmers k) = 4 ^ Z.of_nat k.
Proof.
  induction k as [|k IH]; [reflexivity|].
  rewrite Nat2Z.inj_succ, Z.pow_succ_r by lia. rewrite <- IH.
  unfold zlen. cbn [kmers flat_map]. rewrite !app_length, !map_length. cbn [List.length]. unfold dna. lia.
Qed.

Lemma nvariants_bound : forall c, wf_choice c -> 0 <= nvariants c <= 4 ^ (cend c - cstart c).
Proof.
  intros c (Hpos & Hnd & Hlen). unfold nvariants. split; [apply zlen_nonneg|].
  replace (cend c - cstart c) with (Z.of_nat (Z.to_nat (cend c - cstart c))) by lia.
  rewrite <- kmers_len. unfold zlen. apply inj_le. apply NoDup_incl_length; [exact Hnd|].
  intros v Hv. rewrite Forall_forall in Hlen. pose proof (Hlen v Hv) as Hl.
  replace (Z.to_nat (cend c - cstart c)) with (List.length v) by (unfold zlen in Hl; lia).
  apply kmers_in.
Qed.

Lemma product_bound : forall L a b, a <= b ->
  StronglySorted ch_lt L -> Forall wf_choice L ->
  (forall c, In c L -> a <= cstart c /\ cend c <= b) ->
  0 <= fold_right Z.mul 1 (map nvariants L) <= 4 ^ (b - a).
Proof.
  induction L as [|c L IH]; intros a b Hab Hss Hwf Hin.
  - cbn [map fold_right]. split; [lia|]. apply (Z.pow_le_mono_r 4 0 (b - a)); lia.
  - cbn [map fold_right]. apply StronglySorted_inv in Hss. destruct Hss as [Hss Hf].
    inversion Hwf as [|c' L' Wc WL]; subst. rewrite Forall_forall in Hf.
    destruct (Hin c (or_introl eq_refl)) as [A B].
    pose proof Wc as (Hpos & _).
    destruct (IH (cend c) b B Hss WL) as [I1 I2].
    { intros c' Hc'. split; [apply Hf; exact Hc' | apply Hin; right; exact Hc']. }
    destruct (nvariants_bound c Wc) as [N1 N2].
    split; [apply Z.mul_nonneg_nonneg; assumption|].
    apply Z.le_trans with (4 ^ (cend c - cstart c) * 4 ^ (b - cend c)).
    + apply Z.mul_le_mono_nonneg; assumption.
    + rewrite <- Z.pow_add_r by lia. apply Z.pow_le_mono_r; lia.
Qed.

Lemma few_variants_eq : forall (vs : list dna) x y, zlen vs < 2 -> In x vs -> In y vs -> x = y.
Proof.
  intros vs x y H Hx Hy. destruct vs as [|v [|w vs]].
  - destruct Hx.
  - destruct Hx as [<-|[]]. destruct Hy as [<-|[]]. reflexivity.
  - unfold zlen in H. cbn [List.length] in H. lia.
Qed.

(* ================================================================== closed, covered windows *)
Section Window.
  Variable space : mspace.
  Variable n : Z.
  Hypothesis space_wf : wf_space space.
  Hypothesis space_fits : forall c, In c (choices_list space) -> cend c <= n.
  Variables a b : Z.
  Hypothesis Ha : 0 <= a.
  Hypothesis Hab : a < b.
  Hypothesis Hbn : b <= n.
  Hypothesis closed : forall c, In c (choices_list space) -> Z.max a (cstart c) < Z.min b (cend c) ->
    a <= cstart c /\ cend c <= b.
  Hypothesis covered : forall i, a <= i < b -> exists c, In c (choices_list space) /\ cstart c <= i < cend c.

  Let lspace := ms_localized space a b.

  Lemma window_choice_in : forall c, In c (choices_list lspace) ->
    In c (choices_list space) /\ a <= cstart c /\ cend c <= b.
  Proof.
    intros c Hc. apply (localized_keeps_overlapping space a b c space_wf Ha ltac:(lia)) in Hc.
    destruct Hc as [Hc Hov]. split; [exact Hc | apply closed; assumption].
  Qed.

  Lemma window_variant : forall s t, good space n s -> good space n t ->
    (forall i, 0 <= i -> ~ (a <= i < b) -> nth_error t (Z.to_nat i) = nth_error s (Z.to_nat i)) ->
    is_variant_of lspace s t.
  Proof.
    intros s t [Hns Hms] [Hnt Hmt] Hout. split; [lia|]. split.
    - intros c Hc. apply multichoices_In in Hc. apply window_choice_in in Hc. destruct Hc as [Hc _].
      unfold member in Hmt. rewrite Forall_forall in Hmt. apply Hmt. exact Hc.
    - intros i Hi Hnc.
      destruct (Z.lt_ge_cases i a) as [H1|H1]; [apply Hout; lia|].
      destruct (Z.lt_ge_cases i b) as [H2|H2]; [|apply Hout; lia].
      destruct (covered i ltac:(lia)) as [c [Hc Hic]].
      assert (Hcl : In c (choices_list lspace)).
      { apply (localized_keeps_overlapping space a b c space_wf Ha ltac:(lia)). split; [exact Hc | lia]. }
      assert (Hnv : nvariants c < 2).
      { destruct (Z.leb_spec 2 (nvariants c)) as [H|H]; [|exact H].
        exfalso. apply (Hnc c); [|exact Hic]. unfold multichoices. apply filter_In. split; [exact Hcl|].
        apply Z.leb_le. exact H. }
      unfold member in Hms, Hmt. rewrite Forall_forall in Hms, Hmt.
      pose proof (few_variants_eq _ _ _ Hnv (Hmt c Hc) (Hms c Hc)) as E.
      destruct space_wf as (W1 & _). rewrite Forall_forall in W1. destruct (W1 c Hc) as (Hpos & _).
      assert (E' : nth_error (slice t (cstart c) (cend c)) (Z.to_nat (i - cstart c)) =
                   nth_error (slice s (cstart c) (cend c)) (Z.to_nat (i - cstart c))) by (rewrite E; reflexivity).
      rewrite !nth_error_slice in E'.
      destruct (Nat.ltb_spec (Z.to_nat (i - cstart c)) (Z.to_nat (cend c - cstart c))) as [_|H]; [|lia].
      replace (Z.to_nat (cstart c) + Z.to_nat (i - cstart c))%nat with (Z.to_nat i) in E' by lia.
      exact E'.
  Qed.

  Lemma window_multi : forall s t, good space n s -> good space n t -> s <> t ->
    (forall i, 0 <= i -> ~ (a <= i < b) -> nth_error t (Z.to_nat i) = nth_error s (Z.to_nat i)) ->
    multichoices lspace <> [].
  Proof.
    intros s t Hs Ht Hne Hout E. apply Hne. symmetry.
    destruct (window_variant s t Hs Ht Hout) as (_ & _ & V3).
    apply nth_error_ext. intro j. rewrite <- (Nat2Z.id j). apply V3; [lia|].
    intros c Hc. rewrite E in Hc. destruct Hc.
  Qed.

  Lemma window_size_bound : space_size_exact lspace <= 4 ^ (b - a).
  Proof.
    pose proof (localized_wf_choices space space_wf a b) as (W1 & W2). fold lspace in W1, W2.
    assert (HB : 0 <= fold_right Z.mul 1 (map nvariants (multichoices lspace)) <= 4 ^ (b - a)).
    { apply product_bound; [lia | | |].
      - unfold multichoices. apply b_ss_filter. exact W2.
      - unfold multichoices. apply Forall_forall. intros c Hc. apply filter_In in Hc.
        rewrite Forall_forall in W1. apply W1. exact (proj1 Hc).
      - intros c Hc. apply multichoices_In in Hc. apply window_choice_in in Hc. tauto. }
    unfold space_size_exact. destruct (multichoices lspace) as [|c mc] eqn:E; [|exact (proj2 HB)].
    apply Z.lt_le_incl. apply Z.pow_pos_nonneg; lia.
  Qed.

  Lemma window_span : multichoices lspace <> [] ->
    exists x y, choices_span lspace = Some (x, y) /\ a <= x /\ y <= b.
  Proof.
    intro Hne. unfold choices_span. destruct (multichoices lspace) as [|c0 mc] eqn:E; [congruence|].
    exists (cstart c0), (cend (last (c0 :: mc) c0)). split; [reflexivity|].
    assert (H0 : In c0 (multichoices lspace)) by (rewrite E; left; reflexivity).
    assert (H1 : In (last (c0 :: mc) c0) (multichoices lspace)).
    { rewrite E. apply last_In. discriminate. }
    apply multichoices_In, window_choice_in in H0. apply multichoices_In, window_choice_in in H1. lia.
  Qed.

  (* the local search of a closed, covered window reaches every usable sequence that differs from the
     current one only inside the window *)
  Lemma window_searchable : forall s1 t1 s t,
    good space n s1 -> good space n t1 -> s1 <> t1 ->
    (forall i, 0 <= i -> ~ (a <= i < b) -> nth_error t1 (Z.to_nat i) = nth_error s1 (Z.to_nat i)) ->
    good space n s -> good space n t ->
    (forall i, 0 <= i -> ~ (a <= i < b) -> nth_error t (Z.to_nat i) = nth_error s (Z.to_nat i)) ->
    space_size_exact lspace <> 0 /\ space_size_exact lspace <= 4 ^ (b - a) /\
    exists x y vs, choices_span lspace = Some (x, y) /\ a <= x /\ y <= b /\
      all_variants lspace s = Some vs /\ In t vs.
  Proof.
    intros s1 t1 s t Hs1 Ht1 Hne1 Hout1 Hs Ht Hout.
    pose proof (window_multi s1 t1 Hs1 Ht1 Hne1 Hout1) as Hmc.
    split.
    { destruct (space_size_is_product lspace Hmc) as [_ Hge].
      assert (0 < 2 ^ zlen (multichoices lspace)) by (apply Z.pow_pos_nonneg; [lia | apply zlen_nonneg]).
      lia. }
    split; [apply window_size_bound|].
    destruct (window_span Hmc) as (x & y & Hspan & Hx & Hy).
    destruct (all_variants_spec lspace s) as (vs & Hvs & _ & _ & Hiff & _).
    - apply localized_wf_choices. exact space_wf.
    - apply localized_member. exact (proj2 Hs).
    - intros c Hc. apply window_choice_in in Hc. destruct Hs as [Hn _]. lia.
    - exact Hmc.
    - exists x, y, vs. split; [exact Hspan|]. split; [exact Hx|]. split; [exact Hy|]. split; [exact Hvs|].
      apply Hiff. apply window_variant; assumption.
  Qed.
End Window.

(* ================================================================== generic list facts *)
Lemma ins_choice_perm x : forall l, Permutation (ins_choice x l) (x :: l).
Proof.
  induction l as [|y l IH]; cbn [ins_choice]; [apply Permutation_refl|].
  destruct (cstart y <? cstart x); [|apply Permutation_refl].
  fold (ins_choice x). eapply Permutation_trans; [apply perm_skip; exact IH | apply perm_swap].
Qed.

Lemma sort_choice_perm : forall all,
  Permutation (fold_right (fun x acc => ins_choice x acc) [] all) all.
Proof.
  induction all as [|x all IH]; [apply Permutation_refl|].
  cbn [fold_right]. eapply Permutation_trans; [apply ins_choice_perm | apply perm_skip; exact IH].
Qed.

Lemma NoDup_map_fst_combine {A B} : forall (l1 : list A) (l2 : list B),
  NoDup l1 -> NoDup (map fst (combine l1 l2)).
Proof.
  induction l1 as [|x l1 IH]; intros l2 H; [constructor|].
  destruct l2 as [|y l2]; [constructor|]. inversion H as [|x' l' Hni Hnd]; subst.
  cbn [combine map fst]. constructor; [|apply IH; exact Hnd].
  intro Hin. apply in_map_iff in Hin. destruct Hin as [[a b] [E Hin]]. cbn [fst] in E. subst a.
  apply in_combine_l in Hin. contradiction.
Qed.

Lemma NoDup_map_eq {A B} (f : A -> B) : forall l, NoDup (map f l) ->
  forall x y, In x l -> In y l -> f x = f y -> x = y.
Proof.
  induction l as [|a l IH]; intros H x y Hx Hy E; [destruct Hx|].
  cbn [map] in H. inversion H as [|a' l' Hni Hnd]; subst.
  destruct Hx as [Hx|Hx]; destruct Hy as [Hy|Hy].
  - congruence.
  - subst a. exfalso. apply Hni. rewrite E. apply in_map. exact Hy.
  - subst a. exfalso. apply Hni. rewrite <- E. apply in_map. exact Hx.
  - apply IH; assumption.
Qed.

Lemma zrange_NoDup : forall a b, NoDup (zrange a b).
Proof.
  intros a b. unfold zrange. apply FinFun.Injective_map_NoDup; [|apply seq_NoDup].
  intros x y H. lia.
Qed.

Lemma mapM_In_some {X Y} (f : X -> option Y) : forall l r x, mapM f l = Some r -> In x l ->
  exists y, f x = Some y.
Proof.
  induction l as [|a l IH]; intros r x H Hx; [destruct Hx|].
  cbn [mapM] in H. destruct (f a) as [y|] eqn:E; [|discriminate].
  destruct (mapM f l) as [r'|] eqn:E2; [|discriminate].
  destruct Hx as [Hx|Hx]; [subst a; exists y; exact E | eapply IH; [reflexivity | exact Hx]].
Qed.

(* ================================================================== EnforceTranslation, forward strand *)
Section Translation.
  Variables (name : string) (T : gtable) (l : loc) (tr : astr) (s0 : dna).
  Hypothesis HT : In (name, T) genetic_tables.
  Hypothesis Hnd : no_dual_stop T = true.
  Hypothesis Hl : loc_in l (zlen s0).
  Hypothesis Hs : lstrand l = 1.
  Hypothesis Hlen : loc_len l = 3 * zlen tr.
  Hypothesis Hne : 1 <= zlen tr.

  Let rs := restrict_nucleotides (STranslation T l tr StartNone) false s0.
  Let space := from_constraints s0 rs.
  Let n := zlen s0.
  Let k := zlen tr.

  Lemma codon_choice_fwd : forall i aa,
    codon_choice T l (i, aa) =
    mkChoice (lstart l + 3 * i) (lstart l + 3 * (i + 1)) (nodup_dna (back_codons T aa)) false.
  Proof.
    intros i aa. unfold codon_choice, std_choice, rchoice, codon_loc. cbn [fst snd]. rewrite Hs. reflexivity.
  Qed.

  Lemma trs_perm : Permutation rs (map (codon_choice T l) (combine (zrange 0 k) tr)).
  Proof.
    assert (H : Permutation rs
              (std_choice (codon_loc l 0) (first_choices T tr StartNone (extract (codon_loc l 0) s0)) ::
               map (codon_choice T l) (tl (combine (zrange 0 (zlen tr)) tr))))
      by exact (sort_choice_perm _).
    eapply Permutation_trans; [exact H|]. unfold k.
    destruct tr as [|aa0 tr']; [change (zlen (@nil ascii)) with 0 in Hne; lia|].
    rewrite (zrange_cons' 0 (zlen (aa0 :: tr'))) by lia. apply Permutation_refl.
  Qed.

  Lemma trs_elem : forall r, In r rs -> exists i aa, 0 <= i < k /\
    r = mkChoice (lstart l + 3 * i) (lstart l + 3 * (i + 1)) (nodup_dna (back_codons T aa)) false.
  Proof.
    intros r Hr. apply (Permutation_in _ trs_perm) in Hr. apply in_map_iff in Hr.
    destruct Hr as [[i aa] [E Hin]]. exists i, aa. split.
    - apply in_combine_l in Hin. apply zrange_In in Hin. exact Hin.
    - rewrite <- E. apply codon_choice_fwd.
  Qed.

  Lemma trs_wf : Forall (wf_restriction n) rs.
  Proof.
    apply Forall_forall. intros r Hr. destruct (trs_elem r Hr) as (i & aa & Hi & E). subst r.
    destruct Hl as (H0 & H1 & H2 & _). unfold loc_len in Hlen. fold k in Hlen.
    unfold wf_restriction. cbn [cstart cend cvariants cany].
    split; [lia|]. split; [lia|]. split; [unfold n; lia|]. split; [apply nodup_dna_NoDup|]. split; [|reflexivity].
    apply Forall_forall. intros v Hv. apply (proj1 (nodup_dna_In _ _)) in Hv.
    destruct (back_codons_ok T aa v (table_ok_of name T HT Hnd) Hv) as [H3 _]. unfold zlen. lia.
  Qed.

  Lemma trs_starts_nodup : NoDup (map cstart rs).
  Proof.
    eapply Permutation_NoDup; [apply Permutation_sym, Permutation_map, trs_perm|].
    rewrite map_map.
    rewrite (map_ext (fun x => cstart (codon_choice T l x)) (fun x => lstart l + 3 * fst x))
      by (intros [i aa]; rewrite codon_choice_fwd; reflexivity).
    rewrite <- (map_map fst (fun i => lstart l + 3 * i)).
    apply FinFun.Injective_map_NoDup; [intros x y H; lia|].
    apply NoDup_map_fst_combine. apply zrange_NoDup.
  Qed.

  Lemma trs_disj : pairwise_disj rs.
  Proof.
    split; [apply (NoDup_map_inv cstart), trs_starts_nodup|].
    intros x y Hx Hy.
    destruct (trs_elem x Hx) as (i & aa & Hi & Ex). destruct (trs_elem y Hy) as (j & bb & Hj & Ey).
    destruct (Z.eq_dec i j) as [E|E].
    - left. apply (NoDup_map_eq cstart rs trs_starts_nodup x y Hx Hy). subst x y. cbn [cstart]. lia.
    - right. unfold rdisj. subst x y. cbn [cstart cend]. lia.
  Qed.

  Lemma tspace_wf : wf_space space /\ (forall c, In c (choices_list space) -> cend c <= n).
  Proof. apply from_constraints_wf. exact trs_wf. Qed.

  Lemma tspace_member : forall t, zlen t = n ->
    (member space t <-> translate T (extract l t) = Some tr).
  Proof.
    intros t Ht. unfold space. rewrite (from_constraints_exact s0 rs t trs_wf Ht).
    apply (translation_restrictions_mean_same_protein name T l tr s0 t HT Hnd Hl Hlen Hne Ht).
  Qed.

  Lemma tspace_closed : forall i, 0 <= i < k ->
    forall c, In c (choices_list space) ->
      Z.max (lstart l + 3 * i) (cstart c) < Z.min (lstart l + 3 * i + 3) (cend c) ->
      lstart l + 3 * i <= cstart c /\ cend c <= lstart l + 3 * i + 3.
  Proof.
    intros i Hi c Hc Hov.
    destruct (disjoint_restrictions_space s0 rs trs_wf trs_disj) as [H1 _].
    destruct (H1 c Hc) as [E|(r & Hr & A & B)]; [lia|].
    destruct (trs_elem r Hr) as (j & aa & Hj & Er). subst r. cbn [cstart cend] in A, B.
    assert (j = i) by lia. subst j. lia.
  Qed.

  Lemma tspace_covered : forall i, 0 <= i < k ->
    forall p, lstart l + 3 * i <= p < lstart l + 3 * i + 3 ->
      exists c, In c (choices_list space) /\ cstart c <= p < cend c.
  Proof.
    intros i Hi p Hp.
    destruct (disjoint_restrictions_space s0 rs trs_wf trs_disj) as [_ H2].
    apply H2. destruct Hl as (H0 & H1 & H3 & _). unfold loc_len in Hlen. fold k in Hlen. lia.
  Qed.

  Lemma codon_of_fwd : forall t j, zlen t = n -> 0 <= j < k ->
    codon_of l t j = slice t (lstart l + 3 * j) (lstart l + 3 * j + 3).
  Proof.
    intros t j Ht Hj. destruct Hl as (H0 & H1 & H2 & _). unfold loc_len in Hlen. fold k in Hlen.
    unfold codon_of. rewrite (codon_loc_fwd l j Hs). unfold extract. cbn [lstart lend lstrand].
    change (1 =? -1) with false. cbv iota.
    rewrite MSpaceA.pyslice_slice by (unfold n in Ht; lia). f_equal. lia.
  Qed.

  Lemma good_codon_aa : forall s i, good space n s -> 0 <= i < k ->
    exists aa, codon_aa T (codon_of l s i) = Some aa.
  Proof.
    intros s i [Hn Hm] Hi. apply (tspace_member s Hn) in Hm. unfold translate in Hm.
    assert (Hls : loc_in l (zlen s)) by (rewrite Hn; exact Hl).
    rewrite (codons_extract l s k Hls Hlen ltac:(unfold k; lia)) in Hm.
    apply (mapM_In_some _ _ _ (codon_of l s i) Hm). apply in_map. apply zrange_In_conv. exact Hi.
  Qed.

  (* replacing codon i of a usable sequence by a synonym gives a usable sequence *)
  Lemma codon_swap : forall s i c', good space n s -> 0 <= i < k -> List.length c' = 3%nat ->
    codon_aa T c' = codon_aa T (codon_of l s i) ->
    let t := splice s (lstart l + 3 * i) (lstart l + 3 * i + 3) c' in
    good space n t /\ codon_of l t i = c' /\
    (forall p, 0 <= p -> ~ (lstart l + 3 * i <= p < lstart l + 3 * i + 3) ->
       nth_error t (Z.to_nat p) = nth_error s (Z.to_nat p)).
  Proof.
    intros s i c' Hg Hi Hc3 Haa t. pose proof Hg as [Hn Hm].
    destruct Hl as (H0 & H1 & H2 & H3). unfold loc_len in Hlen. fold k in Hlen. fold n in H2.
    assert (Hzc : zlen c' = lstart l + 3 * i + 3 - (lstart l + 3 * i)) by (unfold zlen; lia).
    assert (Ht : zlen t = n).
    { unfold t. rewrite zlen_splice; [exact Hn | lia | lia | lia | exact Hzc]. }
    assert (Hout : forall p, 0 <= p -> ~ (lstart l + 3 * i <= p < lstart l + 3 * i + 3) ->
              nth_error t (Z.to_nat p) = nth_error s (Z.to_nat p)).
    { intros p Hp Hnp. unfold t. apply nth_error_splice_out; [lia | lia | lia | exact Hzc | exact Hp | lia]. }
    assert (Hci : codon_of l t i = c').
    { rewrite (codon_of_fwd t i Ht Hi). unfold t. apply slice_splice_same; [lia | lia | lia | exact Hzc]. }
    split; [|split; [exact Hci | exact Hout]].
    split; [exact Ht|].
    assert (Hlt : loc_in l (zlen t)) by (rewrite Ht; repeat split; assumption).
    assert (Hls : loc_in l (zlen s)) by (rewrite Hn; repeat split; assumption).
    unfold space. apply (from_constraints_exact s0 rs t trs_wf Ht).
    unfold space in Hm. apply (from_constraints_exact s0 rs s trs_wf Hn) in Hm.
    rewrite Forall_forall in *. intros r Hr. pose proof (Hm r Hr) as Hrs.
    apply (Permutation_in _ trs_perm) in Hr. apply in_map_iff in Hr.
    destruct Hr as [[j aa] [E Hin]]. subst r.
    apply in_combine_l in Hin. apply zrange_In in Hin.
    unfold codon_choice in *. cbn [fst snd] in *.
    apply (holds_std l s j k _ Hls Hlen Hin) in Hrs.
    apply (holds_std l t j k _ Hlt Hlen Hin).
    destruct (Z.eq_dec j i) as [E|E].
    - subst j. rewrite Hci. apply (codon_aa_back name T _ aa HT Hnd).
      rewrite Haa. apply (codon_aa_back name T _ aa HT Hnd). exact Hrs.
    - replace (codon_of l t j) with (codon_of l s j); [exact Hrs|].
      rewrite (codon_of_fwd t j Ht Hin), (codon_of_fwd s j Hn Hin).
      apply MSpaceA.slice_ext; [lia|]. intros p Hp. symmetry. apply Hout; lia.
  Qed.
End Translation.
