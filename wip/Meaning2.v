(* C10, second series: what the scores of EnforceChanges, EnforceTranslation, AvoidRareCodons and
   EnforceTerminalGCContent mean (formula = documented quantity, pass condition). *)
From Coq Require Import ZArith QArith Qabs Bool List Lia Ascii String.
From DC Require Import Model.Base Model.Loc Model.Bio Model.Pattern Model.MSpace Model.Specs
                       Proofs.SpecsDefs Proofs.SpecsEval.
Import ListNotations.
Open Scope Z_scope.

(* number of positions of [sub] that differ from the reference *)
Definition n_changed (sub ref : dna) : Z :=
  zlen (filter (fun p => negb (nuc_eqb (fst p) (snd p))) (combine sub ref)).

(* EnforceChanges used as a constraint (minimum m): score = (number of changed positions) - m, it passes
   iff at least m positions differ from the reference; location or indices form *)
Theorem enforce_changes_minimum_meaning : forall l idx ref m am s e sub,
  extract_subsequence l idx s = Some sub -> zlen sub = zlen ref ->
  (idx = None -> loc_len l = zlen ref) ->
  eval_enforce_changes l idx ref (Some m) am s = Some e ->
  score e = zq (n_changed sub ref - m) /\
  (passes e = true <-> m <= n_changed sub ref) /\
  locs e = Some [l].
Admitted.

(* EnforceChanges used as an objective (amount a): score = -|changed - a| *)
Theorem enforce_changes_amount_meaning : forall l idx ref a s e sub,
  extract_subsequence l idx s = Some sub -> zlen sub = zlen ref ->
  (idx = None -> loc_len l = zlen ref) ->
  eval_enforce_changes l idx ref None (Some a) s = Some e ->
  (score e == - Qabs (zq (n_changed sub ref) - a))%Q /\
  (passes e = true <-> (zq (n_changed sub ref) == a)%Q).
Admitted.

(* EnforceTranslation without start-codon policy: score = - number of codons whose amino acid is not
   the wanted one (a codon beyond the wanted protein counts as wrong); passes iff the region encodes
   exactly a prefix-compatible protein: every translated codon equals the wanted residue *)
Theorem translation_meaning : forall T l tr s e,
  eval_translation T l tr StartNone s = Some e ->
  exists got, translate_start T (extract l s) false = Some got /\
    let wrong := filter (fun p => match snd p with
                                  | Some want => negb (Ascii.eqb (fst p) want)
                                  | None => true
                                  end)
                        (combine got (map (fun i => nth_error tr i) (List.seq 0 (List.length got)))) in
    score e = zq (- zlen wrong) /\
    (passes e = true <-> wrong = []) /\
    (wrong = [] -> List.length got <= List.length tr /\ got = firstn (List.length got) tr)%nat.
Admitted.

(* AvoidRareCodons: score = sum over the rare codons (frequency below the threshold) of
   (frequency - threshold) <= 0; passes iff no codon of the region is rare *)
Theorem rare_codons_meaning : forall fr mf l s e,
  eval_rare_codons fr mf l s = Some e ->
  exists cods, get_codons l s = Some cods /\
    let is_rare c := match qassoc c fr with Some f => negb (Qle_bool mf f) | None => false end in
    (score e == qsum (map (fun c => match qassoc c fr with Some f => (f - mf)%Q | None => 0%Q end)
                          (filter is_rare cods)))%Q /\
    (score e <= 0)%Q /\
    (passes e = true <-> forall c, In c cods -> is_rare c = false).
Admitted.

(* EnforceTerminalGCContent: score = - sum of the breaches of the terminal windows; passes iff both
   (all) windows are within bounds; the locations are exactly the breaching windows *)
Theorem terminal_gc_meaning : forall mini maxi ends s,
  (mini <= maxi)%Q ->
  let e := eval_terminal_gc mini maxi ends s in
  let g w := (count_gc (extract w s) # Z.to_pos (zlen (extract w s))) in
  (score e == - qsum (map (fun w => breach mini maxi (g w)) ends))%Q /\
  (passes e = true <-> forall w, In w ends -> (mini <= g w)%Q /\ (g w <= maxi)%Q) /\
  (forall w, In w ends -> ~ ((mini <= g w)%Q /\ (g w <= maxi)%Q) ->
     exists ls, locs e = Some ls /\ In w ls).
Admitted.
