(* Solver lemmas, part A (C01 first half, C06 first half, C14): for EVERY type of specifications
   and every evaluate / localized / initialized_on_problem / heuristic functions. *)
From Coq Require Import ZArith QArith Bool List Lia.
From DC Require Import Model.Base Model.Loc Model.MSpace Model.Solver.
Import ListNotations.
Open Scope Z_scope.

Section SolverA.
  Variable spec : Type.
  Variable spec_eqb : spec -> spec -> bool.
  Variable ev : spec -> dna -> Q * option (list loc).
  Variable localize : spec -> loc -> bool -> dna -> lres spec.
  Variable accepts_rh : spec -> bool.
  Variable reinit : bool -> spec -> dna -> spec.
  Variable enforced : spec -> bool.
  Variable priority : spec -> Z.
  Variable best : spec -> option Q.
  Variable boost : spec -> Q.
  Variable passive : spec -> bool.
  Variable heuristic : spec -> option (settings -> lproblem spec -> state spec -> outcome * state spec).
  Variable opt_heuristic : spec -> option (settings -> lproblem spec -> state spec -> outcome * state spec).

  Definition passes_on (c : spec) (s : dna) : Prop := passesq (fst (ev c s)) = true.

  Notation resolve_constraints :=
    (resolve_constraints spec spec_eqb ev localize accepts_rh reinit enforced priority heuristic).
  Notation resolve_constraint :=
    (resolve_constraint spec spec_eqb ev localize accepts_rh reinit enforced heuristic).
  Notation resolve_exhaustive := (resolve_exhaustive spec ev enforced).
  Notation optimize :=
    (optimize spec ev localize reinit enforced best boost passive opt_heuristic).
  Notation optimize_objective :=
    (optimize_objective spec ev localize reinit enforced best boost opt_heuristic).

  (* ---- C01, first half: a normal return means every constraint passes (no autopass).
     The only return that skips the final check is the one taken when no constraint needs solving
     (all are flagged enforced_by_nucleotide_restrictions): there the caller's guarantee about the
     mutation space (C04) is what makes them pass. *)
  Theorem resolve_constraints_done_all_pass : forall cfg space cs st st',
    resolve_constraints cfg space cs true st = (ODone, st') ->
    (filter (fun c => negb (enforced c)) cs = [] -> forall c, In c cs -> passes_on c (cur _ st)) ->
    forall c, In c cs -> passes_on c (cur _ st').
  Proof.
  Admitted.

  (* with the final check, a return never happens with a breached constraint that is not flagged
     enforced -- whatever localized / heuristics do (they may be arbitrarily wrong) *)
  Theorem resolve_constraints_done_unenforced_pass : forall cfg space cs st st',
    resolve_constraints cfg space cs true st = (ODone, st') ->
    forall c, In c cs -> enforced c = false -> passes_on c (cur _ st').
  Proof.
  Admitted.

  (* ---- C14: nothing to do => nothing touched, no random number drawn *)
  Theorem resolve_constraints_noop : forall cfg space cs fc st,
    (forall c, In c cs -> passes_on c (cur _ st)) ->
    exists st', resolve_constraints cfg space cs fc st = (ODone, st') /\
                cur _ st' = cur _ st /\ rng _ st' = rng _ st.
  Proof.
  Admitted.

  Theorem resolve_constraint_noop : forall cfg space cs c st,
    passes_on c (cur _ st) ->
    exists st', resolve_constraint cfg space cs c st = (ODone, st') /\
                cur _ st' = cur _ st /\ rng _ st' = rng _ st.
  Proof.
  Admitted.

  Theorem optimize_noop : forall cfg space cs objs st,
    (forall o, In o objs -> exists b, best o = Some b /\ (fst (ev o (cur _ st)) == b)%Q) ->
    exists st', optimize cfg space cs objs st = (ODone, st') /\
                cur _ st' = cur _ st /\ rng _ st' = rng _ st.
  Proof.
  Admitted.

  (* ---- C06, first half: the exhaustive constraint search is complete.
     [feasible p t]: what the loop tests on candidate t *)
  Definition feasible (p : lproblem spec) (t : dna) : Prop :=
    match lp_focus _ p with
    | Some (f, _) => passes_on f t /\ forall c, In c (lp_others _ p) -> passes_on c t
    | None => forall c, In c (lp_others _ p) -> enforced c = false -> passes_on c t
    end.

  Theorem resolve_exhaustive_complete : forall p st vs,
    all_variants (lp_space _ p) (cur _ st) = Some vs ->
    (* success: the result is the first feasible variant in enumeration order *)
    ((exists t, In t vs /\ feasible p t) ->
       exists st' pre t post, resolve_exhaustive p st = (ODone, st') /\ cur _ st' = t /\
         vs = pre ++ t :: post /\ feasible p t /\ (forall u, In u pre -> ~ feasible p u)) /\
    (* failure: NoSolutionError exactly when no variant is feasible; the sequence is restored *)
    ((forall t, In t vs -> ~ feasible p t) ->
       exists st', resolve_exhaustive p st = (ONoSolution, st') /\ cur _ st' = cur _ st) /\
    (forall st', resolve_exhaustive p st = (ODone, st') -> In (cur _ st') vs /\ feasible p (cur _ st')) /\
    (forall st', resolve_exhaustive p st = (ONoSolution, st') ->
       cur _ st' = cur _ st /\ forall t, In t vs -> ~ feasible p t) /\
    (* the search draws no random number *)
    (forall o st', resolve_exhaustive p st = (o, st') -> rng _ st' = rng _ st).
  Proof.
  Admitted.
End SolverA.
