(* C07 end to end, with the mutation-space side discharged: the problem is exactly the one the
   property talks about - EnforceTranslation over a coding region (forward strand, no start-codon
   policy) as only constraint, MaximizeCAI over the same region as only objective, the mutation
   space built from the constraint's nucleotide restrictions.  optimize() then ends on a sequence
   that encodes the same protein, has EVERY codon a most-frequent synonym, and is untouched outside
   the region. *)
From Coq Require Import ZArith QArith Bool List Lia Lqa Ascii String.
From DC Require Import Model.Base Model.Loc Model.Bio Model.Pattern Model.MSpace Model.Specs Model.Solver
                       Generated.GenTables
                       Proofs.MSpaceDefs Proofs.MSpaceA Proofs.MSpaceB Proofs.MSpaceC Proofs.MSpaceD Proofs.MSpaceE
                       Proofs.SpecsDefs Proofs.BioA Proofs.SpecsCodon
                       Proofs.SolverA Proofs.SolverB Proofs.SolverC Proofs.SolverE Proofs.Builtins Proofs.CaiEnd.
Import ListNotations.
Open Scope Z_scope.

(* enforced_by_nucleotide_restrictions of the modelled classes involved here *)
Definition tr_enforced (sp : spec) : bool :=
  match sp with STranslation _ _ _ _ => true | _ => false end.

(* the codon-usage tables are consistent with the genetic code: the declared best log-frequency of
   a codon is reached by one of its synonyms (this is how MaximizeCAI builds them) *)
Definition tables_consistent (T : gtable) (lf lb : list (dna * Q)) : Prop :=
  (forall c f b, qassoc c lf = Some f -> qassoc c lb = Some b -> (f <= b)%Q) /\
  (forall (x y z : nuc) aa, codon_aa T [x; y; z] = Some aa ->
     exists c' f b, codon_aa T c' = Some aa /\ List.length c' = 3%nat /\
                    qassoc c' lf = Some f /\ qassoc c' lb = Some b /\ (f == b)%Q).

Theorem cai_optimize_end_to_end :
  forall (name : string) (T : gtable) (lf lb : list (dna * Q)) (l : loc) (tr : astr) (s0 : dna)
         (cfg : settings) (passive : spec -> bool) st o st',
    In (name, T) genetic_tables -> no_dual_stop T = true ->
    wf_spec (SMaximizeCAI lf lb l) (zlen s0) -> lstrand l = 1 ->
    loc_len l = 3 * zlen tr -> 1 <= zlen tr ->
    tables_consistent T lf lb ->
    64 < st_threshold cfg ->
    let space := from_constraints s0 (restrict_nucleotides (STranslation T l tr StartNone) false s0) in
    passive (SMaximizeCAI lf lb l) = false ->
    state_good spec space (zlen s0) st ->
    optimize spec b_ev Specs.localized b_reinit tr_enforced (fun _ => Some 0%Q) b_boost passive (fun _ => None)
             cfg space [STranslation T l tr StartNone] [SMaximizeCAI lf lb l] st = (o, st') ->
    o = ODone /\
    translate T (extract l (cur _ st')) = Some tr /\
    (forall i, 0 <= i < loc_len l / 3 -> codon_best lf lb l (cur _ st') i) /\
    zlen (cur _ st') = zlen s0 /\
    (forall i, 0 <= i -> ~ (lstart l <= i < lend l) ->
       nth_error (cur _ st') (Z.to_nat i) = nth_error (cur _ st) (Z.to_nat i)).
Proof.
Admitted.
