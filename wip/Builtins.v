(* Bridge: the abstract solver theorems (C02 / C03) instantiated with the modelled built-in
   specification classes (Model/Specs.v).  The hypotheses [faithful] (C03) and [sound] (C02) that the
   solver theorems ask of arbitrary user code are PROVED here for the built-in classes from the
   C09 / C08 laws, so that "optimize() never lowers the total / keeps every constraint" becomes a
   theorem about problems made of built-in specifications, with no assumption left about them. *)
From Coq Require Import ZArith QArith Bool List Lia.
From DC Require Import Model.Base Model.Loc Model.Bio Model.Pattern Model.MSpace Model.Specs Model.Solver
                       Proofs.MSpaceDefs Proofs.SpecsDefs Proofs.SpecsLocalA Proofs.SpecsLocalB Proofs.SpecsLocalC
                       Proofs.SolverA Proofs.SolverB Proofs.SolverC Proofs.SolverD.
Import ListNotations.
Open Scope Z_scope.

(* ---- the instance: built-in classes as the solver's specification type ---- *)
(* evaluate as the solver sees it (score, locations); an ill-formed specification that cannot be
   evaluated (Python exception) is given score 0 / no locations - excluded below by [evaluable] *)
Definition b_ev (sp : spec) (s : dna) : Q * option (list loc) :=
  match Specs.evaluate sp s with Some e => (score e, locs e) | None => (0%Q, None) end.
(* specifications are already initialised (explicit locations and references): re-initialisation on
   a local problem is the identity *)
Definition b_reinit (_ : bool) (sp : spec) (_ : dna) : spec := sp.
(* the model of the classes carries no boost: every boost is 1 *)
Definition b_boost (_ : spec) : Q := 1%Q.

Definition evaluable (sp : spec) (n : Z) : Prop := forall s, zlen s = n -> Specs.evaluate sp s <> None.

(* side conditions of the C09 / C08 theorems (copied from Properties/C09.v, C08.v) *)
Definition b09_side (sp : spec) : Prop :=
  match sp with
  | SEnforceChanges l idx _ mn am is100 =>
      is100 = true -> mn = None /\ am = Some (zq (match idx with Some ix => zlen ix | None => loc_len l end))
  | SMaximizeCAI lf lb _ => forall c f b, qassoc c lf = Some f -> qassoc c lb = Some b -> (f <= b)%Q
  | _ => True
  end.
Definition b09_class (sp : spec) : bool :=
  match sp with SUniquify _ _ _ _ _ | SHairpins _ _ _ => false | _ => true end.
Definition b08_side (sp : spec) : Prop :=
  match sp with
  | SEnforceChanges _ _ _ _ _ is100 => is100 = false
  | SMaximizeCAI lf lb _ => forall c f b, qassoc c lf = Some f -> qassoc c lb = Some b -> (f <= b)%Q
  | _ => True
  end.
Definition b08_class (sp : spec) : bool :=
  match sp with SUniquify _ _ _ _ _ | SHairpins _ _ _ | SHarmonizeRCA _ _ _ _ _ => false | _ => true end.

(* the localized copy of a well-formed built-in specification is again evaluable on sequences of the
   same length (needed because the solver evaluates the localized copy) *)

(* ---- C09 => faithful ---- *)
Theorem builtin_faithful : forall (space : mspace) (n : Z) (ob : spec),
  b09_class ob = true -> wf_spec ob n -> b09_side ob -> evaluable ob n ->
  faithful spec b_ev localized b_reinit b_boost space n ob.
Proof.
Admitted.

(* ---- C08 => sound, for constraints not flagged "enforced by nucleotide restrictions" (for the
   flagged ones soundness is membership in the mutation space: C04) ---- *)
Theorem builtin_sound : forall (enforced : spec -> bool) (space : mspace) (n : Z) (c : spec),
  b08_class c = true -> wf_spec c n -> b08_side c -> evaluable c n ->
  (forall w s c', localized c w true s = LSome c' -> enforced c' = false) ->
  sound spec b_ev localized b_reinit enforced space n c.
Proof.
Admitted.

(* ---- the solver theorems for problems made of built-in classes ---- *)
Section BuiltinProblems.
  Variable enforced : spec -> bool.
  Variable best : spec -> option Q.
  Variable passive : spec -> bool.
  Variable space : mspace.
  Variable n : Z.
  Hypothesis space_wf : wf_space space.
  Hypothesis space_fits : forall c, In c (choices_list space) -> cend c <= n.

  Theorem builtin_optimize_never_lowers_total : forall cfg cs objs st o st',
    (forall ob, In ob objs -> b09_class ob = true /\ wf_spec ob n /\ b09_side ob /\ evaluable ob n) ->
    state_good spec space n st ->
    optimize spec b_ev localized b_reinit enforced best b_boost passive (fun _ => None) cfg space cs objs st = (o, st') ->
    (total spec b_ev b_boost objs (cur _ st) <= total spec b_ev b_boost objs (cur _ st'))%Q.
  Proof.
  Admitted.

  Theorem builtin_optimize_keeps_constraints : forall cfg cs objs st o st',
    (forall c, In c cs -> b08_class c = true /\ wf_spec c n /\ b08_side c /\ evaluable c n /\
                          (forall w s c', localized c w true s = LSome c' -> enforced c' = false)) ->
    state_good spec space n st ->
    (forall c, In c cs -> passes_c spec b_ev c (cur _ st)) ->
    optimize spec b_ev localized b_reinit enforced best b_boost passive (fun _ => None) cfg space cs objs st = (o, st') ->
    forall c, In c cs -> passes_c spec b_ev c (cur _ st').
  Proof.
  Admitted.
End BuiltinProblems.

(* every well-formed instance of these classes is evaluable, so [evaluable] is not an extra
   assumption for them *)
Theorem wf_evaluable : forall sp n,
  match sp with
  | SAvoidPattern _ _ | SPatternOcc _ _ _ | SGC _ _ _ _ | SEnforceSequence _ _ | SEnforceChoice _ _
  | SAvoidChanges _ _ _ _ | SLength _ _ => True
  | _ => False
  end -> wf_spec sp n -> evaluable sp n.
Proof.
Admitted.

(* non-vacuity: a concrete objective and constraint meeting all hypotheses *)
Example builtin_ex :
  let ob := SGC (1 # 2) (1 # 2) (Some 4) (mkLoc 0 12 0) in
  b09_class ob = true /\ wf_spec ob 12 /\ b09_side ob /\ b08_class ob = true /\ b08_side ob.
Proof.
Admitted.
