(* C07, end to end for MaximizeCAI on the REVERSE strand (lstrand l = -1): the analogue of
   Proofs/CaiEnd.v.  Codon i of the gene is mkLoc (lend l - 3(i+1)) (lend l - 3i) (-1).  The reported
   locations: codons_indices_to_locations maps the indices through lend l - 3i (a DEcreasing list),
   group_nearby_indices sorts it (= reverses it), never merges (ends are 3 apart) and builds
   mkLoc (f - 3) f (-1): the reported list is the list of the sub-optimal codons in REVERSE index
   order (ascending positions), strand field -1. *)
From Coq Require Import ZArith QArith Bool List Lia Lqa Sorting.Sorted.
From DC Require Import Model.Base Model.Loc Model.Bio Model.Pattern Model.MSpace Model.Specs Model.Solver
                       Proofs.MSpaceDefs Proofs.SpecsDefs Proofs.SpecsCodon
                       Proofs.SolverA Proofs.SolverB Proofs.SolverC Proofs.SolverE Proofs.Builtins
                       Proofs.CaiEnd.
Import ListNotations.
Open Scope Z_scope.

(* ================================================================== sorting a decreasing list *)
Definition desc3 (a b : Z) : Prop := b + 3 <= a.

Lemma insert_z_all_lt : forall x m, Forall (fun y => y < x) m -> insert_z x m = m ++ [x].
Proof.
  intros x m H. induction H as [|y m Hy Hm IH]; [reflexivity|].
  cbn [insert_z app]. destruct (Z.ltb_spec y x); [|lia]. rewrite IH. reflexivity.
Qed.

Lemma sort_z_desc3 : forall l, StronglySorted desc3 l -> sort_z l = rev l.
Proof.
  induction l as [|x l IH]; intro H; [reflexivity|].
  inversion H as [|x0 l0 Hs Hf]; subst. unfold sort_z in *. cbn [fold_right rev]. rewrite (IH Hs).
  apply insert_z_all_lt. apply Forall_rev. eapply Forall_impl; [|exact Hf].
  intros a Ha. unfold desc3 in Ha. lia.
Qed.

Lemma SSorted_app : forall {X} (R : X -> X -> Prop) l1 l2,
  StronglySorted R l1 -> StronglySorted R l2 -> (forall a b, In a l1 -> In b l2 -> R a b) ->
  StronglySorted R (l1 ++ l2).
Proof.
  intros X R l1 l2 H1 H2 H. induction H1 as [|x l1 Hs IH Hf]; [exact H2|].
  cbn [app]. constructor.
  - apply IH. intros a b Ha Hb. apply H; [right; exact Ha | exact Hb].
  - apply Forall_app. split; [exact Hf|]. apply Forall_forall. intros b Hb. apply H; [left; reflexivity | exact Hb].
Qed.

Lemma rev_desc3_far3 : forall l, StronglySorted desc3 l -> StronglySorted far3 (rev l).
Proof.
  induction l as [|x l IH]; intro H; [constructor|].
  inversion H as [|x0 l0 Hs Hf]; subst. cbn [rev]. apply SSorted_app.
  - apply IH. exact Hs.
  - constructor; constructor.
  - intros a b Ha [Hb|[]]. subst b. apply in_rev in Ha. rewrite Forall_forall in Hf.
    specialize (Hf a Ha). unfold desc3 in Hf. unfold far3. lia.
Qed.

Lemma group_nearby_desc3 : forall l, StronglySorted desc3 l ->
  group_nearby_indices l None (Some 3) = map (fun y => [y]) (rev l).
Proof.
  intros l H. unfold group_nearby_indices. rewrite (sort_z_desc3 l H).
  pose proof (rev_desc3_far3 l H) as Hr.
  destruct (rev l) as [|x rest]; [reflexivity | apply group_from_far3; exact Hr].
Qed.

Lemma indices_where_desc3 : forall {X} (f : X -> bool) a xs j,
  StronglySorted desc3 (map (fun i => a - 3 * i) (indices_where f xs j)).
Proof.
  intros X f a xs. induction xs as [|x xs IH]; intro j; cbn [indices_where]; [constructor|].
  destruct (f x); [|apply IH]. cbn [map]. constructor; [apply IH|].
  apply Forall_map. eapply Forall_impl; [|apply (indices_where_ge f xs (j + 1))].
  intros i Hi. cbv beta in *. unfold desc3. lia.
Qed.

(* the location of codon i as reported by codons_indices_to_locations (strand -1) *)
Definition runit (l : loc) (i : Z) : loc := mkLoc (lend l - 3 * i - 3) (lend l - 3 * i) (-1).

Lemma reported_locations_are_single_codons_rev : forall {X} (f : X -> bool) l xs j, lstrand l = -1 ->
  codons_indices_to_locations l (indices_where f xs j) = map (runit l) (rev (indices_where f xs j)).
Proof.
  intros X f l xs j Hs. unfold codons_indices_to_locations. rewrite Hs. change (-1 =? -1) with true. cbv iota.
  rewrite (group_nearby_desc3 _ (indices_where_desc3 f (lend l) xs j)).
  rewrite <- map_rev, !map_map. apply map_ext. intro i. reflexivity.
Qed.

Lemma filter_rev' : forall {X} (f : X -> bool) l, filter f (rev l) = rev (filter f l).
Proof.
  intros X f l. induction l as [|x l IH]; [reflexivity|].
  cbn [rev filter]. rewrite filter_app, IH. cbn [filter]. destruct (f x); [reflexivity|].
  rewrite app_nil_r. reflexivity.
Qed.

(* ================================================================== codon gaps *)
(* the gap of a one-codon unit: minus the codon gap of the nucleotides it covers, read on the
   reverse strand *)
Definition rugap (lf lb : list (dna * Q)) (u : loc) (t : dna) : Q :=
  (- cgap lf lb (extract (mkLoc (lstart u) (lend u) (-1)) t))%Q.
Definition rcai_units (l : loc) : list loc :=
  if loc_len l / 3 =? 1 then [l] else map (runit l) (rev (zrange 0 (loc_len l / 3))).

Lemma codon_loc_rev : forall l i, lstrand l = -1 ->
  codon_loc l i = mkLoc (lend l - 3 * (i + 1)) (lend l - 3 * i) (-1).
Proof. intros l i H. unfold codon_loc. rewrite H. reflexivity. Qed.

(* strand-generic: every codon of a coding region has three nucleotides *)
Lemma codon_three_any : forall l t k i, loc_in l (zlen t) -> loc_len l = 3 * k ->
  0 <= i < k -> exists a b c, codon_of l t i = [a; b; c].
Proof.
  intros l t k i Hl Hlen Hi.
  pose proof (codon_nth l t k (Z.to_nat i) Hl Hlen ltac:(lia)) as E.
  rewrite Z2Nat.id in E by lia.
  assert (Hz : List.length (extract l t) = Z.to_nat (3 * k)).
  { destruct Hl as (H0 & H1 & H2 & _). unfold loc_len in Hlen.
    rewrite SpecsLocalC.extract_sub by lia. rewrite SpecsLocalC.sub_length; [lia|].
    unfold zlen in H2. lia. }
  remember (codon_of l t i) as c eqn:Ec.
  assert (Hl3 : List.length c = 3%nat).
  { rewrite <- E. rewrite firstn_length, skipn_length, Hz. lia. }
  destruct c as [|x [|y [|z [|w c]]]]; cbn [List.length] in Hl3; try lia.
  exists x, y, z. reflexivity.
Qed.

Section CAIRev.
  Variables lf lb : list (dna * Q).
  Hypothesis tot_f : table_total lf.
  Hypothesis tot_b : table_total lb.
  Hypothesis f_le_b : forall c f b, qassoc c lf = Some f -> qassoc c lb = Some b -> (f <= b)%Q.

  Lemma rugap_nonpos : forall u t, (rugap lf lb u t <= 0)%Q.
  Proof.
    intros u t. unfold rugap.
    pose proof (cgap_nonneg lf lb f_le_b (extract (mkLoc (lstart u) (lend u) (-1)) t)). lra.
  Qed.

  Lemma rugap_runit : forall l t i, lstrand l = -1 ->
    rugap lf lb (runit l i) t = (- cgap lf lb (codon_of l t i))%Q.
  Proof.
    clear tot_f tot_b f_le_b. intros l t i H. unfold rugap, codon_of, runit. cbn [lstart lend].
    rewrite (codon_loc_rev l i H).
    replace (lend l - 3 * i - 3) with (lend l - 3 * (i + 1)) by lia. reflexivity.
  Qed.

  (* a unit covering codon i has the gap of codon i *)
  Lemma rugap_codon : forall l u t i, lstrand l = -1 ->
    lstart u = lend l - 3 * i - 3 -> lend u = lend l - 3 * i ->
    rugap lf lb u t = (- cgap lf lb (codon_of l t i))%Q.
  Proof.
    intros l u t i H H1 H2. rewrite <- (rugap_runit l t i H). unfold rugap, runit. cbn [lstart lend].
    rewrite H1, H2. reflexivity.
  Qed.

  Lemma codon_entries_any : forall l t k i, loc_in l (zlen t) -> loc_len l = 3 * k ->
    0 <= i < k ->
    exists f b, qassoc (codon_of l t i) lf = Some f /\ qassoc (codon_of l t i) lb = Some b /\
                (cgap lf lb (codon_of l t i) == b - f)%Q.
  Proof.
    intros l t k i Hl Hlen Hi. destruct (codon_three_any l t k i Hl Hlen Hi) as (a & b & c & E).
    destruct (tot_f a b c) as [f Hf]. destruct (tot_b a b c) as [bb Hb].
    exists f, bb. unfold cgap. rewrite E, Hf, Hb. split; [reflexivity|]. split; reflexivity.
  Qed.

  Lemma mapM_cgap_any : forall l t k zs, loc_in l (zlen t) -> loc_len l = 3 * k ->
    (forall i, In i zs -> 0 <= i < k) ->
    mapM (fun c => match qassoc c lf, qassoc c lb with
                   | Some f, Some b => Some (b - f)%Q | _, _ => None end) (map (codon_of l t) zs)
    = Some (map (cgap lf lb) (map (codon_of l t) zs)).
  Proof.
    intros l t k zs Hl Hlen. induction zs as [|z zs IH]; intro H; [reflexivity|].
    cbn [map mapM]. rewrite IH by (intros i Hi; apply H; right; exact Hi).
    destruct (codon_entries_any l t k z Hl Hlen (H z (or_introl eq_refl))) as (f & b & Hf & Hb & _).
    unfold cgap. rewrite Hf, Hb. reflexivity.
  Qed.

  (* the evaluation of MaximizeCAI, computed (any strand) *)
  Lemma cai_evaluate_any : forall l t k, loc_in l (zlen t) -> loc_len l = 3 * k -> 0 <= k ->
    Specs.evaluate (SMaximizeCAI lf lb l) t =
    let nonopt := map (cgap lf lb) (map (codon_of l t) (zrange 0 k)) in
    match nonopt with
    | [d] => Some (mkEv (- d)%Q (Some (if Qeq_bool d 0 then [] else [l])))
    | _ => Some (mkEv (- qsum nonopt)%Q
                  (Some (codons_indices_to_locations l
                           (indices_where (fun d => negb (Qeq_bool d 0)) nonopt 0))))
    end.
  Proof.
    intros l t k Hl Hlen Hk. cbn [Specs.evaluate]. unfold eval_maximize_cai, get_codons.
    assert (Hz : zlen (extract l t) = 3 * k).
    { destruct Hl as (H0 & H1 & H2 & _). unfold loc_len in Hlen.
      rewrite SpecsLocalC.extract_sub by lia. unfold zlen. rewrite SpecsLocalC.sub_length; [lia|].
      unfold zlen in H2. lia. }
    rewrite Hz. replace ((3 * k) mod 3) with 0 by (symmetry; rewrite (Z.mul_comm 3 k); apply Z.mod_mul; lia).
    change (0 =? 0) with true. cbv iota.
    rewrite (codons_extract l t k Hl Hlen Hk).
    rewrite (mapM_cgap_any l t k (zrange 0 k) Hl Hlen) by (intros i Hi; apply zrange_In in Hi; exact Hi).
    reflexivity.
  Qed.

  Lemma gsum_app : forall (g : loc -> Q) l1 l2,
    (fold_right (fun u acc => (g u + acc)%Q) 0%Q (l1 ++ l2) ==
     fold_right (fun u acc => (g u + acc)%Q) 0%Q l1 + fold_right (fun u acc => (g u + acc)%Q) 0%Q l2)%Q.
  Proof.
    clear. intros g l1 l2. induction l1 as [|x l1 IH]; cbn [app fold_right]; [lra|]. rewrite IH. lra.
  Qed.

  Lemma qsum_runits : forall l t zs, lstrand l = -1 ->
    (fold_right (fun u acc => (rugap lf lb u t + acc)%Q) 0%Q (map (runit l) (rev zs)) ==
     - qsum (map (cgap lf lb) (map (codon_of l t) zs)))%Q.
  Proof.
    intros l t zs Hs. induction zs as [|z zs IH]; cbn [map rev fold_right].
    - unfold qsum. cbn [fold_right]. lra.
    - change (qsum (cgap lf lb (codon_of l t z) :: map (cgap lf lb) (map (codon_of l t) zs)))
        with (cgap lf lb (codon_of l t z) + qsum (map (cgap lf lb) (map (codon_of l t) zs)))%Q.
      rewrite map_app, (gsum_app (fun u => rugap lf lb u t)), IH. cbn [map fold_right].
      rewrite (rugap_runit l t z Hs). lra.
  Qed.

  Lemma negative_runit : forall l t i, lstrand l = -1 ->
    negative (rugap lf lb) (runit l i) t = negb (Qeq_bool (cgap lf lb (codon_of l t i)) 0).
  Proof.
    intros l t i Hs. unfold negative. rewrite (rugap_runit l t i Hs). f_equal.
    pose proof (cgap_nonneg lf lb f_le_b (codon_of l t i)) as Hn.
    destruct (Qle_bool 0 (- cgap lf lb (codon_of l t i))) eqn:E1;
      destruct (Qeq_bool (cgap lf lb (codon_of l t i)) 0) eqn:E2; try reflexivity; exfalso.
    - apply Qle_bool_iff in E1. assert (H : (cgap lf lb (codon_of l t i) == 0)%Q) by lra.
      apply Qeq_bool_iff in H. congruence.
    - apply Qeq_bool_iff in E2. assert (H : (0 <= - cgap lf lb (codon_of l t i))%Q) by lra.
      apply Qle_bool_iff in H. congruence.
  Qed.

  (* score and reported locations in the form SolverE wants them *)
  Lemma rcai_score_locs : forall l t k, loc_in l (zlen t) -> loc_len l = 3 * k -> 0 <= k -> lstrand l = -1 ->
    exists e, Specs.evaluate (SMaximizeCAI lf lb l) t = Some e /\
      (score e == qsum_gaps (rcai_units l) (rugap lf lb) t)%Q /\
      locs e = Some (filter (fun u => negative (rugap lf lb) u t) (rcai_units l)).
  Proof.
    intros l t k Hl Hlen Hk Hs. rewrite (cai_evaluate_any l t k Hl Hlen Hk). cbv zeta.
    unfold rcai_units, qsum_gaps. rewrite Hlen. replace (3 * k / 3) with k by (symmetry; rewrite (Z.mul_comm 3 k); apply Z.div_mul; lia).
    destruct (Z.eqb_spec k 1) as [E|E].
    - subst k. change (zrange 0 1) with [0]. cbn [map]. eexists. split; [reflexivity|]. cbn [score locs fold_right filter].
      assert (Hu : rugap lf lb l t = (- cgap lf lb (codon_of l t 0))%Q).
      { apply rugap_codon; [exact Hs | unfold loc_len in Hlen; lia | lia]. }
      split; [rewrite Hu; lra|].
      unfold negative. rewrite Hu. f_equal.
      pose proof (negative_runit l t 0 Hs) as Hn. unfold negative in Hn. rewrite (rugap_runit l t 0 Hs) in Hn.
      rewrite Hn. destruct (Qeq_bool (cgap lf lb (codon_of l t 0)) 0); reflexivity.
    - assert (Hlen1 : List.length (map (cgap lf lb) (map (codon_of l t) (zrange 0 k))) <> 1%nat).
      { rewrite !map_length, zrange_length. lia. }
      assert (Hgoal : exists e,
                Some (mkEv (- qsum (map (cgap lf lb) (map (codon_of l t) (zrange 0 k))))%Q
                  (Some (codons_indices_to_locations l
                           (indices_where (fun d => negb (Qeq_bool d 0))
                              (map (cgap lf lb) (map (codon_of l t) (zrange 0 k))) 0)))) = Some e /\
                (score e == fold_right (fun u acc => (rugap lf lb u t + acc)%Q) 0%Q (map (runit l) (rev (zrange 0 k))))%Q /\
                locs e = Some (filter (fun u => negative (rugap lf lb) u t) (map (runit l) (rev (zrange 0 k))))).
      { eexists. split; [reflexivity|]. cbn [score locs]. split.
        - rewrite (qsum_runits l t (zrange 0 k) Hs). reflexivity.
        - f_equal. rewrite (reported_locations_are_single_codons_rev _ l _ 0 Hs).
          rewrite map_map.
          pose proof (indices_where_map_zrange (fun d => negb (Qeq_bool d 0))
                        (fun x => cgap lf lb (codon_of l t x)) (Z.to_nat k) 0) as HI.
          replace (0 + Z.of_nat (Z.to_nat k)) with k in HI by lia. rewrite HI.
          rewrite <- filter_rev'.
          apply filter_map_comm. intros i _. apply negative_runit. exact Hs. }
      destruct (map (cgap lf lb) (map (codon_of l t) (zrange 0 k))) as [|d [|d2 r]];
        [exact Hgoal | cbn [List.length] in Hlen1; lia | exact Hgoal].
  Qed.

End CAIRev.

(* ================================================================== the units *)
Lemma zrange_NoDup' : forall a b, NoDup (zrange a b).
Proof.
  intros a b. unfold zrange. apply FinFun.Injective_map_NoDup; [|apply seq_NoDup].
  intros x y H. lia.
Qed.

Lemma rcai_units_In : forall l k u, loc_len l = 3 * k -> 0 <= k -> In u (rcai_units l) ->
  exists i, 0 <= i < k /\ lstart u = lend l - 3 * i - 3 /\ lend u = lend l - 3 * i.
Proof.
  intros l k u Hlen Hk H. unfold rcai_units in H. rewrite Hlen in H.
  replace (3 * k / 3) with k in H by (symmetry; rewrite (Z.mul_comm 3 k); apply Z.div_mul; lia).
  destruct (Z.eqb_spec k 1) as [E|E].
  - destruct H as [H|[]]. subst u. exists 0. unfold loc_len in Hlen. lia.
  - apply in_map_iff in H. destruct H as [i [Eu Hi]]. apply in_rev in Hi. apply zrange_In in Hi.
    exists i. subst u. unfold runit. cbn [lstart lend]. lia.
Qed.

Lemma rcai_units_disj : forall l k i j u v, loc_len l = 3 * k -> 0 <= k ->
  nth_error (rcai_units l) i = Some u -> nth_error (rcai_units l) j = Some v -> i <> j ->
  lend u <= lstart v \/ lend v <= lstart u.
Proof.
  intros l k i j u v Hlen Hk Hi Hj Hne. unfold rcai_units in Hi, Hj. rewrite Hlen in Hi, Hj.
  replace (3 * k / 3) with k in Hi, Hj by (symmetry; rewrite (Z.mul_comm 3 k); apply Z.div_mul; lia).
  destruct (Z.eqb_spec k 1) as [E|E].
  - destruct i as [|i]; [|destruct i; discriminate]. destruct j as [|j]; [|destruct j; discriminate].
    contradiction.
  - rewrite nth_error_map in Hi, Hj.
    destruct (nth_error (rev (zrange 0 k)) i) as [x|] eqn:Ex; [|discriminate].
    destruct (nth_error (rev (zrange 0 k)) j) as [y|] eqn:Ey; [|discriminate].
    cbn [option_map] in Hi, Hj. inversion Hi; subst u. inversion Hj; subst v.
    assert (Hxy : x <> y).
    { intro Exy. subst y. apply Hne.
      apply (proj1 (NoDup_nth_error (rev (zrange 0 k))) (NoDup_rev (zrange_NoDup' 0 k))).
      - apply nth_error_Some. congruence.
      - congruence. }
    unfold runit. cbn [lstart lend]. lia.
Qed.

Lemma rcai_units_has : forall l k i, loc_len l = 3 * k -> 0 <= i < k ->
  exists u, In u (rcai_units l) /\ lstart u = lend l - 3 * i - 3 /\ lend u = lend l - 3 * i.
Proof.
  intros l k i Hlen Hi. unfold rcai_units. rewrite Hlen.
  replace (3 * k / 3) with k by (symmetry; rewrite (Z.mul_comm 3 k); apply Z.div_mul; lia).
  destruct (Z.eqb_spec k 1) as [E|E].
  - exists l. split; [left; reflexivity|]. unfold loc_len in Hlen. lia.
  - exists (runit l i). split; [|split; reflexivity].
    apply in_map. apply -> in_rev. apply zrange_In_conv. exact Hi.
Qed.

(* ================================================================== localization to one codon *)
Lemma codon_window_in_codon_rev : forall l k i a b, loc_len l = 3 * k -> lstrand l = -1 -> 0 <= i < k ->
  lend l - 3 * i - 3 <= a -> a < b -> b <= lend l - 3 * i ->
  codon_window l (mkLoc a b 0) = Some (mkLoc (lend l - 3 * i - 3) (lend l - 3 * i) (-1), i, i + 1).
Proof.
  intros l k i a b Hlen Hs Hi Ha Hab Hb. unfold loc_len in Hlen.
  unfold codon_window, overlap_region. cbn [lstart lend lstrand].
  destruct (Z.ltb_spec a (lstart l)) as [H|_]; [lia|].
  rewrite Z.geb_leb. destruct (Z.leb_spec (lend l) a) as [H|_]; [lia|].
  cbn [lstart lend lstrand]. rewrite Hs. change (negb (-1 =? -1)) with false. cbv iota.
  rewrite (Z.min_r (lend l) b) by lia.
  assert (Hsc : Z.quot (lend l - b) 3 = i).
  { rewrite Z.quot_div_nonneg by lia. symmetry. apply (Z.div_unique _ 3 i (lend l - b - 3 * i)); lia. }
  assert (Hec : Z.quot (lend l - a - 1) 3 = i).
  { rewrite Z.quot_div_nonneg by lia. symmetry. apply (Z.div_unique _ 3 i (lend l - a - 1 - 3 * i)); lia. }
  replace (lend l <=? a) with false by (symmetry; apply Z.leb_gt; lia). cbn [lstart lend].
  rewrite Hsc, Hec. rewrite Z.max_r by lia. f_equal. f_equal. f_equal. f_equal. lia.
Qed.

(* ================================================================== the theorem *)
Theorem cai_optimize_reaches_every_codon_best_outside_partial_rev :
  forall (lf lb : list (dna * Q)) (l : loc) (space : mspace) (n : Z) (cfg : settings) (cs : list spec)
         (enforced passive : spec -> bool) st o st',
    wf_space space -> (forall c, In c (choices_list space) -> cend c <= n) ->
    wf_spec (SMaximizeCAI lf lb l) n -> lstrand l = -1 ->
    (forall c f b, qassoc c lf = Some f -> qassoc c lb = Some b -> (f <= b)%Q) ->
    (forall c w s, In c cs ->
       match Specs.localized c w true s with
       | LSome c' => enforced c' = true
       | LNone => True
       | LError => False
       end) ->
    passive (SMaximizeCAI lf lb l) = false ->
    state_good spec space n st ->
    (forall e B s, Specs.evaluate (SMaximizeCAI lf lb l) (cur _ st) = Some e ->
       In B (match locs e with Some ls => ls | None => [] end) -> good space n s ->
       block_searchable space n cfg lf lb l B s) ->
    optimize spec b_ev Specs.localized b_reinit enforced (fun _ => Some 0%Q) b_boost passive (fun _ => None)
             cfg space cs [SMaximizeCAI lf lb l] st = (o, st') ->
    o = ODone /\ good space n (cur _ st') /\
    (forall i, 0 <= i < loc_len l / 3 -> codon_best lf lb l (cur _ st') i) /\
    (forall i, 0 <= i -> ~ (lstart l <= i < lend l) ->
       nth_error (cur _ st') (Z.to_nat i) = nth_error (cur _ st) (Z.to_nat i)).
Proof.
  intros lf lb l space n cfg cs enforced passive st o st' Hwf Hfit Hspec Hs Hfb Hcs Hpas Hst Hblock Hopt.
  cbn [wf_spec] in Hspec. destruct Hspec as (Hl & Hmod & Htf & Htb).
  remember (loc_len l / 3) as k eqn:Ek.
  assert (Hlen : loc_len l = 3 * k) by (pose proof (Z.div_mod (loc_len l) 3); lia).
  assert (Hk : 0 <= k) by (destruct Hl as (? & ? & ? & ?); unfold loc_len in Hlen; lia).
  set (obj := SMaximizeCAI lf lb l) in *.
  assert (Hev : forall s, good space n s -> exists e, Specs.evaluate obj s = Some e /\
            (score e == qsum_gaps (rcai_units l) (rugap lf lb) s)%Q /\
            locs e = Some (filter (fun u => negative (rugap lf lb) u s) (rcai_units l))).
  { intros s [Hn _]. apply (rcai_score_locs lf lb Htf Htb Hfb l s k); try assumption. rewrite Hn. exact Hl. }
  (* the hypotheses of SolverE *)
  assert (H1 : forall u s, (rugap lf lb u s <= 0)%Q) by (apply rugap_nonpos; exact Hfb).
  assert (H2 : forall s, good space n s -> (fst (b_ev obj s) == qsum_gaps (rcai_units l) (rugap lf lb) s)%Q).
  { intros s Hg. destruct (Hev s Hg) as (e & He & Hsc & _). unfold b_ev. rewrite He. exact Hsc. }
  assert (H3 : (0 < b_boost obj)%Q) by (unfold b_boost; lra).
  assert (H4 : forall u, In u (rcai_units l) -> 0 <= lstart u /\ lstart u < lend u /\ lend u <= n).
  { intros u Hu. destruct (rcai_units_In l k u Hlen Hk Hu) as (i & Hi & E1 & E2).
    destruct Hl as (? & ? & ? & ?). unfold loc_len in Hlen. lia. }
  assert (H5 : forall i j u v, nth_error (rcai_units l) i = Some u -> nth_error (rcai_units l) j = Some v ->
            i <> j -> lend u <= lstart v \/ lend v <= lstart u).
  { intros i j u v Hi Hj Hne. exact (rcai_units_disj l k i j u v Hlen Hk Hi Hj Hne). }
  assert (H6 : forall u s t, In u (rcai_units l) -> good space n s -> good space n t ->
            (forall i, lstart u <= i < lend u -> nth_error s (Z.to_nat i) = nth_error t (Z.to_nat i)) ->
            (rugap lf lb u s == rugap lf lb u t)%Q).
  { intros u s t Hu [Hns _] [Hnt _] Hag. destruct (H4 u Hu) as (A & B & C).
    unfold rugap, extract. cbn [lstart lend lstrand]. change (-1 =? -1) with true. cbv iota.
    rewrite !MSpaceA.pyslice_slice by lia.
    rewrite (MSpaceA.slice_ext s t (lstart u) (lend u) A Hag). reflexivity. }
  assert (H7 : forall c w s, In c cs ->
            match Specs.localized c w true s with
            | LSome c' => enforced (b_reinit false c' s) = true
            | LNone => True
            | LError => False
            end).
  { intros c w s Hc. exact (Hcs c w s Hc). }
  assert (H8 : snd (b_ev obj (cur _ st)) =
               Some (filter (fun u => negative (rugap lf lb) u (cur _ st)) (rcai_units l))).
  { destruct (Hev (cur _ st) (proj1 Hst)) as (e & He & _ & Hlocs). unfold b_ev. rewrite He. exact Hlocs. }
  assert (H9 : forall u s, In u (rcai_units l) -> negative (rugap lf lb) u (cur _ st) = true ->
            good space n s -> negative (rugap lf lb) u s = true ->
            unit_searchable spec b_ev Specs.localized b_reinit (fun _ => Some 0%Q) b_boost space n obj
                            (rugap lf lb) cfg u s).
  { intros u s Hu Hneg0 Hg _.
    destruct (Hev (cur _ st) (proj1 Hst)) as (e & He & _ & Hlocs).
    pose proof (Hblock e u s He) as HB. rewrite Hlocs in HB.
    specialize (HB (proj2 (filter_In _ _ _) (conj Hu Hneg0)) Hg).
    destruct HB as (Hsz & Hth & a & b & vs & Hspan & Hla & Hbl & Hvs & t & Ht & Hbest).
    destruct (rcai_units_In l k u Hlen Hk Hu) as (i & Hi & E1 & E2).
    destruct (span_in_range space n Hwf Hfit _ _ a b Hspan) as (Ha0 & Hab & Hbn).
    unfold unit_searchable. cbv zeta. split; [exact Hsz|]. split; [exact Hth|].
    set (nl := mkLoc (lend l - 3 * i - 3) (lend l - 3 * i) (-1)).
    exists a, b, (SMaximizeCAI lf lb nl), vs.
    split; [exact Hspan|]. split; [exact Hla|]. split; [exact Hbl|]. split.
    { unfold Specs.localized, obj. cbn [localized_raw].
      rewrite (codon_window_in_codon_rev l k i a b Hlen Hs Hi) by lia. reflexivity. }
    assert (Hsc : forall t', good space n t' -> (fst (b_ev (SMaximizeCAI lf lb nl) t') == rugap lf lb u t')%Q).
    { intros t' [Hn' _].
      assert (Hlnl : loc_len nl = 3 * 1) by (unfold loc_len, nl; cbn [lstart lend]; lia).
      destruct (rcai_score_locs lf lb Htf Htb Hfb nl t' 1) as (e' & He' & Hsc' & _);
        [|exact Hlnl|lia|reflexivity|].
      { rewrite Hn'. destruct Hl as (? & ? & ? & ?). unfold loc_len in Hlen. unfold loc_in, nl.
        cbn [lstart lend lstrand]. repeat split; lia. }
      unfold b_ev. rewrite He'. cbn [fst]. rewrite Hsc'.
      unfold qsum_gaps, rcai_units. rewrite Hlnl. change (3 * 1 / 3 =? 1) with true. cbv iota.
      cbn [fold_right]. unfold rugap, nl. cbn [lstart lend]. rewrite E1, E2. lra. }
    split.
    { unfold b_reinit, b_boost. split; [reflexivity|]. split; [left; reflexivity|]. split.
      - intros _ t' Hg' _. rewrite (Hsc t' Hg'). apply H1.
      - intros t' Hg' _. rewrite (Hsc t' Hg'), (Hsc s Hg). reflexivity. }
    split; [exact Hvs|]. exists t. split; [exact Ht|].
    assert (Hcb : codon_best lf lb l t i).
    { apply Hbest; [rewrite <- Ek; exact Hi | |]; rewrite (codon_loc_rev l i Hs); cbn [lstart lend]; lia. }
    destruct Hcb as (f & bb & Hf & Hb & Hfbb).
    rewrite (rugap_codon lf lb l u t i Hs E1 E2). unfold cgap. rewrite Hf, Hb. lra. }
  destruct (optimize_closes_initially_open_gaps spec b_ev Specs.localized b_reinit enforced
              (fun _ => Some 0%Q) b_boost (fun _ => None) space n Hwf Hfit obj (rcai_units l) (rugap lf lb) cfg cs
              H1 H2 eq_refl H3 eq_refl H4 H5 H6 H7 passive st o st' Hpas Hst H8 H9 Hopt)
    as (Ho & Hg & _ & Hall).
  pose proof (optimize_outside_initially_open_gaps spec b_ev Specs.localized b_reinit enforced
              (fun _ => Some 0%Q) b_boost (fun _ => None) space n Hwf Hfit obj (rcai_units l) (rugap lf lb) cfg cs
              H1 H2 eq_refl H3 eq_refl H4 H5 H6 H7 passive st o st' Hpas Hst H8 H9 Hopt) as Hout.
  split; [exact Ho|]. split; [exact Hg|]. split.
  - intros i Hi.
    destruct (rcai_units_has l k i Hlen Hi) as (u & Hu & E1 & E2).
    pose proof (Hall u Hu) as Hz. rewrite (rugap_codon lf lb l u _ i Hs E1 E2) in Hz.
    destruct Hg as [Hn _].
    destruct (codon_entries_any lf lb Htf Htb l (cur _ st') k i) as (f & bb & Hf & Hb & Hc);
      [rewrite Hn; exact Hl | exact Hlen | exact Hi|].
    exists f, bb. split; [exact Hf|]. split; [exact Hb|]. lra.
  - intros i Hi Hni. apply Hout; [exact Hi|].
    intros u Hu. apply filter_In in Hu. destruct Hu as [Hu _].
    destruct (rcai_units_In l k u Hlen Hk Hu) as (j & Hj & E1 & E2).
    unfold loc_len in Hlen. lia.
Qed.
