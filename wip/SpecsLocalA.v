(* C09 / C08 lemmas, part A: pattern and GC-content specifications.
   Core idea: a fixed-size window statistic (a pattern occurrence of size k, a GC window of size k)
   that does not meet the edited zone W is unchanged, and every one that meets W lies inside
   overlap(location, extended(W, k-1)). *)
From Coq Require Import ZArith QArith Qminmax Qabs Bool List Lia.
From DC Require Import Model.Base Model.Loc Model.Bio Model.Pattern Model.MSpace Model.Specs
                       Proofs.SpecsDefs Proofs.PatternProofs Proofs.BioB.
Import ListNotations.
Open Scope Z_scope.

Theorem avoid_pattern_delta : forall P l w s s',
  wf_spec (SAvoidPattern P l) (zlen s) -> window_in w (zlen s) -> agree_outside w s s' ->
  local_delta_law (SAvoidPattern P l) w s s'.
Proof.
Admitted.

Theorem avoid_pattern_pass : forall P l w s s',
  wf_spec (SAvoidPattern P l) (zlen s) -> window_in w (zlen s) -> agree_outside w s s' ->
  local_pass_law (SAvoidPattern P l) w s s'.
Proof.
Admitted.

Theorem pattern_occ_delta : forall P occ l w s s',
  wf_spec (SPatternOcc P occ l) (zlen s) -> window_in w (zlen s) -> agree_outside w s s' ->
  local_delta_law (SPatternOcc P occ l) w s s' /\ local_pass_law (SPatternOcc P occ l) w s s'.
Proof.
Admitted.

Theorem gc_delta : forall mini maxi win l w s s',
  wf_spec (SGC mini maxi win l) (zlen s) -> window_in w (zlen s) -> agree_outside w s s' ->
  local_delta_law (SGC mini maxi win l) w s s'.
Proof.
Admitted.

Theorem gc_pass : forall mini maxi win l w s s',
  wf_spec (SGC mini maxi win l) (zlen s) -> window_in w (zlen s) -> agree_outside w s s' ->
  local_pass_law (SGC mini maxi win l) w s s'.
Proof.
Admitted.

(* scores of these classes are never positive (used for C08 and C20) *)
Theorem avoid_pattern_nonpos : forall P l s, (score (eval_avoid_pattern P l s) <= 0)%Q.
Proof.
Admitted.
Theorem pattern_occ_nonpos : forall P occ l s, (score (eval_pattern_occ P occ l s) <= 0)%Q.
Proof.
Admitted.
Theorem gc_nonpos : forall mini maxi win l s,
  match win with Some k => 1 <= k | None => True end ->
  (score (eval_gc mini maxi win l s) <= 0)%Q.
Proof.
Admitted.
