(* C08 for UniquifyAllKmers (global form: data = None; the localized copy carries the k-mer data). *)
From Coq Require Import ZArith QArith Bool List Lia.
From DC Require Import Model.Base Model.Loc Model.Bio Model.Pattern Model.MSpace Model.Specs
                       Proofs.SpecsDefs.
Import ListNotations.
Open Scope Z_scope.

Theorem uniquify_pass : forall k l ref irc w s s',
  wf_spec (SUniquify k l ref irc None) (zlen s) -> window_in w (zlen s) -> agree_outside w s s' ->
  local_pass_law (SUniquify k l ref irc None) w s s'.
Proof.
Admitted.
