(* C13 lemmas: a successful circular solve holds across the origin. *)
From Coq Require Import ZArith QArith Bool List Lia.
From DC Require Import Model.Base Model.Loc Model.Bio Model.Pattern Model.MSpace Model.Specs Model.Solver Model.Circular
                       Proofs.SpecsDefs Proofs.PatternProofs Proofs.BioB Proofs.SpecsEval.
Import ListNotations.
Open Scope Z_scope.

(* final-check dominance: whatever the solver did on the three-copy view, a normal return means
   the circular evaluation of EVERY constraint passes, and the length is kept *)
Theorem circular_resolve_done : forall view_resolve constraints s s',
  (forall t o t', view_resolve t = (o, t') -> zlen t' = zlen t) ->
  circular_resolve view_resolve constraints true s = (ODone, s') ->
  circular_all_pass constraints s' = true /\ zlen s' = zlen s.
Proof.
Admitted.

Theorem circular_resolve_outcomes : forall view_resolve constraints fc s o s',
  circular_resolve view_resolve constraints fc s = (o, s') ->
  o = ODone \/ o = ONoSolution \/ (exists t, view_resolve (triple s) = (o, t) /\ s' = s).
Proof.
Admitted.

(* the circular evaluation sees across the origin: a whole-sequence AvoidPattern that passes on
   the three-copy view has no forward occurrence in the wrapped sequence s ++ (first k-1 of s), i.e.
   none spanning the junction either *)
Theorem pattern_wraparound : forall P s st, 1 <= psize P -> psize P <= zlen s + 1 ->
  passes (eval_avoid_pattern P (mkLoc 0 (3 * zlen s) st) (triple s)) = true -> (st = 1 \/ st = 0) ->
  forall i, 0 <= i < zlen s ->
    occurs_fwd P (s ++ firstn (Z.to_nat (psize P - 1)) s) i = false.
Proof.
Admitted.

(* same for a windowed GC constraint on the whole sequence: every cyclic window is within bounds *)
Theorem gc_wraparound : forall mini maxi w s, 1 <= w -> w <= zlen s + 1 ->
  passes (eval_gc mini maxi (Some w) (mkLoc 0 (3 * zlen s) 0) (triple s)) = true ->
  forall i, 0 <= i < zlen s ->
    let g := gc_frac (s ++ firstn (Z.to_nat (w - 1)) s) i w in (mini <= g)%Q /\ (g <= maxi)%Q.
Proof.
Admitted.

(* mirroring: the result is three equal copies; an edit made in exactly one copy at a position is
   taken over, positions untouched in all three copies are kept *)
Theorem replace_circular_spec : forall s new, zlen new = 3 * zlen s ->
  exists s', replace_circular new = triple s' /\ zlen s' = zlen s /\
    forall i x, 0 <= i < zlen s -> nth_error s (Z.to_nat i) = Some x ->
      (forall a b c, nth_error new (Z.to_nat i) = Some a -> nth_error new (Z.to_nat (i + zlen s)) = Some b ->
                     nth_error new (Z.to_nat (i + 2 * zlen s)) = Some c ->
         (* all untouched *)
         (a = x -> b = x -> c = x -> nth_error s' (Z.to_nat i) = Some x) /\
         (* exactly one copy edited *)
         (a <> x -> b = x -> c = x -> nth_error s' (Z.to_nat i) = Some a) /\
         (a = x -> b <> x -> c = x -> nth_error s' (Z.to_nat i) = Some b) /\
         (a = x -> b = x -> c <> x -> nth_error s' (Z.to_nat i) = Some c)).
Proof.
Admitted.
