(* C10 / C20 lemmas: the evaluation algorithms of the built-in classes compute their documented
   formulas, and failing evaluations report non-empty breach locations that lie inside the
   specification's span and cover every breach. *)
From Coq Require Import ZArith QArith Qminmax Qabs Bool List Ascii String Lia.
From DC Require Import Model.Base Model.Loc Model.Bio Model.Pattern Model.MSpace Model.Specs
                       Generated.GenTables Proofs.SpecsDefs Proofs.PatternProofs Proofs.BioB Proofs.BioC.
Import ListNotations.
Open Scope Z_scope.

(* position i is covered by one of the locations *)
Definition covered (ls : list loc) (i : Z) : Prop := exists l, In l ls /\ lstart l <= i < lend l.
(* the span [a, b) is inside one of the locations *)
Definition span_covered (ls : list loc) (a b : Z) : Prop := exists l, In l ls /\ lstart l <= a /\ b <= lend l.
Definition all_within (ls : list loc) (a b : Z) : Prop := forall l, In l ls -> a <= lstart l /\ lstart l <= lend l /\ lend l <= b.

(* ---- binned intervals (AvoidChanges, EnforceChanges, EnforceSequence) *)
Theorem intervals_of_cover : forall idx spread i, 1 <= spread -> In i idx -> covered (intervals_of idx spread) i.
Proof.
Admitted.
Theorem intervals_of_within : forall idx spread lo hi,
  (forall i, In i idx -> lo <= i < hi) -> all_within (intervals_of idx spread) lo hi.
Proof.
Admitted.
Theorem intervals_of_nonempty : forall idx spread, idx <> [] -> intervals_of idx spread <> [].
Proof.
Admitted.

(* ---- AvoidPattern / EnforcePatternOccurence: number of occurrences on the requested strands *)
Definition n_fwd (P : pattern) (s : dna) (a b : Z) : Z :=
  zlen (filter (fun i => (i + psize P <=? b) && occurs_fwd P s i) (zrange a (b + 1))).
Definition n_rev (P : pattern) (s : dna) (a b : Z) : Z :=
  zlen (filter (fun i => (a <=? i) && occurs_rev P s i) (map (fun j => b - psize P - j) (zrange 0 (b - a + 1)))).
Definition n_occ (P : pattern) (s : dna) (l : loc) : Z :=
  if lstrand l =? 1 then n_fwd P s (lstart l) (lend l)
  else if lstrand l =? -1 then (if is_palindromic P then n_fwd P s (lstart l) (lend l) else n_rev P s (lstart l) (lend l))
  else n_fwd P s (lstart l) (lend l) + (if is_palindromic P then 0 else n_rev P s (lstart l) (lend l)).

Theorem avoid_pattern_meaning : forall P l s, 1 <= psize P -> loc_in l (zlen s) ->
  let e := eval_avoid_pattern P l s in
  score e = zq (- n_occ P s l) /\
  (passes e = true <-> n_occ P s l = 0) /\
  (exists ls, locs e = Some ls /\ zlen ls = n_occ P s l /\
     all_within ls (lstart l) (lend l) /\ Forall (fun m => lend m - lstart m = psize P) ls).
Proof.
Admitted.

Theorem pattern_occ_meaning : forall P occ l s, 0 <= psize P -> loc_in l (zlen s) ->
  let e := eval_pattern_occ P occ l s in
  score e = zq (- Z.abs (n_occ P s l - occ)) /\ (passes e = true <-> n_occ P s l = occ) /\ locs e = Some [l].
Proof.
Admitted.

(* ---- EnforceGCContent *)
Definition gc_frac (s : dna) (i w : Z) : Q := count_gc (slice s i (i + w)) # Z.to_pos w.
Theorem gc_windowed_meaning : forall mini maxi w l s, 1 <= w -> loc_in l (zlen s) -> lstrand l <> -1 ->
  let e := eval_gc mini maxi (Some w) l s in
  let starts := zrange (lstart l) (lend l - w + 1) in
  (score e == - qsum (map (fun i => breach mini maxi (gc_frac s i w)) starts))%Q /\
  (passes e = true <-> forall i, In i starts -> (mini <= gc_frac s i w)%Q /\ (gc_frac s i w <= maxi)%Q) /\
  (exists ls, locs e = Some ls /\ all_within ls (lstart l) (lend l) /\
     (forall i, In i starts -> ~ ((mini <= gc_frac s i w)%Q /\ (gc_frac s i w <= maxi)%Q) -> span_covered ls i (i + w)) /\
     (passes e = false -> ls <> [])).
Proof.
Admitted.

Theorem gc_global_meaning : forall mini maxi l s, loc_in l (zlen s) -> lstrand l <> -1 -> lstart l < lend l ->
  let e := eval_gc mini maxi None l s in
  let g := (count_gc (slice s (lstart l) (lend l)) # Z.to_pos (loc_len l)) in
  (score e == - breach mini maxi g)%Q /\
  (passes e = true <-> (mini <= g)%Q /\ (g <= maxi)%Q) /\
  (passes e = false -> locs e = Some [mkLoc (lstart l) (lend l) 0]).
Proof.
Admitted.

(* ---- EnforceSequence: IUPAC mismatches, both strands *)
Theorem enforce_sequence_meaning : forall w l s, loc_in l (zlen s) -> zlen w = loc_len l ->
  let e := eval_enforce_sequence w l s in
  let sub := extract l s in
  let bad := indices_where (fun p => negb (iupac_matches (snd p) (fst p))) (combine sub w) 0 in
  score e = zq (- zlen bad) /\
  (passes e = true <-> bad = []) /\
  (exists ls, locs e = Some ls /\ all_within ls (lstart l) (lend l) /\
     (forall r, In r bad -> covered ls (if lstrand l =? -1 then lend l - 1 - r else lstart l + r)) /\
     (passes e = false -> ls <> [])).
Proof.
Admitted.

(* ---- AvoidChanges (location mode): number of edits against the allowance *)
Theorem avoid_changes_meaning : forall l tg me s e, loc_in l (zlen s) -> lstrand l <> -1 -> zlen tg = loc_len l ->
  evaluate (SAvoidChanges l None tg me) s = Some e ->
  score e = zq (me - diff_count (slice s (lstart l) (lend l)) tg) /\
  (exists ls, locs e = Some ls /\ all_within ls (lstart l) (lend l) /\
     (forall i, lstart l <= i < lend l ->
        nth_error s (Z.to_nat i) <> nth_error tg (Z.to_nat (i - lstart l)) -> covered ls i)).
Proof.
Admitted.

(* ---- codon-wise counts *)
Theorem stop_codons_meaning : forall T l s e, eval_stop_codons T l s = Some e ->
  exists aas, translate T (extract l s) = Some aas /\
    score e = zq (- zlen (filter (fun a => Ascii.eqb a "*") aas)) /\
    (passes e = true <-> forall a, In a aas -> a <> "*"%char).
Proof.
Admitted.

Theorem choice_meaning : forall cs l s,
  let e := eval_enforce_choice cs l s in
  (In (extract l s) cs -> score e = 0%Q /\ locs e = Some []) /\
  (~ In (extract l s) cs -> score e = zq (-1) /\ locs e = Some [l]).
Proof.
Admitted.

Theorem length_meaning : forall mn mx s,
  let e := eval_length mn mx s in
  let ok := mn <= zlen s /\ match mx with Some m => zlen s <= m | None => True end in
  (ok -> score e = zq 0) /\ (~ ok -> score e = zq (-1)).
Proof.
Admitted.

(* ---- C20: flags and declared best scores *)
Theorem passes_iff_nonneg : forall e, passes e = true <-> (0 <= score e)%Q.
Proof.
Admitted.

(* every modelled class that declares a best possible score declares 0 (regenerated constants) *)
Theorem declared_best_scores_are_zero :
  forallb (fun p => match sc_best (snd p) with Some b => b =? 0 | None => true end) spec_constants = true.
Proof.
Admitted.

Theorem uniquify_nonpos : forall k l ref irc d s e,
  evaluate (SUniquify k l ref irc d) s = Some e -> (score e <= 0)%Q.
Proof.
Admitted.
Theorem hairpins_nonpos : forall st w l s, (score (eval_hairpins st w l s) <= 0)%Q.
Proof.
Admitted.
