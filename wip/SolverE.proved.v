(* Solver lemmas, part E (C07 core): optimize_objective drives a SEPARABLE objective to its best
   score.  An objective is separable over a list of disjoint units (codons) when its score is the sum
   of per-unit gaps (each <= 0, each depending only on the nucleotides of its unit), it reports the
   units with a negative gap as its breach locations, its localization to (the varying part of) a unit
   never scores above 0 and moves exactly like that unit's gap on the sequences that differ only inside
   the varying part, and the local mutation space of a sub-optimal unit can be searched
   exhaustively and contains a variant closing the gap.  Then optimize_objective ends with every
   gap closed (score = declared best 0), whatever the constraints skipped as "enforced by nucleotide
   restrictions".  MaximizeCAI / HarmonizeRCA next to EnforceTranslation are the instances. *)
From Coq Require Import ZArith QArith Bool List Lia Lqa Sorting.Sorted.
From DC Require Import Model.Base Model.Loc Model.MSpace Model.Solver
                       Proofs.MSpaceDefs Proofs.MSpaceA Proofs.MSpaceB Proofs.MSpaceC
                       Proofs.SolverA Proofs.SolverB Proofs.SolverC.
Import ListNotations.
Open Scope Z_scope.

Section SolverE.
  Variable spec : Type.
  Variable ev : spec -> dna -> Q * option (list loc).
  Variable localize : spec -> loc -> bool -> dna -> lres spec.
  Variable reinit : bool -> spec -> dna -> spec.
  Variable enforced : spec -> bool.
  Variable best : spec -> option Q.
  Variable boost : spec -> Q.
  Variable opt_heuristic : spec -> option (settings -> lproblem spec -> state spec -> outcome * state spec).
  Variable space : mspace.
  Variable n : Z.
  Hypothesis space_wf : wf_space space.
  Hypothesis space_fits : forall c, In c (choices_list space) -> cend c <= n.

  Notation good_ := (good space n).

  (* the separable objective *)
  Variable obj : spec.
  Variable units : list loc.
  Variable gap : loc -> dna -> Q.
  Variable cfg : settings.
  Variable cs : list spec.

  Definition qsum_gaps (s : dna) : Q := fold_right (fun u acc => (gap u s + acc)%Q) 0%Q units.
  Definition negative (u : loc) (s : dna) : bool := negb (Qle_bool 0 (gap u s)).

  Hypothesis gap_nonpos : forall u s, (gap u s <= 0)%Q.
  (* the score is the sum of the gaps (the breach locations reported by the FIRST evaluation are a
     premise of the theorems below: the optimiser never looks at later ones) *)
  Hypothesis ev_score : forall s, good_ s -> (fst (ev obj s) == qsum_gaps s)%Q.
  Hypothesis best_obj : best obj = Some 0%Q.
  Hypothesis boost_obj : (0 < boost obj)%Q.
  Hypothesis no_heuristic : opt_heuristic obj = None.
  (* units lie inside the sequence, are non-empty and pairwise disjoint *)
  Hypothesis units_in : forall u, In u units -> 0 <= lstart u /\ lstart u < lend u /\ lend u <= n.
  Hypothesis units_disjoint : forall i j u v, nth_error units i = Some u -> nth_error units j = Some v -> i <> j ->
    lend u <= lstart v \/ lend v <= lstart u.
  (* a gap only depends on the nucleotides of its unit *)
  Hypothesis gap_local : forall u s t, In u units -> good_ s -> good_ t ->
    (forall i, lstart u <= i < lend u -> nth_error s (Z.to_nat i) = nth_error t (Z.to_nat i)) ->
    (gap u s == gap u t)%Q.
  (* constraints: in local problems their localized copies are skipped (enforced by restrictions) *)
  Hypothesis constraints_skipped : forall c w s, In c cs ->
    match localize c w true s with
    | LSome c' => enforced (reinit false c' s) = true
    | LNone => True
    | LError => False
    end.
  (* a sub-optimal unit u at sequence s: its local space is searched exhaustively, the localization of
     the objective to the span (a,b) of that space never scores above 0 and moves like the unit's
     gap on the sequences that agree with s outside the span (it may score only the part of the unit
     touched by the span: the rest of the unit is not changed by the local search), and some variant
     closes the gap *)
  Definition unit_searchable (u : loc) (s : dna) : Prop :=
    let lspace := ms_localized space (lstart u) (lend u) in
    space_size_exact lspace <> 0 /\
    space_size_exact lspace < st_threshold cfg /\
    exists a b ol vs,
      choices_span lspace = Some (a, b) /\ lstart u <= a /\ b <= lend u /\
      localize obj (mkLoc a b 0) true s = LSome ol /\
      (let ol' := reinit true ol s in
       boost ol' = boost obj /\ (best ol' = Some 0%Q \/ best ol' = None) /\
       (best ol' = Some 0%Q -> forall t, good_ t -> agree_out a b s t -> (fst (ev ol' t) <= 0)%Q) /\
       forall t, good_ t -> agree_out a b s t ->
         (fst (ev ol' t) - fst (ev ol' s) == gap u t - gap u s)%Q) /\
      all_variants lspace s = Some vs /\
      exists t, In t vs /\ (gap u t == 0)%Q.

  (* ------------------------------------------------------------------------------------ *)
  (* helper lemmas *)
  Lemma negative_lt : forall u s, negative u s = true <-> (gap u s < 0)%Q.
  Proof.
    intros u s. unfold negative. rewrite negb_true_iff. split.
    - intros H. apply Qnot_le_lt. intro Hle. apply Qle_bool_iff in Hle. congruence.
    - intros H. destruct (Qle_bool 0 (gap u s)) eqn:E; [|reflexivity].
      apply Qle_bool_iff in E. lra.
  Qed.

  Lemma gsum_nonpos : forall l s,
    (fold_right (fun u acc => (gap u s + acc)%Q) 0%Q l <= 0)%Q.
  Proof.
    induction l as [|u l IH]; intros s; cbn [fold_right]; [lra|].
    pose proof (gap_nonpos u s). pose proof (IH s). lra.
  Qed.

  Lemma gsum_zero_each : forall l s,
    (fold_right (fun u acc => (gap u s + acc)%Q) 0%Q l == 0)%Q ->
    forall u, In u l -> (gap u s == 0)%Q.
  Proof.
    induction l as [|v l IH]; intros s H u Hin; [destruct Hin|].
    cbn [fold_right] in H.
    pose proof (gap_nonpos v s) as Hv. pose proof (gsum_nonpos l s) as Hl.
    destruct Hin as [E|Hin].
    - subst v. lra.
    - apply IH; [lra | exact Hin].
  Qed.

  Lemma gsum_all_zero : forall l s,
    (forall u, In u l -> (gap u s == 0)%Q) ->
    (fold_right (fun u acc => (gap u s + acc)%Q) 0%Q l == 0)%Q.
  Proof.
    induction l as [|v l IH]; intros s H; cbn [fold_right]; [lra|].
    pose proof (H v (or_introl eq_refl)) as Hv.
    pose proof (IH s (fun u Hin => H u (or_intror Hin))) as Hl. lra.
  Qed.

  Lemma units_NoDup : NoDup units.
  Proof.
    apply NoDup_nth_error. intros i j Hi E.
    destruct (Nat.eq_dec i j) as [|Hne]; [assumption|exfalso].
    destruct (nth_error units i) as [u|] eqn:Ei.
    - symmetry in E.
      pose proof (units_in u (nth_error_In _ _ Ei)) as Hu.
      destruct (units_disjoint i j u u Ei E Hne); lia.
    - apply nth_error_None in Ei. lia.
  Qed.

  Lemma units_apart : forall u v, In u units -> In v units -> u <> v ->
    lend u <= lstart v \/ lend v <= lstart u.
  Proof.
    intros u v Hu Hv Hne.
    destruct (In_nth_error _ _ Hu) as [i Ei]. destruct (In_nth_error _ _ Hv) as [j Ej].
    apply (units_disjoint i j u v Ei Ej). intro E. subst j. rewrite Ei in Ej. congruence.
  Qed.

  Lemma localize_all_skipped : forall l w s, (forall c, In c l -> In c cs) ->
    exists lcs, localize_all spec localize l w s = Some lcs /\
      forall c', In c' lcs -> enforced (reinit false c' s) = true.
  Proof.
    induction l as [|c l IH]; intros w s Hsub.
    - exists []. split; [reflexivity | intros c' []].
    - destruct (IH w s (fun c' Hin => Hsub c' (or_intror Hin))) as (lcs & El & Henf).
      pose proof (constraints_skipped c w s (Hsub c (or_introl eq_refl))) as Hc.
      cbn [localize_all]. rewrite El.
      destruct (localize c w true s) as [|c'|].
      + exists lcs. split; [reflexivity | exact Henf].
      + exists (c' :: lcs). split; [reflexivity|].
        intros c'' [E|Hin]; [subst c''; exact Hc | apply Henf; exact Hin].
      + destruct Hc.
  Qed.

  Lemma optimize_exhaustive_done_or_nosol : forall (p : lproblem spec) st vs o st',
    all_variants (lp_space _ p) (cur _ st) = Some vs ->
    optimize_exhaustive spec ev enforced best boost p st = (o, st') ->
    o = ODone \/ o = ONoSolution.
  Proof.
    intros p st vs o st' Hvs H. unfold optimize_exhaustive in H.
    destruct (all_constraints_pass spec ev enforced (lp_constraints _ p) st) as [ok st1] eqn:E1.
    apply acp_spec in E1. destruct E1 as (Hc1 & _ & _).
    destruct ok; cbn [negb] in H.
    - destruct (scores_sum spec ev boost (lp_objectives _ p) st1) as [sc st2] eqn:E2.
      apply scores_sum_spec in E2. destruct E2 as (_ & Hc2 & _).
      rewrite Hc2, Hc1, Hvs in H.
      destruct (opt_exhaustive_loop spec ev enforced boost p
                  (sum_best spec best boost (lp_objectives _ p) true) vs sc (cur _ st) st2)
        as [[sc' bseq] st3].
      inversion H; subst. left; reflexivity.
    - inversion H; subst. right; reflexivity.
  Qed.


  (* one exhaustive local run on the window of a sub-optimal unit closes that unit's gap and leaves
     the other units' gaps unchanged *)
  Lemma exhaustive_local_step : forall u s r lcs a b ol' vs o lst,
    In u units -> good_ s ->
    choices_span (ms_localized space (lstart u) (lend u)) = Some (a, b) ->
    lstart u <= a -> b <= lend u ->
    boost ol' = boost obj ->
    (best ol' = Some 0%Q \/ best ol' = None) ->
    (best ol' = Some 0%Q -> forall t, good_ t -> agree_out a b s t -> (fst (ev ol' t) <= 0)%Q) ->
    (forall t, good_ t -> agree_out a b s t ->
       (fst (ev ol' t) - fst (ev ol' s) == gap u t - gap u s)%Q) ->
    all_variants (ms_localized space (lstart u) (lend u)) s = Some vs ->
    (exists t, In t vs /\ (gap u t == 0)%Q) ->
    (forall c', In c' lcs -> enforced (reinit false c' s) = true) ->
    optimize_exhaustive spec ev enforced best boost
      (mkLP spec None (map (fun c => reinit false c s) lcs) [ol']
            (ms_localized space (lstart u) (lend u)))
      (mkState spec s r []) = (o, lst) ->
    o = ODone /\ rng _ lst = r /\ good_ (cur _ lst) /\ (gap u (cur _ lst) == 0)%Q /\
    (forall v, In v units -> v <> u -> (gap v (cur _ lst) == gap v s)%Q).
  Proof.
    intros u s r lcs a b ol' vs o lst Hu Hg Hspan Hla Hbl Hboost Hbest Hub Hev Hvs (t0 & Ht0 & Hgt0) Henf H.
    set (lspace := ms_localized space (lstart u) (lend u)) in *.
    set (lp := mkLP spec None (map (fun c => reinit false c s) lcs) [ol'] lspace) in *.
    assert (Hcf : forall t, cfeasible spec ev enforced (lp_constraints _ lp) t).
    { intros t c Hin He. cbn in Hin. apply in_map_iff in Hin. destruct Hin as (c' & Ec & Hin').
      subst c. rewrite (Henf c' Hin') in He. discriminate. }
    assert (Hvg : forall v, In v vs -> good_ v).
    { eapply all_variants_good; [apply okspace_localized; assumption | exact Hg | exact Hvs]. }
    assert (WF : wf_choices lspace) by (apply localized_wf_choices; exact space_wf).
    assert (HM : member lspace s) by (apply localized_member; exact (proj2 Hg)).
    assert (Hfit : forall c, In c (choices_list lspace) -> cend c <= zlen s).
    { intros c Hc. destruct Hg as [Hn _]. rewrite Hn. eapply localized_fits; eauto. }
    (* every variant agrees with s outside the span *)
    assert (Hva : forall v, In v vs -> agree_out a b s v).
    { intros v Hv. split.
      - destruct Hg as [Hn _]. destruct (Hvg v Hv) as [Hn' _]. lia.
      - intros i Hi Hni. symmetry. eapply all_variants_outside_span; eauto. }
    destruct (optimize_exhaustive_spec spec ev enforced best boost lp (mkState spec s r []) vs o lst Hvs H)
      as (Hr & Hno & Hdone).
    assert (Ho : o = ODone).
    { destruct (optimize_exhaustive_done_or_nosol lp (mkState spec s r []) vs o lst Hvs H) as [E|E];
        [exact E|].
      destruct (Hno E) as [Hnf _]. exfalso. apply Hnf. apply Hcf. }
    destruct (Hdone Ho) as (_ & Hin & _ & _ & Hopt).
    cbn [cur rng] in Hr, Hin.
    assert (Hgl : good_ (cur _ lst)).
    { destruct Hin as [E|Hin]; [rewrite E; exact Hg | apply Hvg; exact Hin]. }
    assert (Hal : agree_out a b s (cur _ lst)).
    { destruct Hin as [E|Hin]; [rewrite E; apply agree_out_refl | apply Hva; exact Hin]. }
    assert (Hout : forall i, 0 <= i -> ~ (a <= i < b) ->
              nth_error (cur _ lst) (Z.to_nat i) = nth_error s (Z.to_nat i)).
    { intros i Hi Hni. symmetry. apply (proj2 Hal); assumption. }
    split; [exact Ho|]. split; [exact Hr|]. split; [exact Hgl|]. split.
    - assert (Hle : (total spec ev boost (lp_objectives _ lp) t0 <=
                     total spec ev boost (lp_objectives _ lp) (cur _ lst))%Q).
      { apply Hopt.
        - intros ob [E|[]]. subst ob. rewrite Hboost. pose proof boost_obj. lra.
        - intros ob bb t [E|[]] Hb Ht. subst ob.
          destruct Hbest as [Hb'|Hb']; rewrite Hb' in Hb; [|discriminate].
          inversion Hb; subst bb. apply (Hub Hb' t (Hvg t Ht) (Hva t Ht)).
        - exact Ht0.
        - apply Hcf. }
      cbn [lp lp_objectives total fold_right] in Hle.
      rewrite Hboost in Hle.
      pose proof (Hev t0 (Hvg t0 Ht0) (Hva t0 Ht0)) as E0. pose proof (Hev _ Hgl Hal) as E1.
      pose proof (gap_nonpos u (cur _ lst)) as Hn.
      destruct (Qlt_le_dec (gap u (cur _ lst)) 0) as [Hlt|Hge]; [|lra].
      exfalso. pose proof boost_obj as Hb.
      assert (Hd : (fst (ev ol' t0) - fst (ev ol' (cur _ lst)) == - gap u (cur _ lst))%Q) by lra.
      assert (Hd2 : (0 < fst (ev ol' t0) - fst (ev ol' (cur _ lst)))%Q) by lra.
      assert (Hd3 : (boost obj * (fst (ev ol' t0) - fst (ev ol' (cur _ lst))) <= 0)%Q) by lra.
      nra.
    - intros v Hv Hne. apply gap_local; [exact Hv | exact Hgl | exact Hg|].
      intros i Hi. apply Hout.
      + pose proof (units_in v Hv). lia.
      + destruct (units_apart v u Hv Hu Hne); lia.
  Qed.


  Lemma boost_obj_nonzero : Qeq_bool (boost obj) 0 = false.
  Proof.
    destruct (Qeq_bool (boost obj) 0) eqn:E; [|reflexivity].
    apply Qeq_bool_iff in E. pose proof boost_obj. lra.
  Qed.

  (* the loop over the (still sub-optimal, pairwise distinct) units *)
  Lemma optimize_locations_closes : forall rest st o st',
    good_ (cur _ st) -> NoDup rest -> (forall u, In u rest -> In u units) ->
    (forall u s, In u rest -> good_ s -> negative u s = true -> unit_searchable u s) ->
    (forall u, In u rest -> (gap u (cur _ st) < 0)%Q) ->
    optimize_locations spec ev localize reinit enforced best boost opt_heuristic
      cfg space cs [obj] obj rest st = (o, st') ->
    o = ODone /\ good_ (cur _ st') /\ rng _ st' = rng _ st /\
    (forall u, In u rest -> (gap u (cur _ st') == 0)%Q) /\
    (forall v, In v units -> ~ In v rest -> (gap v (cur _ st') == gap v (cur _ st))%Q).
  Proof.
    induction rest as [|u rest IH]; intros st o st' Hg Hnd Hsub Hloc_ Hneg H.
    - simpl in H. inversion H; subst.
      split; [reflexivity|]. split; [exact Hg|]. split; [reflexivity|].
      split; [intros u [] | intros; reflexivity].
    - cbn [optimize_locations] in H.
      assert (Hu : In u units) by (apply Hsub; left; reflexivity).
      assert (Hn : negative u (cur _ st) = true) by (apply negative_lt, Hneg; left; reflexivity).
      pose proof (Hloc_ u (cur _ st) (or_introl eq_refl) Hg Hn) as HL. unfold unit_searchable in HL. cbv zeta in HL.
      destruct HL as (Hsz & Hth & a & b & ol & vs & Hspan & Hla & Hbl & Hloc &
                      (Hboost & Hbest & Hub & Hev) & Hvs & Hex).
      apply Z.eqb_neq in Hsz. rewrite Hsz in H. rewrite Hspan in H.
      destruct (localize_all_skipped cs (mkLoc a b 0) (cur _ st) (fun c Hc => Hc))
        as (lcs & Elcs & Henf).
      rewrite Elcs in H.
      cbn [filter] in H. rewrite boost_obj_nonzero in H. cbn [negb localize_all] in H.
      rewrite Hloc in H. rewrite no_heuristic in H.
      apply Z.ltb_lt in Hth. rewrite Hth in H. cbn [map] in H.
      match type of H with context [let '(o, lst) := ?X in _] => destruct X as [o1 lst] eqn:Eloc end.
      destruct (exhaustive_local_step u (cur _ st) (rng _ st) lcs a b (reinit true ol (cur _ st)) vs o1 lst
                  Hu Hg Hspan Hla Hbl Hboost Hbest Hub Hev Hvs Hex Henf Eloc)
        as (Ho1 & Hr1 & Hg1 & Hgu & Hoth).
      subst o1.
      inversion Hnd as [|x l Hnotin Hnd']; subst x l.
      apply IH in H.
      + cbn [assign cur rng] in H. destruct H as (Ho & Hg' & Hr' & Hclosed & Hkeep).
        split; [exact Ho|]. split; [exact Hg'|]. split; [rewrite Hr'; exact Hr1|]. split.
        * intros v [E|Hv]; [subst v | apply Hclosed; exact Hv].
          rewrite (Hkeep u Hu Hnotin). exact Hgu.
        * intros v Hv Hnin.
          rewrite (Hkeep v Hv (fun Hi => Hnin (or_intror Hi))).
          apply Hoth; [exact Hv|]. intro E. apply Hnin. left. symmetry. exact E.
      + cbn [assign cur]. exact Hg1.
      + exact Hnd'.
      + intros v Hv. apply Hsub. right. exact Hv.
      + intros v s0 Hv. apply Hloc_. right. exact Hv.
      + intros v Hv. cbn [assign cur].
        assert (Hvu : v <> u) by (intro E; subst v; contradiction).
        rewrite (Hoth v (Hsub v (or_intror Hv)) Hvu). apply Hneg. right. exact Hv.
  Qed.

  (* general forms: the local-search premise is only needed for the units that are sub-optimal at
     the start (the only ones the optimiser ever visits) *)
  Theorem optimize_objective_closes_initially_open_gaps : forall st o st',
    state_good spec space n st ->
    snd (ev obj (cur _ st)) = Some (filter (fun u => negative u (cur _ st)) units) ->
    (forall u s, In u units -> negative u (cur _ st) = true -> good_ s -> negative u s = true ->
                 unit_searchable u s) ->
    optimize_objective spec ev localize reinit enforced best boost opt_heuristic cfg space cs [obj] obj st = (o, st') ->
    o = ODone /\ good_ (cur _ st') /\ (fst (ev obj (cur _ st')) == 0)%Q /\
    (forall u, In u units -> (gap u (cur _ st') == 0)%Q) /\
    rng _ st' = rng _ st.
  Proof.
    intros st o st' [Hg _] Hls Hlocal H. unfold optimize_objective in H.
    destruct (evaluate spec ev obj st) as [e st1] eqn:E.
    apply evaluate_spec in E. destruct E as (He & Hc1 & Hr1).
    pose proof (ev_score (cur _ st) Hg) as Hsc.
    rewrite best_obj in H. subst e.
    destruct (Qeq_bool (fst (ev obj (cur _ st))) 0) eqn:Eq.
    - inversion H; subst o st'. apply Qeq_bool_iff in Eq. rewrite Hc1.
      split; [reflexivity|]. split; [exact Hg|]. split; [exact Eq|]. split; [|exact Hr1].
      apply gsum_zero_each. fold (qsum_gaps (cur _ st)). rewrite <- Hsc. exact Eq.
    - rewrite Hls in H.
      apply optimize_locations_closes in H.
      + destruct H as (Ho & Hg' & Hr' & Hclosed & Hkeep).
        assert (Hall : forall u, In u units -> (gap u (cur _ st') == 0)%Q).
        { intros u Hu. destruct (negative u (cur _ st)) eqn:En.
          - apply Hclosed. apply filter_In. split; [exact Hu | exact En].
          - rewrite Hkeep; [|exact Hu|].
            + rewrite Hc1. pose proof (gap_nonpos u (cur _ st)) as Hle.
              destruct (Qlt_le_dec (gap u (cur _ st)) 0) as [Hlt|Hge]; [|lra].
              apply negative_lt in Hlt. congruence.
            + intro Hin. apply filter_In in Hin. destruct Hin as [_ Hin]. congruence. }
        split; [exact Ho|]. split; [exact Hg'|]. split; [|split; [exact Hall | rewrite Hr'; exact Hr1]].
        pose proof (ev_score (cur _ st') Hg') as Hsc'. rewrite Hsc'.
        unfold qsum_gaps. apply gsum_all_zero. exact Hall.
      + rewrite Hc1. exact Hg.
      + apply NoDup_filter. exact units_NoDup.
      + intros u Hin. apply filter_In in Hin. exact (proj1 Hin).
      + intros u s Hin. apply filter_In in Hin. apply Hlocal; tauto.
      + intros u Hin. apply filter_In in Hin. rewrite Hc1. apply negative_lt. exact (proj2 Hin).
  Qed.

  Theorem optimize_closes_initially_open_gaps : forall passive st o st',
    passive obj = false ->
    state_good spec space n st ->
    snd (ev obj (cur _ st)) = Some (filter (fun u => negative u (cur _ st)) units) ->
    (forall u s, In u units -> negative u (cur _ st) = true -> good_ s -> negative u s = true ->
                 unit_searchable u s) ->
    optimize spec ev localize reinit enforced best boost passive opt_heuristic cfg space cs [obj] st = (o, st') ->
    o = ODone /\ good_ (cur _ st') /\ (fst (ev obj (cur _ st')) == 0)%Q /\
    (forall u, In u units -> (gap u (cur _ st') == 0)%Q).
  Proof.
    intros passive st o st' Hp Hg Hls Hlocal H. unfold optimize in H.
    cbn [filter] in H. rewrite Hp, boost_obj_nonzero in H. cbn [negb andb optimize_each] in H.
    destruct (optimize_objective spec ev localize reinit enforced best boost opt_heuristic
                cfg space cs [obj] obj st) as [o1 st1] eqn:E1.
    destruct (optimize_objective_closes_initially_open_gaps st o1 st1 Hg Hls Hlocal E1)
      as (Ho1 & Hg1 & Hs1 & Hall & _).
    subst o1. inversion H; subst o st'.
    split; [reflexivity|]. split; [exact Hg1|]. split; [exact Hs1 | exact Hall].
  Qed.

  (* ------------------------------------------------------------------------------------ *)
  (* ... and the sequence is left untouched outside the units that were visited *)
  Definition same_outside (rest : list loc) (s t : dna) : Prop :=
    forall i, 0 <= i -> (forall u, In u rest -> ~ (lstart u <= i < lend u)) ->
      nth_error t (Z.to_nat i) = nth_error s (Z.to_nat i).

  Lemma exhaustive_local_step_outside : forall u s r lcs a b ol' vs lst,
    good_ s ->
    choices_span (ms_localized space (lstart u) (lend u)) = Some (a, b) ->
    all_variants (ms_localized space (lstart u) (lend u)) s = Some vs ->
    optimize_exhaustive spec ev enforced best boost
      (mkLP spec None (map (fun c => reinit false c s) lcs) [ol']
            (ms_localized space (lstart u) (lend u)))
      (mkState spec s r []) = (ODone, lst) ->
    forall i, 0 <= i -> ~ (a <= i < b) -> nth_error (cur _ lst) (Z.to_nat i) = nth_error s (Z.to_nat i).
  Proof.
    intros u s r lcs a b ol' vs lst Hg Hspan Hvs H i Hi Hni.
    set (lspace := ms_localized space (lstart u) (lend u)) in *.
    set (lp := mkLP spec None (map (fun c => reinit false c s) lcs) [ol'] lspace) in *.
    destruct (optimize_exhaustive_spec spec ev enforced best boost lp (mkState spec s r []) vs ODone lst Hvs H)
      as (_ & _ & Hdone).
    destruct (Hdone eq_refl) as (_ & Hin & _). cbn [cur] in Hin.
    destruct Hin as [E|Hin]; [rewrite E; reflexivity|].
    apply (all_variants_outside_span lspace s vs a b (cur _ lst) i); try assumption.
    - apply localized_wf_choices. exact space_wf.
    - apply localized_member. exact (proj2 Hg).
    - intros c Hc. destruct Hg as [Hn _]. rewrite Hn. eapply localized_fits; eauto.
  Qed.

  Lemma optimize_locations_outside : forall rest st o st',
    good_ (cur _ st) -> NoDup rest -> (forall u, In u rest -> In u units) ->
    (forall u s, In u rest -> good_ s -> negative u s = true -> unit_searchable u s) ->
    (forall u, In u rest -> (gap u (cur _ st) < 0)%Q) ->
    optimize_locations spec ev localize reinit enforced best boost opt_heuristic
      cfg space cs [obj] obj rest st = (o, st') ->
    same_outside rest (cur _ st) (cur _ st').
  Proof.
    induction rest as [|u rest IH]; intros st o st' Hg Hnd Hsub Hloc_ Hneg H.
    - simpl in H. inversion H; subst. intros i _ _. reflexivity.
    - cbn [optimize_locations] in H.
      assert (Hu : In u units) by (apply Hsub; left; reflexivity).
      assert (Hn : negative u (cur _ st) = true) by (apply negative_lt, Hneg; left; reflexivity).
      pose proof (Hloc_ u (cur _ st) (or_introl eq_refl) Hg Hn) as HL. unfold unit_searchable in HL. cbv zeta in HL.
      destruct HL as (Hsz & Hth & a & b & ol & vs & Hspan & Hla & Hbl & Hloc &
                      (Hboost & Hbest & Hub & Hev) & Hvs & Hex).
      apply Z.eqb_neq in Hsz. rewrite Hsz in H. rewrite Hspan in H.
      destruct (localize_all_skipped cs (mkLoc a b 0) (cur _ st) (fun c Hc => Hc))
        as (lcs & Elcs & Henf).
      rewrite Elcs in H.
      cbn [filter] in H. rewrite boost_obj_nonzero in H. cbn [negb localize_all] in H.
      rewrite Hloc in H. rewrite no_heuristic in H.
      apply Z.ltb_lt in Hth. rewrite Hth in H. cbn [map] in H.
      match type of H with context [let '(o, lst) := ?X in _] => destruct X as [o1 lst] eqn:Eloc end.
      destruct (exhaustive_local_step u (cur _ st) (rng _ st) lcs a b (reinit true ol (cur _ st)) vs o1 lst
                  Hu Hg Hspan Hla Hbl Hboost Hbest Hub Hev Hvs Hex Henf Eloc)
        as (Ho1 & Hr1 & Hg1 & Hgu & Hoth).
      subst o1.
      pose proof (exhaustive_local_step_outside u (cur _ st) (rng _ st) lcs a b (reinit true ol (cur _ st)) vs lst
                    Hg Hspan Hvs Eloc) as Hout1.
      inversion Hnd as [|x l Hnotin Hnd']; subst x l.
      apply IH in H.
      + cbn [assign cur] in H. intros i Hi Hnc. rewrite (H i Hi).
        * apply Hout1; [exact Hi|]. intro Hab. apply (Hnc u (or_introl eq_refl)). lia.
        * intros v Hv. apply Hnc. right. exact Hv.
      + cbn [assign cur]. exact Hg1.
      + exact Hnd'.
      + intros v Hv. apply Hsub. right. exact Hv.
      + intros v s0 Hv. apply Hloc_. right. exact Hv.
      + intros v Hv. cbn [assign cur].
        assert (Hvu : v <> u) by (intro E; subst v; contradiction).
        rewrite (Hoth v (Hsub v (or_intror Hv)) Hvu). apply Hneg. right. exact Hv.
  Qed.

  Theorem optimize_objective_outside : forall st o st',
    state_good spec space n st ->
    snd (ev obj (cur _ st)) = Some (filter (fun u => negative u (cur _ st)) units) ->
    (forall u s, In u units -> negative u (cur _ st) = true -> good_ s -> negative u s = true ->
                 unit_searchable u s) ->
    optimize_objective spec ev localize reinit enforced best boost opt_heuristic cfg space cs [obj] obj st = (o, st') ->
    same_outside (filter (fun u => negative u (cur _ st)) units) (cur _ st) (cur _ st').
  Proof.
    intros st o st' [Hg _] Hls Hlocal H. unfold optimize_objective in H.
    destruct (evaluate spec ev obj st) as [e st1] eqn:E.
    apply evaluate_spec in E. destruct E as (He & Hc1 & Hr1).
    rewrite best_obj in H. subst e.
    destruct (Qeq_bool (fst (ev obj (cur _ st))) 0) eqn:Eq.
    - inversion H; subst o st'. rewrite Hc1. intros i _ _. reflexivity.
    - rewrite Hls in H. rewrite <- Hc1.
      apply optimize_locations_outside in H.
      + rewrite Hc1 in *. exact H.
      + rewrite Hc1. exact Hg.
      + apply NoDup_filter. exact units_NoDup.
      + intros u Hin. apply filter_In in Hin. exact (proj1 Hin).
      + intros u s Hin. apply filter_In in Hin. apply Hlocal; tauto.
      + intros u Hin. apply filter_In in Hin. rewrite Hc1. apply negative_lt. exact (proj2 Hin).
  Qed.

  Theorem optimize_outside_initially_open_gaps : forall passive st o st',
    passive obj = false ->
    state_good spec space n st ->
    snd (ev obj (cur _ st)) = Some (filter (fun u => negative u (cur _ st)) units) ->
    (forall u s, In u units -> negative u (cur _ st) = true -> good_ s -> negative u s = true ->
                 unit_searchable u s) ->
    optimize spec ev localize reinit enforced best boost passive opt_heuristic cfg space cs [obj] st = (o, st') ->
    same_outside (filter (fun u => negative u (cur _ st)) units) (cur _ st) (cur _ st').
  Proof.
    intros passive st o st' Hp Hg Hls Hlocal H. unfold optimize in H.
    cbn [filter] in H. rewrite Hp, boost_obj_nonzero in H. cbn [negb andb optimize_each] in H.
    destruct (optimize_objective spec ev localize reinit enforced best boost opt_heuristic
                cfg space cs [obj] obj st) as [o1 st1] eqn:E1.
    pose proof (optimize_objective_outside st o1 st1 Hg Hls Hlocal E1) as Hout.
    destruct (optimize_objective_closes_initially_open_gaps st o1 st1 Hg Hls Hlocal E1)
      as (Ho1 & _).
    subst o1. inversion H; subst o st'. exact Hout.
  Qed.

  (* ------------------------------------------------------------------------------------ *)
  (* the original forms: every sub-optimal unit can be searched locally *)
  Hypothesis unit_local : forall u s, In u units -> good_ s -> negative u s = true ->
    let lspace := ms_localized space (lstart u) (lend u) in
    space_size_exact lspace <> 0 /\
    space_size_exact lspace < st_threshold cfg /\
    exists a b ol vs,
      choices_span lspace = Some (a, b) /\ lstart u <= a /\ b <= lend u /\
      localize obj (mkLoc a b 0) true s = LSome ol /\
      (let ol' := reinit true ol s in
       boost ol' = boost obj /\ (best ol' = Some 0%Q \/ best ol' = None) /\
       (best ol' = Some 0%Q -> forall t, good_ t -> agree_out a b s t -> (fst (ev ol' t) <= 0)%Q) /\
       forall t, good_ t -> agree_out a b s t ->
         (fst (ev ol' t) - fst (ev ol' s) == gap u t - gap u s)%Q) /\
      all_variants lspace s = Some vs /\
      exists t, In t vs /\ (gap u t == 0)%Q.

  Theorem optimize_objective_closes_every_gap : forall st o st',
    state_good spec space n st ->
    snd (ev obj (cur _ st)) = Some (filter (fun u => negative u (cur _ st)) units) ->
    optimize_objective spec ev localize reinit enforced best boost opt_heuristic cfg space cs [obj] obj st = (o, st') ->
    o = ODone /\ good_ (cur _ st') /\ (fst (ev obj (cur _ st')) == 0)%Q /\
    (forall u, In u units -> (gap u (cur _ st') == 0)%Q) /\
    rng _ st' = rng _ st.
  Proof.
    intros st o st' Hg Hls H.
    apply (optimize_objective_closes_initially_open_gaps st o st' Hg Hls); [|exact H].
    intros u s Hu _ Hgs Hn. exact (unit_local u s Hu Hgs Hn).
  Qed.

  (* and therefore optimize() with this single objective *)
  Theorem optimize_reaches_best_of_separable_objective : forall passive st o st',
    passive obj = false ->
    state_good spec space n st ->
    snd (ev obj (cur _ st)) = Some (filter (fun u => negative u (cur _ st)) units) ->
    optimize spec ev localize reinit enforced best boost passive opt_heuristic cfg space cs [obj] st = (o, st') ->
    o = ODone /\ good_ (cur _ st') /\ (fst (ev obj (cur _ st')) == 0)%Q.
  Proof.
    intros passive st o st' Hp Hg Hls H.
    destruct (optimize_closes_initially_open_gaps passive st o st' Hp Hg Hls) as (H1 & H2 & H3 & _);
      [|exact H|auto].
    intros u s Hu _ Hgs Hn. exact (unit_local u s Hu Hgs Hn).
  Qed.
End SolverE.
