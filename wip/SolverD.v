(* Solver lemmas, part D (C02): optimize() and its building blocks never trade a satisfied
   constraint for score, given that every constraint's localization is sound (the C08 law) and
   that constraints flagged enforced_by_nucleotide_restrictions are guarded by the mutation space. *)
From Coq Require Import ZArith QArith Bool List Lia Sorting.Sorted.
From DC Require Import Model.Base Model.Loc Model.MSpace Model.Solver
                       Proofs.MSpaceDefs Proofs.MSpaceA Proofs.MSpaceB Proofs.MSpaceC Proofs.SolverA Proofs.SolverB.
Import ListNotations.
Open Scope Z_scope.

Section SolverD.
  Variable spec : Type.
  Variable spec_eqb : spec -> spec -> bool.
  Variable ev : spec -> dna -> Q * option (list loc).
  Variable localize : spec -> loc -> bool -> dna -> lres spec.
  Variable accepts_rh : spec -> bool.
  Variable reinit : bool -> spec -> dna -> spec.
  Variable enforced : spec -> bool.
  Variable priority : spec -> Z.
  Variable best : spec -> option Q.
  Variable boost : spec -> Q.
  Variable passive : spec -> bool.
  Variable heuristic : spec -> option (settings -> lproblem spec -> state spec -> outcome * state spec).
  Variable opt_heuristic : spec -> option (settings -> lproblem spec -> state spec -> outcome * state spec).

  Notation optimize :=
    (optimize spec ev localize reinit enforced best boost passive opt_heuristic).
  Notation optimize_objective :=
    (optimize_objective spec ev localize reinit enforced best boost opt_heuristic).
  Notation optimize_exhaustive := (optimize_exhaustive spec ev enforced best boost).
  Notation optimize_random := (optimize_random spec ev enforced best boost).

  Variable space : mspace.
  Variable n : Z.
  Hypothesis space_wf : wf_space space.
  Hypothesis space_fits : forall c, In c (choices_list space) -> cend c <= n.

  Definition passes_c (c : spec) (s : dna) : Prop := passesq (fst (ev c s)) = true.
  Definition agree_out (a b : Z) (s s' : dna) : Prop :=
    zlen s = zlen s' /\
    forall i, 0 <= i -> ~ (a <= i < b) -> nth_error s (Z.to_nat i) = nth_error s' (Z.to_nat i).

  (* soundness of a constraint's localization, as the optimiser relies on it: c passes on s; s' is a
     usable sequence that differs from s only inside [a,b); then if the localized, re-initialised
     constraint is either skipped because flagged enforced, or passes on s', c passes on s'.
     (For built-ins: flagged enforced => guaranteed by membership in the space, C04; otherwise C08.) *)
  Definition sound (c : spec) : Prop :=
    forall a b s s', 0 <= a -> a < b -> b <= n ->
      good space n s -> good space n s' -> agree_out a b s s' -> passes_c c s ->
      match localize c (mkLoc a b 0) true s with
      | LSome c' => let c'' := reinit false c' s in
                    (enforced c'' = false -> passes_c c'' s') -> passes_c c s'
      | LNone => passes_c c s'
      | LError => True
      end.

  Theorem optimize_keeps_constraints : forall cfg cs objs st o st',
    (forall ob, In ob objs -> opt_heuristic ob = None) ->
    (forall c, In c cs -> sound c) ->
    state_good spec space n st ->
    (forall c, In c cs -> passes_c c (cur _ st)) ->
    optimize cfg space cs objs st = (o, st') ->
    forall c, In c cs -> passes_c c (cur _ st').
  Proof.
  Admitted.

  Theorem optimize_objective_keeps_constraints : forall cfg cs objs ob st o st',
    opt_heuristic ob = None ->
    (forall c, In c cs -> sound c) ->
    state_good spec space n st ->
    (forall c, In c cs -> passes_c c (cur _ st)) ->
    optimize_objective cfg space cs objs ob st = (o, st') ->
    forall c, In c cs -> passes_c c (cur _ st').
  Proof.
  Admitted.

  (* the direct searches on the problem itself: accepted candidates pass every non-enforced
     constraint by construction; enforced ones must be guarded by the space *)
  Theorem direct_optimizers_keep_constraints : forall cfg (p : lproblem spec) st o st',
    lp_space _ p = space -> state_good spec space n st ->
    (forall c t, In c (lp_constraints _ p) -> enforced c = true -> good space n t -> passes_c c t) ->
    (forall c, In c (lp_constraints _ p) -> passes_c c (cur _ st)) ->
    (optimize_exhaustive p st = (o, st') \/ optimize_random cfg p st = (o, st')) ->
    forall c, In c (lp_constraints _ p) -> passes_c c (cur _ st').
  Proof.
  Admitted.
End SolverD.
