(* C10, third series: what the scores of UniquifyAllKmers (global form) and AvoidHairpins count. *)
From Coq Require Import ZArith QArith Bool List Lia Ascii String.
From DC Require Import Model.Base Model.Loc Model.Bio Model.Pattern Model.MSpace Model.Specs
                       Proofs.SpecsDefs Proofs.SpecsEval.
Import ListNotations.
Open Scope Z_scope.

(* UniquifyAllKmers, evaluated globally: the score is minus the number of window starts i of the
   reference span whose k-mer lies inside the specification's own location and occurs at least twice
   among the k-mers of the reference span (as written or, with include_rc, in canonical form); it passes
   iff every k-mer of the location is unique in the reference; one breach location (i, i+k) per such start *)
Theorem uniquify_global_meaning : forall k l ref irc s, 1 <= k ->
  let e := eval_uniquify_global k l ref irc s in
  let starts := zrange (lstart ref) (lend ref - k + 1) in
  let repeated i := 2 <=? count_dna (kmer_at s irc k i) (map (kmer_at s irc k) starts) in
  let inside i := (lstart l <=? i) && (i + k <=? lend l) in
  score e = zq (- zlen (filter (fun i => repeated i && inside i) starts)) /\
  (passes e = true <-> forall i, In i starts -> inside i = true -> repeated i = false) /\
  locs e = Some (map (fun i => mkLoc i (i + k) 0) (filter (fun i => repeated i && inside i) starts)).
Admitted.

(* a stem starting at offset i of the segment has a reverse-complement partner within the window:
   some offset j with i + stem <= j, j + stem <= min(n, i + window), whose word is the reverse
   complement of the stem word *)
Definition hairpin_at (stem window : Z) (sub : dna) (i : Z) : bool :=
  existsb (fun j => seq_eqb (slice sub j (j + stem)) (rc (slice sub i (i + stem))))
          (zrange (i + stem) (Z.min (zlen sub) (i + window) - stem + 1)).

(* AvoidHairpins: score = minus the number of stem starts with a partner in the window; passes iff none *)
Theorem hairpins_meaning : forall stem window l s, 1 <= stem -> 2 * stem <= window ->
  0 <= lstart l -> lstart l <= lend l -> lend l <= zlen s ->
  let e := eval_hairpins stem window l s in
  let sub := extract l s in
  let starts := filter (hairpin_at stem window sub) (zrange 0 (zlen sub - stem)) in
  score e = zq (- zlen starts) /\
  (passes e = true <-> starts = []).
Admitted.
