(* C15 lemmas, part A: in_space, localized, constrain_sequence, space size. *)
From Coq Require Import ZArith Bool List Lia Sorting.Sorted.
From DC Require Import Model.Base Model.Loc Model.MSpace Proofs.MSpaceDefs.
Import ListNotations.
Open Scope Z_scope.

Theorem in_space_member : forall ms t, in_space ms t = true <-> member ms t.
Proof.
Admitted.

(* localized(location) keeps exactly the choices whose segment meets [a, b) *)
Theorem localized_keeps_overlapping : forall ms a b c, wf_space ms -> 0 <= a -> a <= b ->
  (In c (choices_list (ms_localized ms a b)) <->
   In c (choices_list ms) /\ Z.max a (cstart c) < Z.min b (cend c)).
Proof.
Admitted.

(* the frozen case: size 0 exactly when there is no multi-variant choice, i.e. exactly when
   choices_span is None (the solver relies on this before unpacking choices_span) *)
Theorem space_size_zero_iff_no_span : forall ms,
  (forall c, In c (choices_list ms) -> 0 <= nvariants c) ->
  (space_size_exact ms = 0 <-> choices_span ms = None).
Proof.
Admitted.

Theorem space_size_is_product : forall ms, multichoices ms <> [] ->
  space_size_exact ms = fold_right Z.mul 1 (map nvariants (multichoices ms))
  /\ 2 ^ (zlen (multichoices ms)) <= space_size_exact ms.
Proof.
Admitted.

(* constrain_sequence: result is in the space, touches only the segments of choices that did not
   already hold, and a second call changes nothing and draws nothing *)
Theorem constrain_sequence_spec : forall ms s r s' r',
  wf_space ms -> (forall c, In c (choices_list ms) -> cend c <= zlen s) ->
  constrain_sequence ms s r = COk s' r' ->
  member ms s' /\ zlen s' = zlen s /\
  (forall i, 0 <= i -> nth_error s' (Z.to_nat i) <> nth_error s (Z.to_nat i) ->
     exists c, In c (choices_list ms) /\ cstart c <= i < cend c /\ ~ holds c s) /\
  (forall r2, constrain_sequence ms s' r2 = COk s' r2).
Proof.
Admitted.

(* unsolvable is raised exactly when some choice has no variant, whatever the stream *)
Theorem constrain_unsolvable_exact : forall ms s r,
  (exists c, In c (choices_list ms) /\ cvariants c = []) ->
  (exists a b, constrain_sequence ms s r = CUnsolvable a b) \/ constrain_sequence ms s r = COutOfStream.
Proof.
Admitted.

Theorem constrain_no_unsolvable : forall ms s r a b,
  constrain_sequence ms s r = CUnsolvable a b ->
  exists c, In c (choices_list ms) /\ cvariants c = [] /\ cstart c = a /\ cend c = b.
Proof.
Admitted.
