(* C07, end to end for MaximizeCAI (model of the built-in class) on the forward strand: optimize() on
   a problem whose only objective is MaximizeCAI, next to constraints whose local copies are skipped
   as enforced by nucleotide restrictions (EnforceTranslation), ends with EVERY codon a most-frequent
   synonym - provided the local mutation space of each reported block of sub-optimal codons can be
   searched exhaustively and contains the per-codon optimum (the mutation-space side; for the
   synonymous-codon space of EnforceTranslation this is C07(i) + C04). *)
From Coq Require Import ZArith QArith Bool List Lia Lqa.
From DC Require Import Model.Base Model.Loc Model.Bio Model.Pattern Model.MSpace Model.Specs Model.Solver
                       Proofs.MSpaceDefs Proofs.SpecsDefs Proofs.SpecsCodon
                       Proofs.SolverA Proofs.SolverB Proofs.SolverC Proofs.SolverE Proofs.Builtins.
Import ListNotations.
Open Scope Z_scope.

(* codon i of the coding region l of sequence t is a most-frequent synonym *)
Definition codon_best (lf lb : list (dna * Q)) (l : loc) (t : dna) (i : Z) : Prop :=
  exists f b, qassoc (codon_of l t i) lf = Some f /\ qassoc (codon_of l t i) lb = Some b /\ (f == b)%Q.

(* the mutation-space side, for one reported block B at a good sequence s *)
Definition block_searchable (space : mspace) (n : Z) (cfg : settings) (lf lb : list (dna * Q)) (l B : loc) (s : dna) : Prop :=
  let lspace := ms_localized space (lstart B) (lend B) in
  space_size_exact lspace <> 0 /\
  space_size_exact lspace < st_threshold cfg /\
  exists a b vs,
    choices_span lspace = Some (a, b) /\ lstart B <= a /\ b <= lend B /\
    all_variants lspace s = Some vs /\
    exists t, In t vs /\
      forall i, 0 <= i < loc_len l / 3 ->
        lstart B <= lstart (codon_loc l i) -> lend (codon_loc l i) <= lend B -> codon_best lf lb l t i.

Theorem cai_optimize_reaches_every_codon_best_partial :
  forall (lf lb : list (dna * Q)) (l : loc) (space : mspace) (n : Z) (cfg : settings) (cs : list spec)
         (enforced passive : spec -> bool) st o st',
    wf_space space -> (forall c, In c (choices_list space) -> cend c <= n) ->
    wf_spec (SMaximizeCAI lf lb l) n -> lstrand l = 1 ->
    (forall c f b, qassoc c lf = Some f -> qassoc c lb = Some b -> (f <= b)%Q) ->
    (forall c w s, In c cs ->
       match Specs.localized c w true s with
       | LSome c' => enforced c' = true
       | LNone => True
       | LError => False
       end) ->
    passive (SMaximizeCAI lf lb l) = false ->
    state_good spec space n st ->
    (forall e B s, Specs.evaluate (SMaximizeCAI lf lb l) (cur _ st) = Some e ->
       In B (match locs e with Some ls => ls | None => [] end) -> good space n s ->
       block_searchable space n cfg lf lb l B s) ->
    optimize spec b_ev Specs.localized b_reinit enforced (fun _ => Some 0%Q) b_boost passive (fun _ => None)
             cfg space cs [SMaximizeCAI lf lb l] st = (o, st') ->
    o = ODone /\ good space n (cur _ st') /\
    forall i, 0 <= i < loc_len l / 3 -> codon_best lf lb l (cur _ st') i.
Proof.
Admitted.
