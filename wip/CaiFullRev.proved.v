(* C07 end to end on the REVERSE strand: same statement as Proofs/CaiFull.v with lstrand l = -1. *)
From Coq Require Import ZArith QArith Bool List Lia Lqa Ascii String.
From DC Require Import Model.Base Model.Loc Model.Bio Model.Pattern Model.MSpace Model.Specs Model.Solver
                       Generated.GenTables
                       Proofs.MSpaceDefs Proofs.MSpaceA Proofs.MSpaceB Proofs.MSpaceC Proofs.MSpaceD Proofs.MSpaceE
                       Proofs.SpecsDefs Proofs.BioA Proofs.SpecsCodon
                       Proofs.SolverA Proofs.SolverB Proofs.SolverC Proofs.SolverE Proofs.Builtins Proofs.CaiEnd
                       Proofs.TranslationSpace Proofs.CaiFull
                       Proofs.CaiEndRev Proofs.TranslationSpaceRev.
Import ListNotations.
Open Scope Z_scope.

Theorem cai_optimize_end_to_end_reverse_strand :
  forall (name : string) (T : gtable) (lf lb : list (dna * Q)) (l : loc) (tr : astr) (s0 : dna)
         (cfg : settings) (passive : spec -> bool) st o st',
    In (name, T) genetic_tables -> no_dual_stop T = true ->
    wf_spec (SMaximizeCAI lf lb l) (zlen s0) -> lstrand l = -1 ->
    loc_len l = 3 * zlen tr -> 1 <= zlen tr ->
    tables_consistent T lf lb ->
    64 < st_threshold cfg ->
    let space := from_constraints s0 (restrict_nucleotides (STranslation T l tr StartNone) false s0) in
    passive (SMaximizeCAI lf lb l) = false ->
    state_good spec space (zlen s0) st ->
    optimize spec b_ev Specs.localized b_reinit tr_enforced (fun _ => Some 0%Q) b_boost passive (fun _ => None)
             cfg space [STranslation T l tr StartNone] [SMaximizeCAI lf lb l] st = (o, st') ->
    o = ODone /\
    translate T (extract l (cur _ st')) = Some tr /\
    (forall i, 0 <= i < loc_len l / 3 -> codon_best lf lb l (cur _ st') i) /\
    zlen (cur _ st') = zlen s0 /\
    (forall i, 0 <= i -> ~ (lstart l <= i < lend l) ->
       nth_error (cur _ st') (Z.to_nat i) = nth_error (cur _ st) (Z.to_nat i)).
Proof.
  intros name T lf lb l tr s0 cfg passive st o st' HT Hnd Hspec Hs Hlen Hne Htab Hth space Hpas Hst Hopt.
  pose proof Hspec as (Hl & Hmod & Htf & Htb).
  destruct Htab as [Hfb Hbest].
  set (n := zlen s0) in *. set (k := zlen tr) in *.
  destruct (rtspace_wf name T l tr s0 HT Hnd Hl Hs Hlen Hne) as [Hwf Hfit]. fold space in Hwf, Hfit.
  (* replacing codon i by a most-frequent synonym *)
  assert (Hswap : forall s i, good space n s -> 0 <= i < k ->
            exists t, good space n t /\ codon_best lf lb l t i /\
              (forall p, 0 <= p -> ~ (lend l - 3 * i - 3 <= p < lend l - 3 * i) ->
                 nth_error t (Z.to_nat p) = nth_error s (Z.to_nat p))).
  { intros s i Hg Hi.
    destruct (rgood_codon_aa name T l tr s0 HT Hnd Hl Hs Hlen Hne s i Hg Hi) as [aa Haa].
    destruct (codon_three_any l s k i) as (x & y & z & E);
      [rewrite (proj1 Hg); exact Hl | exact Hlen | exact Hi|].
    rewrite E in Haa. destruct (Hbest x y z aa Haa) as (c' & f & b & Hc' & Hl3 & Hf & Hb & Hfb').
    destruct (rcodon_swap name T l tr s0 HT Hnd Hl Hs Hlen Hne s i c' Hg Hi Hl3) as (Hgt & Hci & Hout).
    { rewrite E, Haa. exact Hc'. }
    eexists. split; [exact Hgt|]. split; [|exact Hout].
    exists f, b. rewrite Hci. split; [exact Hf|]. split; [exact Hb | exact Hfb']. }
  destruct (cai_optimize_reaches_every_codon_best_outside_partial_rev lf lb l space n cfg
              [STranslation T l tr StartNone] tr_enforced passive st o st' Hwf Hfit Hspec Hs Hfb)
    as (Ho & Hg & Hall & Hout).
  - intros c w s [E|[]]. subst c. unfold Specs.localized. cbn [localized_raw].
    destruct (codon_window l w) as [[[nl sc] ec]|]; [reflexivity | exact I].
  - exact Hpas.
  - exact Hst.
  - intros e B s He HB Hgs.
    destruct (rcai_score_locs lf lb Htf Htb Hfb l (cur _ st) k) as (e' & He' & _ & Hlocs);
      [rewrite (proj1 (proj1 Hst)); exact Hl | exact Hlen | unfold k; lia | exact Hs|].
    rewrite He in He'. inversion He'; subst e'. rewrite Hlocs in HB.
    apply filter_In in HB. destruct HB as [HBu HBneg].
    destruct (rcai_units_In l k B Hlen ltac:(unfold k; lia) HBu) as (i & Hi & E1 & E2).
    destruct (Hswap (cur _ st) i (proj1 Hst) Hi) as (t1 & Hgt1 & Hb1 & Hout1).
    assert (Hne1 : cur _ st <> t1).
    { intro E. rewrite <- E in Hb1. destruct Hb1 as (f & b & Hf & Hb & Hfb').
      unfold negative in HBneg. rewrite (rugap_codon lf lb l B _ i Hs E1 E2) in HBneg.
      unfold cgap in HBneg. rewrite Hf, Hb in HBneg. apply negb_true_iff in HBneg.
      assert (Ht : Qle_bool 0 (- (b - f)) = true) by (apply Qle_bool_iff; lra). congruence. }
    destruct (Hswap s i Hgs Hi) as (t & Hgt & Hbt & Houtt).
    pose proof Hl as (L0 & L1 & L2 & _). unfold loc_len in Hlen. fold n in L2.
    destruct (window_searchable space n Hwf Hfit (lend l - 3 * i - 3) (lend l - 3 * i)
                ltac:(lia) ltac:(lia) ltac:(lia)
                (rtspace_closed name T l tr s0 HT Hnd Hl Hs Hlen Hne i Hi)
                (rtspace_covered name T l tr s0 HT Hnd Hl Hs Hlen Hne i Hi)
                (cur _ st) t1 s t (proj1 Hst) Hgt1 Hne1 Hout1 Hgs Hgt Houtt)
      as (Hsz & Hbd & x & y & vs & Hspan & Hx & Hy & Hvs & Hin).
    unfold block_searchable. cbv zeta. rewrite E1, E2.
    split; [exact Hsz|]. split.
    { replace (lend l - 3 * i - (lend l - 3 * i - 3)) with 3 in Hbd by lia.
      change (4 ^ 3) with 64 in Hbd. lia. }
    exists x, y, vs. split; [exact Hspan|]. split; [exact Hx|]. split; [exact Hy|]. split; [exact Hvs|].
    exists t. split; [exact Hin|].
    intros j Hj Hj1 Hj2. rewrite (codon_loc_rev l j Hs) in Hj1, Hj2. cbn [lstart lend] in Hj1, Hj2.
    assert (j = i) by lia. subst j. exact Hbt.
  - exact Hopt.
  - split; [exact Ho|]. split.
    { apply (rtspace_member name T l tr s0 HT Hnd Hl Hs Hlen Hne (cur _ st') (proj1 Hg)). exact (proj2 Hg). }
    split; [exact Hall|]. split; [exact (proj1 Hg) | exact Hout].
Qed.

Print Assumptions cai_optimize_end_to_end_reverse_strand.
