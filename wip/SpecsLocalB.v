(* C09 / C08 lemmas, part B: position-wise specifications (AvoidChanges, EnforceChanges,
   EnforceSequence) and the specifications whose localization is themselves. *)
From Coq Require Import ZArith QArith Qminmax Qabs Bool List Lia.
From DC Require Import Model.Base Model.Loc Model.Bio Model.Pattern Model.MSpace Model.Specs
                       Proofs.SpecsDefs Proofs.BioB.
Import ListNotations.
Open Scope Z_scope.

Theorem avoid_changes_laws : forall l idx tg me w s s',
  wf_spec (SAvoidChanges l idx tg me) (zlen s) -> window_in w (zlen s) -> agree_outside w s s' ->
  local_delta_law (SAvoidChanges l idx tg me) w s s' /\ local_pass_law (SAvoidChanges l idx tg me) w s s'.
Proof.
Admitted.

(* EnforceChanges: constraint mode (minimum set) localizes to itself unless amount_percent = 100;
   objective mode with amount_percent = 100 re-targets to the window length, which shifts the score
   by a constant that cancels in the difference *)
Theorem enforce_changes_laws : forall l idx ref mn am is100 w s s',
  wf_spec (SEnforceChanges l idx ref mn am is100) (zlen s) -> window_in w (zlen s) -> agree_outside w s s' ->
  (is100 = true -> mn = None /\ am = Some (zq (match idx with Some ix => zlen ix | None => loc_len l end))) ->
  local_delta_law (SEnforceChanges l idx ref mn am is100) w s s'.
Proof.
Admitted.

Theorem enforce_changes_pass : forall l idx ref mn am is100 w s s',
  wf_spec (SEnforceChanges l idx ref mn am is100) (zlen s) -> window_in w (zlen s) -> agree_outside w s s' ->
  is100 = false ->
  local_pass_law (SEnforceChanges l idx ref mn am is100) w s s'.
Proof.
Admitted.

Theorem enforce_sequence_laws : forall wd l w s s',
  wf_spec (SEnforceSequence wd l) (zlen s) -> window_in w (zlen s) -> agree_outside w s s' ->
  local_delta_law (SEnforceSequence wd l) w s s' /\ local_pass_law (SEnforceSequence wd l) w s s'.
Proof.
Admitted.

Theorem enforce_choice_laws : forall cs l w s s',
  local_delta_law (SEnforceChoice cs l) w s s' /\ local_pass_law (SEnforceChoice cs l) w s s'.
Proof.
Admitted.

Theorem length_laws : forall mn mx w s s', agree_outside w s s' ->
  local_delta_law (SLength mn mx) w s s' /\ local_pass_law (SLength mn mx) w s s'.
Proof.
Admitted.

(* EnforceTerminalGCContent: localization keeps the ends met by the window; the other ends do not
   change, so the score difference is the same; and a passing specification has every end passing *)
Theorem terminal_gc_laws : forall ws mini maxi ends w s s',
  wf_spec (STerminalGC ws mini maxi ends) (zlen s) -> window_in w (zlen s) -> agree_outside w s s' ->
  local_delta_law (STerminalGC ws mini maxi ends) w s s' /\ local_pass_law (STerminalGC ws mini maxi ends) w s s'.
Proof.
Admitted.

(* never-positive scores (C08 / C20) *)
Theorem avoid_changes_nonpos : forall l idx tg s e,
  evaluate (SAvoidChanges l idx tg 0) s = Some e -> (score e <= 0)%Q.
Proof.
Admitted.
Theorem enforce_changes_amount_nonpos : forall l idx ref am is100 s e,
  evaluate (SEnforceChanges l idx ref None (Some am) is100) s = Some e -> (score e <= 0)%Q.
Proof.
Admitted.
Theorem enforce_sequence_nonpos : forall wd l s, (score (eval_enforce_sequence wd l s) <= 0)%Q.
Proof.
Admitted.
Theorem enforce_choice_nonpos : forall cs l s, (score (eval_enforce_choice cs l s) <= 0)%Q.
Proof.
Admitted.
Theorem terminal_gc_nonpos : forall mini maxi ends s, (score (eval_terminal_gc mini maxi ends s) <= 0)%Q.
Proof.
Admitted.
Theorem length_nonpos : forall mn mx s, (score (eval_length mn mx s) <= 0)%Q.
Proof.
Admitted.
