(* Solver lemmas, part E (C07 core): optimize_objective drives a SEPARABLE objective to its best
   score.  An objective is separable over a list of disjoint units (codons) when its score is the sum
   of per-unit gaps (each <= 0, each depending only on the nucleotides of its unit), it reports the
   units with a negative gap as its breach locations, its localization to (the varying part of) a unit
   scores exactly that unit's gap, and the local mutation space of a sub-optimal unit can be searched
   exhaustively and contains a variant closing the gap.  Then optimize_objective ends with every
   gap closed (score = declared best 0), whatever the constraints skipped as "enforced by nucleotide
   restrictions".  MaximizeCAI / HarmonizeRCA next to EnforceTranslation are the instances. *)
From Coq Require Import ZArith QArith Bool List Lia Lqa Sorting.Sorted.
From DC Require Import Model.Base Model.Loc Model.MSpace Model.Solver
                       Proofs.MSpaceDefs Proofs.MSpaceA Proofs.MSpaceB Proofs.MSpaceC
                       Proofs.SolverA Proofs.SolverB Proofs.SolverC.
Import ListNotations.
Open Scope Z_scope.

Section SolverE.
  Variable spec : Type.
  Variable ev : spec -> dna -> Q * option (list loc).
  Variable localize : spec -> loc -> bool -> dna -> lres spec.
  Variable reinit : bool -> spec -> dna -> spec.
  Variable enforced : spec -> bool.
  Variable best : spec -> option Q.
  Variable boost : spec -> Q.
  Variable opt_heuristic : spec -> option (settings -> lproblem spec -> state spec -> outcome * state spec).
  Variable space : mspace.
  Variable n : Z.
  Hypothesis space_wf : wf_space space.
  Hypothesis space_fits : forall c, In c (choices_list space) -> cend c <= n.

  Notation good_ := (good space n).

  (* the separable objective *)
  Variable obj : spec.
  Variable units : list loc.
  Variable gap : loc -> dna -> Q.
  Variable cfg : settings.
  Variable cs : list spec.

  Definition qsum_gaps (s : dna) : Q := fold_right (fun u acc => (gap u s + acc)%Q) 0%Q units.
  Definition negative (u : loc) (s : dna) : bool := negb (Qle_bool 0 (gap u s)).

  Hypothesis gap_nonpos : forall u s, (gap u s <= 0)%Q.
  (* the score is the sum of the gaps and the breach locations are the units with a negative gap *)
  Hypothesis ev_obj : forall s, good_ s ->
    (fst (ev obj s) == qsum_gaps s)%Q /\ snd (ev obj s) = Some (filter (fun u => negative u s) units).
  Hypothesis best_obj : best obj = Some 0%Q.
  Hypothesis boost_obj : (0 < boost obj)%Q.
  Hypothesis no_heuristic : opt_heuristic obj = None.
  (* units lie inside the sequence, are non-empty and pairwise disjoint *)
  Hypothesis units_in : forall u, In u units -> 0 <= lstart u /\ lstart u < lend u /\ lend u <= n.
  Hypothesis units_disjoint : forall i j u v, nth_error units i = Some u -> nth_error units j = Some v -> i <> j ->
    lend u <= lstart v \/ lend v <= lstart u.
  (* a gap only depends on the nucleotides of its unit *)
  Hypothesis gap_local : forall u s t, In u units -> good_ s -> good_ t ->
    (forall i, lstart u <= i < lend u -> nth_error s (Z.to_nat i) = nth_error t (Z.to_nat i)) ->
    (gap u s == gap u t)%Q.
  (* constraints: in local problems their localized copies are skipped (enforced by restrictions) *)
  Hypothesis constraints_skipped : forall c w s, In c cs ->
    match localize c w true s with
    | LSome c' => enforced (reinit false c' s) = true
    | LNone => True
    | LError => False
    end.
  (* a sub-optimal unit: its local space is searched exhaustively, localization of the objective to
     the span of that space scores the unit's gap, and some variant closes the gap *)
  Hypothesis unit_local : forall u s, In u units -> good_ s -> negative u s = true ->
    let lspace := ms_localized space (lstart u) (lend u) in
    space_size_exact lspace <> 0 /\
    space_size_exact lspace < st_threshold cfg /\
    exists a b ol vs,
      choices_span lspace = Some (a, b) /\ lstart u <= a /\ b <= lend u /\
      localize obj (mkLoc a b 0) true s = LSome ol /\
      (let ol' := reinit true ol s in
       boost ol' = boost obj /\ (best ol' = Some 0%Q \/ best ol' = None) /\
       forall t, good_ t -> (fst (ev ol' t) == gap u t)%Q) /\
      all_variants lspace s = Some vs /\
      exists t, In t vs /\ (gap u t == 0)%Q.

  Theorem optimize_objective_closes_every_gap : forall st o st',
    state_good spec space n st ->
    optimize_objective spec ev localize reinit enforced best boost opt_heuristic cfg space cs [obj] obj st = (o, st') ->
    o = ODone /\ good_ (cur _ st') /\ (fst (ev obj (cur _ st')) == 0)%Q /\
    (forall u, In u units -> (gap u (cur _ st') == 0)%Q) /\
    rng _ st' = rng _ st.
  Proof.
  Admitted.

  (* and therefore optimize() with this single objective *)
  Theorem optimize_reaches_best_of_separable_objective : forall passive st o st',
    passive obj = false ->
    state_good spec space n st ->
    optimize spec ev localize reinit enforced best boost passive opt_heuristic cfg space cs [obj] st = (o, st') ->
    o = ODone /\ good_ (cur _ st') /\ (fst (ev obj (cur _ st')) == 0)%Q.
  Proof.
  Admitted.
End SolverE.
