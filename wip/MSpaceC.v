(* C15 lemmas, part C: random mutations stay in the space and change exactly
   min(n, number of multi-variant choices) choices, each to a different allowed variant. *)
From Coq Require Import ZArith Bool List Lia Sorting.Sorted.
From DC Require Import Model.Base Model.Loc Model.MSpace Proofs.MSpaceDefs.
Import ListNotations.
Open Scope Z_scope.

(* the choices of ms whose segment differs between s and s' *)
Definition changed (c : choice) (s s' : dna) : Prop :=
  slice s' (cstart c) (cend c) <> slice s (cstart c) (cend c).

Theorem random_variant_spec : forall c s r v r',
  random_variant c s r = Some (v, r') ->
  In v (cvariants c) /\ v <> slice s (cstart c) (cend c).
Proof.
Admitted.

(* for every oracle stream whose answers are legitimate *)
Theorem apply_random_mutations_spec : forall ms n s stream s' r',
  wf_space ms -> member ms s -> (forall c, In c (choices_list ms) -> cend c <= zlen s) ->
  0 <= n ->
  apply_random_mutations ms n s (mkR stream []) = Some (s', r') ->
  valid_run stream r' ->
  zlen s' = zlen s /\
  member ms s' /\
  (exists cs, NoDup cs /\ zlen cs = Z.min n (zlen (multichoices ms)) /\
     (forall c, In c cs -> In c (multichoices ms) /\ changed c s s' /\ holds c s') /\
     (forall c, In c (choices_list ms) -> ~ In c cs -> ~ changed c s s') /\
     (forall i, 0 <= i -> (forall c, In c cs -> ~ (cstart c <= i < cend c)) ->
        nth_error s' (Z.to_nat i) = nth_error s (Z.to_nat i))).
Proof.
Admitted.

