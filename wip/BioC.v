(* C19 lemmas, part C: window subdivision and grouping of indices / segments. *)
From Coq Require Import ZArith Bool List Lia Sorting.Sorted Permutation.
From DC Require Import Model.Base Model.Bio.
Import ListNotations.
Open Scope Z_scope.

(* ps is a chain of consecutive pieces from x to y *)
Fixpoint chain (x : Z) (ps : list (Z * Z)) (y : Z) : Prop :=
  match ps with
  | [] => x = y
  | p :: ps' => fst p = x /\ chain (snd p) ps' y
  end.

Theorem subdivide_window_spec : forall a b m, a < b -> 1 <= m ->
  let ps := subdivide_window a b m in
  chain a ps b /\ Forall (fun p => 1 <= snd p - fst p <= m) ps.
Proof.
Admitted.

Theorem subdivide_window_empty : forall a b m, b <= a -> 1 <= m -> subdivide_window a b m = [].
Proof.
Admitted.

Theorem sort_z_sorted_perm : forall l,
  Permutation l (sort_z l) /\ StronglySorted (fun x y => x <= y) (sort_z l).
Proof.
Admitted.

Fixpoint gaps_ok (gap : option Z) (last : Z) (g : list Z) : Prop :=
  match g with
  | [] => True
  | x :: g' => opt_lt (x - last) gap = true /\ gaps_ok gap x g'
  end.
Definition group_ok (gap spread : option Z) (g : list Z) : Prop :=
  match g with
  | [] => False
  | f :: rest => gaps_ok gap f rest /\ Forall (fun x => opt_lt (x - f) spread = true) rest
  end.
(* a new group starts only when one of the two bounds fails for its first element *)
Fixpoint breaks_ok (gap spread : option Z) (gs : list (list Z)) : Prop :=
  match gs with
  | g :: ((h :: _) as gs') =>
      match g, h with
      | f :: _, x :: _ => (opt_lt (x - last g f) gap && opt_lt (x - f) spread) = false
      | _, _ => False
      end /\ breaks_ok gap spread gs'
  | _ => True
  end.

Theorem group_nearby_indices_spec : forall l gap spread,
  let gs := group_nearby_indices l gap spread in
  concat gs = sort_z l /\ Forall (group_ok gap spread) gs /\ breaks_ok gap spread gs.
Proof.
Admitted.

(* the same for segments, grouped on their start coordinate *)
Fixpoint sgaps_ok (gap : option Z) (last : Z) (g : list (Z * Z)) : Prop :=
  match g with
  | [] => True
  | x :: g' => opt_lt (fst x - last) gap = true /\ sgaps_ok gap (fst x) g'
  end.
Definition sgroup_ok (gap spread : option Z) (g : list (Z * Z)) : Prop :=
  match g with
  | [] => False
  | f :: rest => sgaps_ok gap (fst f) rest /\ Forall (fun x => opt_lt (fst x - fst f) spread = true) rest
  end.
Fixpoint sbreaks_ok (gap spread : option Z) (gs : list (list (Z * Z))) : Prop :=
  match gs with
  | g :: ((h :: _) as gs') =>
      match g, h with
      | f :: _, x :: _ => (opt_lt (fst x - fst (last g f)) gap && opt_lt (fst x - fst f) spread) = false
      | _, _ => False
      end /\ sbreaks_ok gap spread gs'
  | _ => True
  end.

Theorem group_nearby_segments_spec : forall l gap spread,
  let gs := group_nearby_segments l gap spread in
  concat gs = sort_segs l /\ Forall (sgroup_ok gap spread) gs /\ sbreaks_ok gap spread gs.
Proof.
Admitted.
