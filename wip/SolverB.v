(* Solver lemmas, part B (C12 and the second half of C01): every sequence the solver ever assigns
   -- candidates of the local searches included -- has the original length and lies in the
   mutation space; and for well-formed user code no exception other than NoSolutionError can
   arise.  For EVERY type of specifications and every evaluate function. *)
From Coq Require Import ZArith QArith Bool List Lia Sorting.Sorted.
From DC Require Import Model.Base Model.Loc Model.MSpace Model.Solver
                       Proofs.MSpaceDefs Proofs.MSpaceA Proofs.MSpaceB Proofs.MSpaceC.
Import ListNotations.
Open Scope Z_scope.

Section SolverB.
  Variable spec : Type.
  Variable spec_eqb : spec -> spec -> bool.
  Variable ev : spec -> dna -> Q * option (list loc).
  Variable localize : spec -> loc -> bool -> dna -> lres spec.
  Variable accepts_rh : spec -> bool.
  Variable reinit : bool -> spec -> dna -> spec.
  Variable enforced : spec -> bool.
  Variable priority : spec -> Z.
  Variable best : spec -> option Q.
  Variable boost : spec -> Q.
  Variable passive : spec -> bool.
  Variable heuristic : spec -> option (settings -> lproblem spec -> state spec -> outcome * state spec).
  Variable opt_heuristic : spec -> option (settings -> lproblem spec -> state spec -> outcome * state spec).

  Notation resolve_constraints :=
    (resolve_constraints spec spec_eqb ev localize accepts_rh reinit enforced priority heuristic).
  Notation resolve_exhaustive := (resolve_exhaustive spec ev enforced).
  Notation resolve_random := (resolve_random spec ev enforced).
  Notation optimize :=
    (optimize spec ev localize reinit enforced best boost passive opt_heuristic).
  Notation optimize_exhaustive := (optimize_exhaustive spec ev enforced best boost).
  Notation optimize_random := (optimize_random spec ev enforced best boost).

  (* the problem's mutation space and the length of its sequence *)
  Variable space : mspace.
  Variable n : Z.
  Hypothesis space_wf : wf_space space.
  Hypothesis space_fits : forall c, In c (choices_list space) -> cend c <= n.

  (* "usable": right length, every hard nucleotide restriction respected *)
  Definition good (s : dna) : Prop := zlen s = n /\ member space s.
  (* every sequence assigned so far (most recent first) is usable *)
  Definition trace_good (tr : list (event spec)) : Prop :=
    forall s, In (EvAssign spec s) tr -> good s.
  Definition state_good (st : state spec) : Prop := good (cur _ st) /\ trace_good (trace _ st).

  (* a localized space inherits list-level well-formedness, and membership *)
  Theorem localized_wf_choices : forall a b, wf_choices (ms_localized space a b).
  Proof.
  Admitted.
  Theorem localized_member : forall a b s, member space s -> member (ms_localized space a b) s.
  Proof.
  Admitted.
  (* a sequence that is a variant of s w.r.t. a localized space (what the local searches produce)
     is still a member of the whole space *)
  Theorem localized_variant_good : forall a b s t, good s ->
    is_variant_of (ms_localized space a b) s t -> good t.
  Proof.
  Admitted.

  (* whatever the oracle answers, a mutated sequence stays in the space (no validity needed) *)
  Theorem apply_random_mutations_member : forall ms k s r s' r',
    wf_choices ms -> member ms s -> (forall c, In c (choices_list ms) -> cend c <= zlen s) ->
    apply_random_mutations ms k s r = Some (s', r') ->
    zlen s' = zlen s /\ member ms s' /\
    (forall i, 0 <= i -> (forall c, In c (multichoices ms) -> ~ (cstart c <= i < cend c)) ->
               nth_error s' (Z.to_nat i) = nth_error s (Z.to_nat i)).
  Proof.
  Admitted.

  (* assumptions on user code: heuristics leave a variant of the local space (or fail), and their
     own intermediate assignments are usable; localized() does not raise *)
  Definition heuristic_sound (h : settings -> lproblem spec -> state spec -> outcome * state spec) : Prop :=
    forall cfg lp st o st', h cfg lp st = (o, st') ->
      (o = ODone \/ o = ONoSolution \/ o = OOutOfStream) /\
      (good (cur _ st) -> (forall a b, lp_space _ lp = ms_localized space a b ->
         (cur _ st' = cur _ st \/ is_variant_of (lp_space _ lp) (cur _ st) (cur _ st')) /\
         (trace_good (trace _ st) -> trace_good (trace _ st')))).
  Hypothesis heuristics_sound : forall c h, heuristic c = Some h -> heuristic_sound h.
  Hypothesis opt_heuristics_sound : forall c h, opt_heuristic c = Some h -> heuristic_sound h.
  Hypothesis localize_total : forall c w rh s, localize c w rh s <> LError.

  (* ---- C12: every state the solver passes through is usable *)
  Theorem resolve_constraints_states_good : forall cfg cs fc st o st',
    state_good st -> resolve_constraints cfg space cs fc st = (o, st') -> state_good st'.
  Proof.
  Admitted.

  Theorem optimize_states_good : forall cfg cs objs st o st',
    state_good st -> optimize cfg space cs objs st = (o, st') -> state_good st'.
  Proof.
  Admitted.

  (* the direct searches on the problem itself *)
  Theorem direct_searches_states_good : forall cfg (p : lproblem spec) st o st',
    lp_space _ p = space -> state_good st ->
    (resolve_exhaustive p st = (o, st') \/ resolve_random cfg p st = (o, st') \/
     optimize_exhaustive p st = (o, st') \/ optimize_random cfg p st = (o, st')) ->
    state_good st'.
  Proof.
  Admitted.

  (* ---- C01, second half: no exception other than NoSolutionError *)
  Theorem resolve_constraints_no_other_exception : forall cfg cs fc st o st',
    state_good st -> resolve_constraints cfg space cs fc st = (o, st') ->
    o = ODone \/ o = ONoSolution \/ o = OOutOfStream.
  Proof.
  Admitted.
End SolverB.
