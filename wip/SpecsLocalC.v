(* C09 / C08 lemmas, part C: codon-wise specifications.  CodonSpecification.localized snaps the
   overlap to codon boundaries (codon_window); per-codon terms outside are unchanged. *)
From Coq Require Import ZArith QArith Qminmax Qabs Bool List Lia.
From DC Require Import Model.Base Model.Loc Model.Bio Model.Pattern Model.MSpace Model.Specs
                       Proofs.SpecsDefs.
Import ListNotations.
Open Scope Z_scope.

(* the codon-aligned window: a sub-location of l, made of whole codons of l's frame (counted from
   lstart for strand <> -1, from lend for strand -1), containing the overlap of l and w *)
Theorem codon_window_spec : forall l w nl sc ec,
  loc_in l (lend l) -> (loc_len l) mod 3 = 0 -> lstart w < lend w ->
  codon_window l w = Some (nl, sc, ec) ->
  0 <= sc /\ sc < ec /\ 3 * ec <= loc_len l + 2 /\
  lstrand nl = lstrand l /\
  lstart l <= lstart nl /\ lstart nl < lend nl /\ lend nl <= lend l /\
  (loc_len nl) mod 3 = 0 /\
  (if lstrand l =? -1 then lend nl = lend l - 3 * sc else lstart nl = lstart l + 3 * sc) /\
  loc_len nl = 3 * (ec - sc) /\
  (forall i, lstart l <= i < lend l -> lstart w <= i < lend w -> lstart nl <= i < lend nl).
Proof.
Admitted.

Theorem codon_window_none : forall l w,
  codon_window l w = None <-> overlap_region l w = None.
Proof.
Admitted.

Theorem stop_codons_laws : forall T l w s s',
  wf_spec (SStopCodons T l) (zlen s) -> window_in w (zlen s) -> agree_outside w s s' ->
  local_delta_law (SStopCodons T l) w s s' /\ local_pass_law (SStopCodons T l) w s s'.
Proof.
Admitted.

Theorem rare_codons_laws : forall fr mf l w s s',
  wf_spec (SRareCodons fr mf l) (zlen s) -> window_in w (zlen s) -> agree_outside w s s' ->
  local_delta_law (SRareCodons fr mf l) w s s' /\ local_pass_law (SRareCodons fr mf l) w s s'.
Proof.
Admitted.

Theorem maximize_cai_laws : forall lf lb l w s s',
  wf_spec (SMaximizeCAI lf lb l) (zlen s) -> window_in w (zlen s) -> agree_outside w s s' ->
  (forall c f b, qassoc c lf = Some f -> qassoc c lb = Some b -> (f <= b)%Q) ->
  local_delta_law (SMaximizeCAI lf lb l) w s s' /\ local_pass_law (SMaximizeCAI lf lb l) w s s'.
Proof.
Admitted.

Theorem translation_laws : forall T l tr st w s s',
  wf_spec (STranslation T l tr st) (zlen s) -> window_in w (zlen s) -> agree_outside w s s' ->
  local_delta_law (STranslation T l tr st) w s s' /\ local_pass_law (STranslation T l tr st) w s s'.
Proof.
Admitted.

Theorem harmonize_laws : forall r ro syn orig l w s s',
  wf_spec (SHarmonizeRCA r ro syn orig l) (zlen s) -> window_in w (zlen s) -> agree_outside w s s' ->
  local_delta_law (SHarmonizeRCA r ro syn orig l) w s s'.
Proof.
Admitted.

(* never-positive scores (C20) *)
Theorem stop_codons_nonpos : forall T l s e, eval_stop_codons T l s = Some e -> (score e <= 0)%Q.
Proof.
Admitted.
Theorem translation_nonpos : forall T l tr st s e, eval_translation T l tr st s = Some e -> (score e <= 0)%Q.
Proof.
Admitted.
Theorem rare_codons_nonpos : forall fr mf l s e, eval_rare_codons fr mf l s = Some e -> (score e <= 0)%Q.
Proof.
Admitted.
Theorem maximize_cai_nonpos : forall lf lb l s e,
  (forall c f b, qassoc c lf = Some f -> qassoc c lb = Some b -> (f <= b)%Q) ->
  eval_maximize_cai lf lb l s = Some e -> (score e <= 0)%Q.
Proof.
Admitted.
Theorem harmonize_nonpos : forall r ro syn orig l s e,
  eval_harmonize r ro syn orig l s = Some e -> (score e <= 0)%Q.
Proof.
Admitted.
