(* AvoidChanges in circular problems (after fix F23): every one of the three shifted copies, evaluated
   on the three-copy view, has the score of the specification on the sequence itself; hence the circular
   evaluation passes iff the edit allowance is respected on the sequence. *)
From Coq Require Import ZArith QArith Bool List Lia Ascii String.
From DC Require Import Model.Base Model.Loc Model.Bio Model.Pattern Model.MSpace Model.Specs Model.Solver Model.Circular
                       Proofs.SpecsDefs Proofs.CircularProofs.
Import ListNotations.
Open Scope Z_scope.

Definition indices_inside (idx : option (list Z)) (n : Z) : Prop :=
  match idx with Some is_ => forall i, In i is_ -> 0 <= i < n | None => True end.

(* the score of a copy shifted by k sequence lengths, on the tripled sequence, is the score on the sequence *)
Lemma shifted_copy_score : forall l idx tg me s k,
  0 <= lstart l -> lstart l <= lend l -> lend l <= zlen s -> indices_inside idx (zlen s) ->
  (k = 0 \/ k = 1 \/ k = 2) ->
  option_map score (Specs.evaluate (shift_avoid_changes l idx tg me (k * zlen s)) (triple s))
  = option_map score (eval_avoid_changes l idx tg me s).
Admitted.

Theorem avoid_changes_circular_iff_linear : forall l idx tg me s,
  0 <= lstart l -> lstart l <= lend l -> lend l <= zlen s -> indices_inside idx (zlen s) ->
  circular_all_pass [SAvoidChanges l idx tg me] s
  = match eval_avoid_changes l idx tg me s with Some e => passes e | None => false end.
Admitted.

(* what the score counts: the allowance minus the number of positions of the protected region that differ
   from the target (location form, either strand handled by [extract]) *)
Theorem avoid_changes_score_counts_edits : forall l tg me s e,
  eval_avoid_changes l None tg me s = Some e ->
  score e = zq (me - zlen (filter (fun p => negb (nuc_eqb (fst p) (snd p))) (combine (extract l s) tg))).
Admitted.
