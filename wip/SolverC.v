(* Solver lemmas, part C (C06 second half, C03): the exhaustive optimisation is exactly optimal over
   the feasible variants; no optimisation step lowers the boost-weighted total; and with
   score-faithful localization (the C09 law) optimize() never lowers the global total. *)
From Coq Require Import ZArith QArith Bool List Lia Lqa Sorting.Sorted.
From DC Require Import Model.Base Model.Loc Model.MSpace Model.Solver
                       Proofs.MSpaceDefs Proofs.MSpaceA Proofs.MSpaceB Proofs.MSpaceC Proofs.SolverA Proofs.SolverB.
Import ListNotations.
Open Scope Z_scope.

Section SolverC.
  Variable spec : Type.
  Variable spec_eqb : spec -> spec -> bool.
  Variable ev : spec -> dna -> Q * option (list loc).
  Variable localize : spec -> loc -> bool -> dna -> lres spec.
  Variable accepts_rh : spec -> bool.
  Variable reinit : bool -> spec -> dna -> spec.
  Variable enforced : spec -> bool.
  Variable priority : spec -> Z.
  Variable best : spec -> option Q.
  Variable boost : spec -> Q.
  Variable passive : spec -> bool.
  Variable heuristic : spec -> option (settings -> lproblem spec -> state spec -> outcome * state spec).
  Variable opt_heuristic : spec -> option (settings -> lproblem spec -> state spec -> outcome * state spec).

  Notation optimize :=
    (optimize spec ev localize reinit enforced best boost passive opt_heuristic).
  Notation optimize_exhaustive := (optimize_exhaustive spec ev enforced best boost).
  Notation optimize_random := (optimize_random spec ev enforced best boost).

  (* boost-weighted total of a list of objectives on a sequence (objective_scores_sum) *)
  Definition total (objs : list spec) (s : dna) : Q :=
    fold_right (fun o acc => (boost o * fst (ev o s) + acc)%Q) 0%Q objs.
  (* what all_constraints_pass() tests *)
  Definition cfeasible (cs : list spec) (t : dna) : Prop :=
    forall c, In c cs -> enforced c = false -> passesq (fst (ev c t)) = true.

  (* ---- C06, second half *)
  Theorem optimize_exhaustive_spec : forall (p : lproblem spec) st vs o st',
    all_variants (lp_space _ p) (cur _ st) = Some vs ->
    optimize_exhaustive p st = (o, st') ->
    rng _ st' = rng _ st /\
    (o = ONoSolution -> ~ cfeasible (lp_constraints _ p) (cur _ st) /\ cur _ st' = cur _ st) /\
    (o = ODone ->
       cfeasible (lp_constraints _ p) (cur _ st) /\
       (cur _ st' = cur _ st \/ In (cur _ st') vs) /\
       cfeasible (lp_constraints _ p) (cur _ st') /\
       (total (lp_objectives _ p) (cur _ st) <= total (lp_objectives _ p) (cur _ st'))%Q /\
       (* exact optimality, provided no objective exceeds its declared best, boosts are
          non-negative, and reaching the (un-weighted) sum of bests implies reaching the weighted one *)
       ((forall ob, In ob (lp_objectives _ p) -> (0 <= boost ob)%Q) ->
        (forall ob b t, In ob (lp_objectives _ p) -> best ob = Some b -> In t vs -> (fst (ev ob t) <= b)%Q) ->
        forall t, In t vs -> cfeasible (lp_constraints _ p) t ->
                  (total (lp_objectives _ p) t <= total (lp_objectives _ p) (cur _ st'))%Q)).
  Proof.
  Admitted.

  Theorem optimize_exhaustive_outcomes : forall (p : lproblem spec) st o st',
    optimize_exhaustive p st = (o, st') -> o = ODone \/ o = ONoSolution \/ o = OPyError 5.
  Proof.
  Admitted.

  (* the random optimisation never lowers the total nor leaves the feasible set *)
  Theorem optimize_random_spec : forall cfg (p : lproblem spec) st o st',
    optimize_random cfg p st = (o, st') ->
    (o = OPyError 6 -> ~ cfeasible (lp_constraints _ p) (cur _ st) /\ cur _ st' = cur _ st) /\
    (o <> OPyError 6 ->
       cfeasible (lp_constraints _ p) (cur _ st) /\ cfeasible (lp_constraints _ p) (cur _ st') /\
       (total (lp_objectives _ p) (cur _ st) <= total (lp_objectives _ p) (cur _ st'))%Q).
  Proof.
  Admitted.

  (* ---- C03: optimize() on a whole problem *)
  Variable space : mspace.
  Variable n : Z.
  Hypothesis space_wf : wf_space space.
  Hypothesis space_fits : forall c, In c (choices_list space) -> cend c <= n.

  (* s and s' have the same length and agree outside [a, b) *)
  Definition agree_out (a b : Z) (s s' : dna) : Prop :=
    zlen s = zlen s' /\
    forall i, 0 <= i -> ~ (a <= i < b) -> nth_error s (Z.to_nat i) = nth_error s' (Z.to_nat i).

  (* the C09 law for an objective, in the form the optimiser uses it: localized at sequence s to the
     window [a,b) and re-initialised on the local problem *)
  Definition faithful (ob : spec) : Prop :=
    forall a b s s', 0 <= a -> a < b -> b <= n ->
      good space n s -> good space n s' -> agree_out a b s s' ->
      match localize ob (mkLoc a b 0) true s with
      | LSome ob' => let ob'' := reinit true ob' s in
                     boost ob'' = boost ob /\
                     (fst (ev ob'' s') - fst (ev ob'' s) == fst (ev ob s') - fst (ev ob s))%Q
      | LNone => (fst (ev ob s') == fst (ev ob s))%Q
      | LError => True
      end.

  Theorem optimize_never_lowers_total : forall cfg cs objs st o st',
    (forall ob, In ob objs -> opt_heuristic ob = None) ->
    (forall ob, In ob objs -> faithful ob) ->
    state_good spec space n st ->
    optimize cfg space cs objs st = (o, st') ->
    (total objs (cur _ st) <= total objs (cur _ st'))%Q.
  Proof.
  Admitted.
End SolverC.
