(* C07 end to end on the REVERSE strand: same statement as Proofs/CaiFull.v with lstrand l = -1. *)
From Coq Require Import ZArith QArith Bool List Lia Lqa Ascii String.
From DC Require Import Model.Base Model.Loc Model.Bio Model.Pattern Model.MSpace Model.Specs Model.Solver
                       Generated.GenTables
                       Proofs.MSpaceDefs Proofs.MSpaceA Proofs.MSpaceB Proofs.MSpaceC Proofs.MSpaceD Proofs.MSpaceE
                       Proofs.SpecsDefs Proofs.BioA Proofs.SpecsCodon
                       Proofs.SolverA Proofs.SolverB Proofs.SolverC Proofs.SolverE Proofs.Builtins Proofs.CaiEnd
                       Proofs.TranslationSpace Proofs.CaiFull.
Import ListNotations.
Open Scope Z_scope.

Theorem cai_optimize_end_to_end_reverse_strand :
  forall (name : string) (T : gtable) (lf lb : list (dna * Q)) (l : loc) (tr : astr) (s0 : dna)
         (cfg : settings) (passive : spec -> bool) st o st',
    In (name, T) genetic_tables -> no_dual_stop T = true ->
    wf_spec (SMaximizeCAI lf lb l) (zlen s0) -> lstrand l = -1 ->
    loc_len l = 3 * zlen tr -> 1 <= zlen tr ->
    tables_consistent T lf lb ->
    64 < st_threshold cfg ->
    let space := from_constraints s0 (restrict_nucleotides (STranslation T l tr StartNone) false s0) in
    passive (SMaximizeCAI lf lb l) = false ->
    state_good spec space (zlen s0) st ->
    optimize spec b_ev Specs.localized b_reinit tr_enforced (fun _ => Some 0%Q) b_boost passive (fun _ => None)
             cfg space [STranslation T l tr StartNone] [SMaximizeCAI lf lb l] st = (o, st') ->
    o = ODone /\
    translate T (extract l (cur _ st')) = Some tr /\
    (forall i, 0 <= i < loc_len l / 3 -> codon_best lf lb l (cur _ st') i) /\
    zlen (cur _ st') = zlen s0 /\
    (forall i, 0 <= i -> ~ (lstart l <= i < lend l) ->
       nth_error (cur _ st') (Z.to_nat i) = nth_error (cur _ st) (Z.to_nat i)).
Proof.
Admitted.
