(* C19 lemmas, part A: complement / reverse_complement / translate (table-driven).
   The tables come from Generated/GenTables.v: finite facts about them are established by
   vm_compute over the generated lists and lifted by induction. *)
From Coq Require Import ZArith Bool List Ascii String Lia.
From DC Require Import Model.Base Model.Bio Generated.GenTables.
Import ListNotations.
Open Scope Z_scope.

Definition csv_alphabet : list ascii := map fst csv_complements.
Definition comp_total (c : ascii) : ascii := match comp_csv c with Some d => d | None => c end.

Theorem complement_basewise : forall s,
  Forall (fun c => In c csv_alphabet) s -> complement s = Some (map comp_total s).
Proof.
Admitted.

Theorem reverse_complement_involutive : forall s,
  Forall (fun c => In c csv_alphabet /\ c <> "U"%char) s ->
  exists r, reverse_complement s = Some r /\ reverse_complement r = Some s.
Proof.
Admitted.

Theorem complement_dna : forall s : dna, complement (to_astr s) = Some (to_astr (map ncomp s)).
Proof.
Admitted.

Theorem reverse_complement_dna : forall s : dna, reverse_complement (to_astr s) = Some (to_astr (rc s)).
Proof.
Admitted.

Theorem rc_involutive : forall s, rc (rc s) = s.
Proof.
Admitted.

Theorem rc_length : forall s, List.length (rc s) = List.length s.
Proof.
Admitted.

Definition aa_known (T : gtable) (aa : ascii) : Prop := back_codons T aa <> [].

Theorem translate_reverse_translate : forall name T p ks,
  In (name, T) genetic_tables -> no_dual_stop T = true ->
  Forall (aa_known T) p ->
  exists d, reverse_translate T p ks = Some d /\ translate T d = Some p.
Proof.
Admitted.

(* the hypothesis no_dual_stop is needed: witness from a dual-use table *)
Theorem translate_reverse_translate_dual_refuted :
  exists name T p, In (name, T) genetic_tables /\ no_dual_stop T = false /\ Forall (aa_known T) p /\
    exists d, reverse_translate T p [] = Some d /\ translate T d <> Some p.
Proof.
Admitted.
