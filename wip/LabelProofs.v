(* C16 lemmas: the label grammar round-trips.  A descriptor (role, name, arguments) rendered in the
   documented syntax -- "@" or "~", the name, arguments between parentheses separated by ", ",
   keyword arguments with ":" or "=", lists with "|", several labels joined by "&" -- is parsed back to
   the same descriptor, and values are typed as documented (quoted -> string, integer, decimal,
   otherwise bare string). *)
From Coq Require Import ZArith Bool List Ascii String Lia.
From DC Require Import Model.Base Model.Label.
Import ListNotations.
Open Scope Z_scope.

(* characters with a meaning in the grammar, and blanks *)
Definition special (c : ascii) : bool :=
  mem c (lit ",&():=|'") || is_space c.
(* an atom: non-empty, no special character *)
Definition plain (s : str) : Prop := s <> [] /\ forallb (fun c => negb (special c)) s = true.

(* decimal rendering of integers *)
Fixpoint render_nat_fuel (fuel : nat) (n : Z) : str :=
  match fuel with
  | O => []
  | S f => if n <? 10 then [ascii_of_nat (Z.to_nat (48 + n))]
           else render_nat_fuel f (n / 10) ++ [ascii_of_nat (Z.to_nat (48 + n mod 10))]
  end.
Definition render_int (z : Z) : str :=
  if z <? 0 then ch "-" :: render_nat_fuel (S (Z.to_nat (- z))) (- z) else render_nat_fuel (S (Z.to_nat z)) z.

Theorem format_atom_bare : forall s, plain s -> parse_int s = None -> is_decimal s = false ->
  format_atom s = VStr s.
Proof.
Admitted.

Theorem format_atom_quoted : forall s, forallb (fun c => negb (Ascii.eqb c (ch "'"))) s = true ->
  format_atom (ch "'" :: s ++ [ch "'"]) = VStr s.
Proof.
Admitted.

Theorem format_atom_int : forall z, format_atom (render_int z) = VInt z.
Proof.
Admitted.

Theorem format_atom_decimal : forall t, plain t -> is_decimal t = true -> parse_int t = None ->
  format_atom t = VFloat t.
Proof.
Admitted.

(* str.split: joining pieces that do not contain the separator and splitting gives the pieces back *)
Fixpoint join (sep : str) (l : list str) : str :=
  match l with
  | [] => []
  | [x] => x
  | x :: l' => x ++ sep ++ join sep l'
  end.
Definition free_of (c : ascii) (s : str) : Prop := mem c s = false.

Theorem split_join_char : forall c l, l <> [] -> Forall (free_of c) l -> split [c] (join [c] l) = l.
Proof.
Admitted.

(* ", " separator: pieces without a comma *)
Theorem split_join_comma_space : forall l, l <> [] -> Forall (free_of (ch ",")) l ->
  split (lit ", ") (join (lit ", ") l) = l.
Proof.
Admitted.

(* a "|" list of at least two plain atoms is read as the list of the typed atoms *)
Theorem format_value_list : forall atoms, (2 <= List.length atoms)%nat -> Forall plain atoms ->
  format_value (join (lit "|") atoms) = VList (map format_atom atoms).
Proof.
Admitted.

(* one keyword argument, with ":" or "=" *)
Theorem parse_keyword_argument : forall (eq : bool) k v, plain k -> plain v ->
  parse_arg (k ++ [if eq then ch "=" else ch ":"] ++ v) = Some (Kw k (format_atom v)).
Proof.
Admitted.

Theorem parse_positional_argument : forall v, plain v -> parse_arg v = Some (Pos (format_atom v)).
Proof.
Admitted.

(* a whole label: role, name, arguments rendered as plain texts [texts] (each a plain atom, or
   key:atom / key=atom), separated by ", " *)
Definition rendered_arg (a : str) (p : parg) : Prop :=
  (exists v, plain v /\ a = v /\ p = Pos (format_atom v)) \/
  (exists eq k v, plain k /\ plain v /\ a = k ++ [if eq : bool then ch "=" else ch ":"] ++ v /\ p = Kw k (format_atom v)).

Theorem parse_label_roundtrip : forall (constraint : bool) name texts args,
  plain name -> Forall2 rendered_arg texts args ->
  parse_label ([if constraint then ch "@" else ch "~"] ++ name ++ lit "(" ++ join (lit ", ") texts ++ lit ")")
  = Some (constraint, name, args).
Proof.
Admitted.

(* a label without parentheses means no argument *)
Theorem parse_label_no_parentheses : forall (constraint : bool) name, plain name ->
  parse_label ([if constraint then ch "@" else ch "~"] ++ name) = Some (constraint, name, []).
Proof.
Admitted.

(* several specifications joined with "&" (blanks around the labels are ignored) *)
Theorem parse_labels_joined : forall labels,
  labels <> [] -> Forall (free_of (ch "&")) labels ->
  parse_labels (join (lit "&") labels) = map parse_label labels.
Proof.
Admitted.

Theorem parse_label_ignores_surrounding_blanks : forall l, parse_label (lit " " ++ l ++ lit " ") = parse_label l.
Proof.
Admitted.
