(* C07 (and C04(b) for EnforceTranslation) lemmas: the synonymous-codon mutation space keeps the
   protein, and the CAI score is a sum of independent per-codon terms that is 0 exactly when every
   codon is a most-frequent synonym. *)
From Coq Require Import ZArith QArith Qabs Bool List Ascii String Lia Lqa.
From DC Require Import Model.Base Model.Loc Model.Bio Model.Pattern Model.MSpace Model.Specs
                       Generated.GenTables Proofs.SpecsDefs Proofs.BioA Proofs.MSpaceDefs.
Import ListNotations.
Open Scope Z_scope.

(* the i-th codon of the coding region l read on its strand, in sequence t *)
Definition codon_of (l : loc) (t : dna) (i : Z) : dna := extract (codon_loc l i) t.

(* EnforceTranslation.restrict_nucleotides without start-codon policy: a sequence satisfies all the
   per-codon choices iff its coding region translates to the wanted protein (both strands; tables
   without dual-use stop codons) *)
Theorem translation_restrictions_mean_same_protein : forall name T l tr s t,
  In (name, T) genetic_tables -> no_dual_stop T = true ->
  loc_in l (zlen s) -> loc_len l = 3 * zlen tr -> zlen t = zlen s ->
  (Forall (fun r => holds r t) (restrict_nucleotides (STranslation T l tr StartNone) false s) <->
   translate T (extract l t) = Some tr).
Proof.
Admitted.

(* with a start-codon policy the first codon is restricted to the policy's set instead, the others
   as above *)
Theorem translation_restrictions_with_start_policy : forall name T l tr st s t,
  In (name, T) genetic_tables -> no_dual_stop T = true ->
  loc_in l (zlen s) -> loc_len l = 3 * zlen tr -> 1 <= zlen tr -> zlen t = zlen s ->
  st <> StartNone ->
  (Forall (fun r => holds r t) (restrict_nucleotides (STranslation T l tr st) false s) <->
   (In (codon_of l t 0) (match st with
                         | StartKeep => [codon_of l s 0]
                         | StartCodons cs => cs
                         | StartNone => []
                         end)) /\
   (forall i, 1 <= i < zlen tr ->
      exists aa, nth_error tr (Z.to_nat i) = Some aa /\ codon_aa T (codon_of l t i) = Some aa)).
Proof.
Admitted.

(* MaximizeCAI: the score is minus the sum of the per-codon gaps to the best synonym *)
Theorem cai_score_is_sum_of_codon_gaps : forall lf lb l s e cods,
  get_codons l s = Some cods -> eval_maximize_cai lf lb l s = Some e ->
  exists gaps, mapM (fun c => match qassoc c lf, qassoc c lb with
                              | Some f, Some b => Some (b - f)%Q | _, _ => None end) cods = Some gaps /\
               (score e == - qsum gaps)%Q.
Proof.
Admitted.

(* ... hence, when no codon is more frequent than the declared best of its amino acid, the score is 0
   (the declared best possible score) exactly when every codon is a most-frequent synonym *)
Theorem cai_optimal_iff_every_codon_best : forall lf lb l s e cods,
  (forall c f b, qassoc c lf = Some f -> qassoc c lb = Some b -> (f <= b)%Q) ->
  get_codons l s = Some cods -> eval_maximize_cai lf lb l s = Some e ->
  ((score e == 0)%Q <->
   forall c, In c cods -> exists f b, qassoc c lf = Some f /\ qassoc c lb = Some b /\ (f == b)%Q).
Proof.
Admitted.
