(* C15 lemmas, part B: all_variants enumerates the product of the multi-variant choices exactly
   once, starting with the current sequence, and only changes the multi-variant span. *)
From Coq Require Import ZArith Bool List Lia Sorting.Sorted.
From DC Require Import Model.Base Model.Loc Model.MSpace Proofs.MSpaceDefs.
Import ListNotations.
Open Scope Z_scope.

(* t is obtained from s by choosing, for every multi-variant choice, one of its variants, and
   is equal to s at every position outside the multi-variant segments *)
Definition is_variant_of (ms : mspace) (s t : dna) : Prop :=
  zlen t = zlen s /\
  (forall c, In c (multichoices ms) -> holds c t) /\
  (forall i, 0 <= i -> (forall c, In c (multichoices ms) -> ~ (cstart c <= i < cend c)) ->
             nth_error t (Z.to_nat i) = nth_error s (Z.to_nat i)).

Theorem all_variants_spec : forall ms s,
  wf_space ms -> member ms s -> (forall c, In c (choices_list ms) -> cend c <= zlen s) ->
  multichoices ms <> [] ->
  exists vs, all_variants ms s = Some vs /\
    NoDup vs /\
    hd_error vs = Some s /\
    (forall t, In t vs <-> is_variant_of ms s t) /\
    zlen vs = space_size_exact ms /\
    (forall t, In t vs -> member ms t).
Proof.
Admitted.

(* outside the span (first multichoice start .. last multichoice end) nothing changes *)
Theorem all_variants_outside_span : forall ms s vs a b t i,
  wf_space ms -> member ms s -> (forall c, In c (choices_list ms) -> cend c <= zlen s) ->
  all_variants ms s = Some vs -> choices_span ms = Some (a, b) -> In t vs ->
  0 <= i -> ~ (a <= i < b) -> nth_error t (Z.to_nat i) = nth_error s (Z.to_nat i).
Proof.
Admitted.

(* the frozen case: the only variant is the sequence itself *)
Theorem all_variants_frozen : forall ms s, multichoices ms = [] -> all_variants ms s = Some [s].
Proof.
Admitted.
