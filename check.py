#!/venv/bin/python
"""Entry point of every registered check:  check.py <ID> [--tier quick|thorough] [--replay FILE]

exit 0  = property held on everything explored (KNOWN-FINDING lines allowed)
exit 1  = a line `VIOLATION property=<id> replay=<path> ...` was printed
"""
import argparse
import importlib
import os
import sys
import traceback

HERE = os.path.dirname(os.path.abspath(__file__))
VENV_PY = "/venv/bin/python"
if os.path.realpath(sys.executable) != os.path.realpath(VENV_PY) and os.path.exists(VENV_PY) \
        and not os.environ.get("VERIF_REEXEC"):
    # the implementation and its dependencies live in /venv only
    os.environ["VERIF_REEXEC"] = "1"
    os.execv(VENV_PY, [VENV_PY, os.path.abspath(__file__)] + sys.argv[1:])
sys.path.insert(0, HERE)
from harness import core  # noqa: E402


def main():
    ap = argparse.ArgumentParser()
    ap.add_argument("pid")
    ap.add_argument("--tier", default=os.environ.get("VERIF_TIER", "quick"))
    ap.add_argument("--replay", default=None)
    ap.add_argument("--no-build", action="store_true", help="(development only) skip the Coq build")
    a = ap.parse_args()
    seed = int(os.environ.get("VERIF_SEED", "0") or 0)
    tier = a.tier if a.tier in ("quick", "thorough") else "quick"
    core.setup_paths()
    mod = importlib.import_module("harness.%s" % a.pid.lower())
    if a.replay:
        sys.exit(mod.replay(a.replay))
    chk = core.Check(a.pid, tier, seed)
    chk.no_build = a.no_build
    chk.dev_run = a.no_build       # evidence of a development run (no Coq build) is kept apart
    try:
        mod.run(chk)
    except Exception:
        # a crash of the machinery is reported as a broken check, never as a pass
        tb = traceback.format_exc()
        print(tb)
        chk.violation("harness-crash", {"traceback": tb, "broken": "the check itself crashed"}, no_input=True)
    sys.exit(chk.finish(**getattr(chk, "finish_args", {})))


if __name__ == "__main__":
    main()
