"""C10 - Built-in specifications evaluate to their documented meaning."""
from fractions import Fraction

from . import core, specs
from .core import cz, cbool, clist, copt, cloc, cseq
from .specs import (FakeProblem, init_spec, spec_to_coq, ev_out, civ, loc_t, gen_spec, CLASSES, rcs, q)

PROP_FILES = ["Properties/C10.v", "Harness/H10.v"]
IMPORTS = "From DC Require Import Model.Base Model.Loc Model.Bio Model.Pattern Model.MSpace Model.Specs Harness.H10."
CASE_TYPE = "case10"
CHECKER = "check10"
SHOW = "model10"
RULE = ("per built-in class: random parameters (location/strand/window/thresholds/tables) and sequences seeded with breaches; "
        "boundary-heavy (last window, last codon, strand -1 ends, whole-sequence and empty overlaps); "
        "non-trivial = the evaluation fails (score < 0) or the score is not an integer; distinct by JSON text")


def impl_case(case):
    k = case[0]
    if k == "eval":
        _, desc, role, seq = case
        sp = init_spec(desc, seq, role)
        ev = sp.evaluate(FakeProblem(seq))
        term = spec_to_coq(sp)
        if type(sp).__name__ == "HarmonizeRCA" and harmonize_float_tie(sp, seq):
            term = "FLOAT_TIE"      # see harmonize_float_tie: not decidable by the exact model (DESIGN section 9)
        return term, ev_out(ev), bool(ev.passes), type(sp).__name__, sp.best_possible_score, bool(ev.is_optimal)
    raise ValueError(k)


def harmonize_float_tie(sp, seq):
    """HarmonizeRCA reports a codon as non-optimal when `smallest possible discrepancy - discrepancy` is non
    zero IN FLOATING POINT.  When another synonym's discrepancy differs from the codon's own by less than
    the rounding of the two subtractions, the float difference is 0 although the exact values differ (or
    conversely): the exact-rational model cannot exhibit that decision, the case is left to the L3 oracle."""
    rca, rca_o = sp.codon_usage_table["RCA"], sp.original_codon_usage_table["RCA"]
    codons = sp.get_codons(FakeProblem(seq))
    for codon, orig in zip(codons, sp.original_codons):
        try:
            d_f = abs(rca_o[orig] - rca[codon])
            sm_f = min(abs(rca[c] - rca_o[orig]) for c in sp.codons_synonyms[orig])
            d_x = abs(Fraction(rca_o[orig]) - Fraction(rca[codon]))
            sm_x = min(abs(Fraction(rca[c]) - Fraction(rca_o[orig])) for c in sp.codons_synonyms[orig])
        except KeyError:
            return False
        if ((sm_f - d_f) == 0) != ((sm_x - d_x) == 0):
            return True
    return False


def run_impl(case):
    return core.safe_call(impl_case, case, limit=20)


# ------------------------------------------------------------------ independent references (L3)

IUPAC = {"A": "A", "C": "C", "G": "G", "T": "T", "W": "AT", "S": "CG", "M": "AC", "K": "GT", "R": "AG", "Y": "CT",
         "B": "CGT", "D": "AGT", "H": "ACT", "V": "ACG", "N": "ACGT"}


def gcfrac(s):
    return Fraction(sum(c in "GC" for c in s), len(s))


def reference(desc, role, seq):
    """(expected score as Fraction or None if not modelled here, list of breach position sets that the
    reported locations must cover, documented pass predicate or None)"""
    from .c11 import parse_shorthand, occ, size_of
    name, kw = desc[0], dict(desc[1])
    n = len(seq)
    loc = kw.get("location")
    a, b, st = (0, n, None) if loc is None else loc
    if name in ("AvoidPattern", "EnforcePatternOccurence"):
        par = parse_shorthand(kw["pattern"])
        k = size_of(par)
        strand = 0 if st is None else st
        sk = kw.get("strand", "from_location")        # the strand parameter overrides the location's
        if sk == "both":
            strand = 0
        elif sk in (-1, 0, 1):
            strand = sk
        IUC = dict(zip("ACGTNWSMKRYBDHV", "TGCANWSKMYRVHDB"))       # complements of the IUPAC codes
        if par[0] == "rep":
            pal = True
        elif set(par[1]) <= set(IUC):
            pal = "".join(IUC[c] for c in reversed(par[1])) == par[1]
        else:
            pal = None
        spans_f = [(i, i + k) for i in range(a, b - k + 1) if occ(par, seq, i)]
        spans_r = [(i, i + k) for i in range(a, b - k + 1) if occ(par, rcs(seq[i:i + k]), 0)]
        if strand == 1:
            cnt, br = len(spans_f), spans_f
        elif strand == -1:
            cnt, br = len(spans_r), spans_r
        else:
            if pal is None:
                return None, [], None
            cnt = len(spans_f) if pal else len(spans_f) + len(spans_r)
            br = spans_f + ([] if pal else spans_r)
        if name == "AvoidPattern":
            return Fraction(-cnt), [set(range(x, y)) for x, y in br], cnt == 0
        want = kw["occurences"]
        return Fraction(-abs(cnt - want)), ([set(range(a, b))] if cnt != want else []), cnt == want
    if name == "EnforceGCContent":
        mini, maxi = (kw["target"], kw["target"]) if kw.get("target") is not None else (kw["mini"], kw["maxi"])
        mini, maxi = q(mini), q(maxi)
        w = kw.get("window")
        sub = seq[a:b]
        if w is None:
            if not sub:
                return None, [], None
            g = gcfrac(sub)
            sc = -(max(0, mini - g) + max(0, g - maxi))
            return sc, ([set(range(a, b))] if sc < 0 else []), sc == 0
        tot, br = Fraction(0), []
        for i in range(len(sub) - w + 1):
            g = gcfrac(sub[i:i + w])
            x = max(0, mini - g) + max(0, g - maxi)
            tot += x
            if x > 0:
                br.append(set(range(a + i, a + i + w)))
        return -tot, br, tot == 0
    if name == "EnforceSequence":
        word = kw["sequence"]
        sub = seq[a:b] if st != -1 else rcs(seq[a:b])
        bad = [i for i in range(len(sub)) if sub[i] not in IUPAC[word[i]]]
        pos = [(b - 1 - i) if st == -1 else a + i for i in bad]
        return Fraction(-len(bad)), [{p} for p in pos], not bad
    if name == "EnforceChoice":
        sub = seq[a:b] if st != -1 else rcs(seq[a:b])
        ok = sub in kw["choices"]
        return Fraction(0 if ok else -1), ([] if ok else [set(range(a, b))]), ok
    if name == "AvoidChanges":
        # score = allowance - number of positions differing from the sequence to keep (the given
        # target, else the sequence the specification was initialised on = the evaluated one)
        import math
        idx = kw.get("indices")
        L = len(idx) if idx is not None else (b - a)
        allow = kw.get("max_edits") or 0
        if kw.get("max_edits_percent") is not None:
            allow = math.floor(kw["max_edits_percent"] * L / 100.0)
        tgt = kw.get("target_sequence")
        if tgt is None:
            edits, bad = 0, []
        else:
            cur = "".join(seq[i] for i in idx) if idx is not None else seq[a:b]      # (strand -1 is read as +1)
            bad = [i for i in range(min(len(cur), len(tgt))) if cur[i] != tgt[i]]
            edits = len(bad)
            bad = [idx[i] for i in bad] if idx is not None else [a + i for i in bad]
        sc = Fraction(allow - edits)
        return sc, [{p_} for p_ in bad], sc >= 0
    if name == "EnforceChanges" and kw.get("reference") is None:
        # initialised on the evaluated sequence itself: no position differs from the reference.
        # objective: -|changes - amount| (amount given, or a percentage of the positions, default all);
        # constraint: changes - minimum (minimum given, or ceil of a percentage, default all)
        import math
        L = len(kw["indices"]) if kw.get("indices") is not None else (b - a)
        if role == "objective":
            if kw.get("amount") is not None:
                amount = Fraction(kw["amount"])
            else:
                pct = kw.get("amount_percent")
                amount = Fraction(100 if pct is None else pct) * L / 100
            return -abs(0 - amount), [], amount == 0
        if kw.get("minimum") is not None:
            minimum = Fraction(kw["minimum"])
        else:
            pct = kw.get("minimum_percent")
            minimum = Fraction(math.ceil((100 if pct is None else pct) * L / 100.0))
        return 0 - minimum, [], minimum <= 0
    if name == "SequenceLengthBounds":
        mx = kw["max_length"]
        ok = kw["min_length"] <= n and (mx is None or n <= mx)
        return Fraction(0 if ok else -1), [], ok
    if name == "EnforceTerminalGCContent":
        w, mini, maxi = kw["window_size"], q(kw["mini"]), q(kw["maxi"])
        tot, br = Fraction(0), []
        for (x, y) in ((0, w), (n - w, n)):
            g = gcfrac(seq[x:y])
            e = max(0, mini - g) + max(0, g - maxi)
            tot += e
            if e > 0:
                br.append(set(range(x, y)))
        return -tot, br, tot == 0
    if name in ("EnforceTranslation", "AvoidStopCodons"):
        from Bio.Data import CodonTable
        t = CodonTable.unambiguous_dna_by_name[kw["genetic_table"]]
        sub = seq[a:b] if st != -1 else rcs(seq[a:b])
        aas = ["*" if sub[i:i + 3] in t.stop_codons and sub[i:i + 3] not in t.forward_table else t.forward_table.get(sub[i:i + 3], "*")
               for i in range(0, len(sub), 3)]

        def cl(i):
            return set(range(a + 3 * i, a + 3 * i + 3)) if st != -1 else set(range(b - 3 * i - 3, b - 3 * i))
        if name == "AvoidStopCodons":
            bad = [i for i, x in enumerate(aas) if x == "*"]
            return Fraction(-len(bad)), [cl(i) for i in bad], not bad
        # EnforceTranslation: the region must translate (in the given genetic code) to the wanted protein
        # - the one given, else the translation of the sequence the specification was initialised on,
        # which here is the evaluated sequence itself; with a start-codon policy a first codon that is a
        # start codon of the table reads as M.  Table lookups straight from Biopython's CodonTable.
        pol = kw.get("start_codon")
        declared = [] if pol in (None, "keep") else (list(pol) if isinstance(pol, (list, tuple)) else [pol])
        if pol is not None and (sub[:3] in t.start_codons or sub[:3] in declared):
            aas[0] = "M"     # a start codon of the table, or one the user declared as such
        want = kw.get("translation")
        if want is None:
            return Fraction(0), [], True
        if len(want) != len(aas):
            return None, [], None
        bad = [i for i, x in enumerate(aas) if x != want[i]]
        return Fraction(-len(bad)), [cl(i) for i in bad], not bad
    if name in ("MaximizeCAI", "AvoidRareCodons"):
        # codon-wise reference straight from the usage table (the species' table of the sandbox shim,
        # or the user's): MaximizeCAI = sum over codons of log f(codon) - log max f(synonyms), a zero
        # frequency reading as 0.001; AvoidRareCodons = sum over codons rarer than min_frequency of (frequency - min_frequency)
        import math
        from .specs import table_from_desc
        if kw.get("codon_usage_table") is not None:
            usage = table_from_desc(kw["codon_usage_table"])
        else:
            import python_codon_tables as pct
            usage = pct.get_codons_table(kw["species"])
        usage = {aa: cf for aa, cf in usage.items() if len(aa) == 1}
        aa_of = {c: aa for aa, cf in usage.items() for c in cf}
        sub = seq[a:b] if st != -1 else rcs(seq[a:b])
        if len(sub) % 3:
            return None, [], None
        cods = [sub[i:i + 3] for i in range(0, len(sub), 3)]

        def cl(i):
            return set(range(a + 3 * i, a + 3 * i + 3)) if st != -1 else set(range(b - 3 * i - 3, b - 3 * i))
        if name == "AvoidRareCodons":
            mf = q(kw["min_frequency"])
            bad = [i for i, c in enumerate(cods) if q(usage[aa_of[c]][c]) < mf]
            return sum((q(usage[aa_of[cods[i]]][cods[i]]) - mf for i in bad), Fraction(0)), [cl(i) for i in bad], not bad
        tot, bad = 0.0, []
        for i, c in enumerate(cods):
            f = float(usage[aa_of[c]][c]) or 0.001
            fmax = max(float(x) for x in usage[aa_of[c]].values())
            tot += math.log(f) - math.log(fmax)
            if f < fmax:
                bad.append(i)
        return Fraction(repr(tot)), [cl(i) for i in bad], not bad
    if name == "UniquifyAllKmers":
        k = kw["k"]
        ref = kw.get("reference")
        ra, rb = (a, b) if ref in ("here", "same") else ((ref[0], ref[1]) if isinstance(ref, (tuple, list)) else (0, n))
        irc = kw.get("include_reverse_complement", True)

        def canon(i):
            w = seq[i:i + k]
            return min(w, rcs(w)) if irc else w

        def count(last_ref, loc_end_strict):
            idx = list(range(ra, last_ref + 1))
            occ = {}
            for i in idx:
                occ.setdefault(canon(i), []).append(i)
            return [i for i in idx if len(occ[canon(i)]) > 1 and a <= i
                    and ((i + k < b) if loc_end_strict else (i + k <= b))]
        documented = count(rb - k, False)
        as_implemented = count(rb - k - 1, True)      # finding F10: last k-mer never examined
        return (Fraction(-len(documented)), [set(range(i, i + k)) for i in documented], not documented,
                Fraction(-len(as_implemented)))
    return None, [], None


def oracle(case, out):
    if out[0] != "ok":
        return "implementation raised/hung: %r" % (out[:3],)
    term, (score, locs), passes, cls, best, optimal = out[1]
    _, desc, role, seq = case
    n = len(seq)
    # consistency of flags (C20 half, cheap to check here too)
    if passes != (score >= 0):
        return "passes flag is not (score >= 0)"
    ref = reference(desc, role, seq)
    exp, breaches, pred = ref[:3]
    if len(ref) == 4 and exp is not None and exp != score:
        if ref[3] == score:
            return "UniquifyAllKmers ignores the last k-mer: score %s, documented count %s" % (float(score), float(exp))
    if exp is not None:
        if abs(exp - score) > Fraction(1, 10**9) * (1 + abs(exp)):
            return "score %s differs from the documented formula %s" % (float(score), float(exp))
        if pred is not None and pred != passes:
            return "passes although the documented predicate fails (or conversely)"
    if locs is not None and score < 0 and cls not in ("SequenceLengthBounds",):
        if len(locs) == 0 and cls != "HarmonizeRCA":
            # HarmonizeRCA is a pure objective: a negative score with no location means every codon
            # already sits at its smallest possible discrepancy (nothing is "breached")
            return "failing evaluation reports no breach location"
        for (x, y, s_) in locs:
            if not (0 <= x <= y <= n):
                return "breach location %d-%d outside the sequence (length %d)" % (x, y, n)
        cover = set()
        for (x, y, s_) in locs:
            cover |= set(range(x, y))
        for br in breaches:
            if not (br & cover):
                return "a breach is not covered by any reported location"
    return None


def coq_case(case, out):
    term, ev, passes, cls, best, optimal = out[1]
    if term == "FLOAT_TIE":
        return None
    return "KEval %s %s %s" % (term, cseq(case[3]), civ(ev))


def gen_cases(rng, tier):
    N = 60 if tier == "quick" else 1500
    cases = []
    for cls in CLASSES:
        for _ in range(N):
            n = rng.choice([12, 18, 24, 30, 33, 45])
            try:
                desc, role, seq = gen_spec(rng, cls, n)
            except Exception:
                continue
            cases.append(("eval", desc, role, seq))
    return cases, {}


def nontrivial(case, out):
    if out[0] != "ok":
        return False
    sc = out[1][1][0]
    return sc < 0 or sc.denominator != 1


def run(chk):
    core.standard_run(chk, __import__("harness.c10", fromlist=["x"]))


def replay(path):
    return core.standard_replay(__import__("harness.c10", fromlist=["x"]), path)
