"""C01 - resolve_constraints returns only with every constraint satisfied (or NoSolutionError)."""
import json

from . import core, problems, solverrec

PROP_FILES = ["Properties/C01.v", "Harness/H01.v"]
IMPORTS = "From DC Require Import Model.Base Model.Loc Model.MSpace Model.Solver Harness.H15 Harness.H01."
CASE_TYPE = "case01"
CHECKER = "check01"
SHOW = "model01"
RULE = ("random problems: 1-4 constraints among built-ins (overlapping/antisense/frozen zones, heuristics) and user-defined "
        "specifications with imperfect localization or heuristics; settings forcing exhaustive or random search; "
        "non-trivial = at least one constraint fails initially (the solver had work to do); distinct by JSON text")
ENTRY = "resolve"
SHARD = 12


def impl_case(case):
    _, pj, entry = case
    p = json.loads(pj)
    try:
        problem = problems.build_problem(p)
    except Exception as e:  # ill-formed problem (construction itself fails): outside the property
        return dict(skipped="%s: %s" % (type(e).__name__, str(e)[:80]))
    solverrec.apply_settings(problem, p["cfg"])
    tmp = solverrec.SolverRecorder()
    ids = [tmp.sid(c) for c in problem.constraints + problem.objectives]
    if len(set(ids)) != len(ids):
        # two specification objects with identical content: the recorder interns objects by content,
        # while the solver distinguishes them by identity (`cst != constraint`)
        return dict(skipped="duplicate specification content")
    initially = [bool(c.evaluate(problem).passes) for c in problem.constraints]
    before = problem.sequence
    r = solverrec.record_run(problem, entry, p["np_seed"])
    after = [bool(c.evaluate(problem).passes) for c in problem.constraints]
    term = solverrec.coq_run(r, p["cfg"], entry)
    return dict(code=r["code"], exc=r["exc"], final=r["final"], before=before, initially=initially, after=after,
                n_evals=len(r["evals"]), n_draws=len(r["log"]), term=term, orig=p["seq"].upper(),
                sequence_before=problem.sequence_before,
                hard_ok=all(bool(c.evaluate(problem).passes) for c in problem.constraints if c.enforced_by_nucleotide_restrictions))


def run_impl(case):
    return core.safe_call(impl_case, case, limit=40)


def oracle(case, out):
    if out[0] == "timeout":
        return None
    if out[0] != "ok":
        return "harness/implementation raised outside the solver: %r" % (out[:3],)
    o = out[1]
    if "skipped" in o:
        return None
    if o["code"] == 2:
        if '"OverwritingHeuristic"' in case[1] and o["exc"] and o["exc"][0] == "RecursionError":
            # a user heuristic that writes outside the mutation space can undo the insertion made by the
            # EnforcePatternOccurence heuristic inside its own nested solve, for ever: ill-formed user code
            # (the C01 theorem assumes heuristics that respect the space); only "return => all pass" is
            # claimed for such problems
            return None
        return "an exception other than NoSolutionError escaped: %s" % (o["exc"],)
    if o["code"] == 0 and not all(o["after"]):
        return "resolve_constraints returned although a constraint is breached"
    if len(o["final"]) != len(o["before"]):
        return "sequence length changed"
    return None


def coq_case(case, out):
    o = out[1]
    if "skipped" in o or len(o["term"]) > 250_000 or o["n_evals"] > 1500:
        return None      # very long exhaustive searches are checked by the oracle only
    if o["code"] == 2 and o["exc"] and o["exc"][0] == "RecursionError" and '"OverwritingHeuristic"' in case[1]:
        return None      # ill-formed user heuristic recursing through nested solves (see oracle)
    return o["term"]


def gen_cases(rng, tier):
    N = 250 if tier == "quick" else 6000
    cases = []
    for _ in range(N):
        p = problems.gen_problem(rng, with_objectives=False, custom_kinds=problems.C01_CUSTOM)
        if rng.random() < 0.1:
            # ill-behaved user heuristic next to a constraint enforced by nucleotide restrictions: the
            # heuristic rewrites occurrences of its word even inside the frozen / coding region, so
            # only the final check stands between the breach and the caller
            from .problems import kw
            seq = p["seq"]
            n = len(seq)
            word = rng.choice(["AA", "AC", "GG", "TAT", "CG"])
            a = rng.randint(0, n - len(word))
            seq = seq[:a] + word + seq[a + len(word):]
            lo, hi = max(0, a - rng.randint(0, 3)), min(n, a + len(word) + rng.randint(0, 3))
            hard = rng.choice([("AvoidChanges", kw(location=(lo, hi, 0))),
                               ("AvoidChanges", kw(indices=tuple(range(lo, hi)))),
                               ("EnforceTranslation", kw(location=(0, n // 3 * 3, 1))),
                               ("EnforceSequence", kw(sequence=seq[lo:hi], location=(lo, hi, 1)))])
            p = dict(p, seq=seq, constraints=(hard, ("OverwritingHeuristic", kw(word=word, location=None))))
        cases.append(("run", json.dumps(p, sort_keys=True), ENTRY))
    return cases, {}


def neighbours(case, rng):
    return problems.neighbours(case, rng)


def nontrivial(case, out):
    return out[0] == "ok" and "skipped" not in out[1] and not all(out[1]["initially"])


def strip(outs):
    for o in outs:
        if o[0] == "ok" and isinstance(o[1], dict):
            o[1].pop("term", None)


def run(chk):
    mod = __import__("harness.c01", fromlist=["x"])
    cases, outs = core.standard_run(chk, mod)
    dist = chk.coverage.setdefault("distribution", {})
    for o in outs:
        if o[0] == "ok" and "skipped" not in o[1]:
            k = {0: "returned", 1: "NoSolutionError", 2: "other exception"}[o[1]["code"]]
            dist["result:" + k] = dist.get("result:" + k, 0) + 1
            if o[1]["n_draws"]:
                dist["used random search"] = dist.get("used random search", 0) + 1
        elif o[0] == "ok":
            dist["skipped (construction failed)"] = dist.get("skipped (construction failed)", 0) + 1
    for s in chk.coverage["samples"]:
        if isinstance(s.get("impl"), (list, tuple)) and len(s["impl"]) > 1 and isinstance(s["impl"][1], dict):
            s["impl"][1].pop("term", None)


def replay(path):
    return core.standard_replay(__import__("harness.c01", fromlist=["x"]), path)
