"""Recorder for solver runs: observes a run of the implementation from outside (no source hooks):
every evaluate / localized / initialized_on_problem / resolution_heuristic call on specification
objects (class-level wrappers, removed afterwards) and every numpy draw.  The recorded finite
tables instantiate the abstract solver of coq/Model/Solver.v (Harness/H01.v)."""
import functools
import inspect
from fractions import Fraction

from . import core
from .core import cz, cbool, clist, copt, cloc, cseq, cstream, clog
from .specs import cq, exact, loc_t

VOLATILE = {"is_focus", "evaluation", "derived_from", "parent_specification", "name_in_parent"}


def stable(v, depth=0):
    import numpy as np
    if isinstance(v, (str, int, bool, type(None))):
        return v
    if isinstance(v, float):
        return repr(v)
    if isinstance(v, np.generic):
        return repr(v.item())
    if isinstance(v, np.ndarray):
        return ("arr", tuple(stable(x) for x in v.tolist()))
    if isinstance(v, dict):
        return ("dict", tuple(sorted((str(k), stable(x, depth + 1)) for k, x in v.items())))
    if isinstance(v, (list, tuple)):
        return ("seq", tuple(stable(x, depth + 1) for x in v))
    if isinstance(v, (set, frozenset)):
        return ("set", tuple(sorted(stable(x, depth + 1) for x in v)))
    if type(v).__name__ == "Location":
        return ("L", v.start, v.end, v.strand)
    if hasattr(v, "__dict__") and depth < 4:
        return ("obj", type(v).__name__, tuple(sorted((k, stable(x, depth + 1)) for k, x in vars(v).items()
                                                      if k not in VOLATILE and not k.startswith("compiled"))))
    return ("repr", repr(v)[:80])


class SolverRecorder:
    def __init__(self):
        self.ids = {}
        self.keys = []
        self.ev = {}
        self.evals = []
        self.loc = {}
        self.reinit = {}
        self.attrs = {}
        self.heur = {}
        self.suspended = 0
        self.rng = core.RngRecorder()
        self.patched = []

    # ---- identity of specification objects: interned content
    def sid(self, sp):
        k = (type(sp).__name__, stable({a: v for a, v in vars(sp).items() if a not in VOLATILE}))
        i = self.ids.get(k)
        if i is None:
            i = len(self.keys)
            self.ids[k] = i
            self.keys.append(k)
            self.attrs[i] = dict(
                enforced=bool(getattr(sp, "enforced_by_nucleotide_restrictions", False)),
                priority=int(getattr(sp, "priority", 0)),
                best=getattr(sp, "best_possible_score", None),
                boost=getattr(sp, "boost", 1.0),
                passive=bool(getattr(sp, "optimize_passively", False)),
                accepts_rh="with_righthand" in inspect.signature(sp.localized).parameters,
                heuristic=hasattr(sp, "resolution_heuristic"),
                cls=type(sp).__name__)
        return i

    def __enter__(self):
        from dnachisel.Specification.Specification import Specification
        rec = self

        def all_subclasses(c):
            out = [c]
            for s in c.__subclasses__():
                out += all_subclasses(s)
            return out

        def wrap_evaluate(orig):
            @functools.wraps(orig)
            def evaluate(self, problem):
                if rec.suspended:
                    return orig(self, problem)
                res = orig(self, problem)
                i = rec.sid(self)
                ls = None if res.locations is None else tuple(loc_t(l) for l in res.locations)
                rec.ev[(i, problem.sequence)] = (exact(res.score), ls)
                rec.evals.append((i, problem.sequence))
                return res
            return evaluate

        def wrap_localized(orig):
            @functools.wraps(orig)
            def localized(self, location, *a, **kw):
                if rec.suspended:
                    return orig(self, location, *a, **kw)
                i = rec.sid(self)
                problem = kw.get("problem", a[0] if a else None)
                rh = kw.get("with_righthand", True)
                key = (i, loc_t(location), bool(rh), None if problem is None else problem.sequence)
                try:
                    res = orig(self, location, *a, **kw)
                except Exception:
                    rec.loc[key] = ("error",)
                    raise
                rec.loc[key] = ("none",) if res is None else ("some", rec.sid(res))
                return res
            return localized

        def wrap_init(orig):
            @functools.wraps(orig)
            def initialized_on_problem(self, problem, role=None, **kw):
                if rec.suspended:
                    return orig(self, problem, role, **kw) if role is not None else orig(self, problem, **kw)
                i = rec.sid(self)
                res = orig(self, problem, role, **kw) if role is not None else orig(self, problem, **kw)
                rec.reinit[(role == "objective", i, problem.sequence)] = rec.sid(res)
                return res
            return initialized_on_problem

        def wrap_heuristic(orig):
            @functools.wraps(orig)
            def resolution_heuristic(self, problem):
                from dnachisel import NoSolutionError
                if rec.suspended:
                    return orig(self, problem)
                i = rec.sid(self)
                before = problem.sequence
                rec.suspended += 1
                rec.rng.suspended = True
                span = len(rec.heur)
                rec.rng.events.append(("heur", span))
                try:
                    orig(self, problem)
                    rec.heur[(i, before, span)] = (True, problem.sequence)
                except NoSolutionError:
                    rec.heur[(i, before, span)] = (False, before)
                    raise
                finally:
                    rec.suspended -= 1
                    rec.rng.suspended = rec.suspended > 0
            return resolution_heuristic

        for cls in all_subclasses(Specification):
            for name, wrapper in (("evaluate", wrap_evaluate), ("localized", wrap_localized),
                                  ("initialized_on_problem", wrap_init),
                                  ("resolution_heuristic", wrap_heuristic)):
                if name in cls.__dict__:
                    orig = cls.__dict__[name]
                    self.patched.append((cls, name, orig))
                    setattr(cls, name, wrapper(orig))
        self.rng.__enter__()
        return self

    def __exit__(self, *a):
        self.rng.__exit__(*a)
        for cls, name, orig in self.patched:
            setattr(cls, name, orig)
        return False

    # ---- Coq terms
    def ctables(self):
        ev = clist(["(%d%%nat, %s, (%s, %s))" % (i, cseq(s), cq(sc), copt(ls, lambda l: clist([cloc(t) for t in l])))
                    for (i, s), (sc, ls) in self.ev.items()])
        loc = []
        for (i, w, rh, s), r in self.loc.items():
            rr = {"none": "LNone", "error": "LError"}.get(r[0]) or "(LSome %d%%nat)" % r[1]
            loc.append("(%d%%nat, %s, %s, %s, %s)" % (i, cloc(w), cbool(rh), cseq(s or ""), rr))
        re_ = clist(["(%s, %d%%nat, %s, %d%%nat)" % (cbool(o), i, cseq(s), j) for (o, i, s), j in self.reinit.items() if i != j])
        at = []
        for i, a in self.attrs.items():
            best = None if a["best"] is None else Fraction(repr(float(a["best"])))
            at.append("(%d%%nat, mkAttrs %s %s %s %s %s %s %s)" % (
                i, cbool(a["enforced"]), cz(a["priority"]), copt(best, cq), cq(Fraction(repr(float(a["boost"])))),
                cbool(a["passive"]), cbool(a["accepts_rh"]), cbool(a["heuristic"])))
        he = clist(["(%d%%nat, %s, %s, (%s, %s))" % (i, cseq(s), cz(sp), cbool(ok), cseq(t))
                    for (i, s, sp), (ok, t) in self.heur.items()])
        return "(mkTables %s %s %s %s %s)" % (ev, clist(loc), re_, clist(at), he)


def space_desc(ms):
    """raw description of a MutationSpace: (length, ((start, end, variants), ...))"""
    seen, out = set(), []
    for c in ms.choices_index:
        if c is None or id(c) in seen:
            continue
        seen.add(id(c))
        out.append((c.start, c.end, tuple(sorted(c.variants))))
    return (len(ms.choices_index), tuple(out))


def cspace(d):
    return "(SRaw %s %s)" % (cz(d[0]), clist(["(%s, %s, %s)" % (cz(a), cz(b), clist([cseq(v) for v in vs])) for a, b, vs in d[1]]))


def csettings(cfg):
    return "(mkSettings %s %d%%nat %s %s %s)" % (
        cz(cfg["threshold"]), cfg["max_iters"], cz(cfg["mutations"]), clist([cz(e) for e in cfg["extensions"]]),
        copt(cfg.get("stagnation"), cz))


def apply_settings(problem, cfg):
    problem.randomization_threshold = cfg["threshold"]
    problem.max_random_iters = cfg["max_iters"]
    problem.mutations_per_iteration = cfg["mutations"]
    problem.local_extensions = tuple(cfg["extensions"])
    problem.optimization_stagnation_tolerance = cfg.get("stagnation")


ENTRY = {"resolve": "(EResolve true)", "resolve_filter": "(EResolve true)", "resolve_nofinal": "(EResolve false)", "optimize": "EOptimize",
         "resolve_exhaustive": "EResolveExhaustive", "resolve_random": "EResolveRandom",
         "optimize_exhaustive": "EOptimizeExhaustive", "optimize_random": "EOptimizeRandom"}


def run_entry(problem, entry):
    if entry == "resolve":
        problem.resolve_constraints()
    elif entry == "resolve_nofinal":
        problem.resolve_constraints(final_check=False)
    elif entry == "resolve_filter":
        # the rarely used cst_filter parameter: every constraint but the last one is resolved (the
        # final check still concerns all of them)
        last = problem.constraints[-1] if problem.constraints else None
        problem.resolve_constraints(cst_filter=lambda c: c is not last)
    elif entry == "optimize":
        problem.optimize()
    elif entry == "resolve_exhaustive":
        problem.resolve_constraints_by_exhaustive_search()
    elif entry == "resolve_random":
        problem.resolve_constraints_by_random_mutations()
    elif entry == "optimize_exhaustive":
        problem.optimize_by_exhaustive_search()
    elif entry == "optimize_random":
        problem.optimize_by_random_mutations()
    else:
        raise ValueError(entry)


def record_run(problem, entry, np_seed):
    """Run `entry` on `problem` under the recorder.  Returns a dict with everything the Coq case
    needs plus the observed outcome."""
    import numpy as np
    from dnachisel import NoSolutionError
    seq0 = problem.sequence
    sd = space_desc(problem.mutation_space)
    np.random.seed(np_seed)
    rec = SolverRecorder()
    code, exc = 0, None
    with rec:
        cids = [rec.sid(c) for c in problem.constraints]
        oids = [rec.sid(o) for o in problem.objectives]
        try:
            run_entry(problem, entry)
        except NoSolutionError as e:
            code, exc = 1, ("NoSolutionError", str(e)[:100])
        except core.Timeout:
            raise
        except Exception as e:  # noqa
            code, exc = 2, (type(e).__name__, str(e)[:200])
    ans, log = rec.rng.stream()
    return dict(rec=rec, cids=cids, oids=oids, seq0=seq0, space=sd, code=code, exc=exc,
                final=problem.sequence, evals=list(rec.evals), ans=ans, log=log)


def coq_run(r, cfg, entry):
    rec = r["rec"]
    run = "(mkRun %s %s %s %s %s %s %s %s)" % (
        rec.ctables(), csettings(cfg), cspace(r["space"]),
        clist(["%d%%nat" % i for i in r["cids"]]), clist(["%d%%nat" % i for i in r["oids"]]),
        cseq(r["seq0"]), cstream(r["ans"]), ENTRY[entry])
    return "KRun %s %s %s %s %s" % (run, cz(r["code"]), cseq(r["final"]),
                                    clist(["(%d%%nat, %s)" % (i, cseq(s)) for i, s in r["evals"]]), clog(r["log"]))
