"""C16 - Genbank annotations define the same problem as the Python API."""
import json
import os
import tempfile

from . import core, specs, solverrec
from .core import cz, cbool, clist, copt, cstring
from .specs import rdna

PROP_FILES = ["Properties/C16.v", "Harness/H16.v"]
IMPORTS = "From DC Require Import Model.Base Model.Label Harness.H16."
CASE_TYPE = "case16"
CHECKER = "check16"
SHOW = "model16"
RULE = ("(a) label strings of the documented grammar (roles @/~, full names and shorthands, positional and keyword arguments with ':' or "
        "'=', quoted / integer / decimal / bare values, '|' lists, several specifications joined by '&', surrounding blanks) parsed by "
        "from_label with a recording class, against the Coq grammar model; plus a malformed stream; (b) records whose misc_features "
        "carry such labels: from_record vs the constructors (attribute dictionaries), Genbank write -> load -> from_record, to_record "
        "after a solve; non-trivial = the label has at least one argument; distinct by label text")

NAMES = ["AvoidPattern", "no", "EnforceGCContent", "gc", "cds", "keep", "change", "insert", "EnforceTranslation", "sequence",
         "choice", "AvoidChanges", "all_unique_kmers", "use_best_codon"]


class Recorder:
    def __init__(self, *args, **kwargs):
        self.args, self.kwargs = args, kwargs


def conv_value(v):
    if isinstance(v, list):
        return ["list", [conv_value(x) for x in v]]
    if isinstance(v, bool):
        return ["str", str(v)]
    if isinstance(v, int):
        return ["int", v]
    if isinstance(v, float):
        return ["float", v]
    return ["str", v]


def impl_case(case):
    from dnachisel import Specification, Location
    k = case[0]
    if k == "label":
        label = case[1]
        class AnyName(dict):
            """accepts every specification name and remembers which one was asked for"""
            def __contains__(self, key):
                return True

            def __getitem__(self, key):
                self.asked = key
                return Recorder
        out = []
        for sub in label.split("&"):
            d = AnyName()
            try:
                role, rec = Specification.from_label(sub, location=(0, 10, 1), specifications_dict=d)
                kw = dict(rec.kwargs)
                kw.pop("location")
                out.append([role == "constraint", d.asked, [conv_value(a) for a in rec.args], [[key, conv_value(v)] for key, v in kw.items()]])
            except (ValueError, TypeError) as e:
                out.append(None)
        return out
    if k == "record":
        return record_case(case)
    raise ValueError(k)


def run_impl(case):
    return core.safe_call(impl_case, case, limit=60)


# ---- independent reading of the documented label grammar (Python twin of coq/Model/Label.v), used as
# the L3 oracle of the label cases: "@"/"~" role, name, parameters between the first "(" after the name
# and the LAST ")", separated by ", " (comma + blank), keywords with ":" or "=", "|" lists, typed atoms
def _ref_atom(a):
    if a.startswith("'") and "'" in a[1:]:
        return ["str", a[1:a.rindex("'")]] if a.rindex("'") > 0 else ["str", a]
    body = a[1:] if a[:1] in "+-" else a
    if body.isascii() and body.isdigit():
        return ["int", int(a)]
    parts = body.split(".")
    if len(parts) == 2 and ((parts[0].isdigit() and (parts[1].isdigit() or parts[1] == "")) or (parts[0] == "" and parts[1].isdigit())) \
            and body.isascii():
        return ["float", float(a)]
    return ["str", a]


def _ref_value(v):
    return ["list", [_ref_atom(x) for x in v.split("|")]] if "|" in v else _ref_atom(v)


def ref_parse(sub):
    import re
    l = sub.strip()
    if not l.endswith(")"):
        l += "()"
    if not l or l[0] not in "@~":
        return None
    rest = l[1:]
    best = None
    for j in range(1, len(rest)):
        if rest[j] == "(" and not any(c.isspace() for c in rest[:j]) and ")" in rest[j + 1:]:
            best = j                      # largest name prefix
    if best is None:
        return None
    name = rest[:best]
    inner = rest[best + 1:]
    inner = inner[:inner.rindex(")")]
    pos, kws = [], []
    for a in inner.split(", "):
        if a == "":
            continue
        if ":" in a:
            parts = a.split(":")
            if len(parts) != 2:
                return None
            kws.append([parts[0], _ref_value(parts[1])])
        elif "=" in a:
            parts = a.split("=")
            if len(parts) != 2:
                return None
            kws.append([parts[0], _ref_value(parts[1])])
        else:
            pos.append(_ref_atom(a))
    return [l[0] == "@", name, pos, kws]


# ---- Coq terms
def cstr(s):
    return "(lit %s)" % cstring(s)


def cvalue(v):
    t, x = v
    if t == "list":
        return "(VList %s)" % clist([cvalue(y) for y in x])
    if t == "int":
        return "(VInt %s)" % cz(x)
    if t == "float":
        return "(VFloat [])"
    return "(VStr %s)" % cstr(x)


def expected_name(sub):
    """independent reading of the name: between the role character and the first '(' of the stripped label"""
    s = sub.strip()
    if not s.endswith(")"):
        s += "()"
    return s[1:s.index("(")]


def coq_case(case, out):
    if case[0] != "label":
        return None
    label = case[1]
    if any(ord(c) > 126 or c in '"' for c in label) or "\n" in label or "\t" in label:
        return None
    terms = []
    for sub, o in zip(label.split("&"), out[1]):
        if o is None:
            terms.append("None")
        else:
            args = ["(Pos %s)" % cvalue(a) for a in o[2]] + ["(Kw %s %s)" % (cstr(k), cvalue(v)) for k, v in o[3]]
            terms.append("(Some (%s, %s, %s))" % (cbool(o[0]), cstr(o[1]), clist(args)))
    return "KLabel %s %s" % (cstring(label), clist(terms))


# ---- (a) generators of labels
ATOMS_STR = ["BsmBI_site", "ATG", "ACGTN", "e_coli", "both", "h_sapiens", "x", "GTG", "9xA", "3x2mer", "40%", "40-60%/20bp",
             "A{3,5}", "G{4,}", "(AT){2,3}C", "x,y"]


def gen_value(rng):
    r = rng.random()
    if r < 0.3:
        return rng.choice(ATOMS_STR)
    if r < 0.5:
        return str(rng.choice([0, 1, 2, 7, 10, 42, -3, 100]))
    if r < 0.65:
        return rng.choice(["0.5", "0.25", "1.0", "-0.75", "12.125", "40.0"])
    if r < 0.8:
        return "'%s'" % rng.choice(["hello", "A B", "12", "x,y"])
    return "|".join(rng.choice(ATOMS_STR[:8]) for _ in range(rng.randint(2, 4)))


def gen_label(rng):
    role = rng.choice("@~")
    name = rng.choice(NAMES)
    n = rng.choice([0, 0, 1, 1, 2, 3])
    args = []
    keys = ["pattern", "window", "mini", "start_codon", "k", "boost", "maxi"]
    rng.shuffle(keys)
    for i in range(n):
        v = gen_value(rng)
        if rng.random() < 0.5 and "|" not in v or i > 0 and rng.random() < 0.7:
            args.append("%s%s%s" % (keys[i], rng.choice(":="), v))     # distinct keys (a dict keeps the last duplicate)
        else:
            args.append(v)
    # positional arguments first (Python call syntax is not involved: order is free in labels)
    s = role + name + ("(%s)" % ", ".join(args) if args or rng.random() < 0.5 else "")
    return rng.choice(["", " ", "  "]) + s + rng.choice(["", " "])


MALFORMED = ["no(ACG)", "@", "@no(", "@ no(ACG)", "@no(a:b:c)", "@no(a=b=c)", "#no(x)", "@unknown(3)", "", "@no(x", "@no(a:1|2)"]


# ---- (b) records
SPEC_LABELS = [
    ("@no(BsmBI_site)", ("AvoidPattern", {"pattern": "BsmBI_site"})),
    ("@AvoidPattern(pattern:ACGT)", ("AvoidPattern", {"pattern": "ACGT"})),
    ("@no(pattern=9xA)", ("AvoidPattern", {"pattern": "9xA"})),
    ("@gc(mini:0.25, maxi:0.75, window:8)", ("EnforceGCContent", {"mini": 0.25, "maxi": 0.75, "window": 8})),
    ("~gc(target=0.5, window=8)", ("EnforceGCContent", {"target": 0.5, "window": 8})),
    ("@gc(40-60%/8bp)", ("EnforceGCContent", {"mini": "40-60%/8bp"})),
    ("@keep", ("AvoidChanges", {})),
    ("~keep", ("AvoidChanges", {})),
    ("@cds", ("EnforceTranslation", {})),
    ("@cds(start_codon=keep)", ("EnforceTranslation", {"start_codon": "keep"})),
    ("@cds(start_codon=ATG|GTG)", ("EnforceTranslation", {"start_codon": ["ATG", "GTG"]})),
    ("@cds(genetic_table:Bacterial)", ("EnforceTranslation", {"genetic_table": "Bacterial"})),
    ("~change", ("EnforceChanges", {})),
    ("@change(minimum:2)", ("EnforceChanges", {"minimum": 2})),
    ("@insert(ACG, occurences:2)", ("EnforcePatternOccurence", {"pattern": "ACG", "occurences": 2})),
    ("@all_unique_kmers(5)", ("UniquifyAllKmers", {"k": 5})),
    ("~use_best_codon(e_coli)", ("MaximizeCAI", {"species": "e_coli"})),
    ("@sequence(ACNNGT)", ("EnforceSequence", {"sequence": "ACNNGT"})),
    ("@choice(ACG|ACC|TTG)", ("EnforceChoice", {"choices": ["ACG", "ACC", "TTG"]})),
]


def record_case(case):
    import dnachisel as dc
    from Bio.Seq import Seq
    from Bio.SeqRecord import SeqRecord
    from Bio.SeqFeature import SeqFeature, FeatureLocation
    _, seq, feats = case
    record = SeqRecord(Seq(seq), id="test", name="test", annotations={"molecule_type": "DNA"})
    expected_c, expected_o = [], []
    for (a, b, strand, idxs) in feats:
        labels = [SPEC_LABELS[i][0] for i in idxs]
        record.features.append(SeqFeature(FeatureLocation(a, b, strand), type="misc_feature", qualifiers={"label": " & ".join(labels)}))
        for i in idxs:
            lab, (cls, kw) = SPEC_LABELS[i]
            sp = getattr(dc, cls, None) or getattr(dc.builtin_specifications, cls)
            inst = sp(location=dc.Location(a, b, strand) if strand is not None else dc.Location(a, b), **kw)
            (expected_c if lab.startswith("@") else expected_o).append(inst)
    # a feature that is not a specification must be ignored
    record.features.append(SeqFeature(FeatureLocation(0, 3, 1), type="misc_feature", qualifiers={"label": "my gene"}))

    def content(problem):
        rec = solverrec.SolverRecorder()
        return ([rec.keys[rec.sid(c)] for c in problem.constraints], [rec.keys[rec.sid(o)] for o in problem.objectives])
    import numpy as np
    try:
        np.random.seed(0)     # construction may draw (constrain_sequence on incompatible segments)
        p_api = dc.DnaOptimizationProblem(seq, constraints=expected_c, objectives=expected_o, logger=None)
    except Exception as e:  # noqa
        return dict(skipped="constructor path raised %s" % type(e).__name__)
    try:
        np.random.seed(0)
        p_rec = dc.DnaOptimizationProblem.from_record(record, logger=None)
    except Exception as e:  # noqa
        return dict(error="from_record: %s: %s" % (type(e).__name__, str(e)[:100]))
    res = dict(same=repr(content(p_rec)) == repr(content(p_api)), seq_same=p_rec.sequence == p_api.sequence,
               n_specs=len(expected_c) + len(expected_o))
    if not res["same"]:
        res["rec"], res["api"] = repr(content(p_rec))[:600], repr(content(p_api))[:600]
    # Genbank write -> load -> from_record
    tmp = tempfile.mkdtemp(prefix="verif_c16_")
    try:
        path = os.path.join(tmp, "r.gb")
        dc.biotools.write_record(record, path, file_format="genbank")
        np.random.seed(0)
        p_file = dc.DnaOptimizationProblem.from_record(path, logger=None)
        # (the Genbank text format writes an unstranded feature as a..b, which reads back as strand +1:
        # the file round trip is compared for stranded features only)
        stranded = all(f[2] is not None for f in feats)
        res["file_same"] = (not stranded) or (repr(content(p_file)) == repr(content(p_rec)) and p_file.sequence == p_rec.sequence)
        # to_record carries the current sequence
        np.random.seed(0)
        try:
            p_rec.resolve_constraints()
        except dc.NoSolutionError:
            pass
        out = p_rec.to_record(with_sequence_edits=False)
        res["to_record_seq"] = str(out.seq).upper() == p_rec.sequence
    finally:
        import shutil
        shutil.rmtree(tmp, ignore_errors=True)
    return res


def oracle(case, out):
    if out[0] == "timeout":
        return None
    if out[0] != "ok":
        return "harness/implementation raised: %r" % (out[:3],)
    o = out[1]
    if case[0] == "label":
        label = case[1]
        if any(ord(c) > 126 or c in '"' for c in label) or "\n" in label or "\t" in label:
            return None
        for sub, got in zip(label.split("&"), o):
            exp = ref_parse(sub)
            if got is not None and exp is not None and (got[0] != exp[0] or got[1] != exp[1] or got[2] != exp[2] or got[3] != exp[3]):
                return "label %r is not parsed as the documented grammar says: got %r, documented %r" % (sub, got, exp)
            if (got is None) != (exp is None):
                # ill-formed labels: the implementation may reject more than the grammar sketch (or the
                # constructor recorder may accept less); decided by the Coq correspondence only
                continue
        return None
    if "skipped" in o:
        return None
    if "error" in o:
        return "from_record failed on a documented label: %s" % o["error"]
    if not o["same"] or not o["seq_same"]:
        return "from_record and the constructors define different problems"
    if not o["file_same"]:
        return "writing the record to Genbank and loading it back changes the problem"
    if not o["to_record_seq"]:
        return "to_record() does not carry the problem's current sequence"
    return None


def gen_cases(rng, tier):
    N = 1 if tier == "quick" else 20
    cases = []
    for _ in range(400 * N):
        labels = [gen_label(rng) for _ in range(rng.choice([1, 1, 1, 2, 3]))]
        cases.append(("label", rng.choice([" & ", "&", " &"]).join(labels)))
    for m in MALFORMED:
        cases.append(("label", m))
    for _ in range(60 * N):
        n = rng.choice([30, 45, 60])
        seq = rdna(rng, n)
        seq = "ATG" + seq[3:]
        feats = []
        for _ in range(rng.randint(1, 4)):
            ln = rng.choice([6, 9, 12, 15])
            a = rng.randrange(0, n - ln + 1, 3) if rng.random() < 0.7 else 0
            idxs = tuple(rng.sample(range(len(SPEC_LABELS)), rng.choice([1, 1, 2])))
            if 17 in idxs:
                ln = 6          # @sequence(ACNNGT)
                idxs = (17,)
            elif 18 in idxs:
                ln = 3          # @choice(ACG|ACC|TTG)
                idxs = (18,)
            if a + ln > n:
                a = n - ln
            # None = an unstranded feature (Biopython strand None, e.g. SeqFeature(FeatureLocation(a, b))
            # or an imported annotation without direction): the API equivalent is Location(a, b)
            feats.append((a, a + ln, rng.choice([1, 1, -1, None]), idxs))
            if rng.random() < 0.25 and feats[-1][2] in (1, -1):
                # the same annotation on the opposite strand of the same segment
                feats.append((a, a + ln, -feats[-1][2], idxs))
        cases.append(("record", seq, tuple(feats)))
    return cases, {}


def nontrivial(case, out):
    if out[0] != "ok":
        return False
    if case[0] == "label":
        return any(o is not None and (o[2] or o[3]) for o in out[1])
    return isinstance(out[1], dict) and out[1].get("n_specs", 0) > 0


def run(chk):
    cases, outs = core.standard_run(chk, __import__("harness.c16", fromlist=["x"]))
    dist = chk.coverage.setdefault("distribution", {})
    for c, o in zip(cases, outs):
        if c[0] == "record" and o[0] == "ok":
            k = "record: " + ("skipped" if "skipped" in o[1] else "error" if "error" in o[1] else "compared")
            dist[k] = dist.get(k, 0) + 1


def replay(path):
    return core.standard_replay(__import__("harness.c16", fromlist=["x"]), path)
