"""C15 - Mutation-space operations stay inside the space and cover it."""
import itertools
import math

from . import core
from .core import cz, clist, copt, cpair, cseq, cstream, clog

PROP_FILES = ["Properties/C15.v", "Harness/H15.v"]
IMPORTS = "From DC Require Import Model.Base Model.Loc Model.MSpace Harness.H15."
CASE_TYPE = "case15"
CHECKER = "check15"
SHOW = "model15"
RULE = ("spaces built from random overlapping/nested restriction choices over a random sequence, and raw choice layouts; "
        "operation kinds: choices/localize/constrain/enumerate/mutate/merge/extract with recorded numpy draws; "
        "non-trivial = the space has at least one multi-variant choice (or a merge of >= 2 choices); distinct by JSON text")


class FakeCst:
    enforced_by_nucleotide_restrictions = True

    def __init__(self, choices):
        self.choices = choices

    def restrict_nucleotides(self, sequence, location=None):
        return [((a, b), set(vs)) for a, b, vs in self.choices]


class FakeProblem:
    def __init__(self, sequence, constraints):
        self.sequence = sequence
        self.constraints = constraints


def build(desc):
    from dnachisel.MutationSpace import MutationSpace, MutationChoice
    if desc[0] == "from":
        return MutationSpace.from_optimization_problem(FakeProblem(desc[1], [FakeCst(desc[2])]))
    _, length, cs = desc
    idx = [None] * length
    for a, b, vs in cs:
        c = MutationChoice((a, b), set(vs))
        for i in range(a, b):
            idx[i] = c
    return MutationSpace(idx)


def canon(c):
    return (c.start, c.end, tuple(sorted(c.variants)))


def exact_size(ms):
    if not ms.multichoices:
        return 0
    return math.prod(len(c.variants) for c in ms.multichoices)


def impl_case(case):
    from dnachisel.MutationSpace import MutationChoice
    k = case[0]
    if k in ("choices", "localized"):
        ms = build(case[1])
        if k == "localized":
            ms = ms.localized((case[2], case[3]))
        size = ms.space_size
        ex = exact_size(ms)
        if ex == 0:
            ok = size == 0
        else:
            ok = abs(float(size) - min(ex, math.exp(100))) <= 1e-9 * min(ex, math.exp(100))
        if not ok and not case[-1] == "nosizecheck":
            raise AssertionError("space_size %r is not the (saturated) product %r" % (size, ex))
        return tuple(canon(c) for c in ms.choices_list), ms.choices_span, ex, len(ms.multichoices)
    if k == "constrain":
        ms = build(case[1])
        with core.RngRecorder() as rec:
            try:
                out = ms.constrain_sequence(case[2])
            except ValueError as e:
                if "unsolvable" not in str(e):
                    raise
                out = None
        ans, log = rec.stream()
        again = None
        if out is not None:
            with core.RngRecorder() as rec2:
                again = ms.constrain_sequence(out)
            again = (again, len(rec2.events))
        return out, ans, log, again
    if k == "allvariants":
        ms = build(case[1])
        try:
            if len(case) > 3:
                # the same space OBJECT was used before, on another of its members
                list(ms.all_variants(case[3]))
                ms.apply_random_mutations(2, case[3])
            return tuple(ms.all_variants(case[2]))
        except KeyError:
            return None
    if k == "apply":
        ms = build(case[1])
        with core.RngRecorder() as rec:
            out = ms.apply_random_mutations(case[2], case[3])
        ans, log = rec.stream()
        return out, ans, log, tuple(canon(c) for c in ms.multichoices)
    if k == "merge":
        self_ = MutationChoice((case[1][0], case[1][1]), set(case[1][2]))
        others = set(MutationChoice((a, b), set(vs)) for a, b, vs in case[2])
        return canon(self_.merge_with(others))
    if k == "applybig":
        # many draws on a large free space: every draw must change exactly min(n, #choices) choices
        import numpy as np
        from dnachisel.MutationSpace import MutationSpace
        L, nmut, seed, draws = case[1], case[2], case[3], case[4]
        rng_ = np.random.RandomState(seed)
        seq = "".join(rng_.choice(list("ACGT"), L))
        ms = MutationSpace.from_optimization_problem(FakeProblem(seq, []))
        np.random.seed(seed)
        worst = None
        for d in range(draws):
            out = ms.apply_random_mutations(nmut, seq)
            changed = sum(1 for x, y in zip(seq, out) if x != y)
            if changed != min(nmut, L):
                worst = (d, changed)
                break
        return worst
    if k == "extract":
        c = MutationChoice((case[1][0], case[1][1]), set(case[1][2]))
        return tuple(canon(x) for x in c.extract_varying_region())
    raise ValueError(k)


def run_impl(case):
    return core.safe_call(impl_case, case, limit=20)


def in_space(choices, s):
    return all(s[a:b] in vs for a, b, vs in choices)


def oracle(case, out):
    k = case[0]
    if out[0] != "ok":
        if len(out) > 2 and out[1] == "AssertionError" and "space_size" in str(out[2]):
            return "space_size is not the product of the variant counts: %s" % (out[2],)
        return "implementation raised/hung: %r" % (out[:3],)
    o = out[1]
    if k == "applybig":
        if o is not None:
            return "apply_random_mutations(%d) on a free space of %d positions changed %d positions (draw %d, numpy seed %d)" % (
                case[2], case[1], o[1], o[0], case[3])
        return None
    if k in ("choices", "localized"):
        multi = [c for c in o[0] if len(c[2]) >= 2]
        want = (min(c[0] for c in multi), max(c[1] for c in multi)) if multi else None
        got = None if o[1] is None else tuple(o[1])
        monotone = all(x[0] <= y[0] and x[1] <= y[1] for x, y in zip(multi, multi[1:]))
        if monotone and got != want:
            return "choices_span %s is not the segment covered by the multi-variant choices %s" % (got, want)
    if k == "localized":
        full = impl_case(("choices", case[1], "nosizecheck"))[0]
        a, b = case[2], case[3]
        exp = tuple(c for c in full if a < b and c[0] < b and c[1] > a and c[0] < c[1])
        if tuple(o[0]) != exp:
            return "localized does not keep exactly the choices overlapping the location"
    elif k == "constrain":
        res, ans, log, again = o
        choices = impl_case(("choices", case[1], "nosizecheck"))[0]
        unsolvable = any(len(vs) == 0 for _, _, vs in choices)
        if res is None:
            return None if unsolvable else "unsolvable raised although every choice has a variant"
        if unsolvable:
            return "no error although some choice has no variant"
        if not in_space(choices, res):
            return "constrained sequence is not in the space"
        s = case[2]
        for i in range(len(s)):
            if res[i] != s[i] and not any(a <= i < b and s[a:b] not in vs for a, b, vs in choices):
                return "constrain_sequence changed a position whose choice already held"
        if again[0] != res or again[1] != 0:
            return "constrain_sequence is not idempotent (or draws on an already compatible sequence)"
    elif k == "allvariants":
        choices, span, ex, nm = impl_case(("choices", case[1], "nosizecheck"))
        s = case[2]
        if o is None:
            return None
        multi = [c for c in choices if len(c[2]) >= 2]
        exp = set()
        for combo in itertools.product(*[c[2] for c in multi]):
            t = list(s)
            for (a, b, _), v in zip(multi, combo):
                t[a:b] = v
            exp.add("".join(t))
        if len(o) != len(set(o)):
            return "all_variants yields a combination twice"
        if set(o) != exp:
            return "all_variants is not exactly the product of the multi-variant choices"
        if o[0] != s:
            return "all_variants does not start with the current sequence"
        if span is None:
            if tuple(o) != (s,):
                return "frozen space: all_variants should yield the sequence itself once"
        elif any(v[:span[0]] != s[:span[0]] or v[span[1]:] != s[span[1]:] for v in o):
            return "a variant differs outside the multi-variant span"
    elif k == "apply":
        res, ans, log, multi = o
        s, n = case[3], case[2]
        changed = [c for c in multi if res[c[0]:c[1]] != s[c[0]:c[1]]]
        if len(changed) != min(n, len(multi)):
            return "apply_random_mutations changed %d choices instead of min(n, multi)" % len(changed)
        if any(res[c[0]:c[1]] not in c[2] for c in changed):
            return "mutation outside the allowed variants"
        for i in range(len(s)):
            if res[i] != s[i] and not any(c[0] <= i < c[1] for c in changed):
                return "position outside the mutated choices changed"
    return None


def cch(t):
    return "(%s, %s, %s)" % (cz(t[0]), cz(t[1]), clist([cseq(v) for v in t[2]]))


def cdesc(d):
    if d[0] == "from":
        return "(SFrom %s %s)" % (cseq(d[1]), clist([cch(t) for t in d[2]]))
    return "(SRaw %s %s)" % (cz(d[1]), clist([cch(t) for t in d[2]]))


def coq_case(case, out):
    k = case[0]
    o = out[1]
    if k == "applybig":
        return None          # thousands of draws on hundreds of positions: decided by the L3 oracle
    sp = lambda p: cpair(cz(p[0]), cz(p[1]))
    if k == "choices":
        return "KChoices %s %s %s %s %s" % (cdesc(case[1]), clist([cch(t) for t in o[0]]), copt(o[1], sp), cz(o[2]), cz(o[3]))
    if k == "localized":
        return "KLocalized %s %s %s %s %s %s" % (cdesc(case[1]), cz(case[2]), cz(case[3]), clist([cch(t) for t in o[0]]), copt(o[1], sp), cz(o[2]))
    if k == "constrain":
        return "KConstrain %s %s %s %s %s" % (cdesc(case[1]), cseq(case[2]), cstream(o[1]), copt(o[0], cseq), clog(o[2]))
    if k == "allvariants":
        if o is not None and len(o) > 3000:
            return None
        return "KAllVariants %s %s %s" % (cdesc(case[1]), cseq(case[2]), copt(o, lambda l: clist([cseq(v) for v in l])))
    if k == "apply":
        return "KApply %s %s %s %s %s %s" % (cdesc(case[1]), cz(case[2]), cseq(case[3]), cstream(o[1]), cseq(o[0]), clog(o[2]))
    if k == "merge":
        return "KMerge %s %s %s" % (cch(case[1]), clist([cch(t) for t in case[2]]), cch(o))
    if k == "extract":
        return "KExtract %s %s" % (cch(case[1]), clist([cch(t) for t in o]))


def rdna(rng, n):
    return "".join(rng.choice("ACGT") for _ in range(n))


def rand_variants(rng, width, k):
    vs = set()
    for _ in range(k * 3):
        vs.add(rdna(rng, width))
        if len(vs) >= k:
            break
    return tuple(sorted(vs))


def rand_desc(rng):
    n = rng.choice([4, 8, 12, 18])
    s = rdna(rng, n)
    if rng.random() < 0.65:
        rs = []
        for _ in range(rng.choice([0, 1, 2, 3, 4])):
            w = rng.choice([1, 1, 2, 3, 3, 4])
            a = rng.randint(0, n - w)
            k = rng.choice([1, 2, 2, 3, 4])
            vs = list(rand_variants(rng, w, k))
            if rng.random() < 0.6:
                vs = sorted(set(vs) | {s[a:a + w]})
            # codon-like variants sharing flanks so that extract_varying_region has work to do
            if w == 3 and rng.random() < 0.5:
                base = s[a:a + 3]
                vs = sorted({base[:2] + x for x in "ACGT"[:rng.randint(2, 4)]})
            rs.append((a, a + w, tuple(vs)))
        return ("from", s, tuple(rs)), s
    cs, pos = [], 0
    while pos < n:
        w = rng.choice([1, 1, 2, 3])
        if pos + w > n:
            break
        if rng.random() < 0.8:
            k = rng.choice([0, 1, 1, 2, 2, 3, 4]) if rng.random() < 0.15 else rng.choice([1, 2, 2, 3, 4])
            vs = rand_variants(rng, w, k) if k else ()
            if vs and rng.random() < 0.7:
                vs = tuple(sorted(set(vs) | {s[pos:pos + w]}))
            cs.append((pos, pos + w, vs))
        pos += w
    return ("raw", n, tuple(cs)), s


def gen_cases(rng, tier):
    N = 1 if tier == "quick" else 20
    cases = []
    for _ in range(350 * N):
        d, s = rand_desc(rng)
        n = len(s)
        cases.append(("choices", d))
        a = rng.randint(0, n)
        cases.append(("localized", d, a, rng.choice([a, n, rng.randint(a, n + 3)])))
        cases.append(("constrain", d, rdna(rng, n) if rng.random() < 0.5 else s))
        # in-space sequence for enumeration / mutation
        out = run_impl(("constrain", d, s))
        if out[0] == "ok" and out[1][0] is not None:
            t = out[1][0]
            ch = run_impl(("choices", d))
            if ch[0] == "ok" and ch[1][2] <= 2000:
                cases.append(("allvariants", d, t))
            cases.append(("apply", d, rng.choice([0, 1, 2, 2, 3, 7]), t))
            # the same space used on ANOTHER of its members (reached by earlier mutations)
            walk = run_impl(("apply", d, 7, t))
            if walk[0] == "ok" and walk[1][0] is not None and walk[1][0] != t:
                cases.append(("apply", d, rng.choice([1, 2, 3, 7]), walk[1][0]))
                if ch[0] == "ok" and ch[1][2] <= 2000:
                    cases.append(("allvariants", d, walk[1][0]))
                    cases.append(("allvariants", d, walk[1][0], t))
                    cases.append(("allvariants", d, t, walk[1][0]))
    for _ in range(40 * N):
        # many multi-variant choices: the size is a product far beyond 2**63 (no overflow, no wrap)
        m = rng.choice([20, 25, 26, 28, 30, 31, 32, 33, 40, 60])
        codon_like = rng.random() < 0.5       # 6-variant choices only: 6**25 > 2**63
        cs, pos = [], 0
        for _ in range(m):
            w = 3 if codon_like else rng.choice([1, 1, 3])
            k = 6 if codon_like else (rng.choice([4, 4, 6, 6, 6, 3, 2]) if w == 3 else rng.choice([2, 3, 4, 4]))
            vs = set()
            while len(vs) < k:
                vs.add(rdna(rng, w))
            cs.append((pos, pos + w, tuple(sorted(vs))))
            pos += w + rng.choice([0, 0, 1])
        cases.append(("choices", ("raw", pos + 1, tuple(cs))))
        a = rng.randint(0, pos // 3)
        cases.append(("localized", ("raw", pos + 1, tuple(cs)), a, rng.randint(a + 1, pos + 1)))
    for _ in range(6 * N):
        cases.append(("applybig", rng.choice([250, 400, 700]), rng.choice([2, 2, 3]), rng.randint(0, 10**6), 400))
    for _ in range(150 * N):
        # merge_with: self straddling several contiguous others
        widths = [rng.choice([1, 2, 3]) for _ in range(rng.choice([1, 2, 3]))]
        start = rng.randint(0, 5)
        others, pos = [], start
        for w in widths:
            others.append((pos, pos + w, rand_variants(rng, w, rng.choice([1, 2, 3, 4]))))
            pos += w
        a = rng.randint(start, start + widths[0] - 1)
        b = rng.randint(max(a + 1, pos - widths[-1] + 1), pos)
        cases.append(("merge", (a, b, rand_variants(rng, b - a, rng.choice([1, 2, 4, 6]))), tuple(others)))
        w = rng.choice([1, 2, 3, 5])
        cases.append(("extract", (start, start + w, rand_variants(rng, w, rng.choice([1, 2, 3, 5])))))
    return cases, {}


def nontrivial(case, out):
    if case[0] == "applybig":
        return out[0] == "ok"
    if out[0] != "ok" or out[1] is None:
        return False
    k = case[0]
    if k in ("choices", "localized"):
        return out[1][2] > 1
    if k == "allvariants":
        return len(out[1]) > 1
    if k == "apply":
        return len(out[1][1]) > 0
    if k == "applybig":
        return True
    if k == "constrain":
        return out[1][0] is not None and out[1][0] != case[2]
    if k == "merge":
        return len(case[2]) >= 2
    return len(out[1]) >= 2


def run(chk):
    core.standard_run(chk, __import__("harness.c15", fromlist=["x"]))


def replay(path):
    return core.standard_replay(__import__("harness.c15", fromlist=["x"]), path)
