"""C14 - The solver does not touch what is already fine."""
import json

from . import core, problems, solverrec, c01

PROP_FILES = ["Properties/C14.v", "Harness/H01.v"]
IMPORTS = c01.IMPORTS
CASE_TYPE, CHECKER, SHOW, SHARD = c01.CASE_TYPE, c01.CHECKER, c01.SHOW, c01.SHARD
RULE = ("problems first brought to a feasible (resp. optimal) state by the solver itself, then rebuilt from that sequence and solved / "
        "optimized again (repeated calls); plus problem construction on sequences partly incompatible with the hard constraints; "
        "non-trivial = the problem has at least one non-enforced constraint (resp. objective with a declared best score); distinct by JSON text")


def impl_case(case):
    import numpy as np
    import dnachisel as dc
    kind, pj = case[0], case[1]
    p = json.loads(pj)
    try:
        problem = problems.build_problem(p)
    except Exception as e:
        return dict(skipped="%s: %s" % (type(e).__name__, str(e)[:80]))
    solverrec.apply_settings(problem, p["cfg"])
    if kind == "build":
        # construction: differences with the (upper-cased) input only inside choices that did not hold
        inp = p["seq"].upper()
        out = problem.sequence
        bad = []
        for i, (x, y) in enumerate(zip(inp, out)):
            if x != y:
                c = problem.mutation_space.choices_index[i]
                if c is None or inp[c.start:c.end] in c.variants:
                    bad.append(i)
        # independent of the mutation space: an input that satisfies every constraint is left alone
        from . import specs, c04
        all_ok = True
        try:
            for d in p["constraints"]:
                sp = specs.build_spec(tuple(d) if not isinstance(d, tuple) else d).initialized_on_problem(specs.FakeProblem(inp), role="constraint")
                if not sp.evaluate(specs.FakeProblem(inp)).passes:
                    all_ok = False
                if type(sp).__name__ == "EnforceTranslation":
                    loc = sp.location
                    sp._verif_first_codon = inp[loc.start:loc.start + 3] if loc.strand != -1 else specs.rcs(inp[loc.end - 3:loc.end])
                    if not c04.start_policy_ok(sp, inp):
                        all_ok = False
        except Exception:  # noqa
            all_ok = False
        # the same definition built again on its own result, with the mutation space supplied by the
        # caller (constructor argument mutation_space=): a compatible input must be left alone
        space_changed = None
        try:
            np.random.seed(p["np_seed"] + 7)
            p2 = dc.DnaOptimizationProblem(out, constraints=[specs.build_spec(tuple(d)) for d in p["constraints"]],
                                           mutation_space=problem.mutation_space, logger=None)
            if p2.sequence != out:
                space_changed = p2.sequence
        except Exception:  # noqa
            pass
        # ... and with a mutation space computed on ANOTHER design (a variant of the sequence): an input
        # that satisfies every constraint of its own problem must still be left alone
        if all_ok and space_changed is None:
            try:
                other = specs.other_sequence(inp)
                q = dc.DnaOptimizationProblem(other, constraints=[specs.build_spec(tuple(d)) for d in p["constraints"]], logger=None)
                np.random.seed(p["np_seed"] + 8)
                p3 = dc.DnaOptimizationProblem(inp, constraints=[specs.build_spec(tuple(d)) for d in p["constraints"]],
                                               mutation_space=q.mutation_space, logger=None)
                if p3.sequence != inp:
                    space_changed = p3.sequence
                    out = inp
            except Exception:  # noqa
                pass
        return dict(kind=kind, changed=sum(x != y for x, y in zip(inp, out)), bad=bad, same_len=len(inp) == len(out),
                    valid_input_changed=bool(all_ok and inp != out), inp=inp, out=out, space_changed=space_changed)
    np.random.seed(p["np_seed"])
    try:
        if kind == "resolve":
            # a problem whose constraints all pass at construction is measured as it is (the very
            # first call must already be a no-op); otherwise the solver brings it to a feasible state
            if not problem.all_constraints_pass(autopass=False):
                problem.resolve_constraints()
        else:
            problem.resolve_constraints()
            problem.optimize()
            if not all(o.best_possible_score is not None and o.evaluate(problem).score == o.best_possible_score
                       for o in problem.objectives):
                return dict(skipped="not at best score after optimize")
    except dc.NoSolutionError:
        return dict(skipped="infeasible")
    # second call on the SAME problem object (rebuilding would re-read the reference sequence of
    # AvoidChanges / EnforceChanges and define a different problem)
    again = problem
    if not again.all_constraints_pass(autopass=False):
        return dict(skipped="not feasible after solving")
    tmp = solverrec.SolverRecorder()
    ids = [tmp.sid(c) for c in again.constraints + again.objectives]
    if len(set(ids)) != len(ids):
        return dict(skipped="duplicate specification content")
    np.random.seed(p["np_seed"] + 1)
    state_before = np.random.get_state()
    seq_before = again.sequence
    entry = "resolve" if kind == "resolve" else "optimize"
    r = solverrec.record_run(again, entry, p["np_seed"] + 1)
    state_after = np.random.get_state()
    same_state = (state_before[0] == state_after[0] and (state_before[1] == state_after[1]).all()
                  and state_before[2:] == state_after[2:])
    # second call in a row
    seq_mid = again.sequence
    solverrec.run_entry(again, entry)
    return dict(kind=kind, code=r["code"], exc=r["exc"], before=seq_before, final=r["final"], twice=again.sequence == seq_mid,
                draws=len(r["log"]), same_rng_state=bool(same_state), n_evals=len(r["evals"]),
                term=solverrec.coq_run(r, p["cfg"], entry),
                nontrivial=any(not c.enforced_by_nucleotide_restrictions for c in again.constraints) if kind == "resolve"
                else len(again.objectives) > 0)


def run_impl(case):
    return core.safe_call(impl_case, case, limit=60)


def oracle(case, out):
    if out[0] == "timeout":
        return None
    if out[0] != "ok":
        return "harness/implementation raised: %r" % (out[:3],)
    o = out[1]
    if "skipped" in o:
        return None
    if o["kind"] == "build":
        if not o["same_len"]:
            return "construction changed the sequence length"
        if o["bad"]:
            return "construction changed a position compatible with the hard restrictions"
        if o.get("space_changed"):
            return "a problem built with mutation_space= rewrote an input that lies in that space / satisfies all its own constraints (%s -> %s)" % (o["out"], o["space_changed"])
        if o.get("valid_input_changed"):
            return "construction edited an input that satisfies every constraint (%s -> %s)" % (o["inp"], o["out"])
        return None
    if o["code"] != 0:
        return "solver raised on an already feasible/optimal problem: %s" % (o["exc"],)
    if o["final"] != o["before"]:
        return "%s changed a sequence that was already fine" % o["kind"]
    if o["kind"] == "resolve" and (o["draws"] != 0 or not o["same_rng_state"]):
        return "resolve_constraints drew random numbers although every constraint passes"
    if not o["twice"]:
        return "a repeated call changed the sequence"
    return None


def coq_case(case, out):
    o = out[1]
    if "skipped" in o or o["kind"] == "build" or len(o["term"]) > 250_000:
        return None
    return o["term"]


def gen_cases(rng, tier):
    N = 120 if tier == "quick" else 3000
    cases = []
    for _ in range(N):
        p = problems.gen_problem(rng, with_objectives=False, allow_custom=True)
        cases.append(("resolve", json.dumps(p, sort_keys=True)))
    # problems already feasible at construction, with constraints that pass WITH A MARGIN (score > 0)
    # and still report locations: nothing may be touched
    from .specs import rdna
    for _ in range(N // 3):
        n = rng.choice([24, 30, 36, 45])
        seq = rdna(rng, n)
        cs = []
        a = rng.randint(0, n - 12)
        b = rng.randint(a + 10, n)
        ref = [rng.choice([c for c in "ACGT" if c != x]) if rng.random() < 0.8 else x for x in seq[a:b]]
        cs.append(("EnforceChanges", problems.kw(minimum_percent=rng.choice([10, 20, 40]), location=(a, b, 0), reference="".join(ref))))
        if rng.random() < 0.6:
            a2 = rng.randint(0, n - 8)
            b2 = rng.randint(a2 + 6, n)
            t = list(seq[a2:b2])
            i = rng.randrange(len(t))
            t[i] = rng.choice([c for c in "ACGT" if c != t[i]])
            cs.append(("AvoidChanges", problems.kw(max_edits=rng.choice([2, 3, 5]), location=(a2, b2, 0), target_sequence="".join(t))))
        if rng.random() < 0.5:
            pat = rng.choice(["GGTCTC", "CACGTG", "GAATTC"])
            if pat not in seq and problems.rcs(pat) not in seq:
                cs.append(("AvoidPattern", problems.kw(pattern=pat, location=None)))
        p = dict(seq=seq, constraints=tuple(cs), objectives=(), cfg=problems.gen_settings(rng), np_seed=rng.randint(0, 10**6))
        cases.append(("resolve", json.dumps(p, sort_keys=True)))
    for _ in range(N // 2):
        p = problems.gen_problem(rng, with_objectives=True, allow_custom=False)
        # only objectives with a declared best score can be "at their best"
        cases.append(("optimize", json.dumps(p, sort_keys=True)))
    for _ in range(N):
        p = problems.gen_problem(rng, with_objectives=False, allow_custom=False)
        cases.append(("build", json.dumps(p, sort_keys=True)))
    # restriction borders cutting 6-fold codons of a coding region (merge of partly overlapping choices)
    from . import c04
    six = ["CTT", "CTC", "CTA", "CTG", "TTA", "TTG", "CGT", "CGC", "CGA", "CGG", "AGA", "AGG",
           "TCT", "TCC", "TCA", "TCG", "AGT", "AGC"]
    for _ in range(N):
        k = rng.choice([2, 3, 4, 6])
        seq = "".join(rng.choice(six) for _ in range(k))
        strand = rng.choice([1, 1, -1])
        if strand == -1:
            from .specs import rcs
            seq = rcs(seq)
        cs = [c for c in c04.gen_hard(rng, seq) if c[0] not in ("EnforceTranslation", "EnforceChanges")]
        cs = [("EnforceTranslation", problems.kw(location=(0, 3 * k, strand)))] + cs
        p = dict(seq=seq, constraints=tuple(cs), objectives=(), cfg=problems.gen_settings(rng), np_seed=rng.randint(0, 10**6))
        cases.append(("build", json.dumps(p, sort_keys=True)))
    return cases, {}


def nontrivial(case, out):
    return out[0] == "ok" and "skipped" not in out[1] and (out[1].get("nontrivial") or out[1].get("changed", 0) > 0)


def run(chk):
    cases, outs = core.standard_run(chk, __import__("harness.c14", fromlist=["x"]))
    dist = chk.coverage.setdefault("distribution", {})
    for o in outs:
        if o[0] == "ok":
            k = "skipped: " + o[1]["skipped"].split(":")[0] if "skipped" in o[1] else "checked " + o[1]["kind"]
            dist[k] = dist.get(k, 0) + 1
    for s in chk.coverage["samples"]:
        if isinstance(s.get("impl"), (list, tuple)) and len(s["impl"]) > 1 and isinstance(s["impl"][1], dict):
            s["impl"][1].pop("term", None)


def replay(path):
    return core.standard_replay(__import__("harness.c14", fromlist=["x"]), path)
