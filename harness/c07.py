"""C07 - Codon optimization reaches the true per-codon optimum and keeps the protein."""
import json
from fractions import Fraction

from . import core, specs
from .specs import rdna, rcs, user_table, table_to_desc, table_from_desc
from .problems import kw

PROP_FILES = ["Properties/C07.v", "Harness/H10.v"]
IMPORTS = "From DC Require Import Model.Base Model.Loc Model.Bio Model.Pattern Model.MSpace Model.Specs Harness.H10."
CASE_TYPE = "case10"
CHECKER = "check10"
SHOW = "model10"
RULE = ("random proteins back-translated with random codons, embedded at a random offset/strand of a longer random sequence (30%: the same specification objects first used on another gene); "
        "EnforceTranslation (Standard/Bacterial) + MaximizeCAI / CodonOptimize(use_best_codon) / HarmonizeRCA with the shim's named tables "
        "or random user tables (ties, zero frequencies); default solver settings; per-codon optimum from an independent table lookup; "
        "non-trivial = at least one codon had to change; distinct by JSON text")

AAS = "ACDEFGHIKLMNPQRSTVWY"


def gen(rng):
    from Bio.Data import CodonTable
    std = CodonTable.unambiguous_dna_by_name["Standard"]
    back = {}
    for c, a in std.forward_table.items():
        back.setdefault(a, []).append(c)
    np_ = rng.randint(1, 10)
    prot = "".join(rng.choice(AAS) for _ in range(np_))
    if rng.random() < 0.2:
        # runs of six-fold amino acids (many neighbouring sub-optimal codons, large local spaces)
        np_ = rng.randint(8, 30)
        prot = "".join(rng.choice("LLRRSSLRS" + AAS[:3]) for _ in range(np_))
    if rng.random() < 0.3:
        prot = prot[:-1] + "*"
        back["*"] = list(std.stop_codons)
    gene = "".join(rng.choice(back[a]) for a in prot)
    left, right = rdna(rng, rng.randint(0, 7)), rdna(rng, rng.randint(0, 7))
    strand = rng.choice([1, -1])
    seq = left + (gene if strand == 1 else rcs(gene)) + right
    loc = (len(left), len(left) + len(gene), strand)
    method = rng.choice(["use_best_codon", "use_best_codon", "MaximizeCAI", "harmonize_rca"])
    d = dict(seq=seq, loc=loc, method=method, table=rng.choice(["Standard", "Bacterial"]), np_seed=rng.randint(0, 10**6))
    if rng.random() < 0.5:
        d["species"] = rng.choice(["e_coli", "s_cerevisiae", "h_sapiens", "b_subtilis"])
    else:
        d["usage"] = table_to_desc(user_table(rng, zeros=(method != "harmonize_rca")))
    if method == "harmonize_rca":
        if rng.random() < 0.5:
            d["orig_species"] = rng.choice(["b_subtilis", "h_sapiens", "c_elegans"])
        else:
            d["orig_usage"] = table_to_desc(user_table(rng))
    if rng.random() < 0.3:
        # the same specification objects are first used on another gene of the same geometry
        prot2 = "".join(rng.choice(AAS) for _ in range(len(prot)))
        gene2 = "".join(rng.choice(back[a]) for a in prot2)
        d["seq2"] = rdna(rng, len(left)) + (gene2 if strand == 1 else rcs(gene2)) + rdna(rng, len(right))
    return d


def build(d):
    import dnachisel as dc
    loc = tuple(d["loc"])
    usage = table_from_desc(d["usage"]) if "usage" in d else None
    if d["method"] == "MaximizeCAI":
        obj = dc.MaximizeCAI(species=d.get("species"), codon_usage_table=usage, location=loc)
    elif d["method"] == "use_best_codon":
        obj = dc.CodonOptimize(species=d.get("species"), codon_usage_table=usage, location=loc, method="use_best_codon")
    else:
        ou = table_from_desc(d["orig_usage"]) if "orig_usage" in d else None
        obj = dc.CodonOptimize(species=d.get("species"), codon_usage_table=usage, location=loc, method="harmonize_rca",
                               original_species=d.get("orig_species"), original_codon_usage_table=ou)
    cst = dc.EnforceTranslation(location=loc, genetic_table=d["table"])
    if d.get("seq2"):
        import numpy as np
        np.random.seed(d["np_seed"] + 1)
        try:
            dc.DnaOptimizationProblem(d["seq2"], constraints=[cst], objectives=[obj], logger=None).optimize()
        except Exception:  # noqa
            pass
    return dc.DnaOptimizationProblem(d["seq"], constraints=[cst], objectives=[obj], logger=None)


def tables(d):
    import python_codon_tables as pct
    usage = table_from_desc(d["usage"]) if "usage" in d else pct.get_codons_table(d["species"])
    orig = None
    if d["method"] == "harmonize_rca":
        orig = table_from_desc(d["orig_usage"]) if "orig_usage" in d else pct.get_codons_table(d["orig_species"])
    return usage, orig


def impl_case(case):
    import numpy as np
    import dnachisel as dc
    from dnachisel.biotools import translate
    d = json.loads(case[1])
    pr = build(d)
    a, b, st = d["loc"]
    s0 = pr.sequence
    if s0 != d["seq"]:
        return dict(skipped="construction changed the sequence")
    np.random.seed(d["np_seed"])
    pr.optimize()
    s1 = pr.sequence

    def gene(s):
        return s[a:b] if st == 1 else rcs(s[a:b])
    g0, g1 = gene(s0), gene(s1)
    prot0 = translate(g0, table=d["table"])
    prot1 = translate(g1, table=d["table"])
    usage, orig = tables(d)
    syn = {c: aa for aa, cf in usage.items() if len(aa) == 1 for c in cf}
    freq = {c: Fraction(repr(float(f))) for aa, cf in usage.items() if len(aa) == 1 for c, f in cf.items()}
    by_aa = {}
    for c, aa in syn.items():
        by_aa.setdefault(aa, []).append(c)
    bad = None
    changed = 0
    for i in range(0, len(g0), 3):
        c0, c1 = g0[i:i + 3], g1[i:i + 3]
        changed += c0 != c1
        cands = by_aa[syn[c0]]
        if d["method"] != "harmonize_rca":
            # most frequent synonym (zero frequencies are read as 0.001 by MaximizeCAI)
            eff = {c: (freq[c] if freq[c] != 0 else Fraction(1, 1000)) for c in cands}
            if eff[c1] != max(eff.values()):
                bad = (i // 3, c0, c1, "not a most-frequent synonym")
                break
        else:
            ofreq = {c: Fraction(repr(float(f))) for aa, cf in orig.items() if len(aa) == 1 for c, f in cf.items()}
            oaa = {c: aa for aa, cf in orig.items() if len(aa) == 1 for c in cf}
            omax = max(ofreq[c] for c in ofreq if oaa[c] == oaa[c0])
            tmax = max(freq[c] for c in cands)
            target = ofreq[c0] / omax
            disc = {c: abs(freq[c] / tmax - target) for c in cands}
            if disc[c1] > min(disc.values()) + Fraction(1, 10**9):
                bad = (i // 3, c0, c1, "relative adaptiveness not closest to the original codon's")
                break
    return dict(start=s0, final=s1, same_protein=prot0 == prot1, outside_same=s0[:a] == s1[:a] and s0[b:] == s1[b:],
                bad=bad, changed=changed, score=float(pr.objectives_evaluations().evaluations[0].score))


def run_impl(case):
    return core.safe_call(impl_case, case, limit=120)


def oracle(case, out):
    if out[0] == "timeout":
        return None
    if out[0] != "ok":
        return "harness/implementation raised: %r" % (out[:3],)
    o = out[1]
    if "skipped" in o:
        return None
    if not o["same_protein"]:
        return "the optimized region no longer encodes the same protein"
    if not o["outside_same"]:
        return "nucleotides outside the coding region were changed"
    if o["bad"]:
        return "codon %d: %s -> %s is %s" % tuple(o["bad"])
    return None


def coq_case(case, out):
    return None     # the correspondence of evaluate/localized for these classes runs in C10/C09


def gen_cases(rng, tier):
    N = 200 if tier == "quick" else 5000
    return [("codon", json.dumps(gen(rng), sort_keys=True)) for _ in range(N)], {}


def nontrivial(case, out):
    return out[0] == "ok" and "skipped" not in out[1] and out[1]["changed"] > 0


def eval_cases(rng, tier):
    """correspondence of the two objective classes' evaluate (shared machinery of C10)"""
    from . import c10
    N = 60 if tier == "quick" else 1500
    cases = []
    for cls in ("MaximizeCAI", "HarmonizeRCA", "EnforceTranslation"):
        for _ in range(N):
            try:
                desc, role, seq = specs.gen_spec(rng, cls, rng.choice([12, 18, 24, 30]))
            except Exception:
                continue
            cases.append(("eval", desc, role, seq))
    return cases


def run(chk):
    from . import c10
    mod = __import__("harness.c07", fromlist=["x"])
    ok, log = (True, "") if getattr(chk, "no_build", False) else chk.build(mod.PROP_FILES)
    if not ok:
        chk.l1_ok = False
        chk.notes.append("L1 broken: " + log[-2500:])
    chk.no_build = True
    # (1) end-to-end oracle on the implementation
    cases, outs = core.standard_run(chk, mod)
    # (2) model correspondence of the classes involved
    ec = eval_cases(chk.rng, chk.tier)
    eo = core.pool_map(c10.run_impl, ec)
    pairs = [(c, o, c10.coq_case(c, o)) for c, o in zip(ec, eo) if o[0] == "ok"]
    pairs = [x for x in pairs if x[2] is not None]
    try:
        bad, shown = chk.coq_eval(c10.IMPORTS, c10.CASE_TYPE, c10.CHECKER, [t for _, _, t in pairs], show=c10.SHOW)
    except core.CoqEvalError as e:
        bad, shown = [], {}
        chk.l1_ok = False
        chk.notes.append(str(e)[-2000:])
    for i in bad[:1]:
        c, o, t = pairs[i]
        chk.violation("correspondence eval", {"case": c, "observed": o, "model": shown.get(i),
                                              "broken": "correspondence check10 (Specs.evaluate vs implementation)"}, no_input=True)
    chk.coverage["disagreements_checked"] += len(bad)
    if not chk.l1_ok and not chk.violations:
        chk.violation("L1 obligations", {"broken": "coq build of %s" % mod.PROP_FILES, "log": chk.notes[-1] if chk.notes else ""}, no_input=True)
    dist = chk.coverage.setdefault("distribution", {})
    for c, o in zip(cases, outs):
        if o[0] == "ok" and "skipped" not in o[1]:
            m = json.loads(c[1])["method"]
            dist["method:" + m] = dist.get("method:" + m, 0) + 1


def replay(path):
    return core.standard_replay(__import__("harness.c07", fromlist=["x"]), path)
