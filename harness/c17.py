"""C17 - Edit accounting and summaries agree with the actual sequences."""
import json
import re
from fractions import Fraction

from . import core, problems, solverrec
from . import specs as specs_mod
from .core import cz, cbool, clist, cseq
from .specs import cq, exact, rdna

PROP_FILES = ["Properties/C17.v", "Harness/H17.v"]
IMPORTS = "From DC Require Import Model.Base Model.Bio Model.Report Harness.H17."
CASE_TYPE = "case17"
CHECKER = "check17"
SHOW = "model17"
RULE = ("random problems driven through random histories of resolve_constraints / optimize / optimize_objective(k) / manual sequence "
        "assignment (random edits, and edits breaking constraints); after every step the four reports are compared with the sequences; "
        "non-trivial = the state has at least one edit and at least one failing or non-zero evaluation; distinct by (problem, history prefix)")


def fmt_score(score, characters=9):
    """independent reading of the documented formatting: shortest of raw / %.02f / %.02E."""
    raw = str(int(score) if (int(score) == score) else score)
    cands = [raw, "%.02f" % score, "%.02E." % score]
    return min(cands, key=len).rjust(characters)


def snapshot(problem):
    cur, orig = problem.sequence, problem.sequence_before
    n_edits = int(problem.number_of_edits())
    feats = []
    for f in problem.sequence_edits_as_features():
        a, b = int(f.location.start), int(f.location.end)
        label = f.qualifiers["label"]
        bef, aft = label.split("=>")
        feats.append((a, b, bef, aft))
    evs = problem.constraints_evaluations(autopass=False)
    scores = [exact(e.score) for e in evs.evaluations]
    text = problem.constraints_text_summary(autopass=False)
    first = text.split("\n")[0]
    success = "SUCCESS" in first
    m = re.search(r"FAILURE: (\d+) constraints", first)
    n_failed = int(m.group(1)) if m else 0
    oevs = problem.objectives_evaluations()
    total = oevs.scores_sum() if problem.objectives else 0
    direct_total = float(problem.objective_scores_sum()) if problem.objectives else 0.0
    otext = problem.objectives_text_summary().split("\n")[0] if problem.objectives else ""
    parts = [(float(e.specification.boost), float(e.score)) for e in oevs.evaluations]
    return dict(cur=cur, orig=orig, n_edits=n_edits, feats=feats, scores=[str(x) for x in scores], success=success,
                n_failed=n_failed, total=float(total), direct_total=direct_total, total_text=otext, parts=parts,
                passes=[bool(e.passes) for e in evs.evaluations])


def impl_case(case):
    import numpy as np
    import dnachisel as dc
    import random
    _, pj, hist = case
    p = json.loads(pj)
    try:
        problem = problems.build_problem(p)
        if p.get("circular"):
            problem = dc.CircularDnaOptimizationProblem(p["seq"], constraints=[specs_mod.build_spec(d) for d in p["constraints"]],
                                                        objectives=[specs_mod.build_spec(d) for d in p["objectives"]], logger=None)
    except Exception as e:
        return dict(skipped="%s: %s" % (type(e).__name__, str(e)[:60]))
    solverrec.apply_settings(problem, p["cfg"])
    rng = random.Random(p["np_seed"])
    np.random.seed(p["np_seed"])
    snaps = [("init", snapshot(problem))]
    snaps[0][1]["input"] = p["seq"].upper()
    for op in hist:
        try:
            if op == "resolve":
                problem.resolve_constraints()
            elif op == "optimize":
                problem.optimize()
            elif op == "objective" and problem.objectives:
                problem.optimize_objective(rng.choice(problem.objectives))
            elif op == "assign":
                s = list(problem.sequence)
                for _ in range(rng.choice([1, 2, 5])):
                    i = rng.randrange(len(s))
                    s[i] = rng.choice("ACGT")
                problem.sequence = "".join(s)
            elif op == "restore":
                problem.sequence = problem.sequence_before
        except (dc.NoSolutionError, ValueError):
            pass
        except Exception:  # noqa
            # a solver step may raise after a manual assignment that left the mutation space (e.g.
            # KeyError in all_variants): outside C17's claim, which is about the reports - they are
            # still checked on the state the step left behind
            pass
        snaps.append((op, snapshot(problem)))
    return dict(snaps=snaps)


def run_impl(case):
    return core.safe_call(impl_case, case, limit=120)


def check_snapshot(s):
    cur, orig = s["cur"], s["orig"]
    if "input" in s and s["input"] != orig:
        return "sequence_before %s is not the sequence the problem was given (%s): edits are counted against the wrong original" % (orig, s["input"])
    mism = [i for i in range(len(cur)) if cur[i] != orig[i]]
    if s["n_edits"] != len(mism):
        return "number_of_edits() = %d but %d positions differ" % (s["n_edits"], len(mism))
    cov = [i for a, b, _, _ in s["feats"] for i in range(a, b)]
    if cov != mism:
        return "edit features do not cover exactly the edited positions"
    for (a, b, bef, aft), nxt in zip(s["feats"], s["feats"][1:] + [None]):
        if bef != orig[a:b] or aft != cur[a:b]:
            return "edit feature %d-%d labelled %s=>%s, true %s=>%s" % (a, b, bef, aft, orig[a:b], cur[a:b])
        if nxt is not None and not b < nxt[0]:
            return "edit features are not maximal runs"
    if s["success"] != all(s["passes"]):
        return "summary says %s but %d evaluation(s) fail" % ("SUCCESS" if s["success"] else "FAILURE", s["passes"].count(False))
    if not s["success"] and s["n_failed"] != s["passes"].count(False):
        return "summary announces %d failures, %d evaluations fail" % (s["n_failed"], s["passes"].count(False))
    if s["parts"]:
        exp = sum(b * sc for b, sc in s["parts"])
        if abs(exp - s["total"]) > 1e-9 * (1 + abs(exp)):
            return "objectives total %r is not the boost-weighted sum %r" % (s["total"], exp)
        if abs(exp - s["direct_total"]) > 1e-9 * (1 + abs(exp)):
            return "objective_scores_sum() = %r is not the boost-weighted sum %r of the listed scores" % (s["direct_total"], exp)
        if s["total_text"] and fmt_score(s["total"]).strip() not in s["total_text"]:
            return "text summary %r does not show the (rounded) total %r" % (s["total_text"], fmt_score(s["total"]))
    return None


def oracle(case, out):
    if out[0] == "timeout":
        return None
    if out[0] != "ok":
        return "harness/implementation raised: %r" % (out[:3],)
    o = out[1]
    if "skipped" in o:
        return None
    for op, s in o["snaps"]:
        why = check_snapshot(s)
        if why:
            return "after %s: %s" % (op, why)
    return None


def coq_case(case, out):
    return None


def coq_terms(outs):
    terms = []
    for o in outs:
        if o[0] != "ok" or "skipped" in o[1]:
            continue
        for op, s in o[1]["snaps"]:
            terms.append("KReport %s %s %s %s %s %s %s" % (
                cseq(s["cur"]), cseq(s["orig"]), cz(s["n_edits"]),
                clist(["(%s, %s, %s, %s)" % (cz(a), cz(b), cseq(x), cseq(y)) for a, b, x, y in s["feats"]]),
                clist([cq(Fraction(x)) for x in s["scores"]]), cbool(s["success"]), cz(s["n_failed"])))
    return terms


def gen_cases(rng, tier):
    N = 120 if tier == "quick" else 3000
    cases = []
    for _ in range(N):
        p = problems.gen_problem(rng, with_objectives=rng.random() < 0.6, allow_custom=True, custom_kinds=problems.SOUND_CUSTOM)
        hist = tuple(rng.choice(["resolve", "optimize", "objective", "assign", "assign", "restore"]) for _ in range(rng.randint(1, 5)))
        if rng.random() < 0.25:
            # the same reports on a circular problem (evaluations wrap around the origin)
            # (the circular class supports located pattern / GC / keep specifications: family of C13)
            from . import c13
            p = c13.gen_circular(rng)
            objs = []
            if rng.random() < 0.7:
                objs.append(("AvoidPattern", problems.kw(pattern=rng.choice(c13.PATTERNS), boost=rng.choice([1.0, 0.5, 2.0]), location=None)))
            if rng.random() < 0.6 or not objs:
                objs.append(("EnforceGCContent", problems.kw(target=rng.choice([0.25, 0.5]), window=8, boost=rng.choice([1.0, 4.0]), location=None)))
            p["objectives"] = tuple(objs)
            p["circular"] = True
            hist = tuple(h for h in hist if h != "objective") or ("assign",)
        elif rng.random() < 0.25:
            # the sequence supplied is NOT compatible with a hard restriction: the constructor rewrites
            # it, and every report must keep counting against the sequence that was supplied
            n = len(p["seq"])
            a = rng.randint(0, n - 6)
            w = "".join(rng.choice("ACGT") for _ in range(6))
            extra = rng.choice([("EnforceSequence", problems.kw(location=(a, a + 6, 1), sequence=w)),
                                ("EnforceChoice", problems.kw(location=(a, a + 6, 1), choices=(w, w[::-1]))),
                                ("EnforceChanges", problems.kw(location=(a, a + 6, 0), reference=w[:3] + p["seq"][a + 3:a + 6]))])
            p["constraints"] = tuple(c for c in p["constraints"]
                                     if c[0] not in ("EnforceTranslation", "AvoidChanges", "EnforceChoice", "EnforceSequence", "EnforceChanges")) + (extra,)
        cases.append(("history", json.dumps(p, sort_keys=True), hist))
    return cases, {}


def nontrivial(case, out):
    if out[0] != "ok" or "skipped" in out[1]:
        return False
    return any(s["n_edits"] > 0 and (not all(s["passes"]) or s["total"] != 0) for _, s in out[1]["snaps"])


def run(chk):
    mod = __import__("harness.c17", fromlist=["x"])
    cases, outs = core.standard_run(chk, mod)
    terms = coq_terms(outs)
    try:
        bad, shown = chk.coq_eval(IMPORTS, CASE_TYPE, CHECKER, terms, show=SHOW)
    except core.CoqEvalError as e:
        bad, shown = [], {}
        chk.violation("L1 obligations", {"broken": "coq evaluation of report cases", "log": str(e)[-1500:]}, no_input=True)
    chk.coverage["disagreements_checked"] += len(bad)
    for i in bad[:1]:
        chk.violation("correspondence report", {"coq_case": terms[i], "model": shown.get(i),
                                                "broken": "correspondence check17 (Model/Report.v vs implementation)"}, no_input=True)
    dist = chk.coverage.setdefault("distribution", {})
    dist["states compared"] = len(terms)
    for c in cases:
        for op in c[2]:
            dist["step:" + op] = dist.get("step:" + op, 0) + 1


def replay(path):
    return core.standard_replay(__import__("harness.c17", fromlist=["x"]), path)
