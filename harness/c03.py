"""C03 - optimize() never lowers the weighted objective total."""
from fractions import Fraction

from . import core, c02
from .c02 import *  # noqa: F401,F403  (runs shared with C02)

PROP_FILES = ["Properties/C03.v", "Harness/H01.v"]
RULE = c02.RULE.replace("non-trivial = optimize changed the sequence", "non-trivial = the total strictly increased")
EXCLUDED = ("UniquifyAllKmers",)
TOL = Fraction(1, 10**9)


def oracle(case, out):
    if out[0] == "timeout":
        return None
    if out[0] != "ok":
        return "harness/implementation raised outside the solver: %r" % (out[:3],)
    o = out[1]
    if "skipped" in o or any(c in EXCLUDED for c in o["objective_classes"]):
        return None
    t0, t1, t2 = [Fraction(x) for x in o["totals"]]
    if t1 < t0 - TOL * (1 + abs(t0)):
        return "the weighted objective total dropped from %s to %s" % (float(t0), float(t1))
    if t2 < t1 - TOL * (1 + abs(t1)):
        return "a second call lowered the total from %s to %s" % (float(t1), float(t2))
    return None


def nontrivial(case, out):
    if out[0] != "ok" or "skipped" in out[1]:
        return False
    t0, t1, _ = [Fraction(x) for x in out[1]["totals"]]
    return t1 > t0


def run(chk):
    cases, outs = core.standard_run(chk, __import__("harness.c03", fromlist=["x"]))
    c02.finish_dist(chk, outs)


def replay(path):
    return core.standard_replay(__import__("harness.c03", fromlist=["x"]), path)
