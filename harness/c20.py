"""C20 - Scores, pass/optimal flags and declared best scores are mutually consistent."""
from fractions import Fraction

from . import core, c10
from .c10 import *  # noqa: F401,F403  (cases shared with C10)

PROP_FILES = ["Properties/C20.v", "Harness/H10.v"]
RULE = c10.RULE.replace("non-trivial = the evaluation fails (score < 0) or the score is not an integer",
                        "non-trivial = the class declares a best possible score and the evaluation is not optimal")


def objective_config(desc):
    name, kw = desc[0], dict(desc[1])
    if name == "AvoidChanges" and (kw.get("max_edits") or kw.get("max_edits_percent")):
        return False
    if name == "EnforceChanges" and (kw.get("minimum") is not None or kw.get("minimum_percent") is not None):
        return False
    return True


def oracle(case, out):
    if out[0] != "ok":
        return "implementation raised/hung: %r" % (out[:3],)
    term, (score, locs), passes, cls, best, optimal = out[1]
    _, desc, role, seq = case
    if passes != (score >= 0):
        return "passes flag is not (score >= 0)"
    if optimal != (best is not None and score == Fraction(repr(float(best)))):
        return "is_optimal flag is not (score == declared best possible score)"
    if best is not None and objective_config(desc) and not (role == "constraint" and dict(desc[1]).get("minimum_percent")):
        if role == "constraint" and desc[0] == "EnforceChanges":
            return None
        if score > Fraction(repr(float(best))):
            return "score %s above the declared best possible score %s" % (float(score), best)
        exp, breaches, pred = c10.reference(desc, role, seq)[:3]
        if pred is True and score != Fraction(repr(float(best))):
            return "documented goal met but the score is not the declared best"
        if pred is False and score == Fraction(repr(float(best))):
            return "score equals the declared best (flagged optimal) although the documented goal is not met"
    return None


def nontrivial(case, out):
    return out[0] == "ok" and out[1][4] is not None and not out[1][5]


def run(chk):
    core.standard_run(chk, __import__("harness.c20", fromlist=["x"]))


def replay(path):
    return core.standard_replay(__import__("harness.c20", fromlist=["x"]), path)
