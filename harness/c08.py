"""C08 - A constraint that passes locally after a local edit passes globally."""
from . import core, c09
from .c09 import *  # noqa: F401,F403  (cases, runners and Coq terms are shared with C09)

PROP_FILES = ["Properties/C08.v", "Harness/H10.v"]
RULE = c09.RULE.replace("the global score changes under the edit", "the specification passes before the edit and the edit changes its score")
oracle = c09.oracle_c08


def nontrivial(case, out):
    if out[0] != "ok":
        return False
    g1, g2 = out[1][5], out[1][6]
    return g1[0] >= 0 and g1[0] != g2[0]


def run(chk):
    core.standard_run(chk, __import__("harness.c08", fromlist=["x"]))


def replay(path):
    return core.standard_replay(__import__("harness.c08", fromlist=["x"]), path)
