"""Shared machinery of every check: environment, Coq build/audit, case evaluation inside Coq,
verdicts, replay files, evidence.  See DESIGN.md sections 2 and 5.

Layers per property:  L1 theorems (coq/Properties/<id>.v, rebuilt against Generated/*.v which are
re-derived from /repo on every run);  L2 correspondence (model evaluated by coqc/vm_compute on the
very inputs the implementation ran, outputs compared inside Coq);  L3 direct oracle on the
implementation (search for a concrete failing input; never a substitute for a theorem).
"""
import fcntl
import json
import os
import random
import re
import shutil
import signal
import subprocess
import sys
import tempfile
import time
import traceback

VERIF = os.path.dirname(os.path.dirname(os.path.abspath(__file__)))
REPO = os.environ.get("DNACHISEL_REPO", "/repo")
COQ = os.path.join(VERIF, "coq")
EVIDENCE = os.path.join(VERIF, "evidence")
FORBIDDEN = re.compile(
    r"\b(Admitted|admit|Axiom|Axioms|Parameter|Parameters|Conjecture|Conjectures|Abort All|"
    r"Unset Guard Checking|Unset Positivity Checking|Unset Universe Checking|bypass_check|"
    r"Admit Obligations|type-in-type|impredicative-set)\b")
ALLOWED_ASSUMPTIONS = ()  # target: every property theorem is "Closed under the global context"

TRUSTED_BASE = [
    "Coq 8.16.1 kernel (coqc full .vo build; vm_compute used for finite sweeps and for evaluating the model on cases; no native_compute)",
    "axioms: none declared; every property theorem prints 'Closed under the global context'",
    "tools/py2coq.py and tools/gen_tables.py (fail-closed source->Gallina translators)",
    "the Python harness under /verif/harness (generators, recorders, canonicalisers) and /verif/shims",
    "oracles: CPython, numpy RandomState outputs, the `re` engine (leftmost match of a fixed-length class pattern), Biopython data tables",
]


def setup_paths():
    """Make the implementation importable in this process (shims first)."""
    for v in ("OMP_NUM_THREADS", "OPENBLAS_NUM_THREADS", "MKL_NUM_THREADS"):
        os.environ.setdefault(v, "1")
    shims = os.path.join(VERIF, "shims")
    for p in (REPO, shims):
        if p in sys.path:
            sys.path.remove(p)
        sys.path.insert(0, p)
    os.environ["PYTHONPATH"] = shims + os.pathsep + REPO
    os.environ.setdefault("PYTHONHASHSEED", "0")
    os.environ["DNACHISEL_VERIF"] = "1"
    import warnings
    warnings.filterwarnings("ignore")
    import importlib
    import sitecustomize  # noqa: F401  (the shim; idempotent)
    importlib.reload(sitecustomize)


def child_env(hashseed="0"):
    env = dict(os.environ)
    env["PYTHONPATH"] = os.path.join(VERIF, "shims") + os.pathsep + REPO
    env["PYTHONHASHSEED"] = str(hashseed)
    env["DNACHISEL_VERIF"] = "1"
    return env


class Timeout(BaseException):
    """the harness's own time limit; a BaseException so that no `except Exception` (ours or the
    library's) can mistake it for a failure of the code under test"""


class time_limit:
    """with time_limit(5): ...   (SIGALRM; main thread of a worker process)"""

    def __init__(self, seconds):
        self.seconds = seconds

    def _handler(self, signum, frame):
        raise Timeout()

    def __enter__(self):
        self.old = signal.signal(signal.SIGALRM, self._handler)
        signal.setitimer(signal.ITIMER_REAL, self.seconds)

    def __exit__(self, *a):
        signal.setitimer(signal.ITIMER_REAL, 0)
        signal.signal(signal.SIGALRM, self.old)
        return False


# --------------------------------------------------------------------------- Coq literals

def cz(n):
    return "(%d)%%Z" % int(n)


def cbool(b):
    return "true" if b else "false"


def cseq(s):
    return '(sq "%s")' % s


def clist(items):
    return "[" + "; ".join(items) + "]"


def copt(x, f=lambda v: v):
    return "None" if x is None else "(Some %s)" % f(x)


def cloc(t):
    s, e, st = t
    return "(mkLoc %s %s %s)" % (cz(s), cz(e), cz(st))


def cpair(a, b):
    return "(%s, %s)" % (a, b)


def cq(fr):
    """exact rational (fractions.Fraction or int) as a Coq Q literal"""
    from fractions import Fraction
    fr = Fraction(fr)
    return "(Qmake (%d) %d)" % (fr.numerator, fr.denominator)


def cstring(s):
    return '"%s"%%string' % s.replace('"', '""')


# --------------------------------------------------------------------------- the check object

class Check:
    def __init__(self, pid, tier, seed, design_ref=""):
        self.pid = pid
        self.tier = tier
        self.seed = seed
        self.rng = random.Random("%s/%s" % (pid, seed))
        self.t0 = time.time()
        self.violations = []        # (key, replay_path, no_input)
        self.known_hits = []
        self.scratch = tempfile.mkdtemp(prefix="verif_%s_" % pid)
        self.coverage = {
            "obligations": 0, "discharged": 0, "checker_cmd": "", "trusted_base": list(TRUSTED_BASE),
            "programs": 0, "disagreements_checked": 0, "samples": [], "evaluations": 0,
            "distinct_nontrivial": 0, "rule": "", "exhaustive": False,
        }
        self.assumptions = []
        self.notes = []
        self.l1_ok = True
        self.l2_ok = True
        self.known = load_known()
        os.makedirs(os.path.join(VERIF, "replays"), exist_ok=True)

    # ---- L1 -------------------------------------------------------------------------------
    def regenerate(self):
        """Re-derive coq/Generated/*.v from the current /repo sources (fail closed)."""
        logs = []
        ok = True
        for tool, dest in (("py2coq.py", "GenKernels.v"), ("gen_tables.py", "GenTables.v")):
            path = os.path.join(VERIF, "tools", tool)
            if not os.path.exists(path):
                continue
            r = subprocess.run([sys.executable, path, REPO, os.path.join(COQ, "Generated", dest)],
                               capture_output=True, text=True, env=child_env())
            logs.append(r.stdout + r.stderr)
            if r.returncode != 0:
                ok = False
        return ok, "\n".join(logs)

    def build(self, prop_files, timeout=1500):
        """make the property files (and whatever they depend on), then re-run coqc on each
        property file to capture fresh Print Assumptions output.  Returns (ok, log)."""
        lock = open(os.path.join(COQ, ".build.lock"), "w")
        fcntl.flock(lock, fcntl.LOCK_EX)
        try:
            ok_gen, log = self.regenerate()
            if not ok_gen:
                return False, "GENERATOR FAILED (tie to the source broken)\n" + log
            if not os.path.exists(os.path.join(COQ, "Makefile")):
                subprocess.run(["coq_makefile", "-f", "_CoqProject", "-o", "Makefile"], cwd=COQ,
                               capture_output=True, text=True)
            targets = [f[:-2] + ".vo" for f in prop_files]
            r = subprocess.run(["timeout", str(timeout), "make", "-j16"] + targets, cwd=COQ,
                               capture_output=True, text=True)
            log += r.stdout[-6000:] + r.stderr[-6000:]
            if r.returncode != 0:
                return False, log
            n_thm = 0
            closed = 0
            for f in prop_files:
                r = subprocess.run(["timeout", "600", "coqc", "-Q", ".", "DC", f], cwd=COQ,
                                   capture_output=True, text=True)
                if r.returncode != 0:
                    return False, log + r.stdout[-3000:] + r.stderr[-3000:]
                src = open(os.path.join(COQ, f)).read()
                thms = re.findall(r"^\s*(?:Theorem|Lemma|Corollary)\s+(\w+)", src, re.M)
                prints = re.findall(r"Print Assumptions\s+(\w+)", src)
                missing = [t for t in thms if t not in prints]
                if missing:
                    return False, log + "theorems without Print Assumptions: %s" % missing
                blocks = split_assumptions(r.stdout)
                if len(blocks) != len(prints):
                    return False, log + "could not pair Print Assumptions output (%d vs %d)" % (len(blocks), len(prints))
                for name, blk in zip(prints, blocks):
                    n_thm += 1
                    if blk.strip() == "Closed under the global context":
                        closed += 1
                        self.assumptions.append("%s: Closed under the global context" % name)
                    else:
                        self.assumptions.append("%s: %s" % (name, " ".join(blk.split())))
                        return False, log + "theorem %s depends on axioms:\n%s" % (name, blk)
            bad = self.audit()
            if bad:
                return False, log + "AUDIT: forbidden vernacular found:\n" + "\n".join(bad)
            self.coverage["obligations"] += n_thm
            self.coverage["discharged"] += closed
            self.coverage["checker_cmd"] = "make -C /verif/coq %s && coqc -Q . DC <each property file> (Print Assumptions parsed)" % " ".join(targets)
            return True, log
        finally:
            fcntl.flock(lock, fcntl.LOCK_UN)
            lock.close()

    def audit(self):
        bad = []
        for root, _, files in os.walk(COQ):
            for fn in files:
                if fn.endswith(".v"):
                    p = os.path.join(root, fn)
                    for i, line in enumerate(open(p), 1):
                        code = re.sub(r"\(\*.*?\*\)", "", line)
                        if FORBIDDEN.search(code):
                            bad.append("%s:%d: %s" % (p, i, line.strip()))
        proj = open(os.path.join(COQ, "_CoqProject")).read()
        if re.search(r"-arg|-type-in-type|-impredicative-set|-vos|-vok", proj):
            bad.append("_CoqProject passes extra flags")
        return bad

    # ---- L2 -------------------------------------------------------------------------------
    def coq_eval(self, imports, case_type, checker, case_terms, shard=400, show=None):
        """Evaluate `checker : case_type -> bool` on every case inside Coq (vm_compute).
        Returns the list of indices on which the model disagrees with the implementation's
        output embedded in the case.  `show` (a Coq function name) is evaluated on failing cases
        and its printed value returned alongside."""
        shards = [case_terms[i:i + shard] for i in range(0, len(case_terms), shard)]
        procs = []
        for k, terms in enumerate(shards):
            path = os.path.join(self.scratch, "cases_%s_%d_%d.v" % (self.pid, len(os.listdir(self.scratch)), k))
            with open(path, "w") as f:
                f.write("From Coq Require Import ZArith QArith List Ascii String Bool.\nImport ListNotations.\n")
                f.write(imports + "\n")
                f.write("Open Scope Z_scope.\n")
                f.write("Definition cases : list (%s) := [\n  " % case_type)
                f.write(";\n  ".join(terms))
                f.write("\n].\n")
                f.write("Eval vm_compute in (DC.Model.Base.bad_indices (%s) cases).\n" % checker)
            procs.append((k, path, terms))
        bad = []
        running = []
        maxpar = 12

        def launch(item):
            k, path, terms = item
            p = subprocess.Popen(["timeout", "900", "coqc", "-Q", COQ, "DC", "-o", path + "o", path],
                                 stdout=subprocess.PIPE, stderr=subprocess.STDOUT, text=True,
                                 cwd=self.scratch)
            return (item, p)

        pending = list(procs)
        while pending or running:
            while pending and len(running) < maxpar:
                running.append(launch(pending.pop(0)))
            (item, p) = running.pop(0)
            out, _ = p.communicate()
            k, path, terms = item
            m = re.search(r"=\s*\[(.*?)\]\s*:\s*list nat", out, re.S)
            if p.returncode == 124 and not out.strip():
                # the shard hit the time limit: evaluate its cases one by one; a case on which the eager model
                # itself is too slow is left to the L3 oracle (counted, never silently dropped)
                slow = self._coq_eval_singly(imports, case_type, checker, terms, k * shard, bad)
                self.coverage["model_too_slow_cases"] = self.coverage.get("model_too_slow_cases", 0) + slow
                continue
            if p.returncode != 0 or m is None:
                raise CoqEvalError("coqc failed on generated cases %s:\n%s" % (path, out[-3000:]))
            idx = [int(x) for x in re.findall(r"\d+", m.group(1))]
            for i in idx:
                bad.append(k * shard + i)
        self.coverage["programs"] += len(case_terms)
        shown = {}
        if bad and show:
            for i in bad[:5]:
                path = os.path.join(self.scratch, "show_%d.v" % i)
                with open(path, "w") as f:
                    f.write("From Coq Require Import ZArith QArith List Ascii String Bool.\nImport ListNotations.\n")
                    f.write(imports + "\nOpen Scope Z_scope.\n")
                    f.write("Eval vm_compute in (%s (%s)).\n" % (show, case_terms[i]))
                r = subprocess.run(["timeout", "300", "coqc", "-Q", COQ, "DC", "-o", path + "o", path],
                                   capture_output=True, text=True, cwd=self.scratch)
                shown[i] = " ".join((r.stdout + r.stderr).split())[:4000]
        return bad, shown

    def _coq_eval_singly(self, imports, case_type, checker, terms, base, bad, limit=120, par=12):
        """one coqc per case (after a shard timed out); returns the number of cases over the limit"""
        jobs = []
        for j, t in enumerate(terms):
            path = os.path.join(self.scratch, "single_%s_%d_%d.v" % (self.pid, base, j))
            with open(path, "w") as f:
                f.write("From Coq Require Import ZArith QArith List Ascii String Bool.\nImport ListNotations.\n")
                f.write(imports + "\nOpen Scope Z_scope.\n")
                f.write("Definition cases : list (%s) := [\n  %s\n].\n" % (case_type, t))
                f.write("Eval vm_compute in (DC.Model.Base.bad_indices (%s) cases).\n" % checker)
            jobs.append((j, path))
        slow = 0
        running = []
        while jobs or running:
            while jobs and len(running) < par:
                j, path = jobs.pop(0)
                running.append((j, path, subprocess.Popen(["timeout", str(limit), "coqc", "-Q", COQ, "DC", "-o", path + "o", path],
                                                          stdout=subprocess.PIPE, stderr=subprocess.STDOUT, text=True, cwd=self.scratch)))
            j, path, p = running.pop(0)
            out, _ = p.communicate()
            m = re.search(r"=\s*\[(.*?)\]\s*:\s*list nat", out, re.S)
            if p.returncode == 124 and not out.strip():
                slow += 1
                self.notes.append("model evaluation over %d s on one case (left to the L3 oracle): %s" % (limit, terms[j][:300]))
                continue
            if p.returncode != 0 or m is None:
                raise CoqEvalError("coqc failed on generated case %s:\n%s" % (path, out[-3000:]))
            if re.findall(r"\d+", m.group(1)):
                bad.append(base + j)
        return slow

    # ---- verdicts -------------------------------------------------------------------------
    def write_replay(self, name, payload):
        path = os.path.join(VERIF, "replays", "%s_%s.json" % (self.pid, name))
        payload = dict(payload)
        payload["property"] = self.pid
        with open(path, "w") as f:
            json.dump(payload, f, indent=1, default=str)
        return path

    def violation(self, key, payload, no_input=False):
        """Record a violation unless `key` is a listed known finding."""
        for k in self.known:
            if k.get("property") == self.pid and k.get("kind") == "finding" and k.get("key") == key:
                if key not in self.known_hits:
                    self.known_hits.append(key)
                    print("KNOWN-FINDING: property=%s %s" % (self.pid, k.get("what", key)))
                return
        if any(v[0] == key for v in self.violations):
            return
        payload = dict(payload)
        payload["key"] = key
        path = self.write_replay(re.sub(r"\W+", "_", key)[:60], payload)
        self.violations.append((key, path, no_input))

    def add_samples(self, samples, limit=6):
        for s in samples:
            if len(self.coverage["samples"]) < limit:
                self.coverage["samples"].append(s)

    def finish(self, level="proof", assumptions=None, extra=None):
        cov = self.coverage
        if extra:
            cov.update(extra)
        cov["print_assumptions"] = self.assumptions
        cov["notes"] = self.notes
        cov["known_findings_hit"] = self.known_hits
        ev = {
            "property_id": self.pid, "tier": self.tier, "seed": int(self.seed), "level": level,
            "coverage": cov,
            "assumptions": assumptions or [],
            "wall_s": round(time.time() - self.t0, 2),
            "violations": len(self.violations),
        }
        # a development run that skipped the Coq build is not a record of a check: keep it apart
        evdir = os.path.join(VERIF, ".dev_evidence") if getattr(self, "dev_run", False) else EVIDENCE
        os.makedirs(evdir, exist_ok=True)
        with open(os.path.join(evdir, "%s.json" % self.pid), "w") as f:
            json.dump(ev, f, indent=1, default=str)
        shutil.rmtree(self.scratch, ignore_errors=True)
        if any(not v[2] for v in self.violations):
            # a concrete failing input exists: obligations/correspondences that broke in the same
            # run are listed in the evidence notes instead of as separate violation lines
            cov["notes"] = cov["notes"] + ["also broken: %s (%s)" % (v[0], v[1]) for v in self.violations if v[2]]
            self.violations = [v for v in self.violations if not v[2]]
        for key, path, no_input in self.violations:
            print("VIOLATION property=%s replay=%s key=%s%s" % (
                self.pid, path, re.sub(r"\s+", "_", key), " no-failing-input-found" if no_input else ""))
        print("%s %s tier=%s seed=%s wall=%.1fs obligations=%d/%d programs=%d evaluations=%d" % (
            "FAIL" if self.violations else "OK", self.pid, self.tier, self.seed, time.time() - self.t0,
            cov["discharged"], cov["obligations"], cov["programs"], cov["evaluations"]))
        return 1 if self.violations else 0


class CoqEvalError(Exception):
    pass


def split_assumptions(out):
    """Split coqc stdout into one block per Print Assumptions command."""
    blocks = []
    cur = None
    for line in out.splitlines():
        if line.startswith("Closed under the global context"):
            if cur is not None:
                blocks.append("\n".join(cur))
                cur = None
            blocks.append(line.strip())
        elif line.startswith("Axioms:"):
            if cur is not None:
                blocks.append("\n".join(cur))
            cur = [line]
        elif cur is not None:
            cur.append(line)
    if cur is not None:
        blocks.append("\n".join(cur))
    return blocks


def load_known():
    p = os.path.join(VERIF, "known_findings.json")
    if not os.path.exists(p):
        return []
    return json.load(open(p)).get("entries", [])


def pool_map(fn, items, procs=14, chunksize=8):
    """Run fn over items in worker processes (fork), preserving order."""
    import multiprocessing as mp
    if len(items) < 32:
        return [fn(x) for x in items]
    ctx = mp.get_context("fork")
    with ctx.Pool(procs) as pool:
        return pool.map(fn, items, chunksize=chunksize)


def safe_call(fn, *a, limit=10.0):
    """Call fn; canonicalise exceptions to ('exc', TypeName) and hangs to ('timeout',)."""
    try:
        with time_limit(limit):
            return ("ok", fn(*a))
    except Timeout:
        return ("timeout",)
    except BaseException as e:  # noqa
        return ("exc", type(e).__name__, str(e)[:200])


# --------------------------------------------------------------------------- standard driver

def vkey(kind, why):
    return "%s: %s" % (kind, re.sub(r"[-\d(),=.' \[\]]+", " ", why.split(":")[0]).strip())


def standard_run(chk, mod, extra_search=None):
    """L1 build + L2 correspondence + L3 oracle for a module exposing:
    PROP_FILES, IMPORTS, CASE_TYPE, CHECKER, SHOW, RULE, gen_cases(rng,tier)->(cases,stats),
    run_impl(case), oracle(case,out)->None|str, coq_case(case,out)->str|None, nontrivial(case,out)."""
    ok, log = (True, "") if getattr(chk, "no_build", False) else chk.build(mod.PROP_FILES)
    if not ok:
        chk.l1_ok = False
        chk.notes.append("L1 broken: " + log[-2500:])
    cases, stats = mod.gen_cases(chk.rng, chk.tier)
    cases = load_corpus(chk.pid) + cases
    outs = pool_map(mod.run_impl, cases)
    chk.coverage["evaluations"] += len(cases)
    groups = {}
    for c, o in zip(cases, outs):
        why = mod.oracle(c, o)
        if why:
            groups.setdefault(vkey(c[0], why), (c, o, why))
    for key, (c, o, why) in groups.items():
        chk.violation(key, {"case": c, "observed": o, "why": why,
                            "layer": "L3 direct oracle on the implementation"})
    pairs = []
    for c, o in zip(cases, outs):
        if o[0] == "ok":
            t = mod.coq_case(c, o)
            if t is not None:
                pairs.append((c, o, t))
    try:
        bad, shown = chk.coq_eval(mod.IMPORTS, mod.CASE_TYPE, mod.CHECKER, [t for _, _, t in pairs],
                                  shard=getattr(mod, "SHARD", 400), show=getattr(mod, "SHOW", None))
    except CoqEvalError as e:
        bad, shown = [], {}
        chk.l1_ok = False
        chk.notes.append(str(e)[-2500:])
    chk.coverage["disagreements_checked"] += len(bad)
    seen = set()
    for i in bad:
        c, o, t = pairs[i]
        key = "correspondence %s" % c[0]
        if key in seen:
            continue
        seen.add(key)
        if mod.oracle(c, o):
            continue
        chk.violation(key, {"case": c, "observed": o, "model": shown.get(i), "coq_case": t,
                            "broken": "correspondence %s (model vs implementation)" % mod.CHECKER},
                      no_input=True)
    # a broken correspondence with no failing input yet: search the neighbourhood of the disagreeing
    # cases on the implementation (same family of inputs, varied parameters) for a concrete violation
    if bad and not any(not v[2] for v in chk.violations) and hasattr(mod, "neighbours"):
        seeds_cases, seen_txt = [], set()
        for i in bad:
            c = pairs[i][0]
            t = json.dumps(c, default=str)
            if t not in seen_txt:
                seen_txt.add(t)
                seeds_cases.append(c)
            if len(seeds_cases) >= 6:
                break
        neigh = []
        for c in seeds_cases:
            neigh += list(mod.neighbours(c, chk.rng))
        nouts = pool_map(mod.run_impl, neigh)
        chk.coverage["evaluations"] += len(neigh)
        chk.coverage.setdefault("distribution_extra", {})["neighbourhood search cases"] = len(neigh)
        for c, o in zip(neigh, nouts):
            why = mod.oracle(c, o)
            if why:
                if isinstance(o, (list, tuple)) and len(o) > 1 and isinstance(o[1], dict):
                    o[1].pop("term", None)
                chk.violation(vkey(c[0], why), {"case": c, "observed": o, "why": why,
                                                "layer": "L3 oracle, neighbourhood search around a correspondence disagreement"})
                break
    if extra_search is not None:
        extra_search(chk)
    if not chk.l1_ok and not chk.violations:
        chk.violation("L1 obligations", {"broken": "coq build of %s" % mod.PROP_FILES,
                                         "log": chk.notes[-1] if chk.notes else ""}, no_input=True)
    nt = set()
    for c, o in zip(cases, outs):
        if mod.nontrivial(c, o):
            nt.add(json.dumps(c, default=str))
    chk.coverage["distinct_nontrivial"] += len(nt)
    chk.coverage["rule"] = mod.RULE
    dist = dict(stats)
    for c, o in zip(cases, outs):
        dist["op:" + c[0]] = dist.get("op:" + c[0], 0) + 1
        dist["outcome:" + o[0]] = dist.get("outcome:" + o[0], 0) + 1
    chk.coverage["distribution"] = dist
    step = max(1, len(cases) // 6)
    chk.add_samples([{"case": cases[i], "impl": outs[i]} for i in range(0, len(cases), step)])
    return cases, outs


def detuple(x):
    if isinstance(x, list):
        return tuple(detuple(y) for y in x)
    return x


def load_corpus(pid):
    p = os.path.join(VERIF, "corpus", "%s.json" % pid)
    if os.path.exists(p):
        return [detuple(c) for c in json.load(open(p))]
    return []


def standard_replay(mod, path):
    d = json.load(open(path))
    if "case" not in d:
        print("replay names a broken obligation/correspondence, no concrete input:", d.get("broken"))
        return 1
    case = detuple(d["case"])
    out = mod.run_impl(case)
    why = mod.oracle(case, out)
    print("case:", case)
    print("implementation output:", out)
    print("oracle:", why or "property holds on this case")
    return 1 if why else 0


# --------------------------------------------------------------------------- numpy RNG recorder

class RngRecorder:
    """Wrap numpy.random.{randint,choice,shuffle} (module-level functions DnaChisel calls) and
    record every request with its answer.  events: ("int", n, v) | ("choice", n, k, [i...]) |
    ("ints", n, size, [v...]) | ("shuffle", n, [perm...])"""

    def __init__(self):
        self.events = []
        self.suspended = False

    def __enter__(self):
        import numpy as np
        self.np = np
        self.orig = (np.random.randint, np.random.choice, np.random.shuffle)
        rec = self

        def randint(low, high=None, size=None, dtype=int):
            r = rec.orig[0](low, high, size)
            if rec.suspended:
                return r
            n = low if high is None else high - low
            if size is None:
                rec.events.append(("int", int(n), int(r) - (0 if high is None else int(low))))
            else:
                rec.events.append(("ints", int(n), int(size), [int(x) for x in r]))
            return r

        def choice(a, size=None, replace=True, p=None):
            r = rec.orig[1](a, size, replace, p)
            if rec.suspended:
                return r
            if isinstance(a, int) and size is not None and p is None:
                rec.events.append(("choice", int(a), int(size), [int(x) for x in r]))
            else:
                rec.events.append(("choice_other", repr(a)[:40], size))
            return r

        def shuffle(x):
            before = list(x)
            rec.orig[2](x)
            if rec.suspended:
                return
            rec.events.append(("shuffle", len(before)))

        np.random.randint, np.random.choice, np.random.shuffle = randint, choice, shuffle
        return self

    def __exit__(self, *a):
        np = self.np
        np.random.randint, np.random.choice, np.random.shuffle = self.orig
        return False

    def stream(self):
        """answers as the Coq oracle stream (list of lists) and the request log"""
        ans, log = [], []
        for e in self.events:
            if e[0] == "int":
                ans.append([e[2]])
                log.append(("int", e[1]))
            elif e[0] == "choice":
                ans.append(list(e[3]))
                log.append(("choice", e[1], e[2]))
            elif e[0] == "heur":
                ans.append([e[1]])
                log.append(("int", -2))
            else:
                ans.append([])
                log.append(("other",))
        return ans, log


def cstream(ans):
    return clist([clist([cz(v) for v in a]) for a in ans])


def clog(log):
    out = []
    for e in log:
        if e[0] == "int":
            out.append("RInt %s" % cz(e[1]))
        elif e[0] == "choice":
            out.append("RChoice %s %s" % (cz(e[1]), cz(e[2])))
        else:
            out.append("RInt (-1)%Z")
    return clist(out)
