"""C19 - Sequence utilities obey their algebraic laws (biotools)."""
import json
from fractions import Fraction

from . import core
from .core import cz, cbool, clist, copt, cpair, cseq, cstring

PROP_FILES = ["Properties/C19.v", "Harness/H19.v"]
IMPORTS = "From DC Require Import Model.Base Model.Bio Harness.H19."
CASE_TYPE = "case19"
CHECKER = "check19"
SHOW = "model19"
RULE = ("generated strings with lengths clustered at 0,1,29-33 (complement switch) and window sizes at 1,n-1,n,n+1; "
        "all genetic tables x all amino acids; non-trivial = non-empty input with at least one G/C and one A/T, "
        "or differing sequences, or groups that actually split; distinct by JSON text")

CSV_ALPHABET = "ACGTUWSMKRYBDHVNZ"


def impl_case(case):
    import numpy as np
    from dnachisel import biotools as bt
    from dnachisel.biotools import indices_operations as io
    k = case[0]
    if k == "complement":
        s = case[1]
        try:
            c = bt.complement(s)
        except KeyError:
            c = None
        try:
            r = bt.reverse_complement(s)
        except KeyError:
            r = None
        return c, r
    if k == "rc":
        return bt.reverse_complement(case[1])
    if k == "gcw":
        s, w = case[1], case[2]
        vals = bt.gc_content(s, window_size=w)
        out = []
        for v in vals:
            c = int(round(float(v) * w))
            if float(Fraction(c, w)) != float(v):
                raise AssertionError("window value %r is not count/w" % (v,))
            out.append(c)
        return tuple(out)
    if k == "gcg":
        s = case[1]
        v = float(bt.gc_content(s))
        c = int(round(v * len(s)))
        if float(Fraction(c, len(s))) != v:
            raise AssertionError("global value %r is not count/len" % (v,))
        return c
    if k == "diff":
        s, t = case[1], case[2]
        arr = tuple(bool(x) for x in bt.sequences_differences_array(s, t))
        n = int(bt.sequences_differences(s, t))
        segs = tuple((int(a), int(b)) for a, b in bt.sequences_differences_segments(s, t))
        return arr, n, segs
    if k == "subdivide":
        return tuple((int(a), int(b)) for a, b in io.subdivide_window((case[1], case[2]), case[3]))
    if k == "gidx":
        return tuple(tuple(int(x) for x in g) for g in io.group_nearby_indices(list(case[1]), max_gap=case[2], max_group_spread=case[3]))
    if k == "gseg":
        return tuple(tuple((int(a), int(b)) for a, b in g) for g in
                     io.group_nearby_segments(list(case[1]), max_start_gap=case[2], max_start_spread=case[3]))
    if k == "translate":
        return bt.translate(case[2], table=case[1], assume_start_codon=case[3])
    if k == "revtrans":
        name, p, ks = case[1], case[2], case[3]
        if ks is None:
            return bt.reverse_translate(p, randomize_codons=False, table=name)
        orig = np.random.randint
        try:
            np.random.randint = lambda lo, hi, n: np.array(ks[:n])
            return bt.reverse_translate(p, randomize_codons=True, table=name)
        finally:
            np.random.randint = orig
    if k == "backtable":
        return tuple(bt.get_backtranslation_table(case[1]).get(case[2], ()))
    raise ValueError(k)


def run_impl(case):
    return core.safe_call(impl_case, case, limit=20)


COMP = dict(zip("ACGTUWSMKRYBDHVNZ", "TGCAAWSKMYRVHDBNZ"))  # independent literal (IUPAC complement)


def ref_translate(name, s):
    from Bio.Data import CodonTable
    t = CodonTable.unambiguous_dna_by_name[name]
    out = []
    for i in range(0, len(s) - len(s) % 3, 3):
        c = s[i:i + 3]
        out.append("*" if c in t.stop_codons else t.forward_table[c])
    return "".join(out)


def oracle(case, out):
    k = case[0]
    if out[0] != "ok":
        if k == "complement" or k == "diff" and len(case[1]) != len(case[2]):
            return None
        if len(out) > 2 and out[1] == "AssertionError" and "count/w" in str(out[2]):
            return "gc_content(window) is not the correctly rounded fraction count/window: %s" % (out[2],)
        return "implementation raised/hung: %r" % (out,)
    o = out[1]
    if k == "complement":
        s = case[1]
        c, r = o
        if all(ch in COMP for ch in s):
            exp = "".join(COMP[ch] for ch in s)
            if c != exp:
                return "complement differs from base-wise IUPAC complementation"
            if r != exp[::-1]:
                return "reverse_complement is not the reversed complement"
            if "U" not in s:
                from dnachisel import biotools as bt
                if bt.reverse_complement(r) != s:
                    return "reverse_complement is not an involution"
    elif k == "rc":
        s = case[1]
        if o != "".join(COMP[ch] for ch in s)[::-1]:
            return "reverse_complement wrong on ACGT"
    elif k == "gcw":
        s, w = case[1], case[2]
        exp = tuple(sum(ch in "GC" for ch in s[i:i + w]) for i in range(len(s) - w + 1))
        if o != exp:
            return "windowed GC is not the counted fraction per window"
    elif k == "gcg":
        if o != sum(ch in "GC" for ch in case[1]):
            return "global GC is not count/len"
    elif k == "diff":
        s, t = case[1], case[2]
        arr, n, segs = o
        mism = [i for i in range(len(s)) if s[i] != t[i]]
        if [i for i, b in enumerate(arr) if b] != mism or n != len(mism):
            return "differences array/count wrong"
        cov = [i for a, b in segs for i in range(a, b)]
        if cov != mism:
            return "segments do not cover exactly the mismatches"
        for (a, b), (c, d) in zip(segs, segs[1:]):
            if not b < c:
                return "segments not maximal/sorted"
    elif k == "subdivide":
        a, b, m = case[1], case[2], case[3]
        if a < b:
            if not o or o[0][0] != a or o[-1][1] != b:
                return "subdivision does not span the window"
            for (x, y), (x2, y2) in zip(o, o[1:]):
                if y != x2:
                    return "pieces not consecutive"
            if any(not (1 <= y - x <= m) for x, y in o):
                return "piece longer than the bound or empty"
    elif k in ("gidx", "gseg"):
        l, gap, spread = case[1], case[2], case[3]
        key = (lambda x: x) if k == "gidx" else (lambda x: x[0])
        flat = [x for g in o for x in g]
        if flat != sorted(l):
            return "groups do not concatenate to the sorted input"
        for g in o:
            if not g:
                return "empty group"
            for x, y in zip(g, g[1:]):
                if gap is not None and not key(y) - key(x) < gap:
                    return "gap bound violated inside a group"
            if spread is not None and any(not key(y) - key(g[0]) < spread for y in g[1:]):
                return "spread bound violated inside a group"
        for g, h in zip(o, o[1:]):
            gap_ok = gap is None or key(h[0]) - key(g[-1]) < gap
            spread_ok = spread is None or key(h[0]) - key(g[0]) < spread
            if gap_ok and spread_ok:
                return "group split although both bounds held"
    elif k == "translate":
        name, s, st = case[1], case[2], case[3]
        from Bio.Data import CodonTable
        t = CodonTable.unambiguous_dna_by_name[name]
        if set(t.stop_codons) & set(t.forward_table):
            return None
        exp = ref_translate(name, s)
        if st and s[:3] in t.start_codons:
            exp = "M" + exp[1:]
        if o != exp:
            return "translate differs from the codon table"
    elif k == "revtrans":
        name, p = case[1], case[2]
        from Bio.Data import CodonTable
        t = CodonTable.unambiguous_dna_by_name[name]
        if set(t.stop_codons) & set(t.forward_table):
            return None
        if ref_translate(name, o) != p:
            return "translate(reverse_translate(p)) != p"
    return None


def dq(s):
    return cseq(s)


def coq_case(case, out):
    k = case[0]
    o = out[1]
    if k == "complement":
        return "KComplement %s %s %s" % (cstring(case[1]), copt(o[0], cstring), copt(o[1], cstring))
    if k == "rc":
        return "KRc %s %s" % (dq(case[1]), dq(o))
    if k == "gcw":
        return "KGcWindows %s %s %s" % (dq(case[1]), cz(case[2]), clist([cz(x) for x in o]))
    if k == "gcg":
        return "KGcGlobal %s %s" % (dq(case[1]), cz(o))
    if k == "diff":
        return "KDiff %s %s %s %s %s" % (dq(case[1]), dq(case[2]), clist([cbool(b) for b in o[0]]), cz(o[1]),
                                          clist([cpair(cz(a), cz(b)) for a, b in o[2]]))
    if k == "subdivide":
        return "KSubdivide %s %s %s %s" % (cz(case[1]), cz(case[2]), cz(case[3]), clist([cpair(cz(a), cz(b)) for a, b in o]))
    if k == "gidx":
        return "KGroupIdx %s %s %s %s" % (clist([cz(x) for x in case[1]]), copt(case[2], cz), copt(case[3], cz),
                                           clist([clist([cz(x) for x in g]) for g in o]))
    if k == "gseg":
        return "KGroupSeg %s %s %s %s" % (clist([cpair(cz(a), cz(b)) for a, b in case[1]]), copt(case[2], cz), copt(case[3], cz),
                                           clist([clist([cpair(cz(a), cz(b)) for a, b in g]) for g in o]))
    if k == "translate":
        if not set(case[2]) <= set("ACGT"):
            return None
        return "KTranslate %s %s %s %s" % (cstring(case[1]), dq(case[2]), cbool(case[3]), copt(o, cstring))
    if k == "revtrans":
        ks = case[3] if case[3] is not None else []
        return "KRevTranslate %s %s %s %s" % (cstring(case[1]), cstring(case[2]), clist([cz(x) for x in ks]), copt(o, dq))
    if k == "backtable":
        if case[2] in ("START", "X", "B", "J", "Z"):
            return None
        return "KBackTable %s \"%s\"%%char %s" % (cstring(case[1]), case[2], clist([dq(c) for c in o]))
    raise ValueError(k)


def rand_dna(rng, n, gc=0.5):
    return "".join(rng.choice("GC") if rng.random() < gc else rng.choice("AT") for _ in range(n))


def lengths(rng):
    return rng.choice([0, 1, 2, 3, 5, 8, 13, 29, 30, 31, 32, 33, 60, rng.randint(0, 90)])


def gen_cases(rng, tier):
    from Bio.Data import CodonTable
    N = 1 if tier == "quick" else 25
    cases = []
    for _ in range(250 * N):
        n = lengths(rng)
        s = "".join(rng.choice(CSV_ALPHABET if rng.random() < 0.8 else "ACGT") for _ in range(n))
        cases.append(("complement", s))
    for s in ("X", "ACGX", "A" * 30 + "X", "acgt", "A" * 31 + "x"):  # malformed stream
        cases.append(("complement", s))
    for _ in range(150 * N):
        cases.append(("rc", rand_dna(rng, lengths(rng), rng.random())))
    for _ in range(300 * N):
        n = rng.choice([1, 2, 3, 7, 16, 31, 64, rng.randint(1, 120)])
        s = rand_dna(rng, n, rng.random())
        for w in {1, max(1, n - 1), n, n + 1, rng.randint(1, n + 2)}:
            cases.append(("gcw", s, w))
        cases.append(("gcg", s))
    for _ in range(300 * N):
        n = lengths(rng)
        s = rand_dna(rng, n)
        t = list(s)
        mode = rng.random()
        for i in range(n):
            if rng.random() < (0.05 if mode < 0.3 else 0.4 if mode < 0.7 else 0.9):
                t[i] = rng.choice([c for c in "ACGT" if c != t[i]])
        cases.append(("diff", s, "".join(t)))
    cases.append(("diff", "ACG", "AC"))
    for _ in range(200 * N):
        a = rng.randint(-20, 50)
        b = a + rng.choice([0, 1, 2, 5, 17, rng.randint(-3, 80)])
        cases.append(("subdivide", a, b, rng.choice([1, 2, 3, 7, rng.randint(1, 90)])))
    for _ in range(300 * N):
        l = tuple(rng.randint(-5, 60) for _ in range(rng.choice([0, 1, 2, 5, 9, 14])))
        gap = rng.choice([None, 0, 1, 2, 3, 10])
        spread = rng.choice([None, 0, 1, 3, 6, 7, 20])
        cases.append(("gidx", l, gap, spread))
        segs = tuple((x, x + rng.randint(1, 9)) for x in l)
        cases.append(("gseg", segs, gap, spread))
    names = list(CodonTable.unambiguous_dna_by_name)
    for name in names:
        t = CodonTable.unambiguous_dna_by_name[name]
        aas = sorted(set(t.forward_table.values())) + ["*"]
        for aa in aas:
            cases.append(("backtable", name, aa))
        for _ in range(2 * N):
            p = "".join(rng.choice(aas) for _ in range(rng.randint(0, 12)))
            cases.append(("revtrans", name, p, None))
            cases.append(("revtrans", name, p, tuple(rng.randint(0, 999) for _ in p)))
            s = rand_dna(rng, 3 * rng.randint(0, 12))
            if rng.random() < 0.5 and s:
                s = rng.choice(t.start_codons) + s[3:]
            cases.append(("translate", name, s, rng.random() < 0.5))
    return cases, {"tables": len(names)}


def nontrivial(case, out):
    k = case[0]
    if out[0] != "ok":
        return False
    if k in ("complement", "rc", "gcg"):
        return len(case[1]) > 1
    if k == "gcw":
        return len(out[1]) > 0 and len(set(out[1])) > 1
    if k == "diff":
        return len(out[1][2]) > 0
    if k in ("gidx", "gseg", "subdivide"):
        return len(out[1]) > 1
    return len(case[2]) > 0


def run(chk):
    core.standard_run(chk, __import__("harness.c19", fromlist=["x"]))


def replay(path):
    return core.standard_replay(__import__("harness.c19", fromlist=["x"]), path)
