"""Shared by the specification checks (C04, C08, C09, C10, C20, ...):
descriptors of built-in specifications, builders for the implementation objects, conversion of an
(initialised) implementation object into a term of the Coq type Model.Specs.spec, generators."""
from fractions import Fraction

from . import core
from .core import cz, cbool, clist, copt, cloc, cseq, cstring, cpair
from .c11 import parse_shorthand, cpat

CLASSES = ["AvoidPattern", "EnforcePatternOccurence", "EnforceGCContent", "EnforceTranslation",
           "AvoidStopCodons", "AvoidChanges", "EnforceChanges", "EnforceSequence", "EnforceChoice",
           "AvoidRareCodons", "MaximizeCAI", "HarmonizeRCA", "UniquifyAllKmers", "AvoidHairpins",
           "EnforceTerminalGCContent", "SequenceLengthBounds"]


class FakeProblem:
    """evaluate()/initialized_on_problem()/localized() only read problem.sequence"""

    def __init__(self, sequence):
        self.sequence = sequence
        self.constraints = []
        self.objectives = []


def q(x):
    """decimal reading of a float threshold written by the generator (short decimals)"""
    return Fraction(repr(float(x))) if not isinstance(x, Fraction) else x


def cq(fr):
    fr = Fraction(fr)
    return "((%d) # %d)%%Q" % (fr.numerator, fr.denominator)


def exact(x):
    """exact rational value of a float computed by the implementation"""
    return Fraction(float(x))


# ------------------------------------------------------------------ codon usage tables

def user_table(rng, zeros=False):
    """random user codon usage table over the standard code with short decimal frequencies"""
    from Bio.Data import CodonTable
    std = CodonTable.unambiguous_dna_by_name["Standard"]
    by_aa = {}
    for codon, aa in sorted(std.forward_table.items()):
        by_aa.setdefault(aa, []).append(codon)
    by_aa["*"] = sorted(std.stop_codons)
    out = {}
    for aa in sorted(by_aa):
        cs = by_aa[aa]
        ws = [rng.choice([1, 2, 3, 5, 8, 13]) for _ in cs]
        if zeros and len(cs) > 2 and rng.random() < 0.3:
            ws[rng.randrange(len(cs))] = 0
        if rng.random() < 0.25 and len(cs) > 1:   # ties
            ws[1] = ws[0]
        tot = sum(ws)
        out[aa] = {c: round(w / tot, 3) for c, w in zip(cs, ws)}
    return out


_TABLES = {}


def table_from_desc(t):
    """descriptor form of a table: tuple of (aa, ((codon, freq), ...)).  Tables are interned by content:
    as in user code, one dict object serves every specification (and problem) of the process that
    names the same table."""
    key = repr(t)
    if key not in _TABLES:
        _TABLES[key] = {aa: dict(cf) for aa, cf in t}
    return _TABLES[key]


def table_to_desc(t):
    return tuple((aa, tuple(sorted(cf.items()))) for aa, cf in sorted(t.items()) if len(aa) == 1)


# ------------------------------------------------------------------ builders

def build_spec(desc):
    import dnachisel as dc
    name, kw = desc[0], dict(desc[1])
    if kw.pop("passive", False):
        # objective scored in every local problem but never optimised for itself
        rest = (name, tuple(sorted((k, v) for k, v in kw.items())))
        return build_spec(rest).as_passive_objective()
    if "location" in kw and kw["location"] is not None:
        kw["location"] = tuple(kw["location"])
    if isinstance(kw.get("reference"), list):
        kw["reference"] = tuple(kw["reference"])
    for k in ("codon_usage_table", "original_codon_usage_table"):
        if k in kw and kw[k] is not None:
            kw[k] = table_from_desc(kw[k])
    if name == "EnforceChoice":
        kw["choices"] = list(kw["choices"])
    if name == "EnforceTranslation" and isinstance(kw.get("start_codon"), tuple):
        kw["start_codon"] = list(kw["start_codon"])
    if name in ("AvoidChanges", "EnforceChanges") and kw.get("indices") is not None:
        kw["indices"] = list(kw["indices"])
    from . import customspecs
    if name in customspecs.CUSTOM:
        return customspecs.CUSTOM[name](**kw)
    cls = getattr(dc, name, None) or getattr(dc.builtin_specifications, name)
    if reused(desc, 3) and kw.get("codon_usage_table") is not None:
        # the user's table object has already served other codon specifications (which may cache data
        # in it): the specification built now must not depend on that
        tbl = kw["codon_usage_table"]
        try:
            dc.MaximizeCAI(codon_usage_table=tbl)
            dc.HarmonizeRCA(codon_usage_table=tbl, original_codon_usage_table=tbl)
        except Exception:  # noqa
            pass
    return cls(**kw)


def reused(desc, modulus):
    """deterministic coin (by content) deciding that a case exercises objects reused across problems"""
    import zlib
    return zlib.crc32(repr(desc).encode()) % modulus == 0


def other_sequence(seq):
    """another sequence of the same length (reverse of the complement-free shuffle): used to 'pre-use'
    specification objects on a different problem"""
    r = seq[::-1]
    return r if r != seq else seq[1:] + seq[:1]


def init_spec(desc, seq, role="constraint"):
    sp = build_spec(desc)
    # classes that read something from the problem at initialisation are reused more often
    stateful = desc[0] in ("AvoidChanges", "EnforceChanges", "HarmonizeRCA", "EnforceTranslation", "UniquifyAllKmers")
    if reused(desc, 2 if stateful else 4):
        # the same user object is first initialised (and evaluated) on another sequence: nothing of
        # that first use may leak into the problem of interest
        try:
            other = FakeProblem(other_sequence(seq))
            sp.initialized_on_problem(other, role=role).evaluate(other)
        except Exception:  # noqa
            pass
    return sp.initialized_on_problem(FakeProblem(seq), role=role)


def loc_t(l):
    return None if l is None else (int(l.start), int(l.end), int(l.strand if l.strand is not None else 0))


def pat_parsed(pattern):
    cls = type(pattern).__name__
    if cls == "RepeatedKmerPattern":
        return ("rep", pattern.n_repeats, pattern.kmer_size)
    if hasattr(pattern, "sequence"):
        return ("dna", pattern.sequence)
    raise ValueError("pattern outside the model: %r" % (pattern,))


def ctable(name):
    return "(tbl %s)" % cstring(name)


def cqtable(d):
    return clist(["(%s, %s)" % (cseq(c), cq(v)) for c, v in sorted(d.items())])


def spec_to_coq(sp):
    """Coq term (Model.Specs.spec) describing the initialised implementation object `sp`."""
    cls = type(sp).__name__
    if cls == "AvoidPattern":
        return "(SAvoidPattern %s %s)" % (cpat(pat_parsed(sp.pattern)), cloc(loc_t(sp.location)))
    if cls == "EnforcePatternOccurence":
        return "(SPatternOcc %s %s %s)" % (cpat(pat_parsed(sp.pattern)), cz(sp.occurences), cloc(loc_t(sp.location)))
    if cls == "EnforceGCContent":
        return "(SGC %s %s %s %s)" % (cq(q(sp.mini)), cq(q(sp.maxi)), copt(sp.window, cz), cloc(loc_t(sp.location)))
    if cls == "EnforceTranslation":
        st = sp.start_codon
        if st is None:
            pol = "StartNone"
        elif st == "keep":
            pol = "StartKeep"
        elif isinstance(st, (list, tuple)):
            pol = "(StartCodons %s)" % clist([cseq(c) for c in st])
        else:
            pol = "(StartCodons %s)" % clist([cseq(st)])
        return "(STranslation %s %s (list_ascii_of_string %s) %s)" % (
            ctable(sp.genetic_table), cloc(loc_t(sp.location)), cstring(sp.translation), pol)
    if cls == "AvoidStopCodons":
        return "(SStopCodons %s %s)" % (ctable(sp.genetic_table), cloc(loc_t(sp.location)))
    if cls == "AvoidChanges":
        idx = None if sp.indices is None else [int(i) for i in sp.indices]
        return "(SAvoidChanges %s %s %s %s)" % (cloc(loc_t(sp.location)), copt(idx, lambda l: clist([cz(i) for i in l])),
                                                cseq(sp.target_sequence), cz(int(sp.max_edits)))
    if cls == "EnforceChanges":
        idx = None if sp.indices is None else [int(i) for i in sp.indices]
        mn = None if sp.minimum is None else int(sp.minimum)
        am = None if sp.amount is None else q(sp.amount)
        return "(SEnforceChanges %s %s %s %s %s %s)" % (
            cloc(loc_t(sp.location)), copt(idx, lambda l: clist([cz(i) for i in l])), cseq(sp.reference),
            copt(mn, cz), copt(am, cq),
            cbool(sp.minimum_percent == 100 if sp.minimum is not None else sp.amount_percent == 100))
    if cls == "EnforceSequence":
        return "(SEnforceSequence (list_ascii_of_string %s) %s)" % (cstring(sp.sequence), cloc(loc_t(sp.location)))
    if cls == "EnforceChoice":
        return "(SEnforceChoice %s %s)" % (clist([cseq(c) for c in sp.choices]), cloc(loc_t(sp.location)))
    if cls == "AvoidRareCodons":
        return "(SRareCodons %s %s %s)" % (cqtable({c: q(f) for c, f in sp.codons_frequencies.items()}),
                                           cq(q(sp.min_frequency)), cloc(loc_t(sp.location)))
    if cls == "MaximizeCAI":
        t = sp.codon_usage_table
        logf = {c: exact(v) for c, v in t["log_codons_frequencies"].items()}
        logb = {c: exact(t["log_best_frequencies"][sp.codons_translations[c]]) for c in logf}
        return "(SMaximizeCAI %s %s %s)" % (cqtable(logf), cqtable(logb), cloc(loc_t(sp.location)))
    if cls == "HarmonizeRCA":
        rca = {c: exact(v) for c, v in sp.codon_usage_table["RCA"].items()}
        rca_o = {c: exact(v) for c, v in sp.original_codon_usage_table["RCA"].items()}
        syn = clist(["(%s, %s)" % (cseq(c), clist([cseq(x) for x in v])) for c, v in sorted(sp.codons_synonyms.items())])
        return "(SHarmonizeRCA %s %s %s %s %s)" % (cqtable(rca), cqtable(rca_o), syn,
                                                   clist([cseq(c) for c in sp.original_codons]), cloc(loc_t(sp.location)))
    if cls == "UniquifyAllKmers":
        d = sp.localization_data
        if d is None:
            data = "None"
        else:
            data = "(Some (mkKD %s %s %s %s))" % (
                clist([cseq(k) for k in sorted(d["location"]["fixed_kmers"])]),
                clist([cz(i) for i in sorted(d["location"]["changing_indices"])]),
                clist([cseq(k) for k in sorted(d["extended"]["fixed_kmers"])]),
                clist([cz(i) for i in sorted(d["extended"]["changing_indices"])]))
        return "(SUniquify %s %s %s %s %s)" % (cz(sp.k), cloc(loc_t(sp.location)), cloc(loc_t(sp.reference)),
                                               cbool(sp.include_reverse_complement), data)
    if cls == "AvoidHairpins":
        return "(SHairpins %s %s %s)" % (cz(sp.stem_size), cz(sp.hairpin_window), cloc(loc_t(sp.location)))
    if cls == "EnforceTerminalGCContent":
        return "(STerminalGC %s %s %s %s)" % (cz(sp.window_size), cq(q(sp.mini)), cq(q(sp.maxi)),
                                              clist([cloc(loc_t(l)) for l in sp.ends_locations]))
    if cls == "SequenceLengthBounds":
        return "(SLength %s %s)" % (cz(sp.min_length), copt(sp.max_length, cz))
    raise ValueError("class outside the model: %s" % cls)


def ev_out(ev):
    """canonical form of a SpecEvaluation: (exact score, locations or None)"""
    ls = None if ev.locations is None else tuple(loc_t(l) for l in ev.locations)
    return (exact(ev.score), ls)


def civ(o):
    """Coq term of type H10.iev from ('ok', (score, locs)) / exception"""
    if o is None:
        return "None"
    sc, ls = o
    return "(Some (%s, %s))" % (cq(sc), copt(ls, lambda l: clist([cloc(t) for t in l])))


# ------------------------------------------------------------------ generators

def rdna(rng, n, gc=0.5):
    return "".join(rng.choice("GC") if rng.random() < gc else rng.choice("AT") for _ in range(n))


def rloc(rng, n, strands=(1, -1, 0), mult=1, minlen=1):
    """random location inside [0, n), length a multiple of `mult`; sometimes the whole sequence / an end"""
    for _ in range(50):
        a = rng.choice([0, 0, rng.randint(0, max(0, n - minlen))])
        b = rng.choice([n, n, rng.randint(a, n)])
        ln = (b - a) // mult * mult
        if ln >= minlen:
            return (a, a + ln, rng.choice(strands))
    return (0, n // mult * mult, rng.choice(strands))


RCOMP = dict(zip("ACGT", "TGCA"))


def rcs(s):
    return "".join(RCOMP[c] for c in reversed(s))


def gen_spec(rng, cls, n):
    """(descriptor, role, sequence) for class `cls` on a fresh sequence of length about n"""
    seq = rdna(rng, n, rng.choice([0.2, 0.5, 0.5, 0.8]))
    role = "constraint"
    if cls == "AvoidPattern":
        p = rng.choice(["AA", "ACG", "GAATTC", "CGTCTC", "AN", "WS", "3xA", "4xC", "2x2mer", "3x1mer", "BsaI_site", "ANT", "GC",
                        "GAMTC", "GGYRCC", "GTMKAC", "RAT", "CNNR", "NGG", "SNS", "2xW"])
        loc = rng.choice([None, rloc(rng, n)])
        kw = {"pattern": p, "location": loc}
        if rng.random() < 0.25:
            kw["strand"] = rng.choice(["both", 1, -1, 0])      # overrides the strand of the location
        # seed occurrences
        par = parse_shorthand(p)
        from .c11 import instance
        s = list(seq)
        for _ in range(rng.randint(0, 3)):
            w = instance(rng, par)
            if rng.random() < 0.5:
                w = rcs(w)
            if len(w) <= n:
                i = rng.randint(0, n - len(w))
                s[i:i + len(w)] = w
        seq = "".join(s)
        return ("AvoidPattern", tuple(sorted(kw.items()))), role, seq
    if cls == "EnforcePatternOccurence":
        p = rng.choice(["AA", "ACG", "GAATTC", "CGTCTC", "ANT", "GAMTC", "GGYRCC", "RAT"])
        kw = {"pattern": p, "occurences": rng.choice([0, 1, 1, 2, 3]), "location": rng.choice([None, rloc(rng, n)])}
        if rng.random() < 0.25:
            kw["strand"] = rng.choice(["both", 1, -1, 0])
        return (cls, tuple(sorted(kw.items()))), role, seq
    if cls == "EnforceGCContent" and rng.random() < 0.25:
        # goal met exactly on a bound: a w-periodic sequence has the same G/C count k in every window;
        # bounds / target written as the decimal k/w (the documented goal is then completely met)
        w = rng.choice([10, 10, 20, 20, 25, 50])
        k = rng.randint(1, w - 1)
        unit = ["G" if i < k else "A" for i in range(w)]
        rng.shuffle(unit)
        unit = "".join(rng.choice("GC") if c == "G" else rng.choice("AT") for c in unit)
        seq = (unit * 4)[:w * 2 + rng.randint(0, w)]
        frac = float(Fraction(k, w))
        if float(repr(frac)) != frac or Fraction(repr(frac)) != Fraction(k, w):
            frac = None
        mode = rng.random()
        if frac is None or mode < 0.2:
            kw = {"mini": 0.0 if frac is None else max(0.0, round(frac - 0.1, 2)), "maxi": 1.0, "window": w, "location": None}
        elif mode < 0.45:
            kw = {"mini": frac, "maxi": 1.0, "window": w, "location": None}
        elif mode < 0.7:
            kw = {"mini": 0.0, "maxi": frac, "window": w, "location": None}
        else:
            kw = {"target": frac, "window": w, "location": None}
            role = "objective"
        return (cls, tuple(sorted(kw.items()))), role, seq
    if cls == "EnforceGCContent":
        w = rng.choice([None, 4, 5, 8, 10, 16])
        mini, maxi = rng.choice([(0.25, 0.75), (0.3, 0.7), (0.4, 0.6), (0.0, 0.5), (0.5, 1.0), (0.375, 0.625)])
        kw = {"mini": mini, "maxi": maxi, "window": w, "location": rng.choice([None, rloc(rng, n, strands=(0, 1, -1), minlen=1)])}
        if rng.random() < 0.2:
            t = rng.choice([0.5, 0.4, 0.25])
            kw = {"target": t, "window": w, "location": kw["location"]}
            role = "objective"
        return (cls, tuple(sorted(kw.items()))), role, seq
    if cls in ("EnforceTranslation", "AvoidStopCodons"):
        loc = rng.choice([None, rloc(rng, n, strands=(1, -1), mult=3, minlen=3)])
        if loc is None:
            seq = seq[:n // 3 * 3]
        table = rng.choice(["Standard", "Standard", "Bacterial", "Yeast Mitochondrial", "Vertebrate Mitochondrial"])
        kw = {"genetic_table": table, "location": loc}
        if cls == "EnforceTranslation":
            pol = rng.choice([None, None, "keep", "ATG", ("ATG", "GTG")])
            if pol is not None:
                # make the first codon a start codon so that initialisation accepts it
                a, b, st = loc if loc is not None else (0, len(seq), 1)
                s = list(seq)
                if st == -1:
                    s[b - 3:b] = rcs("ATG")
                else:
                    s[a:a + 3] = "ATG"
                seq = "".join(s)
            kw["start_codon"] = pol
            if rng.random() < 0.5:
                # wanted protein computed straight from Biopython's table (not with the library)
                from Bio.Data import CodonTable
                t = CodonTable.unambiguous_dna_by_name[table]
                a, b, st = loc if loc is not None else (0, len(seq), 1)
                sub = seq[a:b] if st != -1 else rcs(seq[a:b])
                tr = [t.forward_table.get(sub[i:i + 3], "*") for i in range(0, len(sub) - len(sub) % 3, 3)]
                if pol is not None and sub[:3] in t.start_codons:
                    tr[0] = "M"
                if isinstance(pol, tuple) and rng.random() < 0.5:
                    # a declared start codon that the genetic table may not list (GTG under Standard)
                    s = list(seq)
                    if st == -1:
                        s[b - 3:b] = rcs("GTG")
                    else:
                        s[a:a + 3] = "GTG"
                    seq = "".join(s)
                    tr[0] = "M"
                if len(tr) > 1 and rng.random() < 0.5:
                    tr[rng.randrange(1, len(tr))] = rng.choice("ACDEFGHIKLMNPQRSTVWY")
                kw["translation"] = "".join(tr)
        return (cls, tuple(sorted(kw.items()))), role, seq
    if cls == "AvoidChanges":
        mode = rng.random()
        if mode < 0.4:
            kw = {"location": rng.choice([None, rloc(rng, n, strands=(0, 1, -1))])}
            if kw["location"] is not None and rng.random() < 0.5:
                # objective use: keep a given sequence that the current one already differs from
                a, b, strand = kw["location"]
                sub = seq[a:b] if strand != -1 else rcs(seq[a:b])
                t = list(sub)
                for _ in range(rng.randint(1, 3)):
                    i = rng.randrange(len(t))
                    t[i] = rng.choice([c for c in "ACGT" if c != t[i]])
                kw["target_sequence"] = "".join(t)
                role = "objective"
        elif mode < 0.6:
            ix = sorted(rng.sample(range(n), rng.randint(1, min(6, n))))
            if rng.random() < 0.5 and len(ix) > 1:
                rng.shuffle(ix)              # any order: the covering span is (min, max + 1)
            kw = {"indices": tuple(ix)}
        else:
            budget = rng.choice(["max_edits", "max_edits", "max_edits_percent"])
            kw = {"location": rloc(rng, n, minlen=6), budget: rng.choice([1, 2, 2, 3] if budget == "max_edits" else [10, 20, 50])}
            if rng.random() < 0.7:
                # the sequence to keep differs from the current one: part of the edit budget is already spent
                a, b, strand = kw["location"]
                sub = seq[a:b] if strand != -1 else rcs(seq[a:b])
                t = list(sub)
                for _ in range(rng.randint(1, 3)):
                    i = rng.randrange(len(t))
                    t[i] = rng.choice([c for c in "ACGT" if c != t[i]])
                kw["target_sequence"] = "".join(t)
        if rng.random() < 0.3:
            role = "objective"
        return (cls, tuple(sorted(kw.items()))), role, seq
    if cls == "EnforceChanges":
        role = rng.choice(["constraint", "objective"])
        kw = {"location": rng.choice([None, rloc(rng, n, strands=(0, 1, -1))])}
        if rng.random() < 0.2:
            kw = {"indices": tuple(sorted(rng.sample(range(n), rng.randint(1, min(6, n)))))}
        r = rng.random()
        if role == "constraint":
            if r < 0.3:
                kw["minimum"] = rng.choice([0, 1, 2, 3])
            elif r < 0.5:
                kw["minimum_percent"] = rng.choice([50, 30, 0])
        else:
            if r < 0.3:
                kw["amount"] = rng.choice([0, 0, 1, 2, 3])
            elif r < 0.5:
                kw["amount_percent"] = rng.choice([50, 30, 0])
        return (cls, tuple(sorted(kw.items()))), role, seq
    if cls == "EnforceSequence":
        loc = rloc(rng, n, minlen=1)
        w = "".join(rng.choice("ACGTNWSRYKM") for _ in range(loc[1] - loc[0]))
        return (cls, (("location", loc), ("sequence", w))), role, seq
    if cls == "EnforceChoice":
        loc = rloc(rng, min(n, 6), minlen=1)
        L = loc[1] - loc[0]
        ch = tuple(sorted({rdna(rng, L) for _ in range(rng.randint(1, 4))} | ({seq[loc[0]:loc[1]]} if rng.random() < 0.5 else set())))
        return (cls, (("choices", ch), ("location", loc))), role, seq
    if cls in ("AvoidRareCodons", "MaximizeCAI", "HarmonizeRCA"):
        loc = rng.choice([None, rloc(rng, n, strands=(1, -1), mult=3, minlen=3)])
        if loc is not None and rng.random() < 0.3:
            # a single codon (the size of the local problems of codon-wise objectives), either strand
            a = rng.randint(0, n - 3)
            loc = (a, a + 3, rng.choice([1, -1, -1]))
        if loc is None:
            seq = seq[:n // 3 * 3]
        kw = {"location": loc}
        if rng.random() < 0.5:
            kw["species"] = rng.choice(["e_coli", "s_cerevisiae", "h_sapiens"])
        else:
            kw["codon_usage_table"] = table_to_desc(user_table(rng, zeros=(cls == "MaximizeCAI")))
        if cls == "AvoidRareCodons":
            kw["min_frequency"] = rng.choice([0.1, 0.15, 0.2, 0.3])
        else:
            role = "objective"
        if cls == "HarmonizeRCA":
            if rng.random() < 0.5:
                kw["original_species"] = rng.choice(["b_subtilis", "h_sapiens"])
            else:
                kw["original_codon_usage_table"] = table_to_desc(user_table(rng))
        return (cls, tuple(sorted(kw.items()))), role, seq
    if cls == "UniquifyAllKmers":
        k = rng.choice([1, 2, 3, 3, 4, 5])
        kw = {"k": k, "location": rng.choice([None, rloc(rng, n, strands=(0, 1, -1), minlen=k + 1)]),
              "include_reverse_complement": rng.random() < 0.6}
        if kw["location"] is not None and rng.random() < 0.3:
            kw["reference"] = "here"
        elif rng.random() < 0.3:
            kw["reference"] = rloc(rng, n, strands=(0, 1, -1), minlen=k + 1)     # any region of the sequence
        if rng.random() < 0.4:
            # short sequences on which the specification PASSES (no repeated k-mer): an edit then
            # typically creates a repeat, which both the full and the localized copy must see
            irc = kw["include_reverse_complement"]
            for _ in range(200):
                m = rng.choice([4, 5, 6, 8, 10]) if k <= 2 else rng.choice([8, 10, 12])
                cand = rdna(rng, m)
                seen, ok = set(), True
                for i in range(m - k + 1):
                    w = cand[i:i + k]
                    key = min(w, rcs(w)) if irc else w
                    if key in seen:
                        ok = False
                        break
                    seen.add(key)
                if ok:
                    kw2 = dict(kw)
                    loc = kw2.get("location")
                    if loc is not None:
                        a = rng.randint(0, m - k)
                        kw2["location"] = (a, rng.randint(a + k, m), loc[2])
                    if isinstance(kw2.get("reference"), tuple):
                        a = rng.randint(0, m - k)
                        kw2["reference"] = (a, rng.randint(a + k, m), kw2["reference"][2])
                    return (cls, tuple(sorted(kw2.items()))), role, cand
        s = list(seq)
        for _ in range(rng.randint(0, 2)):     # seed repeats
            i, j = rng.randint(0, n - k), rng.randint(0, n - k)
            w = s[i:i + k]
            s[j:j + k] = w if rng.random() < 0.6 else list(rcs("".join(w)))
        return (cls, tuple(sorted(kw.items()))), role, "".join(s)
    if cls == "AvoidHairpins":
        stem, win = rng.choice([(3, 10), (4, 12), (3, 8)])
        kw = {"stem_size": stem, "hairpin_window": win, "location": rng.choice([None, rloc(rng, n, strands=(0,), minlen=win)])}
        s = list(seq)
        for _ in range(rng.randint(0, 2)):
            i = rng.randint(0, max(0, n - win))
            w = "".join(s[i:i + stem])
            j = i + rng.randint(stem, max(stem, win - stem))
            if j + stem <= n:
                s[j:j + stem] = rcs(w)
        return (cls, tuple(sorted(kw.items()))), role, "".join(s)
    if cls == "EnforceTerminalGCContent":
        kw = {"window_size": rng.choice([4, 5, 8]), "mini": rng.choice([0.25, 0.4, 0.5]), "maxi": rng.choice([0.6, 0.75, 1.0])}
        return (cls, tuple(sorted(kw.items()))), role, seq
    if cls == "SequenceLengthBounds":
        kw = {"min_length": rng.choice([0, 10, n, n + 1]), "max_length": rng.choice([None, n - 1, n, 2 * n])}
        return (cls, tuple(sorted(kw.items()))), role, seq
    raise ValueError(cls)


def mutate_inside(rng, seq, a, b, k=None):
    """copy of seq with 1..k substitutions confined to [a, b)"""
    a, b = max(0, a), min(len(seq), b)
    if a >= b:
        return seq
    s = list(seq)
    for _ in range(k or rng.choice([1, 1, 2, 3])):
        i = rng.randrange(a, b)
        s[i] = rng.choice([c for c in "ACGT" if c != s[i]])
    return "".join(s)
