"""C12 - A failed or interrupted solve leaves a usable, restriction-respecting problem.
Fault enumeration: the k-th evaluate call of a run raises; the state left behind is checked."""
import functools
import json

from . import core, problems, solverrec, c01, c02

PROP_FILES = ["Properties/C12.v", "Harness/H01.v"]
IMPORTS, CASE_TYPE, CHECKER, SHOW, SHARD = c01.IMPORTS, c01.CASE_TYPE, c01.CHECKER, c01.SHOW, c01.SHARD
RULE = ("random problems (as C01/C02, user-defined specifications included); for each, the solve is first run to completion under the "
        "recorder (trace-exact model correspondence), then re-run once per chosen evaluation index k with the k-th evaluate call raising; "
        "after every abort and every natural NoSolutionError: length, hard restrictions, sequence_before, re-evaluation and re-solve "
        "are checked (and that a failed exhaustive search restored the sequence it started from); direct searches are also called on "
        "problems moved to another member of their space first, with a stream of cheap no-injection cases; non-trivial = the abort happened after at least one sequence assignment differing from the start; distinct by (problem, k)")
MAX_FAULTS = {"quick": 12, "thorough": 400}


class InjectedFault(Exception):
    pass


class FaultInjector:
    """raise InjectedFault at the k-th evaluate call (counted over every specification object)"""

    def __init__(self, k):
        self.k, self.count, self.patched, self.fired = k, 0, [], False

    def __enter__(self):
        from dnachisel.Specification.Specification import Specification
        inj = self

        def subs(c):
            out = [c]
            for s in c.__subclasses__():
                out += subs(s)
            return out

        def wrap(orig):
            @functools.wraps(orig)
            def evaluate(self, problem):
                inj.count += 1
                if inj.count == inj.k:
                    inj.fired = True
                    raise InjectedFault("fault injected at evaluation %d" % inj.k)
                return orig(self, problem)
            return evaluate
        for cls in subs(Specification):
            if "evaluate" in cls.__dict__:
                orig = cls.__dict__["evaluate"]
                self.patched.append((cls, orig))
                setattr(cls, "evaluate", wrap(orig))
        return self

    def __exit__(self, *a):
        for cls, orig in self.patched:
            setattr(cls, "evaluate", orig)
        return False


def fresh(p, entry):
    """problem in the state from which `entry` is called (optimize: constraints resolved first)"""
    import numpy as np
    import dnachisel as dc
    problem = problems.build_problem(p)
    solverrec.apply_settings(problem, p["cfg"])
    if entry == "optimize":
        np.random.seed(p["np_seed"])
        problem.resolve_constraints()
    elif entry not in ("resolve", "resolve_filter") and p["np_seed"] % 2 == 1 and problem.mutation_space.multichoices:
        # direct searches are also called on problems that were edited before: move to another member
        # of the mutation space, so that the current sequence differs from the recorded input
        np.random.seed(p["np_seed"] + 1)
        problem.sequence = problem.mutation_space.apply_random_mutations(3, problem.sequence)
    if p.get("outside"):
        # the user assigned a sequence that disagrees with a single-variant segment of the space: a failed
        # exhaustive search must still give back exactly that sequence
        det = [(seg, v) for seg, v in problem.mutation_space.determined_segments if seg[1] > seg[0]]
        if not det:
            raise ValueError("no determined segment")
        (a, b), v = det[p["np_seed"] % len(det)]
        i = a + p["np_seed"] % (b - a)
        s_ = problem.sequence
        problem.sequence = s_[:i] + {"A": "C", "C": "G", "G": "T", "T": "A"}[s_[i]] + s_[i + 1:]
    return problem


def direct_random(problem, seed):
    import numpy as np
    import dnachisel as dc
    np.random.seed(seed)
    try:
        problem.resolve_constraints_by_random_mutations()
        return "solved"
    except dc.NoSolutionError:
        return "nosolution"


def usable(problem, n0, before0, cids=None, twin=None):
    """None if the problem is usable, else a description"""
    import dnachisel as dc
    s = problem.sequence
    if twin is not None and any(getattr(c, "is_focus", False) for c in problem.constraints):
        # solver bookkeeping survived the abort: does the problem still solve like a pristine twin
        # brought to the same sequence (same seed, same settings)?
        for seed in (0, 1, 2):
            try:
                t = twin()
                t.sequence = s
                o2 = direct_random(t, seed)
                o1 = direct_random(problem, seed)
            except core.Timeout:
                raise
            except Exception:  # noqa
                break
            finally:
                problem.sequence = s
            if o1 == "nosolution" and o2 == "solved":
                return ("the problem cannot be solved again: a focus mark left on one of its constraints makes the direct "
                        "random search (seed %d) fail where a pristine twin in the same state succeeds" % seed)
    if cids is not None and [id(c) for c in problem.constraints] != cids:
        return "the problem's list of constraints was altered"
    if len(s) != n0:
        return "sequence length changed"
    for c in problem.mutation_space.choices_list:
        if s[c.start:c.end] not in c.variants:
            return "a hard nucleotide restriction is violated at %d-%d" % (c.start, c.end)
    if problem.sequence_before != before0:
        return "sequence_before was altered"
    try:
        problem.constraints_evaluations(autopass=False)
        problem.objectives_evaluations()
    except Exception as e:  # noqa
        return "the problem can no longer be evaluated: %s" % type(e).__name__
    try:
        problem.resolve_constraints()
    except dc.NoSolutionError:
        pass
    except core.Timeout:
        raise        # the harness's own time limit: the case is inconclusive, not a failure
    except Exception as e:  # noqa
        return "the problem can no longer be solved: %s: %s" % (type(e).__name__, str(e)[:80])
    if len(problem.sequence) != n0:
        return "sequence length changed by the second solve"
    return None


def impl_case(case):
    import numpy as np
    import dnachisel as dc
    _, pj, entry, tier = case
    p = json.loads(pj)
    try:
        problem = fresh(p, entry)
    except dc.NoSolutionError:
        return dict(skipped="infeasible")
    except Exception as e:
        return dict(skipped="%s: %s" % (type(e).__name__, str(e)[:80]))
    tmp = solverrec.SolverRecorder()
    ids = [tmp.sid(c) for c in problem.constraints + problem.objectives]
    if len(set(ids)) != len(ids):
        return dict(skipped="duplicate specification content")
    if entry in ("resolve_exhaustive", "optimize_exhaustive", "resolve_random", "optimize_random"):
        size = 1
        for c in problem.mutation_space.multichoices:
            size *= len(c.variants)
        if size > 3000:
            return dict(skipped="space too large for a direct search")
    n0, before0, start = len(problem.sequence), problem.sequence_before, problem.sequence
    cids0 = [id(c) for c in problem.constraints]
    r = solverrec.record_run(problem, entry, p["np_seed"] + 3)
    n_evals = len(r["evals"])
    res = dict(code=r["code"], exc=r["exc"], n_evals=n_evals, n_draws=len(r["log"]), final=r["final"],
               objective_classes=[type(o).__name__ for o in problem.objectives],
               term=solverrec.coq_run(r, p["cfg"], entry), faults=0, moved=0, bad=None)
    if r["code"] == 1 and entry == "resolve_exhaustive" and problem.sequence != start:
        res["bad"] = ("natural NoSolutionError", "the failed exhaustive search did not restore the sequence it started from")
        return res
    if p.get("outside"):
        return res          # restoration only: the start itself is outside the hard restrictions
    if r["code"] == 1:
        why = usable(problem, n0, before0, cids0)
        if why:
            res["bad"] = ("natural NoSolutionError", why)
            return res
    if n_evals == 0 or n_evals > 4000:
        return res
    if case[0] == "light":
        return res          # natural outcome only (restoration / usability after NoSolutionError)
    budget = MAX_FAULTS[tier] * (8 if case[0] == "selfloc" and tier == "quick" else 1)
    ks = list(range(1, n_evals + 1))
    if len(ks) > budget:
        step = len(ks) / float(budget)
        ks = sorted({ks[int(i * step)] for i in range(budget)} | {1, n_evals})
    for k in ks:
        pr = fresh(p, entry)
        pr_cids = [id(c) for c in pr.constraints]
        np.random.seed(p["np_seed"] + 3)
        inj = FaultInjector(k)
        try:
            with inj:
                solverrec.run_entry(pr, entry)
        except InjectedFault:
            pass
        except dc.NoSolutionError:
            pass
        except core.Timeout:
            raise
        except Exception as e:  # noqa
            res["bad"] = (k, "another exception escaped while aborting: %s" % type(e).__name__)
            return res
        res["faults"] += 1
        if pr.sequence != start:
            res["moved"] += 1
        why = usable(pr, n0, before0, pr_cids, twin=lambda: fresh(p, entry))
        if why:
            res["bad"] = (k, why)
            return res
    return res


def run_impl(case):
    return core.safe_call(impl_case, case, limit=240)


def oracle(case, out):
    if out[0] == "timeout":
        return None
    if out[0] != "ok":
        return "harness/implementation raised outside the solver: %r" % (out[:3],)
    o = out[1]
    if "skipped" in o:
        return None
    if o["bad"]:
        if o["bad"][0] == "natural NoSolutionError":
            return "after a natural NoSolutionError of %s: %s" % (case[2], o["bad"][1])
        return "after an abort at evaluation %s: %s" % (o["bad"][0], o["bad"][1])
    return None


def coq_case(case, out):
    if case[2] == "resolve_filter":
        return None           # cst_filter is not modelled: L3 oracle only
    return c02.coq_case(case, out)


def gen_cases(rng, tier):
    from . import c06
    N = 60 if tier == "quick" else 1000
    cases = []
    for _ in range(N):
        r = rng.random()
        if r < 0.35:
            p = problems.gen_problem(rng, with_objectives=False, allow_custom=True)
            entry = "resolve" if rng.random() < 0.7 else "resolve_filter"
        elif r < 0.6:
            p = problems.gen_problem(rng, with_objectives=True, allow_custom=True, custom_kinds=problems.SOUND_CUSTOM)
            entry = "optimize"
            if rng.random() < 0.5:
                # the raw input is NOT compatible with a hard restriction (construction repairs it): no
                # abort may bring the raw input back
                n = len(p["seq"])
                a = rng.randint(0, n - 6)
                w = "".join(rng.choice("ACGT") for _ in range(6))
                extra = rng.choice([("EnforceSequence", problems.kw(location=(a, a + 6, 1), sequence=w)),
                                    ("EnforceChoice", problems.kw(location=(a, a + 6, 1), choices=(w, w[::-1])))])
                p["constraints"] = tuple(c for c in p["constraints"] if c[0] not in ("EnforceTranslation", "AvoidChanges", "EnforceChoice", "EnforceSequence")) + (extra,)
        else:
            # direct searches on the problem itself: small mutation spaces only
            p = c06.gen_small(rng)
            entry = rng.choice(["resolve_exhaustive", "resolve_random", "optimize_exhaustive", "optimize_random"])
        cases.append(("run", json.dumps(p, sort_keys=True), entry, tier))
    # several failing user constraints that localize to themselves (default localized()), generous random
    # search: an abort must not leave solver bookkeeping on the problem's own constraints
    for _ in range(max(6, N // 6)):
        n = rng.choice([24, 30, 36])
        words = rng.sample(["AA", "GG", "TAT", "CG", "ACA", "TTG"], rng.choice([2, 3]))
        s_ = list(problems.rdna(rng, n, 0.5))
        third = n // len(words)
        for j, w in enumerate(words):
            i = j * third + rng.randint(0, third - len(w))
            s_[i:i + len(w)] = w
        cs = [("ForbidWord", problems.kw(word=w, location=None)) for w in words]
        cs.append(rng.choice([("AvoidPattern", problems.kw(pattern="GAATTC", location=None)),
                              ("EnforceGCContent", problems.kw(mini=0.05, maxi=0.95, location=None)),
                              ("ForbidWord", problems.kw(word="CCCCC", location=None))]))
        rng.shuffle(cs)
        p = dict(seq="".join(s_), constraints=tuple(cs), objectives=(), np_seed=rng.randint(0, 10**6),
                 cfg=dict(threshold=rng.choice([50, 10000]), max_iters=3000, mutations=rng.choice([1, 2]),
                          extensions=rng.choice([(0, 5), (0,)]), stagnation=None))
        cases.append(("selfloc", json.dumps(p, sort_keys=True), "resolve", tier))
    # natural failures of the direct searches on edited problems (no fault injection: cheap, many)
    for _ in range(5 * N):
        p = c06.gen_small(rng)
        p["np_seed"] = p["np_seed"] | 1          # odd seed: the problem is moved inside its space first
        entry = rng.choice(["resolve_exhaustive", "resolve_exhaustive", "resolve_random", "optimize_exhaustive"])
        cases.append(("light", json.dumps(p, sort_keys=True), entry, tier))
    for _ in range(2 * N):
        p = c06.gen_small(rng)
        p["outside"] = True
        cases.append(("light", json.dumps(p, sort_keys=True), "resolve_exhaustive", tier))
    return cases, {}


def nontrivial(case, out):
    return out[0] == "ok" and "skipped" not in out[1] and (out[1]["moved"] > 0 or (case[0] == "light" and out[1]["code"] == 1))


def run(chk):
    cases, outs = core.standard_run(chk, __import__("harness.c12", fromlist=["x"]))
    c02.finish_dist(chk, outs)
    dist = chk.coverage["distribution"]
    dist["fault points exercised"] = sum(o[1].get("faults", 0) for o in outs if o[0] == "ok" and "skipped" not in o[1])
    dist["aborts after the sequence had moved"] = sum(o[1].get("moved", 0) for o in outs if o[0] == "ok" and "skipped" not in o[1])
    dist["natural NoSolutionError"] = sum(1 for o in outs if o[0] == "ok" and "skipped" not in o[1] and o[1]["code"] == 1)
    chk.coverage["evaluations"] += dist["fault points exercised"]
    chk.finish_args = dict(level="proof")


def replay(path):
    return core.standard_replay(__import__("harness.c12", fromlist=["x"]), path)
