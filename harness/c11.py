"""C11 - Pattern search finds exactly the occurrences, on the requested strands."""
import itertools
import re

from . import core
from .core import cz, cbool, clist, cloc, cseq, cstring, cpair

PROP_FILES = ["Properties/C11.v", "Harness/H11.v"]
IMPORTS = "From DC Require Import Model.Base Model.Loc Model.Bio Model.Pattern Harness.H11."
CASE_TYPE = "case11"
CHECKER = "check11"
SHOW = "model11"
RULE = ("patterns: IUPAC words (incl. palindromes, self-overlapping), NxB homopolymers, NxKmer repeats, enzyme sites; "
        "sequences seeded with occurrences on both strands; locations touching the sequence ends and cutting occurrences; "
        "non-trivial = at least one occurrence (either strand) overlaps the location; distinct by JSON text")

IUPAC = {"A": "A", "C": "C", "G": "G", "T": "T", "W": "AT", "S": "CG", "M": "AC", "K": "GT", "R": "AG", "Y": "CT",
         "B": "CGT", "D": "AGT", "H": "ACT", "V": "ACG", "N": "ACGT"}
COMP = dict(zip("ACGTWSMKRYBDHVN", "TGCAWSKMYRVHDBN"))
ENZYMES = ["BsaI", "BsmBI", "EcoRI", "BbsI", "NotI", "XbaI", "SapI", "AarI", "HindIII", "BamHI"]


def parse_shorthand(p):
    """Independent reading of the documented shorthands -> ('dna', word) | ('rep', n, k)."""
    m = re.fullmatch(r"(\d+)x(\d+)mer", p)
    if m:
        return ("rep", int(m.group(1)), int(m.group(2)))
    m = re.fullmatch(r"(\d+)x([A-Z])", p)
    if m:
        return ("dna", int(m.group(1)) * m.group(2))
    m = re.fullmatch(r"(\S+)_site", p)
    if m:
        from Bio.Restriction.Restriction_Dictionary import rest_dict
        return ("dna", rest_dict[m.group(1)]["site"])
    return ("dna", p)


def impl_case(case):
    from dnachisel.SequencePattern import SequencePattern
    from dnachisel.Location import Location
    k = case[0]
    pat = SequencePattern.from_string(case[1])
    if k == "find":
        return tuple((l.start, l.end, l.strand) for l in pat.find_matches(case[2], Location(*case[3])))
    if k == "pal":
        return bool(pat.is_palyndromic), pat.size
    if k == "instring":
        return tuple((a, b) for a, b, s in pat.find_matches_in_string(case[2]))
    raise ValueError(k)


def run_impl(case):
    return core.safe_call(impl_case, case, limit=5)


def rcs(s):
    return "".join(COMP[c] for c in reversed(s))


def occ(parsed, s, i):
    """does the pattern occur (forward) at position i of s ?"""
    if parsed[0] == "dna":
        w = parsed[1]
        if i + len(w) > len(s):
            return False
        return all(s[i + j] in IUPAC[w[j]] for j in range(len(w)))
    _, n, k = parsed
    if i + n * k > len(s):
        return False
    return s[i:i + n * k] == s[i:i + k] * n


def size_of(parsed):
    return len(parsed[1]) if parsed[0] == "dna" else parsed[1] * parsed[2]


def expected(parsed, s, loc):
    a, b, strand = loc
    k = size_of(parsed)
    fwd = [(i, i + k, 1) for i in range(a, b - k + 1) if occ(parsed, s, i)]
    rev = [(i, i + k, -1) for i in range(a, b - k + 1) if occ(parsed, rcs(s[i:i + k]), 0)]
    return fwd, rev


def degenerate(parsed):
    return size_of(parsed) == 0


def oracle(case, out):
    k = case[0]
    parsed = parse_shorthand(case[1])
    if out[0] != "ok":
        return "implementation raised/hung: %r" % (out[:2],)
    o = out[1]
    if k == "find":
        s, loc = case[2], case[3]
        a, b, strand = loc
        if not (0 <= a <= b <= len(s)):
            return None
        fwd, rev = expected(parsed, s, loc)
        got = list(o)
        if strand == 1:
            if sorted(got) != sorted(fwd):
                return "strand +1: not exactly the forward occurrences inside the location"
        elif strand == -1:
            gs = sorted((x, y) for x, y, _ in got)
            if gs != sorted((x, y) for x, y, _ in rev):
                return "strand -1: not exactly the reverse-complement occurrences inside the location"
        else:
            spans = sorted((x, y) for x, y, _ in got)
            both = sorted(set((x, y) for x, y, _ in fwd) | set((x, y) for x, y, _ in rev))
            if sorted(set(spans)) != both:
                return "strand 0: spans are not the union of both strands' occurrences"
            pal = parsed[0] == "rep" or rcs(parsed[1]) == parsed[1]
            if pal and len(spans) != len(set(spans)):
                return "palindromic pattern reported twice"
            if not pal:
                if sorted(x for x in got if x[2] == 1) != sorted(fwd) or sorted(x for x in got if x[2] == -1) != sorted(rev):
                    return "strand 0: per-strand occurrences wrong"
    elif k == "instring":
        s = case[2]
        kk = size_of(parsed)
        exp = tuple((i, i + kk) for i in range(len(s) - kk + 1) if occ(parsed, s, i))
        if tuple(o) != exp:
            return "whole-string search misses or invents occurrences (overlapping ones included)"
    return None


def cpat(parsed):
    if parsed[0] == "dna":
        return "(PDna (list_ascii_of_string %s))" % cstring(parsed[1])
    return "(PRepeat %s %s)" % (cz(parsed[1]), cz(parsed[2]))


def coq_case(case, out):
    k = case[0]
    parsed = parse_shorthand(case[1])
    o = out[1]
    if k == "find":
        a, b, st = case[3]
        if not (0 <= a and 0 <= b):
            pass
        return "KFind %s %s %s %s" % (cpat(parsed), cseq(case[2]), cloc(case[3]), clist([cloc(t) for t in o]))
    if k == "pal":
        return "KPal %s %s %s" % (cpat(parsed), cbool(o[0]), cz(o[1]))
    if k == "instring":
        return "KInString %s %s %s" % (cpat(parsed), cseq(case[2]), clist([cpair(cz(a), cz(b)) for a, b in o]))


def rand_word(rng, alphabet, n):
    return "".join(rng.choice(alphabet) for _ in range(n))


def instance(rng, parsed):
    if parsed[0] == "dna":
        return "".join(rng.choice(IUPAC[c]) for c in parsed[1])
    _, n, k = parsed
    return rand_word(rng, "ACGT", k) * n


def gen_cases(rng, tier):
    N = 1 if tier == "quick" else 30
    cases = []
    pats = []
    for _ in range(60 * N):
        kind = rng.random()
        if kind < 0.45:
            p = rand_word(rng, rng.choice(["ACGT", "ACGTN", "ACGTWSMKRYBDHVN", "AT", "AN"]), rng.randint(1, 7))
        elif kind < 0.6:  # palindromes
            h = rand_word(rng, "ACGTWSN", rng.randint(1, 3))
            p = h + rcs(h)
        elif kind < 0.75:
            p = "%dx%s" % (rng.randint(1, 6), rng.choice("ACGTACGTNWSRYKMBDHV"))
        elif kind < 0.9:
            p = "%dx%dmer" % (rng.randint(1, 4), rng.randint(1, 3))
        else:
            p = rng.choice(ENZYMES) + "_site"
        pats.append(p)
    pats += ["AAA", "AA", "ANA", "ACGT", "GAATTC", "2x2mer", "3x1mer", "N", "NN", "W", "S"]
    for p in pats:
        parsed = parse_shorthand(p)
        cases.append(("pal", p))
        for _ in range(6):
            n = rng.choice([0, 1, 4, 9, 15, 25, 40])
            s = list(rand_word(rng, rng.choice(["ACGT", "AT", "AC", "A"]), n))
            # seed occurrences on both strands, some overlapping / at the ends
            for _ in range(rng.randint(0, 4)):
                w = instance(rng, parsed)
                if rng.random() < 0.5:
                    w = rcs(w)
                if len(w) <= n:
                    i = rng.choice([0, n - len(w), rng.randint(0, n - len(w))])
                    s[i:i + len(w)] = w
            s = "".join(s)
            cases.append(("instring", p, s))
            for _ in range(3):
                a = rng.choice([0, 0, rng.randint(0, max(0, n))])
                b = rng.choice([n, n, rng.randint(a, max(a, n))])
                cases.append(("find", p, s, (a, b, rng.choice([1, -1, 0]))))
    # exhaustive small box: all patterns of length <= 3 over {A,C,N,W} x all sequences over {A,C,T} of length <= 5/6
    L = 5 if tier == "quick" else 7
    small_pats = ["".join(w) for k in (1, 2, 3) for w in itertools.product("ACNW", repeat=k)]
    seqs = ["".join(w) for k in range(0, L + 1) for w in itertools.product("ACT", repeat=k)]
    box = 0
    for p in small_pats:
        for s in (seqs if tier == "thorough" else rng.sample(seqs, 12)):
            cases.append(("find", p, s, (0, len(s), rng.choice([1, -1, 0]))))
            box += 1
    # degenerate shorthands (empty pattern): implementation must at least terminate -- F13
    for p in ("0xA", "3x0mer"):
        cases.append(("find", p, "ACGTACGT", (0, 8, 1)))
    return cases, {"small_box": box}


def nontrivial(case, out):
    if out[0] != "ok":
        return False
    if case[0] == "pal":
        return True
    return len(out[1]) > 0


def degenerate_search(chk):
    """F13: empty patterns make the scanning loop spin forever."""
    for p in ("0xA", "3x0mer"):
        out = run_impl(("find", p, "ACGTACGT", (0, 8, 1)))
        if out[0] == "timeout":
            chk.violation("empty-pattern shorthand never returns", {
                "case": ("find", p, "ACGTACGT", (0, 8, 1)), "observed": out,
                "why": "find_matches does not terminate on the degenerate shorthand %r (scan loop re-searches the empty remainder)" % p,
                "layer": "L3; the theorem scan_complete carries the hypothesis 1 <= size"})
            return


def run(chk):
    core.standard_run(chk, __import__("harness.c11", fromlist=["x"]), extra_search=degenerate_search)


def replay(path):
    return core.standard_replay(__import__("harness.c11", fromlist=["x"]), path)
