"""User-defined Specification subclasses for the solver checks: some well-behaved, some with a
deliberately imperfect localization or resolution heuristic (the properties quantify over them)."""
from dnachisel import Specification, SpecEvaluation, Location, NoSolutionError


def find_all(seq, word, a, b):
    out, i = [], seq.find(word, a)
    while i != -1 and i + len(word) <= b:
        out.append(i)
        i = seq.find(word, i + 1)
    return out


class ForbidWord(Specification):
    """no occurrence of `word` in [a,b); default localized() (returns self, documented signature
    without with_righthand)"""
    best_possible_score = 0

    def __init__(self, word, location=None, boost=1.0):
        self.word, self.location, self.boost = word, Location.from_data(location), boost

    def initialized_on_problem(self, problem, role=None):
        return self._copy_with_full_span_if_no_location(problem)

    def evaluate(self, problem):
        hits = find_all(problem.sequence, self.word, self.location.start, self.location.end)
        return SpecEvaluation(self, problem, score=-len(hits),
                              locations=[Location(i, i + len(self.word)) for i in hits])


class ForbidWordBadLocal(ForbidWord):
    """localized() forgets to extend the window: a new occurrence straddling the border of the
    window is invisible to the localized copy (imperfect localization)"""

    def localized(self, location, problem=None):
        ov = self.location.overlap_region(location)
        if ov is None:
            return None
        return self.copy_with_changes(location=ov)


class ForbidWordNoneLocal(ForbidWord):
    """localized() wrongly answers None for zones in the right half of the sequence"""

    def localized(self, location, problem=None):
        if location.start >= (self.location.start + self.location.end) // 2:
            return None
        return self


class NoLocations(Specification):
    """fails when the sequence contains `word`, reports no locations at all"""
    best_possible_score = 0

    def __init__(self, word, boost=1.0):
        self.word, self.boost, self.location = word, boost, None

    def evaluate(self, problem):
        return SpecEvaluation(self, problem, score=-1 if self.word in problem.sequence else 0)


class LazyHeuristic(ForbidWord):
    """resolution heuristic that returns without solving anything"""

    def resolution_heuristic(self, problem):
        return


class GivingUpHeuristic(ForbidWord):
    """resolution heuristic that always gives up"""

    def resolution_heuristic(self, problem):
        raise NoSolutionError("heuristic gives up", problem=problem, location=self.location)


class OverwritingHeuristic(ForbidWord):
    """resolution heuristic that rewrites every occurrence of the word in the local problem's
    sequence directly, ignoring the mutation space: it may write into frozen regions or change a
    protein (ill-behaved user code: only the final check stands between it and the caller)"""

    def resolution_heuristic(self, problem):
        w = self.word
        alt = {"A": "C", "C": "A", "G": "T", "T": "G"}[w[0]] + w[1:]
        seq = problem.sequence
        for _ in range(len(seq)):
            if w not in seq:
                break
            seq = seq.replace(w, alt)
        problem.sequence = seq


class RequireExactly(Specification):
    """passes only on one given sequence (a user constraint with a single solution)"""
    best_possible_score = 0

    def __init__(self, sequence, boost=1.0):
        self.sequence, self.boost, self.location = sequence, boost, None

    def initialized_on_problem(self, problem, role=None):
        return self._copy_with_full_span_if_no_location(problem)

    def evaluate(self, problem):
        d = sum(1 for x, y in zip(problem.sequence, self.sequence) if x != y)
        return SpecEvaluation(self, problem, score=-d, locations=[] if d == 0 else [self.location])


class CountLetter(Specification):
    """objective: number of `letter` in [a,b) (maximise); localizes to the overlap"""
    best_possible_score = None

    def __init__(self, letter, location=None, boost=1.0):
        self.letter, self.location, self.boost = letter, Location.from_data(location), boost

    def initialized_on_problem(self, problem, role=None):
        return self._copy_with_full_span_if_no_location(problem)

    def evaluate(self, problem):
        sub = problem.sequence[self.location.start:self.location.end]
        n = sub.count(self.letter)
        step = 6
        locs = [Location(i, min(i + step, self.location.end))
                for i in range(self.location.start, self.location.end, step)]
        return SpecEvaluation(self, problem, score=n, locations=locs)

    def localized(self, location, problem=None):
        ov = self.location.overlap_region(location)
        if ov is None:
            return None
        return self.copy_with_changes(location=ov)


CUSTOM = {c.__name__: c for c in (ForbidWord, ForbidWordBadLocal, ForbidWordNoneLocal, NoLocations,
                                  LazyHeuristic, GivingUpHeuristic, OverwritingHeuristic, RequireExactly, CountLetter)}


class CountLetterCapped(CountLetter):
    """like CountLetter but declares its best possible score (the length of its location): a user
    objective whose best score is not 0 (exercises the early exits of the optimisers)"""

    def initialized_on_problem(self, problem, role=None):
        sp = self._copy_with_full_span_if_no_location(problem)
        sp = sp.copy_with_changes()
        sp.best_possible_score = len(sp.location)
        return sp

    def localized(self, location, problem=None):
        ov = self.location.overlap_region(location)
        if ov is None:
            return None
        return self.copy_with_changes(location=ov, best_possible_score=len(ov))


CUSTOM["CountLetterCapped"] = CountLetterCapped
