"""C04 - The mutation space is exactly the set of sequences the hard constraints allow."""
import itertools
import json

from . import core, specs
from .core import cz, cbool, clist, cseq
from .specs import FakeProblem, build_spec, spec_to_coq, rdna, rcs, rloc

PROP_FILES = ["Properties/C04.v", "Harness/H04.v"]
IMPORTS = "From DC Require Import Model.Base Model.Loc Model.Bio Model.Pattern Model.MSpace Model.Specs Harness.H10 Harness.H04."
CASE_TYPE = "case04"
CHECKER = "check04"
SHOW = "model04"
SHARD = 60
RULE = ("random sets of 1-4 nucleotide-restricting constraints (AvoidChanges location/indices, EnforceTranslation both strands and "
        "all start-codon policies, EnforceSequence IUPAC both strands, EnforceChoice, EnforceChanges, AvoidRareCodons), overlapping, "
        "nested, antisense and contradictory, on sequences of length 6-8 (brute-forced over all 4^L sequences) and 12-30 (correspondence); "
        "non-trivial = at least two constraints restrict a common position; distinct by JSON text")


def kw(**d):
    return tuple(sorted(d.items()))


def gen_hard(rng, seq):
    n = len(seq)
    cs = []
    for _ in range(rng.choice([1, 2, 2, 3, 4])):
        r = rng.random()
        if r < 0.2:
            r2 = rng.random()
            if r2 < 0.1:
                cs.append(("AvoidChanges", kw(location=None, max_edits_percent=rng.choice([1, 10, 34, 50]))))
            elif r2 < 0.2:
                cs.append(("AvoidChanges", kw(location=rloc(rng, n, strands=(0, 1), minlen=3), max_edits_percent=rng.choice([1, 10, 34, 50]))))
            elif r2 < 0.55:
                cs.append(("AvoidChanges", kw(location=rloc(rng, n, strands=(0, 1, -1)))))
            else:
                ix = sorted(rng.sample(range(n), rng.randint(1, min(4, n))))
                if rng.random() < 0.6 and len(ix) > 1:
                    rng.shuffle(ix)          # any order: the covering span is (min, max + 1)
                cs.append(("AvoidChanges", kw(indices=tuple(ix))))
        elif r < 0.5:
            loc = rloc(rng, n, strands=(1, -1), mult=3, minlen=3)
            pol = rng.choice([None, None, "keep", "ATG", ("ATG", "GTG"), "GTG"])
            cs.append(("EnforceTranslation", kw(location=loc, start_codon=pol, genetic_table=rng.choice(["Standard", "Bacterial"]))))
        elif r < 0.68:
            loc = rloc(rng, n, minlen=1)
            w = "".join(rng.choice("ACGTNWSRYKMBDHV") for _ in range(loc[1] - loc[0]))
            cs.append(("EnforceSequence", kw(location=loc, sequence=w)))
        elif r < 0.8:
            loc = rloc(rng, min(n, 6), minlen=1)
            L = loc[1] - loc[0]
            ch = {rdna(rng, L) for _ in range(rng.randint(1, 4))}
            if rng.random() < 0.5:
                ch.add(seq[loc[0]:loc[1]] if loc[2] != -1 else rcs(seq[loc[0]:loc[1]]))
            cs.append(("EnforceChoice", kw(choices=tuple(sorted(ch)), location=loc)))
        elif r < 0.9:
            r3 = rng.random()
            if r3 < 0.4:
                cs.append(("EnforceChanges", kw(location=rloc(rng, n, strands=(0, 1)))))
            elif r3 < 0.6:
                ix = rng.sample(range(n), rng.randint(1, min(4, n)))
                cs.append(("EnforceChanges", kw(indices=tuple(ix))))
            elif r3 < 0.8:
                # a stored reference that is not the sequence (what the copies made for circular / local
                # problems carry): the nucleotides to avoid are the reference's
                loc = rloc(rng, n, strands=(0, 1))
                cs.append(("EnforceChanges", kw(location=loc, reference=rdna(rng, loc[1] - loc[0]))))
            else:
                ix = rng.sample(range(n), rng.randint(1, min(4, n)))
                cs.append(("EnforceChanges", kw(indices=tuple(ix), reference=rdna(rng, len(ix)))))
        else:
            loc = rloc(rng, n, strands=(1, -1), mult=3, minlen=3)
            if rng.random() < 0.5:
                cs.append(("AvoidRareCodons", kw(location=loc, min_frequency=rng.choice([0.1, 0.2, 0.3]), species="e_coli")))
            else:
                # user table; the threshold sits exactly on one of its frequencies half of the time
                from .specs import user_table, table_to_desc
                tbl = user_table(rng)
                freqs = sorted({f for aa, cf in tbl.items() if len(aa) == 1 for f in cf.values() if 0 < f < 0.5})
                mf = rng.choice(freqs) if freqs and rng.random() < 0.5 else rng.choice([0.1, 0.15, 0.2])
                cs.append(("AvoidRareCodons", kw(location=loc, min_frequency=mf, codon_usage_table=table_to_desc(tbl))))
    if rng.random() < 0.25 and n >= 5:
        # partial-overlap family: a multi-nucleotide choice of k alternatives (k = 2..6; 4 matters: it
        # is also the size of a free nucleotide) cut by the border of another restriction
        L = rng.choice([2, 3, 3, 4])
        a = rng.randint(0, n - L)
        k = rng.choice([2, 3, 4, 4, 4, 5, 6])
        ch = set()
        while len(ch) < k:
            ch.add(rdna(rng, L))
        strand = rng.choice([1, 1, -1, 0])
        if rng.random() < 0.6:
            ch.pop()
            ch.add(seq[a:a + L] if strand != -1 else rcs(seq[a:a + L]))
        first = ("EnforceChoice", kw(choices=tuple(sorted(ch)), location=(a, a + L, strand)))
        x = rng.randint(max(0, a - 2), a + L - 1)
        y = rng.randint(max(x + 1, a + 1), min(n, a + L + 2))
        if x >= a and y <= a + L:
            y = min(n, a + L + 1)
        kind = rng.random()
        if kind < 0.4:
            second = ("AvoidChanges", kw(location=(x, y, 0)))
        elif kind < 0.7:
            w = "".join(rng.choice("ACGTNWSRYKM") for _ in range(y - x))
            second = ("EnforceSequence", kw(location=(x, y, rng.choice([1, -1])), sequence=w))
        else:
            ch2 = {rdna(rng, y - x) for _ in range(rng.choice([2, 3, 4]))}
            second = ("EnforceChoice", kw(choices=tuple(sorted(ch2)), location=(x, y, 1)))
        cs = [first, second] + cs[:1]
        if rng.random() < 0.5:
            cs.reverse()
    out = []
    for c in cs:
        if c not in out:
            out.append(c)
    return out


def start_policy_ok(sp, t):
    """documented predicate of EnforceTranslation includes its start-codon policy"""
    pol = sp.start_codon
    if pol is None:
        return True
    loc = sp.location
    first = t[loc.start:loc.start + 3] if loc.strand != -1 else rcs(t[loc.end - 3:loc.end])
    if pol == "keep":
        return first == sp._verif_first_codon
    allowed = list(pol) if isinstance(pol, (list, tuple)) else [pol]
    return first in allowed


def impl_case(case):
    from dnachisel.MutationSpace import MutationSpace
    _, seq, descs, brute = case
    sps = []
    objs = [build_spec(d) for d in descs]
    from .specs import reused, other_sequence
    if reused(case, 3):
        # the user's specification objects have already served another problem (another sequence)
        import dnachisel as dc0
        try:
            dc0.DnaOptimizationProblem(other_sequence(seq), constraints=objs, logger=None)
        except Exception:  # noqa
            pass
    for d, obj in zip(descs, objs):
        sp = obj.initialized_on_problem(FakeProblem(seq), role="constraint")
        if type(sp).__name__ == "EnforceTranslation":
            loc = sp.location
            sp._verif_first_codon = seq[loc.start:loc.start + 3] if loc.strand != -1 else rcs(seq[loc.end - 3:loc.end])
        sps.append(sp)
    fp = FakeProblem(seq)
    fp.constraints = sps
    ms = MutationSpace.from_optimization_problem(fp)
    choices = tuple((c.start, c.end, tuple(sorted(c.variants))) for c in ms.choices_list)
    unsolvable = any(len(c.variants) == 0 for c in ms.choices_list)
    terms = [(spec_to_coq(sp), getattr(sp, "max_edits_percent", None) is not None) for sp in sps]
    res = dict(choices=choices, unsolvable=unsolvable, terms=terms,
               # (EnforceChanges given by indices restricts the nucleotides like the location form, but the copy made
               # at initialisation does not carry the flag: it counts among the restricting constraints all the same)
               enforced=[bool(sp.enforced_by_nucleotide_restrictions)
                         or (type(sp).__name__ == "EnforceChanges" and sp.minimum_percent == 100) for sp in sps])
    # construction through the real problem class: error class and initial sequence
    import dnachisel as dc
    try:
        pr = dc.DnaOptimizationProblem(seq, constraints=objs, logger=None)
        res["constructed"] = True
        res["initial_in_space"] = all(pr.sequence[c.start:c.end] in c.variants for c in pr.mutation_space.choices_list)
    except ValueError as e:
        res["constructed"] = False
        res["unsolvable_error"] = "unsolvable" in str(e)
    if brute:
        n = len(seq)
        bad = None
        any_ok = False
        for tup in itertools.product("ACGT", repeat=n):
            t = "".join(tup)
            in_space = all(t[a:b] in vs for a, b, vs in choices)
            p = FakeProblem(t)
            sat = all(sp.evaluate(p).passes and (type(sp).__name__ != "EnforceTranslation" or start_policy_ok(sp, t))
                      for sp, enf in zip(sps, res["enforced"]) if enf)
            any_ok = any_ok or sat
            if in_space != sat and bad is None:
                bad = (t, in_space, sat)
        res["brute_bad"] = bad
        res["any_satisfying"] = any_ok
    return res


def timed_impl(case):
    import time
    t = time.time()
    res = impl_case(case)
    res["secs"] = time.time() - t
    return res


def run_impl(case):
    return core.safe_call(timed_impl, case, limit=45)


def oracle(case, out):
    if out[0] == "timeout":
        return None
    if out[0] != "ok":
        if out[0] == "exc" and out[1] in ("ValueError",):
            return None     # ill-formed constraint (e.g. translation not starting with M): outside the property
        return "implementation raised: %r" % (out[:3],)
    o = out[1]
    if case[3]:
        if o["brute_bad"] is not None:
            t, ins, sat = o["brute_bad"]
            return "sequence %s: in the mutation space = %s but satisfies the hard constraints = %s" % (t, ins, sat)
        if o["any_satisfying"] == o["unsolvable"]:
            return "unsolvable reported although a satisfying sequence exists (or conversely)"
    if o["constructed"]:
        if o["unsolvable"]:
            return "problem constructed although some position has no allowed variant"
        if not o["initial_in_space"]:
            return "initial sequence of the problem is outside its mutation space"
    else:
        if not o["unsolvable"] or not o.get("unsolvable_error"):
            return "construction failed but not with the 'unsolvable' error / not because a choice is empty"
    return None


def coq_case(case, out):
    o = out[1]
    if sum(len(vs) for _, _, vs in o["choices"]) > 3000:
        return None     # the literal would be megabytes; the L3 oracle still judged this case
    if o.get("secs", 0) > (8.0 if case[3] else 2.0):
        return None     # merges that take the implementation seconds take vm_compute minutes (eager model)
    return "KSpace %s %s %s" % (clist(["(%s, %s)" % (t, cbool(p)) for t, p in o["terms"]]), cseq(case[1]),
                                clist(["(%s, %s, %s)" % (cz(a), cz(b), clist([cseq(v) for v in vs])) for a, b, vs in o["choices"]]))


def gen_cases(rng, tier):
    N = 1 if tier == "quick" else 15
    cases = []
    for _ in range(120 * N):
        n = rng.choice([6, 6, 7, 8]) if tier == "thorough" else rng.choice([6, 6, 7])
        seq = rdna(rng, n)
        cases.append(("space", seq, tuple(gen_hard(rng, seq)), True))
    # codon-usage thresholds sitting exactly on a table frequency, brute-forced: a codon ON the threshold is
    # not rare, so it must be offered by the space
    from .specs import user_table, table_to_desc
    for _ in range(24 * N):
        n = rng.choice([6, 6, 7])
        seq = rdna(rng, n)
        tbl = user_table(rng)
        freqs = sorted({f for aa, cf in tbl.items() if len(aa) == 1 for f in cf.values() if 0 < f < 0.6})
        if not freqs:
            continue
        a = rng.randint(0, n - 6)
        loc = rng.choice([(a, a + 6), (a, a + 3), (a + 3, a + 6)]) + (rng.choice([1, -1]),)
        cs = [("AvoidRareCodons", kw(location=loc, min_frequency=rng.choice(freqs), codon_usage_table=table_to_desc(tbl)))]
        if rng.random() < 0.4:
            cs.append(("AvoidChanges", kw(location=rloc(rng, n, strands=(0,)))))
        cases.append(("space", seq, tuple(cs), True))
    for _ in range(400 * N):
        n = rng.choice([12, 15, 18, 24, 30])
        seq = rdna(rng, n)
        cases.append(("space", seq, tuple(gen_hard(rng, seq)), False))
    return cases, {}


def nontrivial(case, out):
    if out[0] != "ok":
        return False
    locs = []
    for d in case[2]:
        k = dict(d[1])
        if k.get("location"):
            locs.append(k["location"][:2])
    return any(a[0] < b[1] and b[0] < a[1] for a, b in itertools.combinations(locs, 2))


def run(chk):
    core.standard_run(chk, __import__("harness.c04", fromlist=["x"]))


def replay(path):
    return core.standard_replay(__import__("harness.c04", fromlist=["x"]), path)
