"""C02 - optimize() never trades a satisfied constraint for objective score.
(also hosts the shared runner of C03: same runs, different oracle)"""
import json
from fractions import Fraction

from . import core, problems, solverrec, c01

PROP_FILES = ["Properties/C02.v", "Harness/H01.v"]
IMPORTS, CASE_TYPE, CHECKER, SHOW, SHARD = c01.IMPORTS, c01.CASE_TYPE, c01.CHECKER, c01.SHOW, c01.SHARD
RULE = ("random feasible problems (constraints first resolved by the solver) with 1-3 objectives pulling against the constraints, "
        "random boosts, exhaustive/random settings; entries optimize / optimize_by_exhaustive_search / optimize_by_random_mutations, "
        "optimize called twice; non-trivial = optimize changed the sequence; distinct by JSON text")


def impl_case(case):
    import numpy as np
    import dnachisel as dc
    _, pj, entry = case
    p = json.loads(pj)
    try:
        problem = problems.build_problem(p)
    except Exception as e:
        return dict(skipped="%s: %s" % (type(e).__name__, str(e)[:80]))
    solverrec.apply_settings(problem, p["cfg"])
    np.random.seed(p["np_seed"])
    try:
        problem.resolve_constraints()
    except dc.NoSolutionError:
        return dict(skipped="infeasible")
    except Exception as e:
        return dict(skipped="resolve raised %s" % type(e).__name__)
    if not problem.all_constraints_pass(autopass=False):
        return dict(skipped="not feasible after resolve")
    tmp = solverrec.SolverRecorder()
    ids = [tmp.sid(c) for c in problem.constraints + problem.objectives]
    if len(set(ids)) != len(ids):
        return dict(skipped="duplicate specification content")
    if entry == "optimize_exhaustive" and not (0 < problem.mutation_space.space_size <= 3000):
        return dict(skipped="space too large (or frozen: see C06) for a direct exhaustive run")
    before = problem.sequence
    total_before = Fraction(float(problem.objective_scores_sum())) if problem.objectives else Fraction(0)
    r = solverrec.record_run(problem, entry, p["np_seed"] + 7)
    mid = problem.sequence
    pass_mid = bool(problem.all_constraints_pass(autopass=False))
    total_mid = Fraction(float(problem.objective_scores_sum())) if problem.objectives else Fraction(0)
    # a second call (repeated optimize)
    code2 = 0
    try:
        solverrec.run_entry(problem, entry)
    except dc.NoSolutionError:
        code2 = 1
    except Exception:
        code2 = 2
    pass_end = bool(problem.all_constraints_pass(autopass=False))
    total_end = Fraction(float(problem.objective_scores_sum())) if problem.objectives else Fraction(0)
    return dict(code=r["code"], exc=r["exc"], before=before, final=r["final"], n_evals=len(r["evals"]), n_draws=len(r["log"]),
                pass_mid=pass_mid, pass_end=pass_end, code2=code2,
                totals=[str(total_before), str(total_mid), str(total_end)],
                objective_classes=[type(o).__name__ for o in problem.objectives],
                term=solverrec.coq_run(r, p["cfg"], entry), changed=mid != before)


def run_impl(case):
    return core.safe_call(impl_case, case, limit=60)


def oracle(case, out):
    if out[0] == "timeout":
        return None
    if out[0] != "ok":
        return "harness/implementation raised outside the solver: %r" % (out[:3],)
    o = out[1]
    if "skipped" in o:
        return None
    if o["code"] == 2:
        return "optimisation raised %s on a feasible problem" % (o["exc"],)
    if not o["pass_mid"]:
        return "a constraint that passed before %s is breached after it" % case[2]
    if not o["pass_end"]:
        return "a constraint is breached after calling %s a second time" % case[2]
    return None


FLOAT_EXACT = ("EnforceGCContent", "AvoidPattern", "AvoidChanges", "EnforceChanges", "CountLetter", "CountLetterCapped",
               "EnforcePatternOccurence", "UniquifyAllKmers", "AvoidHairpins", "EnforceTranslation", "EnforceSequence", "AvoidStopCodons")


def coq_case(case, out):
    """trace-exact comparison only where binary64 arithmetic is exact (integer / dyadic scores and
    boosts): the model computes in exact rationals, so a near-tie between two irrational totals
    (log-frequencies of MaximizeCAI) could be decided differently by the rounded float sum."""
    o = out[1]
    if "skipped" in o or any(c not in FLOAT_EXACT for c in o["objective_classes"]):
        return None
    return c01.coq_case(case, out)


def gen_cases(rng, tier):
    N = 200 if tier == "quick" else 5000
    cases = []
    for _ in range(N):
        p = problems.gen_problem(rng, with_objectives=True, allow_custom=True, custom_kinds=problems.SOUND_CUSTOM)
        entry = rng.choice(["optimize", "optimize", "optimize", "optimize_exhaustive", "optimize_random"])
        cases.append(("run", json.dumps(p, sort_keys=True), entry))
    return cases, {}


def neighbours(case, rng):
    return problems.neighbours(case, rng)


def nontrivial(case, out):
    return out[0] == "ok" and "skipped" not in out[1] and out[1]["changed"]


def finish_dist(chk, outs):
    dist = chk.coverage.setdefault("distribution", {})
    for o in outs:
        if o[0] == "ok":
            k = "skipped: " + o[1]["skipped"].split(":")[0] if "skipped" in o[1] else "checked"
            dist[k] = dist.get(k, 0) + 1
            if "skipped" not in o[1] and o[1]["n_draws"]:
                dist["used random search"] = dist.get("used random search", 0) + 1
    for s in chk.coverage["samples"]:
        if isinstance(s.get("impl"), (list, tuple)) and len(s["impl"]) > 1 and isinstance(s["impl"][1], dict):
            s["impl"][1].pop("term", None)


def run(chk):
    cases, outs = core.standard_run(chk, __import__("harness.c02", fromlist=["x"]))
    finish_dist(chk, outs)


def replay(path):
    return core.standard_replay(__import__("harness.c02", fromlist=["x"]), path)
