"""C13 - Circular problems: a successful solve holds across the sequence origin."""
import json
from fractions import Fraction

from . import core, problems, specs
from .core import cz, cbool, clist, cloc, cseq
from .problems import kw
from .specs import rdna, rcs, rloc, spec_to_coq, ev_out, civ, loc_t, build_spec

PROP_FILES = ["Properties/C13.v", "Harness/H13.v"]
IMPORTS = ("From DC Require Import Model.Base Model.Loc Model.Bio Model.Pattern Model.MSpace Model.Specs Model.Circular "
           "Harness.H10 Harness.H13.")
CASE_TYPE = "case13"
CHECKER = "check13"
SHOW = "model13"
RULE = ("circular problems on 24-45 bp sequences with whole-sequence and located constraints (AvoidChanges by location, whole sequence, indices near the origin, with allowances; AvoidPattern on both strands, windowed "
        "GC, EnforceSequence, frozen zones), breaches seeded across the origin; plus direct cases for edit mirroring, specification "
        "shifting and circular evaluations; non-trivial = a breach spans the junction before solving; distinct by JSON text")

PATTERNS = ["GGC", "AAAAAA", "GAATTC", "CGTCTC", "ACG", "TATA"]
# classes relocated by Model/Circular.v (circular_modelled)
CIRC_CLASSES = ["AvoidPattern", "EnforcePatternOccurence", "EnforceGCContent", "EnforceTranslation", "AvoidStopCodons",
                "AvoidChanges", "EnforceChanges", "EnforceSequence", "EnforceChoice", "AvoidRareCodons", "MaximizeCAI",
                "AvoidHairpins"]


def wrap_occ(seq, pat, strand=0):
    """occurrences of pat in the circular sequence, as start positions (strand 0: either strand,
    1: as written, -1: reverse complement)"""
    k = len(pat)
    ext = seq + seq[:k - 1]
    return [i for i in range(len(seq)) if (strand != -1 and ext[i:i + k] == pat) or (strand != 1 and ext[i:i + k] == rcs(pat))]


def whole(kwd, n):
    """(is the specification's location the whole sequence?, its strand)"""
    loc = kwd.get("location")
    if loc is None:
        return True, 0
    return (loc[0], loc[1]) == (0, n), loc[2]


def gen_keep(rng, n):
    """keyword arguments of an AvoidChanges for a circular sequence of length n"""
    r = rng.random()
    me = rng.choice([0, 0, 1, 2])
    if r < 0.3:
        d = dict(location=rloc(rng, n, strands=(0,), minlen=3))
    elif r < 0.5:
        d = dict(location=rng.choice([None, (0, n, 0)]))
    else:
        # indices, often touching the origin (0, 1, n-1): non contiguous, so that fewer indices than the
        # span of their location
        pool = [0, 1, 2, n - 1, n - 2] + [rng.randrange(n) for _ in range(4)]
        idx = sorted(set(rng.sample(pool, rng.choice([1, 2, 3, 4]))))
        d = dict(indices=tuple(idx))
    if me:
        d["max_edits"] = me
    return kw(**d)


def gen_circular(rng):
    n = rng.choice([24, 30, 36, 45])
    seq = list(rdna(rng, n, rng.choice([0.3, 0.5, 0.7])))
    cs = []
    for _ in range(rng.choice([1, 2, 2, 3])):
        r = rng.random()
        if r < 0.55:
            p = rng.choice(PATTERNS)
            cs.append(("AvoidPattern", kw(pattern=p, location=rng.choice([None, None, rloc(rng, n, minlen=len(p)),
                                                                             (0, n, 1), (0, n, -1)]))))
            if rng.random() < 0.6:      # seed an occurrence across the origin
                w = p if rng.random() < 0.5 else rcs(p)
                cut = rng.randint(1, len(w) - 1)
                seq[n - cut:] = w[:cut]
                seq[:len(w) - cut] = w[cut:]
        elif r < 0.85:
            cs.append(("EnforceGCContent", kw(mini=rng.choice([0.25, 0.375]), maxi=rng.choice([0.625, 0.75]), window=8, location=None)))
            if rng.random() < 0.5:
                x = rng.choice("GA")
                seq[n - 5:] = x * 5
                seq[:5] = x * 5
        else:
            r2 = rng.random()
            if r2 < 0.3:
                cs.append(("AvoidChanges", kw(location=rloc(rng, n, strands=(0,), minlen=8), max_edits=rng.choice([1, 2]))))
            elif r2 < 0.6:
                cs.append(("AvoidChanges", kw(location=rloc(rng, n, strands=(0,), minlen=3))))
            elif r2 < 0.8:
                cs.append(("AvoidChanges", gen_keep(rng, n)))
            else:
                d = dict(gen_keep(rng, n))
                d.pop("max_edits", None)
                cs.append(("EnforceChanges", tuple(sorted(d.items()))))
    if rng.random() < 0.2:
        # a breach across the origin whose only editable positions are next to positions protected by
        # indices on the other side of the origin
        p = rng.choice(["GGTCTC", "CGTCTC", "GAATTC", "ACGT"])
        cut = rng.randint(1, len(p) - 1)
        seq[n - cut:] = p[:cut]
        seq[:len(p) - cut] = p[cut:]
        prot = sorted(set(rng.sample(list(range(0, len(p) - cut)) + list(range(n - cut, n)), rng.randint(1, len(p) - 1))))
        cs = [("AvoidPattern", kw(pattern=p, location=None)), ("AvoidChanges", kw(indices=tuple(prot)))]
    if rng.random() < 0.15:
        # an occurrence frozen by AvoidChanges near the origin: nothing can be edited there
        pat = rng.choice(["CGTCTC", "GGTCTC", "GAATTC"])
        m = rng.choice([12, 20])
        a = rng.randint(0, 4)
        seq[a:a + len(pat)] = pat
        cs = [("AvoidPattern", kw(pattern=pat, location=(0, m, 0))), ("AvoidChanges", kw(location=(0, m, 0)))]
    out = []
    for c in cs:
        if c not in out:
            out.append(c)
    return dict(seq="".join(seq), constraints=tuple(out), cfg=problems.gen_settings(rng), np_seed=rng.randint(0, 10**6))


def impl_case(case):
    import numpy as np
    import dnachisel as dc
    from dnachisel.DnaOptimizationProblem.CircularDnaOptimizationProblem import CircularViewProblem
    from dnachisel.Location import Location
    k = case[0]
    if k == "replace":
        new = case[1]
        v = CircularViewProblem(sequence=new, constraints=[], logger=None)
        v._replace_sequence(new)
        return v.sequence
    if k == "locs":
        L, l = case[1], case[2]
        sp = dc.AvoidPattern("ACGT", location=Location(*l))
        pr = dc.CircularDnaOptimizationProblem("A" * L, constraints=[], logger=None)
        out = pr._circularized_specs([sp.initialized_on_problem(pr, role="constraint")])
        return tuple(loc_t(s.location) for s in out)
    if k == "circeval":
        desc, seq = case[1], case[2]
        pr = dc.CircularDnaOptimizationProblem(seq, constraints=[build_spec(desc)], logger=None)
        if pr.sequence != seq:
            return dict(skipped="construction changed the sequence")
        if len(case) > 3:
            pr.sequence = case[3]        # evaluated after edits (AvoidChanges: against the recorded target)
        evs = pr.constraints_evaluations(autopass=False)
        return dict(term=spec_to_coq(pr.constraints[0]), evs=[ev_out(e) for e in evs.evaluations],
                    all_pass=bool(pr.all_constraints_pass(autopass=False)))
    if k == "circany":
        _, desc, role, seq, edited = case
        try:
            sp = build_spec(desc)
            pr = dc.CircularDnaOptimizationProblem(seq, constraints=[sp] if role == "constraint" else [],
                                                   objectives=[sp] if role == "objective" else [], logger=None)
        except Exception as e:  # noqa
            return dict(skipped="construction: %s" % type(e).__name__)
        built = pr.sequence
        if edited is not None:
            pr.sequence = edited
        cur = pr.sequence
        own = (pr.constraints if role == "constraint" else pr.objectives)[0]
        try:
            view = pr._circularized_view(with_constraints=role == "constraint", with_objectives=role == "objective")
            if view.sequence != 3 * cur and cur != built:
                # edited out of the mutation space: fall back on the sequence the constructor left
                pr.sequence = cur = built
                view = pr._circularized_view(with_constraints=role == "constraint", with_objectives=role == "objective")
            if view.sequence != 3 * cur:
                # the sequence assigned lies outside the mutation space: the three-copy view is built through the
                # ordinary constructor, which repairs it before anything is evaluated (never the case after a solve)
                return dict(skipped="the three-copy view repairs a sequence outside the mutation space")
        except Exception as e:  # noqa
            return dict(skipped="view raises: %s" % type(e).__name__, loud=True)
        try:
            evs = pr.constraints_evaluations(autopass=False) if role == "constraint" else pr.objectives_evaluations()
        except Exception as e:  # noqa
            return dict(skipped="evaluation raises: %s" % type(e).__name__, loud=True)
        if pr.sequence != cur:
            return dict(moved=True, cur=cur, now=pr.sequence)
        return dict(term=spec_to_coq(own), seq=cur, evs=[ev_out(e) for e in evs.evaluations],
                    all_pass=all(bool(e.passes) for e in evs.evaluations))
    if k == "solve":
        p = json.loads(case[1])
        try:
            pr = dc.CircularDnaOptimizationProblem(p["seq"], constraints=[build_spec(d) for d in p["constraints"]], logger=None)
        except Exception as e:
            return dict(skipped="%s: %s" % (type(e).__name__, str(e)[:60]))
        from . import solverrec
        solverrec.apply_settings(pr, p["cfg"])
        n0 = len(pr.sequence)
        start = pr.sequence
        hard0 = [(c.start, c.end, set(c.variants)) for c in pr.mutation_space.choices_list]
        junction_before = any(wrap_occ(start, dict(d[1])["pattern"]) for d in p["constraints"]
                              if d[0] == "AvoidPattern" and dict(d[1])["location"] is None and set(dict(d[1])["pattern"]) <= set("ACGT"))
        np.random.seed(p["np_seed"])
        code, exc = 0, None
        try:
            pr.resolve_constraints()
        except dc.NoSolutionError as e:
            code, exc = 1, str(e)[:80]
        except Exception as e:  # noqa
            code, exc = 2, "%s: %s" % (type(e).__name__, str(e)[:120])
        s = pr.sequence
        res = dict(code=code, exc=exc, start=start, final=s, same_len=len(s) == n0, junction_before=junction_before,
                   hard_ok=all(s[a:b] in vs for a, b, vs in hard0))
        if code == 0:
            res["circular_pass"] = bool(pr.all_constraints_pass(autopass=False))
            # independent scan of sequence + sequence[:k-1]
            bad = []
            for d in p["constraints"]:
                kwd = dict(d[1])
                if d[0] == "AvoidPattern" and whole(kwd, len(s))[0] and set(kwd["pattern"]) <= set("ACGT"):
                    if wrap_occ(s, kwd["pattern"], whole(kwd, len(s))[1]):
                        bad.append("pattern %s occurs in the circular sequence (strand %s)" % (kwd["pattern"], whole(kwd, len(s))[1]))
                if d[0] == "AvoidPattern" and not whole(kwd, len(s))[0] and set(kwd["pattern"]) <= set("ACGT"):
                    a_, b_, st_ = kwd["location"]
                    pat_ = kwd["pattern"]
                    for i in range(a_, b_ - len(pat_) + 1):
                        w_ = s[i:i + len(pat_)]
                        if (st_ != -1 and w_ == pat_) or (st_ != 1 and w_ == rcs(pat_)):
                            bad.append("pattern %s occurs at %d inside its location %d-%d" % (pat_, i, a_, b_))
                            break
                if d[0] == "AvoidChanges":
                    if kwd.get("indices") is not None:
                        pos_ = list(kwd["indices"])
                        a_, b_ = min(pos_), max(pos_) + 1
                    else:
                        a_, b_ = (0, len(s)) if kwd.get("location") is None else kwd["location"][:2]
                        pos_ = list(range(a_, b_))
                    edits = sum(1 for i in pos_ if start[i] != s[i])
                    if edits > kwd.get("max_edits", 0) and kwd.get("indices") is not None:
                        bad.append("%d edits at the indices %s protected by AvoidChanges(max_edits=%d)" % (edits, pos_, kwd.get("max_edits", 0)))
                        continue
                    kwd.setdefault("max_edits", 0)
                    if edits > kwd["max_edits"]:
                        if (a_, b_) == (0, len(s)):
                            bad.append("the edit allowance of a whole-sequence AvoidChanges is exceeded (%d edits, max_edits=%d)" % (edits, kwd["max_edits"]))
                        else:
                            bad.append("%d edits in the region %d-%d protected by AvoidChanges(max_edits=%d)" % (edits, a_, b_, kwd["max_edits"]))
                if d[0] == "EnforceGCContent" and kwd["location"] is None:
                    w = kwd["window"]
                    ext = s + s[:w - 1]
                    for i in range(len(s)):
                        g = Fraction(sum(c in "GC" for c in ext[i:i + w]), w)
                        if not (Fraction(repr(kwd["mini"])) <= g <= Fraction(repr(kwd["maxi"]))):
                            bad.append("GC window at %d (cyclic) out of bounds" % i)
                            break
            res["scan_bad"] = bad
        return res
    raise ValueError(k)


def run_impl(case):
    return core.safe_call(impl_case, case, limit=120)


def oracle(case, out):
    if out[0] == "timeout":
        return None
    if out[0] != "ok":
        return "harness/implementation raised: %r" % (out[:3],)
    o = out[1]
    k = case[0]
    if k == "replace":
        new = case[1]
        L = len(new) // 3
        if len(o) != 3 * L or o[:L] != o[L:2 * L] or o[:L] != o[2 * L:]:
            return "mirrored sequence is not three equal copies"
        return None
    if k == "circeval" and "skipped" not in o and len(case) > 3 and case[1][0] == "AvoidChanges":
        # independent count: the circular evaluation passes iff the protected positions edited since the
        # problem was built are within the allowance
        kwd = dict(case[1][1])
        seq, ed = case[2], case[3]
        if kwd.get("indices") is not None:
            pos = list(kwd["indices"])
        else:
            a_, b_ = (0, len(seq)) if kwd.get("location") is None else kwd["location"][:2]
            pos = list(range(a_, b_))
        edits = sum(1 for i in pos if seq[i] != ed[i])
        want = edits <= kwd.get("max_edits", 0)
        if bool(o["all_pass"]) != want:
            return ("all_constraints_pass() of the circular problem is %s although %d protected position(s) were edited "
                    "(allowance %d)" % (o["all_pass"], edits, kwd.get("max_edits", 0)))
        return None
    if k == "circany":
        if o.get("moved"):
            return "evaluating the constraints/objectives of a circular problem changed its sequence (%s -> %s)" % (o["cur"], o["now"])
        return None
    if k == "solve":
        if "skipped" in o:
            return None
        if o["code"] == 2:
            return "another exception escaped: %s" % o["exc"]
        if not o["same_len"]:
            return "sequence length changed"
        if not o["hard_ok"]:
            return "a hard nucleotide restriction is violated after the circular solve"
        if o["code"] == 0:
            if not o["circular_pass"]:
                return "resolve_constraints returned although the circular evaluation fails"
            if o["scan_bad"]:
                return "returned although " + o["scan_bad"][0]
    return None


def coq_case(case, out):
    k = case[0]
    o = out[1]
    if k == "replace":
        return "KReplace %s %s" % (cseq(case[1]), cseq(o))
    if k == "locs":
        return "KCircLocs %s %s %s" % (cz(case[1]), cloc(case[2]), clist([cloc(t) for t in o]))
    if k == "circeval":
        if "skipped" in o:
            return None
        return "KCircEval %s %s %s %s" % (o["term"], cseq(case[3] if len(case) > 3 else case[2]), clist([civ(e) for e in o["evs"]]), cbool(o["all_pass"]))
    if k == "circany":
        if "skipped" in o or o.get("moved"):
            return None
        return "KCircEval %s %s %s %s" % (o["term"], cseq(o["seq"]), clist([civ(e) for e in o["evs"]]), cbool(o["all_pass"]))
    return None


def gen_cases(rng, tier):
    N = 1 if tier == "quick" else 20
    cases = []
    for _ in range(150 * N):
        L = rng.choice([3, 5, 8, 12])
        s = rdna(rng, L)
        new = list(s * 3)
        for _ in range(rng.choice([0, 1, 1, 2, 3])):
            i = rng.randrange(3 * L)
            new[i] = rng.choice("ACGT")
        cases.append(("replace", "".join(new)))
    for _ in range(60 * N):
        L = rng.choice([12, 20, 30])
        l = rng.choice([(0, L, rng.choice([0, 1, -1])), rloc(rng, L)])
        cases.append(("locs", L, l))
    for _ in range(150 * N):
        n = rng.choice([12, 18, 24])
        seq = list(rdna(rng, n))
        r = rng.random()
        if r < 0.5:
            p = rng.choice(["GGC", "AAAA", "ACG", "TATA", "AN"])
            desc = ("AvoidPattern", kw(pattern=p, location=rng.choice([None, None, rloc(rng, n, minlen=3)])))
            if rng.random() < 0.6 and set(p) <= set("ACGT"):
                cut = rng.randint(1, len(p) - 1)
                seq[n - cut:] = p[:cut]
                seq[:len(p) - cut] = p[cut:]
        elif r < 0.8:
            desc = ("EnforceGCContent", kw(mini=0.25, maxi=0.75, window=rng.choice([4, 8]), location=rng.choice([None, rloc(rng, n, strands=(0,), minlen=8)])))
        else:
            loc = rloc(rng, n, minlen=2)
            desc = ("EnforceSequence", kw(location=loc, sequence="".join(rng.choice("ACGTNWS") for _ in range(loc[1] - loc[0]))))
        cases.append(("circeval", desc, "".join(seq)))
    # AvoidChanges in every form (sub-region, whole sequence, indices near the origin, allowances),
    # evaluated after a few edits: each of the three copies must count the edits of the sequence
    for _ in range(90 * N):
        n = rng.choice([12, 18, 24])
        seq = rdna(rng, n)
        desc = ("AvoidChanges", gen_keep(rng, n))
        ed = list(seq)
        for _ in range(rng.choice([0, 1, 1, 2, 3, 5])):
            i = rng.choice([0, 1, n - 1, rng.randrange(n)])
            ed[i] = rng.choice("ACGT")
        cases.append(("circeval", desc, seq, "".join(ed)))
    # every class whose circularization is modelled, located and whole-sequence, as constraint or objective,
    # evaluated on the sequence it was built with and after edits (EnforceChanges: constructor edits included)
    for cls in CIRC_CLASSES:
        for _ in range(14 * N):
            n = rng.choice([12, 18, 24, 30])
            try:
                desc, role, seq = specs.gen_spec(rng, cls, n)
            except Exception:  # noqa
                continue
            edited = None
            if rng.random() < 0.6:
                ed = list(seq)
                for _ in range(rng.choice([1, 1, 2, 3, 5])):
                    i = rng.choice([0, 1, len(seq) - 1, rng.randrange(len(seq))])
                    ed[i] = rng.choice("ACGT")
                edited = "".join(ed)
            cases.append(("circany", desc, role, seq, edited))
    for _ in range(120 * N):
        cases.append(("solve", json.dumps(gen_circular(rng), sort_keys=True)))
    return cases, {}


def nontrivial(case, out):
    if out[0] != "ok":
        return False
    if case[0] == "solve":
        return isinstance(out[1], dict) and out[1].get("junction_before", False)
    if case[0] == "replace":
        return out[1] != case[1]
    return True


def run(chk):
    cases, outs = core.standard_run(chk, __import__("harness.c13", fromlist=["x"]))
    dist = chk.coverage.setdefault("distribution", {})
    for c, o in zip(cases, outs):
        if c[0] == "solve" and o[0] == "ok" and "skipped" not in o[1]:
            k = {0: "solve returned", 1: "solve NoSolutionError", 2: "solve other exception"}[o[1]["code"]]
            dist[k] = dist.get(k, 0) + 1
            if o[1]["junction_before"]:
                dist["breach across the origin before solving"] = dist.get("breach across the origin before solving", 0) + 1
        if c[0] == "circany" and o[0] == "ok":
            k = "circany %s: %s" % (c[1][0], o[1].get("skipped", "compared with the model"))
            dist[k] = dist.get(k, 0) + 1


def replay(path):
    return core.standard_replay(__import__("harness.c13", fromlist=["x"]), path)
