"""C05 - Results are a function of the inputs and the numpy seed only."""
import ast
import json
import os
import subprocess
import sys
import tempfile

from . import core, problems

PROP_FILES = ["Properties/C05.v"]
RULE = ("random problems (constraints + objectives, located specifications so that user objects are shared, user-defined "
        "specifications) solved with a fixed numpy seed in fresh subprocesses under different PYTHONHASHSEED values and after different "
        "in-process histories (reverse order, solved twice, the same specification objects first used in another problem, the same "
        "objects first used one by one in problems that fail); a quarter of the problems are of the shared-object family (a "
        "self-localizing located constraint that passes + a windowed constraint needing a random local search); "
        "non-trivial = the solve consumed random numbers or changed the sequence; distinct by JSON text")
HASHSEEDS = {"quick": ["0", "1", "7", "12345"], "thorough": ["0", "1", "2", "7", "99", "12345", "4294967295", "random"]}
MODES = ["fresh", "reversed", "twice", "shared_objects", "after_failure", "sibling_first"]

# audited places where a set (or anything whose order is hash-dependent) is iterated / indexed in the
# anchored files, with the reason the result does not depend on the order
AUDITED = {
    ("MutationChoice.py", "__repr__", '"-".join(self.variants)'): "display only",
    ("MutationChoice.py", "__str__", '"-".join(self.variants)'): "display only",
    ("MutationChoice.py", "extract_varying_region", "for v in variants"): "collected into a set",
    ("MutationChoice.py", "extract_varying_region", "for variant in variants[1:]"): "existential test; reference-independent (extract_varying_region_order_independent)",
    ("MutationChoice.py", "extract_varying_region", "list(self.variants)"): "reference-independent (extract_varying_region_order_independent)",
    ("MutationChoice.py", "extract_varying_region", "set([v[end:] for v in variants])"): "construction of a set",
    ("MutationChoice.py", "extract_varying_region", "set([v[start:end] for v in variants])"): "construction of a set",
    ("MutationChoice.py", "extract_varying_region", "variants[0]"): "reference-independent (extract_varying_region_order_independent)",
    ("MutationChoice.py", "merge_with", "sorted(others, key=lambda o: o.start)"): "underlying choices have distinct starts: total key",
    ("MutationChoice.py", "merge_with", "for candidate in self.variants"): "results accumulated in a set",
    ("MutationChoice.py", "merge_with", "for variant in other.variants"): "slot order only affects the order of additions to a set",
    ("MutationChoice.py", "random_variant", "for v in self.variants"): "filtered, then sorted before the draw (random_variant_order_independent)",
    ("MutationChoice.py", "random_variant", "sorted(variants)"): "the sort that makes the draw order-independent",
    ("MutationChoice.py", "random_variant", "variants[np.random.randint(len(variants))]"): "indexing the SORTED list",
    ("MutationSpace.py", "__init__", "list(c.variants)"): "single-variant choice",
    ("MutationSpace.py", "__init__", "list(c.variants)[0]"): "single-variant choice",
    ("MutationSpace.py", "all_variants", "enumerate(sorted(choice.variants))"): "ranks in the sorted list",
    ("MutationSpace.py", "all_variants", "for ((start, end), variant) in variants"): "tuple of the product, not a set",
    ("MutationSpace.py", "all_variants", "for i, v in enumerate(sorted(choice.variants))"): "ranks in the sorted list",
    ("MutationSpace.py", "all_variants", "for v in sort_variants_by_distance_to_current(choice_)"): "a sorted list (total key)",
    ("MutationSpace.py", "all_variants", "for variants in itertools.product(*variants_slots)"): "product of sorted lists",
    ("MutationSpace.py", "all_variants", "sorted(choice.variants)"): "sorted",
    ("MutationSpace.py", "all_variants", "sorted(choice.variants, key=sort_key)"): "total key (distance, variant) (sorted_by_distance_order_independent)",
    ("MutationSpace.py", "constrain_sequence", "list(choice.variants)"): "length / membership / single element only (constrain_loop_order_independent)",
    ("MutationSpace.py", "constrain_sequence", "sorted(variants)"): "sorted before the draw",
    ("MutationSpace.py", "constrain_sequence", "variants[0]"): "single-variant choice",
    ("MutationSpace.py", "from_optimization_problem", "set(choice[1])"): "construction of a set",
    ("MutationSpace.py", "from_optimization_problem", "enumerate(underlying_choices)"): "a list (slice of the index), positions only (fix F20)",
    ("MutationSpace.py", "from_optimization_problem", "set([sequence[choice.start + i]])"): "construction of a one-element set (fix F20)",
    ("MutationSpace.py", "from_optimization_problem", "set(underlying_choices)"): "merge_with sorts by start",
    ("MutationSpace.py", "from_optimization_problem", "sorted( [ MutationChoice(segment=choice[0], variants=set(choice[1])) for cst in constraints for choice in cst.restrict_nucleotides(sequence) ], key=lambda choice: (choice.end - choice.start, choice.start), )"): "stable sort of a list (constraint order is an input)",
    ("MutationSpace.py", "from_optimization_problem", "variants[c]"): "dict lookup by nucleotide",
    ("MutationSpace.py", "plot", "enumerate(choice.variants)"): "display only",
    ("MutationSpace.py", "plot", "for y, variant in enumerate(choice.variants)"): "display only",
    ("MutationSpace.py", "string_representation", "enumerate(variants)"): "display only",
    ("MutationSpace.py", "string_representation", "for i, variant in enumerate(variants)"): "display only",
    ("MutationSpace.py", "string_representation", "list(choice.variants)"): "display only",
}
FILES = ["dnachisel/MutationSpace/MutationChoice.py", "dnachisel/MutationSpace/MutationSpace.py"]


def scan_sites():
    """every expression of the two files that iterates / lists / sorts / indexes something that
    textually involves `variants` or `set(`"""
    found = set()
    for rel in FILES:
        src = open(os.path.join(core.REPO, rel)).read()
        tree = ast.parse(src)
        base = os.path.basename(rel)

        def text(n):
            return ast.get_source_segment(src, n)

        for fn in [n for n in ast.walk(tree) if isinstance(n, ast.FunctionDef)]:
            inner = [g for g in ast.walk(fn) if isinstance(g, ast.FunctionDef) and g is not fn]
            skip = set()
            for g in inner:
                skip |= set(id(x) for x in ast.walk(g))
            for n in ast.walk(fn):
                if id(n) in skip:
                    continue
                t = None
                if isinstance(n, (ast.For, ast.comprehension)):
                    it = n.iter
                    if "variants" in text(it) or "set(" in text(it):
                        tgt = text(n.target)
                        t = "for %s in %s" % (tgt, text(it))
                elif isinstance(n, ast.Call) and isinstance(n.func, ast.Name) and n.func.id in ("list", "sorted", "set", "enumerate") and n.args:
                    if "variants" in text(n.args[0]) or "underlying" in text(n.args[0]) or "others" in text(n.args[0]) or n.func.id == "set" and "choice" in text(n.args[0]):
                        t = text(n)
                elif isinstance(n, ast.Call) and isinstance(n.func, ast.Attribute) and n.func.attr == "join" and n.args and "variants" in text(n.args[0]):
                    t = text(n)
                elif isinstance(n, ast.Subscript) and isinstance(n.value, ast.Name) and n.value.id == "variants" and not isinstance(n.slice, ast.Slice):
                    t = text(n)
                elif isinstance(n, ast.Subscript) and isinstance(n.value, ast.Call) and "variants" in text(n.value) and isinstance(n.value.func, ast.Name) and n.value.func.id == "list":
                    t = text(n)
                if t:
                    found.add((base, fn.name, " ".join(t.split())))
    # nested function of all_variants is scanned as its own FunctionDef: attribute it to all_variants
    out = set()
    for b, f, t in found:
        if f in ("sort_variants_by_distance_to_current", "sort_key"):
            f = "all_variants"
        out.add((b, f, t))
    return out


def gen_shared_family(rng):
    """a located, non-windowed GC constraint (initialized_on_problem and localized both return the
    user's object) that passes from the start, next to a windowed one that fails in the middle and
    needs a random local search"""
    from .problems import kw
    k = rng.choice([6, 7, 8])
    flank, centre = rng.choice([("GCGA", "AT"), ("GCTA", "TA"), ("ATTA", "GC"), ("CGAT", "AT")])
    m = rng.choice([10, 12, 13])
    seq = flank * k + centre * m + flank * k
    n = len(seq)
    gc = sum(c in "GC" for c in seq) / n
    lo = max(0.05, round(gc - 0.12, 2))
    hi = min(0.95, round(gc + 0.12, 2))
    cs = [("EnforceGCContent", kw(mini=0.3, maxi=0.8, window=rng.choice([16, 20]), location=None)),
          ("EnforceGCContent", kw(mini=lo, maxi=hi, location=(0, n, 0)))]
    if rng.random() < 0.5:
        cs.reverse()
    if rng.random() < 0.4:
        cs.append(("AvoidPattern", kw(pattern=rng.choice(["GGTCTC", "CACGTG"]), location=(0, n, 0))))
    cfg = dict(threshold=rng.choice([0, 50, 10000]), max_iters=rng.choice([60, 200]), mutations=rng.choice([1, 2]),
               extensions=rng.choice([(0, 5), (0, 3, 9)]), stagnation=None)
    return dict(seq=seq, constraints=tuple(cs), objectives=(), cfg=cfg, np_seed=rng.randint(0, 10**6))


def gen_outside_family(rng):
    """the initial sequence lies outside the mutation space at positions offering several variants
    (the constructor then picks one at random): back-translation of a protein onto a placeholder,
    unmatched EnforceChoice, degenerate EnforceSequence"""
    from .problems import kw
    from .specs import rdna
    n = rng.choice([18, 24, 30])
    seq = rdna(rng, n)
    cs = []
    r = rng.random()
    if r < 0.4:
        prot = "".join(rng.choice("ACDEFGHIKLNPQRSTVY") for _ in range(n // 3))
        cs.append(("EnforceTranslation", kw(location=(0, n, rng.choice([1, -1])), translation=prot)))
    elif r < 0.7:
        a = rng.randint(0, n - 6)
        cs.append(("EnforceChoice", kw(choices=tuple(sorted({rdna(rng, 6) for _ in range(4)})), location=(a, a + 6, 1))))
        cs.append(("EnforceSequence", kw(location=(0, 4, 1), sequence="".join(rng.choice("RYSWKM") for _ in range(4)))))
    else:
        w = "".join(rng.choice("NRYSWKMBDHV") for _ in range(n))
        cs.append(("EnforceSequence", kw(location=(0, n, rng.choice([1, -1])), sequence=w)))
    cs.append(("AvoidPattern", kw(pattern=rng.choice(["AA", "CG", "GC"]), location=None)))
    cfg = dict(threshold=rng.choice([0, 50, 10000]), max_iters=40, mutations=rng.choice([1, 2]),
               extensions=(0, 5), stagnation=None)
    return dict(seq=seq, constraints=tuple(cs), objectives=(), cfg=cfg, np_seed=rng.randint(0, 10**6))


def gen_shared_table_family(rng):
    """one user codon-usage table (the same dict object, see specs.table_from_desc) handed to a
    rare-codon constraint and to a codon-optimisation objective"""
    from .problems import kw
    from .specs import user_table, table_to_desc, rcs
    from Bio.Data import CodonTable
    std = CodonTable.unambiguous_dna_by_name["Standard"]
    back = {}
    for c, a in std.forward_table.items():
        back.setdefault(a, []).append(c)
    prot = "".join(rng.choice("ACDEFGHIKLNPQRSTVY") for _ in range(rng.randint(6, 10)))
    gene = "".join(rng.choice(back[a]) for a in prot)
    strand = rng.choice([1, -1])
    seq = gene if strand == 1 else rcs(gene)
    tbl = table_to_desc(user_table(rng))
    loc = (0, len(seq), strand)
    cs = [("EnforceTranslation", kw(location=loc)),
          ("AvoidRareCodons", kw(location=loc, min_frequency=rng.choice([0.1, 0.15]), codon_usage_table=tbl))]
    os_ = [rng.choice([("MaximizeCAI", kw(location=loc, codon_usage_table=tbl, boost=1.0)),
                       ("HarmonizeRCA", kw(location=loc, codon_usage_table=tbl, original_codon_usage_table=tbl, boost=1.0))])]
    cfg = dict(threshold=10000, max_iters=40, mutations=2, extensions=(0, 5), stagnation=None)
    return dict(seq=seq, constraints=tuple(cs), objectives=tuple(os_), cfg=cfg, np_seed=rng.randint(0, 10**6))


def gen_uniquify_family(rng):
    """k-mer uniqueness with seeded repeats (forward and reverse-complement copies)"""
    from .problems import kw
    from .specs import rdna, rcs
    n = rng.choice([30, 36, 45])
    s = list(rdna(rng, n))
    k = rng.choice([4, 5, 6])
    for _ in range(rng.randint(1, 3)):
        i, j = rng.randint(0, n - k), rng.randint(0, n - k)
        w = "".join(s[i:i + k])
        s[j:j + k] = list(w if rng.random() < 0.5 else rcs(w))
    cs = [("UniquifyAllKmers", kw(k=k, include_reverse_complement=rng.random() < 0.5, location=None))]
    if rng.random() < 0.5:
        cs.append(("AvoidPattern", kw(pattern=rng.choice(["AA", "CG", "GC"]), location=None)))
    cfg = dict(threshold=rng.choice([0, 50, 10000]), max_iters=60, mutations=rng.choice([1, 2]), extensions=(0, 5), stagnation=None)
    return dict(seq="".join(s), constraints=tuple(cs), objectives=(), cfg=cfg, np_seed=rng.randint(0, 10**6))


def run_workers(ps, tier):
    tmp = tempfile.mkdtemp(prefix="verif_c05_")
    pfile = os.path.join(tmp, "problems.json")
    json.dump(ps, open(pfile, "w"))
    jobs = []
    for hs in HASHSEEDS[tier]:
        jobs.append((hs, "fresh"))
    for mode in MODES[1:]:
        jobs.append(("0", mode))
        jobs.append((HASHSEEDS[tier][-1], mode))
    procs = []
    for hs, mode in jobs:
        env = core.child_env(hs)
        if hs == "random":
            env["PYTHONHASHSEED"] = "random"
        procs.append(((hs, mode), subprocess.Popen([sys.executable, os.path.join(core.VERIF, "harness", "c05_worker.py"), pfile, mode],
                                                   stdout=subprocess.PIPE, stderr=subprocess.PIPE, text=True, env=env)))
    results = {}
    for key, p in procs:
        out, err = p.communicate(timeout=3000)
        if p.returncode != 0:
            raise RuntimeError("worker %s failed: %s" % (key, err[-800:]))
        results[key] = json.loads(out.strip().splitlines()[-1])
    import shutil
    shutil.rmtree(tmp, ignore_errors=True)
    return results


def run(chk):
    ok, log = (True, "") if getattr(chk, "no_build", False) else chk.build(PROP_FILES)
    if not ok:
        chk.l1_ok = False
        chk.notes.append("L1 broken: " + log[-2500:])
    # static scan: every set-iteration site of the anchored files must be an audited one
    sites = scan_sites()
    unaudited = sorted(s for s in sites if s not in AUDITED)
    gone = sorted(s for s in AUDITED if s not in sites)
    chk.coverage["set_iteration_sites"] = {"found": len(sites), "audited": len(AUDITED), "unaudited": [list(s) for s in unaudited],
                                           "audited_but_absent": [list(s) for s in gone]}
    # problems
    N = 60 if chk.tier == "quick" else 400
    ps = []
    while len(ps) < N // 4:
        ps.append(gen_shared_family(chk.rng))
    while len(ps) < N // 2:
        ps.append(gen_outside_family(chk.rng))
    while len(ps) < N // 2 + N // 6:
        ps.append(gen_uniquify_family(chk.rng))
    while len(ps) < N // 2 + N // 6 + N // 8:
        ps.append(gen_shared_table_family(chk.rng))
    while len(ps) < N:
        p = problems.gen_problem(chk.rng, with_objectives=chk.rng.random() < 0.6, allow_custom=True,
                                 custom_kinds=problems.SOUND_CUSTOM)
        p["cfg"]["max_iters"] = min(p["cfg"]["max_iters"], 40)
        ps.append(p)
    results = run_workers(ps, chk.tier)
    base = results[(HASHSEEDS[chk.tier][0], "fresh")]
    chk.coverage["evaluations"] = len(ps) * len(results)
    chk.coverage["programs"] = len(ps) * len(results)
    diffs = 0
    for key, res in results.items():
        for i, (a, b) in enumerate(zip(base, res)):
            if a != b:
                diffs += 1
                kind = "hash seed" if key[1] == "fresh" else "history '%s'" % key[1]
                chk.violation("result depends on the %s" % ("interpreter hash seed" if key[1] == "fresh" else "process history"),
                              {"case": ps[i], "run_a": {"PYTHONHASHSEED": HASHSEEDS[chk.tier][0], "history": "fresh", "result": a},
                               "run_b": {"PYTHONHASHSEED": key[0], "history": key[1], "result": b},
                               "why": "same problem definition and numpy seed, different %s, different outcome" % kind,
                               "layer": "L3 differential runs of the implementation"})
    chk.coverage["disagreements_checked"] = diffs
    if unaudited and not chk.violations:
        chk.violation("unaudited set-iteration site", {"sites": [list(s) for s in unaudited],
                                                       "broken": "static audit of set iteration in MutationChoice.py / MutationSpace.py "
                                                                 "(the permutation lemmas of Properties/C05.v cover the audited sites only)"},
                      no_input=True)
    if gone and not chk.violations:
        chk.violation("audited set-iteration site changed", {"sites": [list(s) for s in gone],
                                                             "broken": "static audit: an audited expression (e.g. a sorted(...) before a draw) "
                                                                       "is no longer present in the source"}, no_input=True)
    if not chk.l1_ok and not chk.violations:
        chk.violation("L1 obligations", {"broken": "coq build of %s" % PROP_FILES, "log": chk.notes[-1] if chk.notes else ""}, no_input=True)
    nontriv = sum(1 for p, r in zip(ps, base) if r[0] != "ok" or r[1] != p["seq"].upper())
    chk.coverage["distinct_nontrivial"] = nontriv
    chk.coverage["rule"] = RULE
    chk.coverage["distribution"] = {"problems": len(ps), "runs per problem": len(results),
                                    "hash seeds": HASHSEEDS[chk.tier], "histories": MODES,
                                    "outcomes": {k: sum(1 for r in base if r[0] == k) for k in ("ok", "NoSolutionError", "exc")}}
    chk.add_samples([{"case": ps[i], "result": base[i]} for i in range(0, len(ps), max(1, len(ps) // 4))])


def replay(path):
    d = json.load(open(path))
    if "case" not in d:
        print("replay names a broken obligation / audit, no concrete input:", d.get("broken"))
        return 1
    res = {}
    for tag in ("run_a", "run_b"):
        r = d[tag]
        tmp = tempfile.mkdtemp(prefix="verif_c05r_")
        pfile = os.path.join(tmp, "p.json")
        json.dump([d["case"]], open(pfile, "w"))
        out = subprocess.run([sys.executable, os.path.join(core.VERIF, "harness", "c05_worker.py"), pfile, r["history"]],
                             capture_output=True, text=True, env=core.child_env(r["PYTHONHASHSEED"]))
        res[tag] = json.loads(out.stdout.strip().splitlines()[-1])[0]
        print(tag, r["PYTHONHASHSEED"], r["history"], res[tag])
    return 1 if res["run_a"] != res["run_b"] else 0
