"""C18 - Location arithmetic is exact interval arithmetic."""
import itertools
import json

from . import core
from .core import cz, cbool, cloc, clist, copt, cpair

PROP_FILES = ["Properties/C18.v", "Harness/H18.v"]
IMPORTS = "From DC Require Import Model.Base Model.Loc Harness.H18."


def tup(l):
    return None if l is None else (l.start, l.end, l.strand)


# ------------------------------------------------------------------ implementation runners

def impl_case(case):
    """Run one case on the current /repo implementation; returns the observed output."""
    from dnachisel.Location import Location
    from dnachisel.biotools.indices_operations import windows_overlap
    kind = case[0]
    if kind == "overlap":
        a, b = Location(*case[1]), Location(*case[2])
        return tup(a.overlap_region(b))
    if kind == "extended":
        _, a, n, lo, up, left, right = case
        return tup(Location(*a).extended(n, lower_limit=lo, upper_limit=up, left=left, right=right))
    if kind == "merge":
        objs = [Location(*t) for t in case[1]]
        out = Location.merge_overlapping_locations(list(objs))
        return tuple(tup(o) for o in out), tuple(tup(o) for o in objs)
    if kind == "shift":
        a = Location(*case[1])
        return tup(a + case[2]), tup(a - case[2]), len(a) if a.end >= a.start else (a.end - a.start)
    if kind == "order":
        a, b = Location(*case[1]), Location(*case[2])
        return (a < b), (a == b), (hash(a) == hash(b)), (a >= b)
    if kind == "indices":
        return list(Location(*case[1]).indices)
    if kind == "tuple":
        a = Location(*case[1])
        t = a.to_tuple()
        back = Location.from_tuple(t)
        two = Location.from_tuple(t[:2])
        d1 = Location.from_data(t)
        d2 = Location.from_data(a)
        d3 = Location.from_data(list(t))
        bio = a.to_biopython_location() if a.strand in (-1, 0, 1) and 0 <= a.start <= a.end else None
        d4 = Location.from_data(bio) if bio is not None else None
        d5 = Location.from_biopython_location(bio) if bio is not None else None
        # default_strand only applies to 2-tuples; an explicit strand (0 included) is kept
        ds = tuple((d, tup(Location.from_tuple(t, default_strand=d)), tup(Location.from_tuple(t[:2], default_strand=d)))
                   for d in (0, 1, -1))
        # equal locations hash equally, however they were obtained (conversions, in-place edits)
        ref_hash = hash(Location(*case[1]))
        objs = [back, d1, d2, d3] + ([d4, d5] if bio is not None else [])
        if a.strand == 0 and 0 <= a.start <= a.end:
            from Bio.SeqFeature import FeatureLocation
            objs.append(Location.from_data(FeatureLocation(a.start, a.end)))      # unstranded feature
        edited = Location(a.start + 1, a.end + 1, 1 if a.strand != 1 else 0)
        edited.start, edited.end, edited.strand = a.start, a.end, a.strand
        objs.append(edited)
        for o in objs:
            if o == a and hash(o) != ref_hash:
                raise AssertionError("equal locations with different hashes: %r obtained by conversion/in-place edit" % (tup(o),))
            if tup(o) != tuple(case[1]):
                raise AssertionError("conversion changed the location: %r" % (tup(o),))
        return (tuple(t), tup(back), tup(two), tup(d1), tup(d2), tup(d3), tup(d4), tup(d5), d2 is a, ds)
    if kind == "extract":
        a = Location(*case[1])
        feat = a.to_biopython_feature(feature_type="misc_feature", label="x") if a.strand in (-1, 0, 1) else None
        back = tup(Location.from_biopython_location(feat.location)) if feat is not None else None
        return a.extract_sequence(case[2]), back
    if kind == "windows":
        r = windows_overlap(case[1], case[2])
        return None if r is None else tuple(r)
    raise ValueError(kind)


def run_impl(case):
    return core.safe_call(impl_case, case, limit=10)


# ------------------------------------------------------------------ L3: direct oracle (no model)

def idx(t):
    return set(range(t[0], t[1]))


def oracle(case, out):
    """Return None if the property holds on this case for the implementation's output `out`,
    else a short description of the failure.  Written against set-of-indices semantics."""
    if out[0] != "ok":
        return "implementation raised/hung: %r" % (out,)
    out = out[1]
    kind = case[0]
    if kind == "overlap":
        a, b = case[1], case[2]
        if a[0] >= a[1] or b[0] >= b[1]:
            return None  # property quantifies over non-empty locations
        inter = idx(a) & idx(b)
        if not inter:
            return None if out is None else "disjoint/touching but overlap=%r" % (out,)
        if out is None:
            return "intersecting but overlap is None"
        if idx(out) != inter:
            return "overlap %r is not the intersection" % (out,)
        if out[2] != a[2]:
            return "strand not inherited from self"
    elif kind == "extended":
        _, a, n, lo, up, left, right = case
        exp_lo = max(lo, a[0] - n) if left else a[0]
        exp_hi = (min(up, a[1] + n) if up is not None else a[1] + n) if right else a[1]
        if out != (exp_lo, exp_hi, a[2]):
            return "extended gives %r, expected %r" % (out, (exp_lo, exp_hi, a[2]))
    elif kind == "merge":
        res, after = out
        ins = case[1]
        if any(t[0] >= t[1] for t in ins):
            return None
        if [tuple(x) for x in after] != [tuple(x) for x in ins]:
            return "caller's objects altered: %r -> %r" % (ins, after)
        union = set().union(*[idx(t) for t in ins]) if ins else set()
        if (set().union(*[idx(t) for t in res]) if res else set()) != union:
            return "union changed"
        if sorted(res) != list(res):
            return "result not sorted"
        for x, y in itertools.combinations(res, 2):
            if idx(x) & idx(y):
                return "results overlap"
    elif kind == "shift":
        a, n = case[1], case[2]
        p, m, ln = out
        if p != (a[0] + n, a[1] + n, a[2]) or m != (a[0] - n, a[1] - n, a[2]) or ln != a[1] - a[0]:
            return "shift/len wrong: %r" % (out,)
    elif kind == "order":
        a, b = case[1], case[2]
        lt, eq, h, ge = out
        if lt != (a < b) or eq != (a == b) or ge != (a >= b) or (eq and not h):
            return "ordering/equality/hash inconsistent: %r" % (out,)
    elif kind == "indices":
        a = case[1]
        exp = list(range(a[0], a[1]))
        if a[2] == -1:
            exp = exp[::-1]
        if out != exp:
            return "indices wrong"
    elif kind == "tuple":
        a = case[1]
        t, back, two, d1, d2, d3, d4, d5, same, ds = out
        for d, t3, t2 in ds:
            if t3 != a:
                return "from_tuple(%r, default_strand=%d) = %r: the explicit strand was not kept" % (a, d, t3)
            if t2 != (a[0], a[1], d):
                return "from_tuple(%r, default_strand=%d) = %r" % (a[:2], d, t2)
        if t != a or back != a or d1 != a or d2 != a or d3 != a:
            return "tuple conversions inconsistent: %r" % (out,)
        if two != (a[0], a[1], 0):
            return "2-tuple default strand is not 0"
        if same:
            return "from_data(Location) returned the caller's object, not a new one"
        if d4 is not None and (d4 != a or d5 != a):
            return "biopython round trip changed the location: %r" % (out,)
    elif kind == "extract":
        a, seq = case[1], case[2]
        sub = seq[a[0]:a[1]]
        if a[2] == -1:
            sub = "".join({"A": "T", "C": "G", "G": "C", "T": "A"}[c] for c in reversed(sub))
        if out[0] != sub:
            return "extract_sequence on %r gives %r, expected %r" % (a, out[0], sub)
        if out[1] is not None and out[1] != a:
            return "to_biopython_feature / from_biopython_location changed the location: %r" % (out[1],)
    elif kind == "windows":
        pass  # helper of the mutation space; its contract is checked by C04/C15
    return None


# ------------------------------------------------------------------ Coq terms

def coq_case(case, out):
    kind = case[0]
    o = out[1]
    if kind == "overlap":
        return "KOverlap %s %s %s" % (cloc(case[1]), cloc(case[2]), copt(o, cloc))
    if kind == "extended":
        _, a, n, lo, up, left, right = case
        return "KExtended %s %s %s %s %s %s %s" % (cloc(a), cz(n), cz(lo), copt(up, cz), cbool(left), cbool(right), cloc(o))
    if kind == "merge":
        return "KMerge %s %s %s" % (clist([cloc(t) for t in case[1]]), clist([cloc(t) for t in o[0]]), clist([cloc(t) for t in o[1]]))
    if kind == "shift":
        return "KShift %s %s %s %s %s" % (cloc(case[1]), cz(case[2]), cloc(o[0]), cloc(o[1]), cz(o[2]))
    if kind == "order":
        return "KOrder %s %s %s %s %s %s" % (cloc(case[1]), cloc(case[2]), cbool(o[0]), cbool(o[1]), cbool(o[2]), cbool(o[3]))
    if kind == "indices":
        return "KIndices %s %s" % (cloc(case[1]), clist([cz(i) for i in o]))
    if kind == "tuple":
        t = o[0]
        return "KTuple %s (%s, %s, %s) %s" % (cloc(case[1]), cz(t[0]), cz(t[1]), cz(t[2]), cloc(o[1]))
    if kind == "extract":
        return None
    if kind == "windows":
        return "KWindows %s %s %s" % (cpair(cz(case[1][0]), cz(case[1][1])), cpair(cz(case[2][0]), cz(case[2][1])),
                                      copt(o, lambda p: cpair(cz(p[0]), cz(p[1]))))
    raise ValueError(kind)


# ------------------------------------------------------------------ generators

def box_locs(lo, hi, strands=(-1, 0, 1)):
    return [(s, e, st) for s in range(lo, hi) for e in range(lo, hi) for st in strands]


def gen_cases(rng, tier):
    cases = []
    stats = {}
    lo, hi = (-1, 6) if tier == "quick" else (-2, 8)
    locs = box_locs(lo, hi)
    pairs = [(a, b) for a in locs for b in locs]
    if tier == "quick":
        # exhaustive over spans, strands sampled: spans box fully covered with strand variety
        spans = [(s, e) for s in range(lo, hi) for e in range(lo, hi)]
        pairs = [((a[0], a[1], rng.choice((-1, 0, 1))), (b[0], b[1], rng.choice((-1, 0, 1)))) for a in spans for b in spans]
    for a, b in pairs:
        cases.append(("overlap", a, b))
    stats["overlap_box"] = len(pairs)
    for a, b in (pairs if tier == "thorough" else rng.sample(pairs, 600)):
        cases.append(("order", a, b))
        cases.append(("windows", (a[0], a[1]), (b[0], b[1])))
    nloc = locs if tier == "thorough" else rng.sample(locs, 60)
    for a in nloc:
        for n in (-2, 0, 1, 3):
            for lo_, up in ((0, None), (2, 4), (-3, 100), (0, 5)):
                for left in (True, False):
                    for right in (True, False):
                        cases.append(("extended", a, n, lo_, up, left, right))
        cases.append(("shift", a, rng.randint(-50, 50)))
        cases.append(("indices", a))
        cases.append(("tuple", a))
        if 0 <= a[0] <= a[1] <= 40:
            cases.append(("extract", a, "".join(rng.choice("ACGT") for _ in range(rng.randint(a[1], a[1] + 5)))))
    # merge: lists of up to 5 non-empty locations in a small box (+ duplicates, nested, touching)
    ne = [t for t in box_locs(0, 8) if t[0] < t[1]]
    nmerge = 1500 if tier == "quick" else 60000
    for _ in range(nmerge):
        k = rng.choice((0, 1, 2, 2, 3, 3, 4, 5))
        cases.append(("merge", [rng.choice(ne) for _ in range(k)]))
    # large random coordinates
    nrand = 1000 if tier == "quick" else 40000
    for _ in range(nrand):
        def rl():
            s = rng.randint(-10**6, 10**9)
            return (s, s + rng.randint(-5, 2000), rng.choice((-1, 0, 1)))
        a, b = rl(), rl()
        if rng.random() < 0.5:
            b = (a[0] + rng.randint(-2100, 2100), a[1] + rng.randint(-2100, 2100), b[2])
        cases.append(("overlap", a, b))
        cases.append(("order", a, b))
        cases.append(("shift", a, rng.randint(-10**6, 10**6)))
        cases.append(("extended", a, rng.randint(0, 500), rng.choice((0, a[0] - 10, a[0] + 10)),
                      rng.choice((None, a[1] + 100, a[1] - 3)), rng.random() < 0.7, rng.random() < 0.7))
    return cases, stats


def nontrivial(case, out):
    """rule: an overlap case is non-trivial if the two spans actually intersect or touch; a merge
    case if at least two inputs overlap; other operations always."""
    k = case[0]
    if k == "overlap":
        a, b = case[1], case[2]
        return a[0] < a[1] and b[0] < b[1] and max(a[0], b[0]) <= min(a[1], b[1])
    if k == "merge":
        return out[0] == "ok" and len(out[1][0]) < len(case[1])
    return True


CASE_TYPE = "case18"
CHECKER = "check18"
SHOW = "model18"
RULE = ("exhaustive box of (start,end) pairs with strands, random large coordinates, random lists for merge; "
        "non-trivial = spans intersect or touch (overlap), some inputs merged (merge), any (other ops); distinct by JSON text")


def run(chk):
    core.standard_run(chk, __import__("harness.c18", fromlist=["x"]))
    chk.coverage["exhaustive"] = True


def replay(path):
    return core.standard_replay(__import__("harness.c18", fromlist=["x"]), path)
