"""Generators of whole optimization problems for the solver checks (C01, C02, C03, C06, C12, C13,
C14, C17, C05): structured, mostly valid, with overlapping / antisense / frozen geometries, competing
constraints, solver settings forcing exhaustive or random search, and user-defined specifications."""
from . import specs
from .specs import rdna, rcs, rloc


def kw(**d):
    return tuple(sorted(d.items()))


SOUND_CUSTOM = ["ForbidWord"]
ALL_CUSTOM = ["ForbidWord", "ForbidWord", "ForbidWordBadLocal", "ForbidWordNoneLocal", "NoLocations",
              "LazyHeuristic", "GivingUpHeuristic"]
# + a heuristic that ignores the mutation space (breaks the precondition of C12, fine for C01)
C01_CUSTOM = ALL_CUSTOM + ["OverwritingHeuristic", "OverwritingHeuristic"]


def gen_constraints(rng, seq, allow_custom=True, hard=True, custom_kinds=None):
    n = len(seq)
    cs = []
    k = rng.choice([1, 2, 2, 3, 4])
    for _ in range(k):
        r = rng.random()
        if r < 0.3:
            p = rng.choice(["AA", "ACG", "GAATTC", "CGTCTC", "AN", "3xA", "3xC", "2x2mer", "BsaI_site", "GC", "TA"])
            cs.append(("AvoidPattern", kw(pattern=p, location=rng.choice([None, None, rloc(rng, n)]))))
        elif r < 0.45:
            w = rng.choice([4, 8, 8, 16])
            mini, maxi = rng.choice([(0.25, 0.75), (0.375, 0.625), (0.0, 0.5), (0.5, 1.0), (0.25, 0.5)])
            cs.append(("EnforceGCContent", kw(mini=mini, maxi=maxi, window=w, location=rng.choice([None, rloc(rng, n, strands=(0,), minlen=w)]))))
        elif r < 0.55 and hard:
            if rng.random() < 0.3:
                # an edit allowance in percent (possibly rounding down to 0 edits)
                cs.append(("AvoidChanges", kw(location=rloc(rng, n, strands=(0, 1), minlen=6), max_edits_percent=rng.choice([1, 5, 10, 34]))))
            else:
                cs.append(("AvoidChanges", kw(location=rloc(rng, n, strands=(0, 1)))))
        elif r < 0.65 and hard:
            loc = rloc(rng, n, strands=(1, -1), mult=3, minlen=3)
            cs.append(("EnforceTranslation", kw(location=loc)))
        elif r < 0.68:
            # global (window-less) GC content with an explicit location: localizes to itself, and the
            # user's object is the one the problem uses
            mini, maxi = rng.choice([(0.25, 0.75), (0.3, 0.7), (0.4, 0.6)])
            cs.append(("EnforceGCContent", kw(mini=mini, maxi=maxi, location=(0, n, 0))))
        elif r < 0.72:
            cs.append(("UniquifyAllKmers", kw(k=rng.choice([4, 5, 6]), include_reverse_complement=rng.random() < 0.5)))
        elif r < 0.78:
            cs.append(("EnforcePatternOccurence", kw(pattern=rng.choice(["ACG", "GAATTC", "AAT"]), occurences=rng.choice([0, 1, 1, 2]),
                                                     location=rng.choice([None, rloc(rng, n, minlen=8)]))))
        elif r < 0.82:
            cs.append(("EnforceTerminalGCContent", kw(window_size=rng.choice([4, 6]), mini=rng.choice([0.25, 0.5]), maxi=rng.choice([0.75, 1.0]))))
        elif r < 0.85:
            cs.append(("SequenceLengthBounds", kw(min_length=rng.choice([0, n, n + 5]), max_length=rng.choice([None, n, n - 1]))))
        elif r < 0.88 and hard:
            loc = rloc(rng, min(n, 8), minlen=2)
            L = loc[1] - loc[0]
            cs.append(("EnforceChoice", kw(choices=tuple(sorted({rdna(rng, L) for _ in range(3)})), location=loc)))
        elif r < 0.9 and n >= 24:
            loc = rng.choice([None, rloc(rng, n, strands=(0,), minlen=10)])
            cs.append(("UniquifyAllKmers", kw(k=rng.choice([4, 5, 6]), location=loc,
                                              include_reverse_complement=rng.random() < 0.6)))
        elif r < 0.94 and hard:
            # constraints that can pass with slack (score > 0) while still reporting a location
            if rng.random() < 0.5:
                loc = rloc(rng, n, strands=(0,), minlen=6)
                d = dict(minimum_percent=rng.choice([10, 20, 40]), location=loc)
                if rng.random() < 0.6:
                    # reference given by the user and already far from the sequence: passes with a margin
                    ref = list(seq[loc[0]:loc[1]])
                    for i in range(len(ref)):
                        if rng.random() < 0.7:
                            ref[i] = rng.choice([c for c in "ACGT" if c != ref[i]])
                    d["reference"] = "".join(ref)
                cs.append(("EnforceChanges", kw(**d)))
            else:
                cs.append(("AvoidChanges", kw(max_edits=rng.choice([2, 3, 5]), location=rloc(rng, n, strands=(0,), minlen=6))))
        elif allow_custom:
            word = rng.choice(["AA", "AC", "GG", "TAT", "CG"])
            cls = rng.choice(custom_kinds or ALL_CUSTOM)
            if cls == "NoLocations":
                cs.append((cls, kw(word=word)))
            else:
                cs.append((cls, kw(word=word, location=rng.choice([None, rloc(rng, n, strands=(0,), minlen=4)]))))
    # no two constraints with identical content (object identity is interned by content)
    out = []
    for c in cs:
        if c not in out:
            out.append(c)
    return out


def gen_objectives(rng, seq, allow_custom=True):
    n = len(seq)
    os_ = []
    for _ in range(rng.choice([1, 1, 2, 3])):
        r = rng.random()
        boost = rng.choice([1.0, 1.0, 0.5, 2.0, 0.25, 4.0, 0.0])
        if r < 0.3:
            t = rng.choice([0.25, 0.5, 0.75])
            os_.append(("EnforceGCContent", kw(target=t, window=rng.choice([4, 8]), boost=boost,
                                               location=rng.choice([None, rloc(rng, n, strands=(0,), minlen=8)]))))
        elif r < 0.5:
            os_.append(("AvoidPattern", kw(pattern=rng.choice(["AA", "CG", "GC", "TA", "AN"]), boost=boost,
                                           location=rng.choice([None, rloc(rng, n)]))))
        elif r < 0.65:
            os_.append(("AvoidChanges", kw(boost=boost, location=rng.choice([None, rloc(rng, n, strands=(0,))]))))
        elif r < 0.75:
            os_.append(("EnforceChanges", kw(boost=boost, location=rng.choice([None, rloc(rng, n, strands=(0,))]))))
        elif r < 0.82:
            loc = rloc(rng, n, strands=(1, -1), mult=3, minlen=3)
            os_.append(("MaximizeCAI", kw(species=rng.choice(["e_coli", "s_cerevisiae"]), location=loc, boost=boost)))
        elif r < 0.9:
            # classes usually used as constraints, here as weighted objectives
            k = rng.random()
            if k < 0.45:
                loc = rloc(rng, n, strands=(1, -1), mult=3, minlen=3)
                os_.append(("EnforceTranslation", kw(location=loc, boost=boost)))
            elif k < 0.75:
                loc = rloc(rng, n, minlen=2)
                w = "".join(rng.choice("ACGTNWSRY") for _ in range(loc[1] - loc[0]))
                os_.append(("EnforceSequence", kw(location=loc, sequence=w, boost=boost)))
            else:
                loc = rloc(rng, n, strands=(1, -1), mult=3, minlen=3)
                os_.append(("AvoidStopCodons", kw(location=loc, boost=boost)))
        elif allow_custom:
            os_.append(("CountLetter", kw(letter=rng.choice("ACGT"), boost=boost, location=rng.choice([None, rloc(rng, n, strands=(0,), minlen=6)]))))
    out = []
    for o in os_:
        if o not in out:
            out.append(o)
    if len(out) >= 2 and rng.random() < 0.25:
        # one of the objectives is passive: it weighs in every local problem of the others
        i = rng.randrange(len(out))
        d = dict(out[i][1])
        d["passive"] = True
        if d.get("boost") in (0.0, 0.25):
            d["boost"] = rng.choice([1.0, 2.0, 4.0])
        out[i] = (out[i][0], tuple(sorted(d.items())))
    return out


def gen_settings(rng):
    return dict(threshold=rng.choice([0, 50, 2000, 10000, 10000]), max_iters=rng.choice([3, 10, 40, 120]),
                mutations=rng.choice([1, 2, 2, 3]), extensions=rng.choice([(0, 5), (0, 5), (0,), (2, 8), (0, 3, 9)]),
                stagnation=rng.choice([None, 5, 100]))


def gen_problem(rng, with_objectives=False, allow_custom=True, custom_kinds=None):
    n = rng.choice([18, 24, 30, 36, 45])
    seq = rdna(rng, n, rng.choice([0.3, 0.5, 0.5, 0.7]))
    # seed some breaches
    s = list(seq)
    for _ in range(rng.randint(0, 3)):
        w = rng.choice(["AAAA", "GAATTC", "CGTCTC", "CCCC", "ACGACG", "GGGGGGGG", "ATATATAT"])
        if len(w) <= n:
            i = rng.randint(0, n - len(w))
            s[i:i + len(w)] = w
    seq = "".join(s)
    cs = gen_constraints(rng, seq, allow_custom=allow_custom, custom_kinds=custom_kinds)
    os_ = gen_objectives(rng, seq, allow_custom=allow_custom) if with_objectives else []
    if with_objectives and rng.random() < 0.3:
        # codon-straddling family: a coding region whose multi-nucleotide choices straddle the border of
        # non codon-aligned breaches, position-exact objectives listed BEFORE the breaching one
        a = rng.choice([0, 1, 2, 3])
        ln = (n - a) // 3 * 3
        pat = rng.choice(["ATGC", "AAG", "CTT", "GAG", "TCG"])
        s2 = list(seq)
        for _ in range(rng.randint(1, 3)):
            i = rng.randint(a, max(a, n - len(pat)))
            s2[i:i + len(pat)] = pat
        seq = "".join(s2)
        cs = [("EnforceTranslation", kw(location=(a, a + ln, rng.choice([1, -1]))))] + [c for c in cs if c[0] not in ("EnforceTranslation", "AvoidChanges", "EnforceChoice")]
        if rng.random() < 0.5:
            cs.append(("AvoidPattern", kw(pattern=rng.choice(["GGTC", "CGA", "TTA", "AGC"]), location=None)))
        os_ = [("AvoidChanges", kw(boost=rng.choice([0.5, 0.6, 1.0, 2.0]), location=None)),
               ("AvoidPattern", kw(pattern=pat, boost=1.0, location=rng.choice([None, (a + 1, a + ln - 1, 0)])))]
    fam = rng.random()
    if with_objectives and fam < 0.1:
        # keep-region straddling the border of a coding region (its border codon is 6-fold), objectives
        # that want to change that codon
        six = ["CTT", "CTC", "CTA", "CTG", "TTA", "TTG", "CGT", "CGC", "CGA", "CGG", "AGA", "AGG",
               "TCT", "TCC", "TCA", "TCG", "AGT", "AGC"]
        k = rng.choice([3, 4, 5])
        strand = rng.choice([1, -1])
        gene = "".join(rng.choice(six) for _ in range(k))
        left, right = rdna(rng, rng.choice([3, 6, 9])), rdna(rng, rng.choice([4, 7, 10]))
        seq = left + (gene if strand == 1 else rcs(gene)) + right
        a, b = len(left), len(left) + 3 * k
        if rng.random() < 0.5:
            keep = (b - rng.choice([1, 2]), min(len(seq), b + rng.randint(2, 6)), 0)
        else:
            keep = (max(0, a - rng.randint(2, 3)), a + rng.choice([1, 2]), 0)
        cs = [("EnforceTranslation", kw(location=(a, b, strand))), ("AvoidChanges", kw(location=keep))]
        os_ = [("EnforceGCContent", kw(target=rng.choice([0.25, 0.75]), window=rng.choice([4, 8]), boost=1.0, location=None))]
        if rng.random() < 0.5:
            os_.append(("AvoidPattern", kw(pattern=rng.choice(["CT", "AG", "TC", "CG"]), boost=1.0, location=None)))
    elif with_objectives and fam < 0.2:
        # classes usually used as constraints, here as weighted objectives competing with others
        n3 = len(seq) // 3 * 3
        b1 = rng.choice([0.5, 2.0, 3.0, 4.0])
        os_ = [("EnforceTranslation", kw(location=(0, n3, rng.choice([1, -1])), boost=b1)),
               rng.choice([("EnforceChanges", kw(boost=1.0, location=None)),
                           ("EnforceGCContent", kw(target=rng.choice([0.25, 0.75]), window=8, boost=1.0, location=None)),
                           ("AvoidPattern", kw(pattern=rng.choice(["AA", "CG", "GC", "TA"]), boost=1.0, location=None))])]
        if rng.random() < 0.5:
            os_.reverse()
        cs = [c for c in cs if c[0] not in ("EnforceTranslation", "AvoidChanges", "EnforceChoice", "EnforceSequence")]
    elif with_objectives and fam < 0.34:
        # an edit allowance on a strict sub-region (AvoidChanges max_edits = k) under an objective that
        # wants many edits there: the allowance must hold over the WHOLE optimisation, not per local problem
        n2 = len(seq)
        a = rng.randint(2, max(2, n2 // 4))
        b = rng.randint(min(n2 - 2, a + 12), n2 - 2) if a + 12 <= n2 - 2 else n2 - 2
        region = seq[a:b]
        letter = max("ACGT", key=region.count)
        cs = [("AvoidChanges", kw(location=(a, b, 0), max_edits=rng.choice([1, 2, 3])))]
        os_ = [rng.choice([("AvoidPattern", kw(pattern=letter, boost=1.0, location=None)),
                           ("EnforceGCContent", kw(target=0.0 if letter in "GC" else 1.0, window=4, boost=1.0, location=None)),
                           ("EnforceChanges", kw(boost=1.0, location=None))])]
    elif with_objectives and fam < 0.4:
        # EnforceSequence used as a weighted objective on the reverse strand, mismatches close together
        n2 = len(seq)
        a = rng.randint(0, n2 - 8)
        b = rng.randint(a + 6, min(n2, a + 14))
        tgt = list(rcs(seq[a:b]))
        for i in rng.sample(range(len(tgt)), min(len(tgt), rng.choice([2, 3, 4]))):
            tgt[i] = rng.choice([c for c in "ACGT" if c != tgt[i]])
        os_ = [("EnforceSequence", kw(location=(a, b, -1), sequence="".join(tgt), boost=rng.choice([1.0, 2.5]))),
               ("AvoidChanges", kw(boost=rng.choice([0.5, 0.6, 1.5]), location=None))]
        cs = [c for c in cs if c[0] not in ("EnforceTranslation", "AvoidChanges", "EnforceChoice", "EnforceSequence")]
    elif with_objectives and fam < 0.46:
        # a constraint that an edit OUTSIDE its location can breach (k-mers of a region must stay unique
        # in the whole sequence) and an objective that gains by copying one of those k-mers elsewhere
        k = rng.choice([4, 5])
        for _ in range(60):
            n2 = rng.choice([30, 36, 45])
            cand = rdna(rng, n2)
            a = rng.randint(0, n2 - 14)
            b = a + rng.randint(10, 14)
            kms = [cand[i:i + k] for i in range(n2 - k + 1)]
            if all(kms.count(cand[i:i + k]) == 1 for i in range(a, b - k + 1)):
                free = [c for c in range(0, n2 - k + 1) if c + k <= a or c >= b]
                if not free:
                    continue
                c = rng.choice(free)
                w = cand[rng.randint(a, b - k):][:k]
                seq = cand
                cs = [("UniquifyAllKmers", kw(k=k, location=(a, b, 0), include_reverse_complement=False))]
                os_ = [("EnforceSequence", kw(location=(c, c + k, 1), sequence=w, boost=rng.choice([1.0, 2.0])))]
                if rng.random() < 0.5:
                    os_.append(("EnforceGCContent", kw(target=0.5, window=8, boost=0.5, location=None)))
                break
    elif with_objectives and fam < 0.53:
        # a frame without stop codons (either strand, any offset) and objectives that gain by the ONE
        # mutation turning a codon into a stop: single-nucleotide windows cut the codon at every phase
        st = rng.choice([1, -1, -1])
        m = rng.choice([4, 5, 6, 8])
        a = rng.choice([0, 1, 2, 3, 4])
        body = []
        sense = ["GCT", "GGA", "CTG", "AAC", "CCA", "GAT", "TTC", "ACG", "CAT", "AGC"]
        plant = set(rng.sample(range(m), rng.choice([1, 2, 3])))
        wants = []
        for j in range(m):
            if j in plant:
                stop = rng.choice(["TAA", "TAG", "TGA"])
                q = rng.randrange(3)
                alt = rng.choice([c for c in "ACGT" if c != stop[q] and (stop[:q] + c + stop[q + 1:]) not in ("TAA", "TAG", "TGA")])
                body.append(stop[:q] + alt + stop[q + 1:])
                wants.append((j, q, stop[q]))
            else:
                body.append(rng.choice(sense))
        gene = "".join(body)
        seq = rdna(rng, a) + (gene if st == 1 else rcs(gene)) + rdna(rng, rng.choice([0, 2, 4, 7]))
        os_ = []
        for j, q, base in wants:
            pos = a + 3 * j + q if st == 1 else a + 3 * m - 1 - (3 * j + q)
            os_.append(("EnforceSequence", kw(location=(pos, pos + 1, 1), sequence=base if st == 1 else rcs(base),
                                              boost=rng.choice([1.0, 2.0]))))
        if rng.random() < 0.4:
            os_.append(("EnforceGCContent", kw(target=rng.choice([0.25, 0.5]), window=8, boost=0.5, location=None)))
        cs = [("AvoidStopCodons", kw(location=(a, a + 3 * m, st)))]
        if rng.random() < 0.3:
            cs.append(("AvoidPattern", kw(pattern=rng.choice(["GGTCTC", "AAAA"]), location=None)))
    elif with_objectives and fam < 0.6:
        # an objective anchored to the ORIGINAL sequence on a strict sub-segment (EnforceChanges /
        # AvoidChanges as objectives) and a windowed objective whose breach windows straddle the borders
        # of that segment: the local copies must keep comparing with the original nucleotides
        n2 = len(seq)
        a = rng.randint(3, max(3, n2 // 3))
        b = rng.randint(min(n2 - 3, a + 8), n2 - 3) if a + 8 <= n2 - 3 else n2 - 3
        anchor = rng.choice(["EnforceChanges", "EnforceChanges", "AvoidChanges"])
        os_ = [(anchor, kw(boost=rng.choice([0.5, 1.0, 3.0]), location=(a, b, 0))),
               ("EnforceGCContent", kw(target=rng.choice([0.5, 0.5, 0.25, 0.75]), window=rng.choice([4, 8, 8, 16]), boost=1.0,
                                       location=rng.choice([None, (0, b - 2, 0), (a + 2, n2, 0)])))]
        if rng.random() < 0.5:
            os_.reverse()
        cs = [c for c in cs if c[0] in ("AvoidPattern",)]
    elif with_objectives and fam < 0.66:
        # EnforceChanges as a constraint that asks for (nearly) every position of a region to differ from a
        # stored reference, WITHOUT being written as 100 % (an absolute minimum, or a percentage that rounds
        # up to the whole region): nothing is restricted, the constraint has to be evaluated; objectives
        # that gain by writing the reference's nucleotides back
        n2 = len(seq)
        a = rng.randint(0, max(0, n2 - 10))
        b = rng.randint(a + 6, min(n2, a + 16))
        L = b - a
        ref = "".join(rng.choice([c for c in "ACGT" if c != seq[i]]) for i in range(a, b))
        amount = rng.choice([dict(minimum=L), dict(minimum=L), dict(minimum_percent=99), dict(minimum=L - 1), dict(minimum_percent=90)])
        cs = [("EnforceChanges", kw(location=(a, b, 0), reference=ref, **amount))]
        os_ = [rng.choice([("EnforceSequence", kw(location=(a, b, 1), sequence=ref, boost=1.0)),
                           ("EnforceGCContent", kw(target=rng.choice([0.0, 1.0]), window=4, boost=1.0, location=None)),
                           ("AvoidPattern", kw(pattern=max("ACGT", key=seq[a:b].count), boost=1.0, location=None))])]
        if rng.random() < 0.4:
            os_.append(("AvoidChanges", kw(boost=0.5, location=None)))
    if len(os_) >= 2 and not any(dict(o[1]).get("passive") for o in os_) and rng.random() < 0.2:
        # in the families too, one objective may be passive (it weighs in every local problem of the others)
        i = rng.randrange(len(os_))
        d = dict(os_[i][1])
        d["passive"] = True
        os_ = list(os_)
        os_[i] = (os_[i][0], tuple(sorted(d.items())))
    return dict(seq=seq, constraints=tuple(cs), objectives=tuple(os_), cfg=gen_settings(rng),
                np_seed=rng.randint(0, 10**6))


def build_problem(p):
    import dnachisel as dc
    cs = [specs.build_spec(d) for d in p["constraints"]]
    os_ = [specs.build_spec(d) for d in p["objectives"]]
    if specs.reused((p["seq"], repr(p["constraints"]), repr(p["objectives"])), 4):
        # the user's specification objects have already served a problem on another sequence
        import numpy as np
        state = np.random.get_state()
        try:
            dc.DnaOptimizationProblem(specs.other_sequence(p["seq"]), constraints=cs, objectives=os_, logger=None)
        except Exception:  # noqa
            pass
        np.random.set_state(state)
    return dc.DnaOptimizationProblem(p["seq"], constraints=cs, objectives=os_, logger=None)


def neighbours(case, rng, k=160):
    """variants of a solver case ("run", problem-json, entry) for the neighbourhood search: other
    numpy seeds, boosts, thresholds, point substitutions of the sequence, objective order"""
    import json
    kind, pj, entry = case[0], case[1], case[2]
    p = json.loads(pj)
    out = []
    boosts = [0.25, 0.5, 0.6, 0.7, 1.0, 1.5, 2.0, 4.0]
    for _ in range(k):
        q = json.loads(pj)
        r = rng.random()
        if r < 0.2:
            q["np_seed"] = rng.randint(0, 10**6)
        elif r < 0.55 and q["objectives"]:
            objs = [list(o) for o in q["objectives"]]
            for o in objs:
                kwd = dict((a, b) for a, b in o[1])
                if "boost" in kwd and rng.random() < 0.7:
                    kwd["boost"] = rng.choice(boosts)
                o[1] = sorted(kwd.items())
            if rng.random() < 0.3:
                rng.shuffle(objs)
            q["objectives"] = objs
            q["np_seed"] = rng.randint(0, 10**6)
        elif r < 0.7:
            q["cfg"]["threshold"] = rng.choice([0, 50, 2000, 10000])
            q["cfg"]["mutations"] = rng.choice([1, 2, 3])
            q["np_seed"] = rng.randint(0, 10**6)
        else:
            s = list(q["seq"])
            for _ in range(rng.choice([1, 1, 2, 3])):
                i = rng.randrange(len(s))
                s[i] = rng.choice("ACGT")
            q["seq"] = "".join(s)
            if q["objectives"] and rng.random() < 0.5:
                objs = [list(o) for o in q["objectives"]]
                for o in objs:
                    kwd = dict((a, b) for a, b in o[1])
                    if "boost" in kwd:
                        kwd["boost"] = rng.choice(boosts)
                    o[1] = sorted(kwd.items())
                q["objectives"] = objs
        out.append((kind, json.dumps(q, sort_keys=True), entry) + tuple(case[3:]))
    return out
