"""C06 - Exhaustive searches are complete and exactly optimal over the mutation space."""
import itertools
import json
from fractions import Fraction

from . import core, problems, solverrec, c01, c02, specs
from .problems import kw
from .specs import rdna, rloc

PROP_FILES = ["Properties/C06.v", "Harness/H01.v"]
IMPORTS, CASE_TYPE, CHECKER, SHOW, SHARD = c01.IMPORTS, c01.CASE_TYPE, c01.CHECKER, c01.SHOW, c01.SHARD
RULE = ("small problems (mutation spaces of 1 .. 3000 variants, frozen spaces included) with mixed constraints/objectives/boosts, "
        "direct calls of resolve_constraints_by_exhaustive_search / optimize_by_exhaustive_search (half of them after moving the problem to another member of its space), compared with brute force over "
        "the product of the mutation-space choices; non-trivial = the space has at least 2 variants and the start is not already "
        "the answer; distinct by JSON text")


def gen_small(rng):
    n = rng.choice([8, 10, 12, 15])
    seq = rdna(rng, n)
    cs = []
    # freeze most of the sequence so that the space is small
    keep = rng.sample(range(n), rng.randint(max(0, n - 6), n))
    cs.append(("AvoidChanges", kw(indices=tuple(sorted(keep))))) if keep else None
    for _ in range(rng.choice([0, 1, 2])):
        r = rng.random()
        if r < 0.5:
            cs.append(("AvoidPattern", kw(pattern=rng.choice(["AA", "CG", "AN", "GC", "TA", "2xA"]),
                                          location=rng.choice([None, None, rloc(rng, n, strands=(0,), minlen=3)]))))
        elif r < 0.8:
            cs.append(("EnforceGCContent", kw(mini=rng.choice([0.25, 0.5]), maxi=rng.choice([0.5, 0.75]), window=4, location=None)))
        else:
            cs.append(("ForbidWord", kw(word=rng.choice(["AC", "GT", "TT"]), location=None)))
    os_ = []
    for _ in range(rng.choice([1, 1, 2])):
        r = rng.random()
        boost = rng.choice([1.0, 0.5, 2.0, 4.0])
        if r < 0.3:
            os_.append(("EnforceGCContent", kw(target=rng.choice([0.25, 0.5, 0.75]), window=4, boost=boost, location=None)))
        elif r < 0.55:
            os_.append(("AvoidPattern", kw(pattern=rng.choice(["AA", "CG", "GC", "AN"]), boost=boost, location=None)))
        elif r < 0.7:
            os_.append(("EnforceChanges", kw(boost=boost, location=None)))
        elif r < 0.85:
            os_.append(("CountLetter", kw(letter=rng.choice("ACGT"), boost=boost, location=None)))
        else:
            os_.append(("CountLetterCapped", kw(letter=rng.choice("ACGT"), boost=boost, location=None)))
    if rng.random() < 0.15:
        # mixed family: an objective without declared best whose score is positive next to one that
        # declares its best (the early exit of the exhaustive optimiser must not fire on their sum)
        os_ = [("CountLetter", kw(letter=rng.choice("ACGT"), boost=rng.choice([1.0, 2.0]), location=None)),
               rng.choice([("AvoidPattern", kw(pattern=rng.choice(["AA", "CG", "GC", "AN"]), boost=1.0, location=None)),
                           ("EnforceGCContent", kw(target=rng.choice([0.25, 0.5, 0.75]), window=4, boost=1.0, location=None)),
                           ("CountLetterCapped", kw(letter=rng.choice("ACGT"), boost=1.0, location=None))])]
        if os_[0][1] == os_[1][1]:
            os_ = os_[:1]
        rng.shuffle(os_)
    cs2, os2 = [], []
    for c in cs:
        if c not in cs2:
            cs2.append(c)
    for o in os_:
        if o not in os2:
            os2.append(o)
    return dict(seq=seq, constraints=tuple(cs2), objectives=tuple(os2), cfg=problems.gen_settings(rng), np_seed=rng.randint(0, 10**6))


def impl_case(case):
    import numpy as np
    import dnachisel as dc
    _, pj, entry = case
    p = json.loads(pj)
    try:
        problem = problems.build_problem(p)
    except Exception as e:
        return dict(skipped="%s: %s" % (type(e).__name__, str(e)[:80]))
    solverrec.apply_settings(problem, p["cfg"])
    ms = problem.mutation_space
    sizes = [len(c.variants) for c in ms.multichoices]
    nvar = 1
    for k in sizes:
        nvar *= k
    if nvar > 3000:
        return dict(skipped="space too large")
    tmp = solverrec.SolverRecorder()
    ids = [tmp.sid(c) for c in problem.constraints + problem.objectives]
    if len(set(ids)) != len(ids):
        return dict(skipped="duplicate specification content")
    start = problem.sequence
    # brute force over the product of the choices
    variants = []
    for combo in itertools.product(*[sorted(c.variants) for c in ms.multichoices]):
        t = list(start)
        for c, v in zip(ms.multichoices, combo):
            t[c.start:c.end] = v
        variants.append("".join(t))
    # every constraint is re-evaluated, also those flagged "enforced by nucleotide restrictions": on
    # the members of the mutation space they pass anyway (C04), so a wrong flag cannot hide a breach
    soft = list(problem.constraints)

    def feasible(t):
        problem.sequence = t
        return all(c.evaluate(problem).passes for c in soft)

    def total(t):
        problem.sequence = t
        return Fraction(float(problem.objective_scores_sum())) if problem.objectives else Fraction(0)
    feas = [t for t in variants if feasible(t)]
    best_total = max([total(t) for t in feas]) if feas else None
    # half of the runs start from another member of the space than the problem's recorded input
    # (a problem that was edited or partly solved before the direct search is called)
    import random as _random
    prng = _random.Random(p["np_seed"])
    if prng.random() < 0.5 and len(variants) > 1:
        start = prng.choice(variants)
    problem.sequence = start
    start_feasible = start in feas
    r = solverrec.record_run(problem, entry, p["np_seed"])
    final = problem.sequence
    return dict(code=r["code"], exc=r["exc"], start=start, final=final, nvar=nvar, n_feasible=len(feas),
                start_feasible=start_feasible, final_feasible=final in feas, final_in_space=final in variants,
                final_total=str(total(final)), best_total=None if best_total is None else str(best_total),
                start_total=str(total(start)), n_evals=len(r["evals"]), n_draws=len(r["log"]),
                objective_classes=[type(o).__name__ for o in problem.objectives],
                term=solverrec.coq_run(r, p["cfg"], entry))


def run_impl(case):
    return core.safe_call(impl_case, case, limit=90)


TOL = Fraction(1, 10**9)


def oracle(case, out):
    if out[0] == "timeout":
        return None
    if out[0] != "ok":
        return "harness/implementation raised outside the search: %r" % (out[:3],)
    o = out[1]
    if "skipped" in o:
        return None
    entry = case[2]
    if o["code"] == 2:
        return "%s raised %s" % (entry, o["exc"])
    if o["n_draws"]:
        return "an exhaustive search drew random numbers"
    if entry == "resolve_exhaustive":
        if o["n_feasible"] > 0:
            if o["code"] != 0:
                return "NoSolutionError although %d variant(s) of the mutation space satisfy the constraints" % o["n_feasible"]
            if not o["final_feasible"]:
                return "returned on a sequence that breaches a constraint (or left the mutation space)"
        else:
            if o["code"] != 1:
                return "returned although no variant of the mutation space satisfies the constraints"
            if o["final"] != o["start"]:
                return "failed exhaustive search did not restore the starting sequence"
    else:
        if not o["start_feasible"]:
            return None if o["code"] == 1 else "optimisation started although a constraint fails"
        if o["code"] != 0:
            return "optimisation raised on a feasible start"
        if not o["final_feasible"]:
            return "optimisation left the feasible set"
        ft, bt = Fraction(o["final_total"]), Fraction(o["best_total"])
        if abs(ft - bt) > TOL * (1 + abs(bt)):
            return "weighted total %s after exhaustive optimisation, but a feasible variant reaches %s" % (float(ft), float(bt))
    return None


coq_case = c02.coq_case


def gen_cases(rng, tier):
    N = 200 if tier == "quick" else 5000
    cases = []
    for _ in range(N):
        p = gen_small(rng)
        cases.append(("run", json.dumps(p, sort_keys=True), rng.choice(["resolve_exhaustive", "optimize_exhaustive"])))
    # a failing constraint located wholly in a frozen part (outside the mutable span): no variant can
    # repair it, the search must say so
    for _ in range(N // 8):
        m = rng.choice([6, 8])
        tail = rng.choice([3, 4, 5])
        pat = rng.choice(["GGTC", "CACG", "GAAT"])
        head = list(rdna(rng, m))
        i = rng.randint(0, m - len(pat))
        head[i:i + len(pat)] = pat
        seq = "".join(head) + rdna(rng, tail)
        cs = [("AvoidChanges", kw(location=(0, m, 0))), ("AvoidPattern", kw(pattern=pat, location=(0, m, 0))),
              ("AvoidPattern", kw(pattern=rng.choice(["AA", "CG", "TT"]), location=(m, m + tail, 0)))]
        if rng.random() < 0.5:
            cs = [cs[0], cs[2], cs[1]]
        p0 = dict(seq=seq, constraints=tuple(cs), objectives=(), cfg=problems.gen_settings(rng), np_seed=rng.randint(0, 10**6))
        cases.append(("run", json.dumps(p0, sort_keys=True), "resolve_exhaustive"))
    # an edit allowance given as a percentage, without location (the specification is a copy made at
    # initialisation: its flags must be those of the copy)
    for _ in range(N // 8):
        n = rng.choice([4, 5])
        seq = rdna(rng, n)
        cs = [("AvoidChanges", kw(location=None, max_edits_percent=rng.choice([20, 40, 50])))]
        if rng.random() < 0.5:
            cs.append(("ForbidWord", kw(word=rng.choice(["AC", "GT", "TT", "A"]), location=None)))
        os_ = [("CountLetter", kw(letter=rng.choice("ACGT"), boost=1.0, location=None))]
        p0 = dict(seq=seq, constraints=tuple(cs), objectives=tuple(os_), cfg=problems.gen_settings(rng), np_seed=rng.randint(0, 10**6))
        cases.append(("run", json.dumps(p0, sort_keys=True), rng.choice(["resolve_exhaustive", "optimize_exhaustive"])))
    # exactly one solution, placed first / last / anywhere in the enumeration order
    for _ in range(N // 4):
        n = rng.choice([6, 8, 10])
        seq = rdna(rng, n)
        free = sorted(rng.sample(range(n), rng.choice([1, 2, 2, 3, 3, 4])))
        keep = tuple(i for i in range(n) if i not in free)
        cs = [("AvoidChanges", kw(indices=keep))] if keep else []
        if rng.random() < 0.4:
            # some positions restricted to 2 or 3 nucleotides (sizes like 2x4, 3x4, 2x2x2)
            i = rng.choice(free)
            cs.append(("EnforceSequence", kw(location=(i, i + 1, 1), sequence=rng.choice("RYSWKMBDHV"))))
        p0 = dict(seq=seq, constraints=tuple(cs), objectives=(), cfg=problems.gen_settings(rng), np_seed=rng.randint(0, 10**6))
        try:
            pr = problems.build_problem(p0)
            vs = list(pr.mutation_space.all_variants(pr.sequence))
        except Exception:  # noqa
            continue
        if not 2 <= len(vs) <= 300:
            continue
        target = rng.choice([vs[-1], vs[-1], vs[0], rng.choice(vs)])
        p0["constraints"] = tuple(cs) + (("RequireExactly", kw(sequence=target)),)
        cases.append(("run", json.dumps(p0, sort_keys=True), "resolve_exhaustive"))
    return cases, {}


def neighbours(case, rng):
    return problems.neighbours(case, rng)


def nontrivial(case, out):
    return out[0] == "ok" and "skipped" not in out[1] and out[1]["nvar"] >= 2 and out[1]["final"] != out[1]["start"]


def run(chk):
    cases, outs = core.standard_run(chk, __import__("harness.c06", fromlist=["x"]))
    c02.finish_dist(chk, outs)
    dist = chk.coverage["distribution"]
    for o in outs:
        if o[0] == "ok" and "skipped" not in o[1]:
            k = "frozen space" if o[1]["nvar"] == 1 else "space 2..3000"
            dist[k] = dist.get(k, 0) + 1


def replay(path):
    return core.standard_replay(__import__("harness.c06", fromlist=["x"]), path)
