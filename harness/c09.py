"""C09 - Localized objectives measure exactly the global score change of a local edit.
(also provides the cases/oracles of C08)"""
from fractions import Fraction

from . import core, specs
from .core import cz, cbool, clist, copt, cloc, cseq
from .specs import (FakeProblem, init_spec, spec_to_coq, ev_out, civ, loc_t, gen_spec, CLASSES, mutate_inside)

PROP_FILES = ["Properties/C09.v", "Harness/H10.v"]
IMPORTS = "From DC Require Import Model.Base Model.Loc Model.Bio Model.Pattern Model.MSpace Model.Specs Harness.H10."
CASE_TYPE = "case10"
CHECKER = "check10"
SHOW = "model10"
RULE = ("per built-in class: random parameters, sequences seeded with breaches, windows inside / straddling / outside / touching "
        "the specification's span, 1-3 substitutions confined to the window; non-trivial = the global score changes under the edit; "
        "distinct by JSON text")
PID = "C09"
EXCLUDED_C09 = ("UniquifyAllKmers",)


def impl_case(case):
    from dnachisel.Location import Location
    _, desc, role, seq, win, rh, seq2 = case
    sp = init_spec(desc, seq, role)
    p1, p2 = FakeProblem(seq), FakeProblem(seq2)
    g1, g2 = sp.evaluate(p1), sp.evaluate(p2)
    term = spec_to_coq(sp)
    import inspect
    if rh or "with_righthand" not in inspect.signature(sp.localized).parameters:
        lsp = sp.localized(Location(*win), problem=p1)      # what the solver does for such classes
    else:
        lsp = sp.localized(Location(*win), problem=p1, with_righthand=False)
    if lsp is None:
        return term, 0, None, None, None, ev_out(g1), ev_out(g2), type(sp).__name__

    def ev(p):
        try:
            return ev_out(lsp.evaluate(p))
        except Exception as e:  # noqa
            return ("raised", type(e).__name__, str(e)[:120])
    l1, l2 = ev(p1), ev(p2)
    lloc = loc_t(getattr(lsp, "location", None)) if type(sp).__name__ not in ("EnforceTerminalGCContent", "SequenceLengthBounds") else None
    if float(getattr(lsp, "boost", 1.0)) != float(getattr(sp, "boost", 1.0)):
        return term, 1, lloc, ("raised", "BoostChanged", "localized copy has boost %r, the specification %r" % (lsp.boost, sp.boost)), l2, \
            ev_out(g1), ev_out(g2), type(sp).__name__
    return term, 1, lloc, l1, l2, ev_out(g1), ev_out(g2), type(sp).__name__


def run_impl(case):
    return core.safe_call(impl_case, case, limit=20)


TOL = Fraction(1, 10**9)


def oracle_common(case, out):
    if out[0] != "ok":
        return "implementation raised/hung: %r" % (out[:3],), None
    term, kind, lloc, l1, l2, g1, g2, cls = out[1]
    if kind == 1 and isinstance(l1, tuple) and l1 and l1[0] == "raised" and l1[1] == "BoostChanged":
        return "the localized copy does not keep the specification's boost (its weighted score change differs from the global one): %s" % l1[2], None
    if kind == 1 and (isinstance(l1, tuple) and l1 and l1[0] == "raised" or isinstance(l2, tuple) and l2 and l2[0] == "raised"):
        return "evaluating the localized specification raised: %r" % ((l1, l2),), None
    return None, out[1]


def oracle(case, out):
    """C09 on the implementation: delta(local) == delta(global) for an edit inside W"""
    why, o = oracle_common(case, out)
    if why or o is None:
        return why
    term, kind, lloc, l1, l2, g1, g2, cls = o
    rh = case[5]
    if not rh or cls in EXCLUDED_C09:
        return None
    dg = g2[0] - g1[0]
    if kind == 0:
        if dg != 0:
            return "localized() returned None but the edit inside the window changes the score"
        return None
    if kind == 2:
        return None
    dl = l2[0] - l1[0]
    if abs(dl - dg) > TOL * (1 + abs(dg)):
        return "localized score difference %s != global score difference %s" % (float(dl), float(dg))
    return None


def oracle_c08(case, out):
    why, o = oracle_common(case, out)
    if why or o is None:
        return why
    term, kind, lloc, l1, l2, g1, g2, cls = o
    rh = case[5]
    if not rh:
        return None
    if kind == 0:
        if g2[0] != g1[0]:
            return "localized() returned None but the edit inside the window changes the score"
        return None
    if kind == 2:
        return None
    if g1[0] >= 0 and l2[0] >= 0 and g2[0] < 0:
        return "passed before, localized spec passes after the edit, but the full specification fails"
    return None


def coq_case(case, out):
    term, kind, lloc, l1, l2, g1, g2, cls = out[1]
    _, desc, role, seq, win, rh, seq2 = case
    if kind == 1 and (l1[0] == "raised" or l2[0] == "raised"):
        return None
    return "KLocal %s %s %s %s %s %s %s %s %s" % (
        term, cloc(win), cbool(rh), cseq(seq), cseq(seq2), cz(kind), copt(lloc, cloc),
        civ(l1 if kind == 1 else None), civ(l2 if kind == 1 else None))


def gen_cases(rng, tier):
    N = 50 if tier == "quick" else 1200
    cases = []
    for cls in CLASSES:
        # classes with a global budget (edits allowed / required) get more cases: the interesting ones
        # need part of the budget spent outside the window
        for _ in range(N * (3 if cls in ("AvoidChanges", "EnforceChanges") else 2 if cls == "EnforceTerminalGCContent" else 1)):
            n = rng.choice([12, 18, 24, 30, 33, 45])
            if cls == "EnforceTerminalGCContent":
                n = rng.choice([10, 12, 16, 24])      # short sequences: both terminal windows close to any edit
            try:
                desc, role, seq = gen_spec(rng, cls, n)
            except Exception:
                continue
            n = len(seq)
            loc = dict(desc[1]).get("location")
            # windows: inside / straddling / outside / touching the span
            a0, b0 = (0, n) if loc is None else (loc[0], loc[1])
            if rng.random() < 0.3:
                # any class can be used as a weighted objective: the localized copy must keep the weight
                desc2 = (desc[0], tuple(sorted(dict(desc[1], boost=rng.choice([0.5, 2.0, 4.0])).items())))
                try:
                    init_spec(desc2, seq, "objective")
                    desc, role = desc2, "objective"
                except Exception:  # noqa  (class without a boost parameter / not usable as an objective)
                    pass
            mode = rng.random()
            if cls == "EnforceTerminalGCContent" and rng.random() < 0.5:
                mode = 0.0          # both terminal windows inside the edited zone
            if mode < 0.1:
                # wide windows: most of the sequence, both ends included
                a = rng.randint(0, 3)
                b = n - rng.randint(0, 3)
            elif mode < 0.3:
                # tiny windows anywhere around the span (codon / window border arithmetic)
                a = rng.randint(max(0, a0 - 2), min(n - 1, max(a0, b0 + 1)))
                b = min(n, a + rng.choice([1, 1, 2, 3]))
            elif mode < 0.5:
                a = rng.randint(a0, max(a0, b0 - 1))
                b = rng.randint(a + 1, max(a + 1, min(n, a + rng.choice([1, 2, 3, 5, 8]))))
            elif mode < 0.75:
                a = max(0, a0 - rng.randint(0, 4))
                b = min(n, max(a + 1, a0 + rng.randint(0, 4)))
            elif mode < 0.9:
                a = max(0, min(n - 1, b0 - rng.randint(0, 3)))
                b = min(n, a + rng.randint(1, 6))
            else:
                a = rng.randint(0, n - 1)
                b = rng.randint(a + 1, n)
            b = max(b, a + 1)
            if b > n:
                continue
            seq2 = mutate_inside(rng, seq, a, b)
            pat = dict(desc[1]).get("pattern")
            if isinstance(pat, str) and set(pat) <= set("ACGT") and rng.random() < 0.4:
                # the edit writes (part of) the pattern, on either strand, at an offset reaching into the window
                w = pat if rng.random() < 0.5 else specs.rcs(pat)
                if len(w) <= n:
                    i = rng.randint(max(0, a - len(w) + 1), max(max(0, a - len(w) + 1), min(n - len(w), b - 1)))
                    lo, hi = max(i, a), min(i + len(w), b)
                    if lo < hi:
                        s2 = seq[:lo] + w[lo - i:hi - i] + seq[hi:]
                        if s2 != seq:
                            seq2 = s2
            rh = rng.random() < 0.9
            cases.append(("local", desc, role, seq, (a, b, rng.choice([0, 0, 0, 1, -1])), rh, seq2))
    return cases, {}


def neighbours(case, rng, k=220):
    """cases close to one on which model and implementation disagree: same specification and window (all
    three window strands), other edits confined to the window - random ones, and for pattern classes the
    pattern or its reverse complement written at every offset reaching into the window, starting from the
    sequence itself and from a copy cleared of the pattern"""
    _, desc, role, seq, win, rh, _ = case
    a, b = win[0], win[1]
    n = len(seq)
    out = []
    kwd = dict(desc[1])
    pat = kwd.get("pattern")
    if isinstance(pat, str) and "location" in kwd and not case[-1] == "variant":
        # the same search around variants of the specification: every strand of its location, and plain
        # (non palindromic) words next to the pattern it was generated with
        loc = kwd["location"] or (0, n, 0)
        for st in (1, -1, 0):
            for p2 in {pat, "GGTCTC"[:max(2, min(6, b - a + 1))], "ACG", "CA"}:
                d2 = (desc[0], tuple(sorted(dict(kwd, location=(loc[0], loc[1], st), pattern=p2).items())))
                if d2 != desc:
                    try:
                        init_spec(d2, seq, role)
                    except Exception:  # noqa
                        continue
                    out += neighbours(("local", d2, role, seq, win, rh, "variant"), rng, k=40)
    words = []
    if isinstance(pat, str) and pat and set(pat) <= set("ACGT"):
        words = [pat, specs.rcs(pat)]
    starts = [seq]
    for w in words:
        cleared = seq
        for _ in range(4):
            i = cleared.find(w)
            if i < 0:
                break
            cleared = cleared[:i] + ("A" if w[0] != "A" else "C") + cleared[i + 1:]
        if cleared != seq:
            starts.append(cleared)
    if case[-1] != "variant":
        # other sequences of the same length for the same specification and window (a law about an edit
        # needs a sequence on which the specification passes first)
        for gc in (0.5, 0.5, 0.3, 0.7, 0.5, 0.2, 0.8):
            s1 = specs.rdna(rng, n, gc)
            try:
                init_spec(desc, s1, role)
                starts.append(s1)
            except Exception:  # noqa
                pass
    for s0 in starts:
        for st in (0, 1, -1):
            for w in words:
                for i in range(max(0, a - len(w) + 1), min(n - len(w), b - 1) + 1):
                    lo, hi = max(i, a), min(i + len(w), b)
                    s2 = s0[:lo] + w[lo - i:hi - i] + s0[hi:]
                    if s2 != s0:
                        out.append(("local", desc, role, s0, (a, b, st), rh, s2))
    while len(out) < k:
        s0 = rng.choice(starts)
        out.append(("local", desc, role, s0, (a, b, rng.choice([0, 1, -1])), rh, mutate_inside(rng, s0, a, b, k=rng.choice([1, 2, 3, 4]))))
    return out[:8 * k]


def nontrivial(case, out):
    if out[0] != "ok":
        return False
    g1, g2 = out[1][5], out[1][6]
    return g1[0] != g2[0]


def run(chk):
    core.standard_run(chk, __import__("harness.c09", fromlist=["x"]))


def replay(path):
    return core.standard_replay(__import__("harness.c09", fromlist=["x"]), path)
