"""Subprocess worker of C05: solve a list of problems under the interpreter's current
PYTHONHASHSEED, optionally after a 'history' of other solves in the same process.
usage: c05_worker.py <problems.json> <history_mode>     -> JSON list on stdout"""
import json
import os
import sys

HERE = os.path.dirname(os.path.dirname(os.path.abspath(__file__)))
sys.path.insert(0, HERE)
from harness import core  # noqa: E402
core.setup_paths()
from harness import problems, solverrec  # noqa: E402


def solve(p, shared=None):
    import numpy as np
    import dnachisel as dc
    try:
        # the problem constructor may draw (constrain_sequence picks a random variant when the initial
        # sequence is outside the mutation space): "same numpy seed" means seeded before construction
        np.random.seed(p["np_seed"])
        if shared is None:
            problem = problems.build_problem(p)
        else:
            problem = dc.DnaOptimizationProblem(p["seq"], constraints=shared[0], objectives=shared[1], logger=None)
        solverrec.apply_settings(problem, p["cfg"])
        np.random.seed(p["np_seed"])
        problem.resolve_constraints()
        problem.optimize()
        return ["ok", problem.sequence]
    except dc.NoSolutionError:
        return ["NoSolutionError"]
    except Exception as e:  # noqa
        return ["exc", type(e).__name__]


def main():
    ps = json.load(open(sys.argv[1]))
    mode = sys.argv[2]
    out = []
    if mode == "fresh":
        for p in ps:
            out.append(solve(p))
    elif mode == "reversed":
        res = {}
        for i in reversed(range(len(ps))):
            res[i] = solve(ps[i])
        out = [res[i] for i in range(len(ps))]
    elif mode == "twice":
        for p in ps:
            solve(p)
            out.append(solve(p))
    elif mode == "shared_objects":
        # the SAME specification objects are first used in another problem (a variant of the
        # sequence), then in the problem of interest
        from harness import specs
        import random
        for p in ps:
            try:
                cs = [specs.build_spec(d) for d in p["constraints"]]
                os_ = [specs.build_spec(d) for d in p["objectives"]]
            except Exception as e:  # noqa
                out.append(["exc", type(e).__name__])
                continue
            rng = random.Random(p["np_seed"])
            s2 = "".join(rng.choice("ACGT") for _ in p["seq"])
            solve(dict(p, seq=s2), shared=(cs, os_))
            out.append(solve(p, shared=(cs, os_)))
    elif mode == "after_failure":
        # every shared specification object is first used, alone, in a problem that FAILS (a
        # low-complexity sequence and a solver budget of one random iteration), then in the
        # problem of interest
        from harness import specs
        for p in ps:
            try:
                cs = [specs.build_spec(d) for d in p["constraints"]]
                os_ = [specs.build_spec(d) for d in p["objectives"]]
            except Exception as e:  # noqa
                out.append(["exc", type(e).__name__])
                continue
            n = len(p["seq"])
            tiny = dict(p["cfg"], threshold=0, max_iters=1, mutations=1)
            for c in cs:
                for s2 in (("AT" * n)[:n], "A" * n, ("GC" * n)[:n]):
                    solve(dict(p, seq=s2, cfg=tiny, np_seed=0), shared=([c], []))
            out.append(solve(p, shared=(cs, os_)))
    elif mode == "sibling_first":
        # a sibling problem (same sequence, one parameter of each specification changed) is solved
        # first in the same process: process-wide caches must not carry anything over
        def sibling(d):
            name, kws = d[0], dict((k, v) for k, v in d[1])
            if "include_reverse_complement" in kws:
                kws["include_reverse_complement"] = not kws["include_reverse_complement"]
            elif "pattern" in kws and isinstance(kws["pattern"], str) and set(kws["pattern"]) <= set("ACGT"):
                kws["pattern"] = kws["pattern"][::-1]
            elif "window" in kws and kws["window"]:
                kws["window"] = kws["window"] + 1
            elif "boost" in kws:
                kws["boost"] = 3.0
            return [name, sorted(kws.items())]
        for p in ps:
            q = dict(p, constraints=[sibling(d) for d in p["constraints"]], objectives=[sibling(d) for d in p["objectives"]])
            solve(q)
            out.append(solve(p))
    print(json.dumps(out))


if __name__ == "__main__":
    main()
