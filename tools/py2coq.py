#!/usr/bin/env python3
"""Fail-closed translator: a declared set of small integer kernels of /repo's Python source
(read with `ast`, never imported) -> Gallina definitions in coq/Generated/GenKernels.v.

Supported subset (anything else raises Unsupported and the run fails closed):
  statements : assignment to a name / tuple of names, if/else, return
  expressions: names, integer constants, None, True/False, + - * unary -, comparisons
               (< <= > >= == !=), and/or/not, min/max of two values, attribute reads of
               declared record fields, constructor call Location(start,end,strand),
               tuples, recursive self-call, `x is None` / `x is not None` on option-typed
               parameters (translated to a match that rebinds x to its content).
Types are given in the declaration table (Python has none): Z, bool, loc, option Z.
"""
import ast, sys, os, io


class Unsupported(Exception):
    pass


FIELDS = {"start": "lstart", "end": "lend", "strand": "lstrand"}

# name -> (file, class or None, python name, [(param, type)], return type, defaults)
KERNELS = [
    ("overlap_region", "dnachisel/Location.py", "Location", "overlap_region",
     [("self", "loc"), ("other_location", "loc")], "option loc"),
    ("extended", "dnachisel/Location.py", "Location", "extended",
     [("self", "loc"), ("extension_length", "Z"), ("lower_limit", "Z"),
      ("upper_limit", "option Z"), ("left", "bool"), ("right", "bool")], "loc"),
    ("to_tuple", "dnachisel/Location.py", "Location", "to_tuple",
     [("self", "loc")], "Z * Z * Z"),
    ("loc_add", "dnachisel/Location.py", "Location", "__add__",
     [("self", "loc"), ("number", "Z")], "loc"),
    ("loc_sub", "dnachisel/Location.py", "Location", "__sub__",
     [("self", "loc"), ("number", "Z")], "loc"),
    ("loc_len", "dnachisel/Location.py", "Location", "__len__",
     [("self", "loc")], "Z"),
    ("windows_overlap", "dnachisel/biotools/indices_operations.py", None, "windows_overlap",
     [("window1", "Z * Z"), ("window2", "Z * Z")], "option (Z * Z)"),
]


COQ_KEYWORDS = {"end", "in", "at", "as", "fun", "match", "with", "return", "let", "if", "then",
                "else", "fix", "forall", "exists", "Type", "Set", "Prop", "using", "where"}


def ident(name):
    return name + "_" if name in COQ_KEYWORDS else name


class Tr:
    def __init__(self, name, params, rettype, pyname):
        self.name = name
        self.types = dict(params)
        self.rettype = rettype
        self.pyname = pyname
        self.recursive = False

    # ---------- expressions
    def expr(self, e):
        if isinstance(e, ast.Constant):
            if e.value is True:
                return "true"
            if e.value is False:
                return "false"
            if e.value is None:
                return "None"
            if isinstance(e.value, int):
                return "(%d)%%Z" % e.value
            raise Unsupported("constant %r" % (e.value,))
        if isinstance(e, ast.Name):
            return ident(e.id)
        if isinstance(e, ast.Attribute):
            if e.attr not in FIELDS:
                raise Unsupported("attribute %s" % e.attr)
            return "(%s %s)" % (FIELDS[e.attr], self.expr(e.value))
        if isinstance(e, ast.BinOp):
            ops = {ast.Add: "+", ast.Sub: "-", ast.Mult: "*"}
            if type(e.op) not in ops:
                raise Unsupported("binop %s" % type(e.op).__name__)
            return "(%s %s %s)%%Z" % (self.expr(e.left), ops[type(e.op)], self.expr(e.right))
        if isinstance(e, ast.UnaryOp):
            if isinstance(e.op, ast.USub):
                return "(- %s)%%Z" % self.expr(e.operand)
            if isinstance(e.op, ast.Not):
                return "(negb %s)" % self.expr(e.operand)
            raise Unsupported("unaryop")
        if isinstance(e, ast.BoolOp):
            op = "&&" if isinstance(e.op, ast.And) else "||"
            return "(" + (" %s " % op).join(self.expr(v) for v in e.values) + ")"
        if isinstance(e, ast.Compare):
            parts = []
            left = e.left
            for op, right in zip(e.ops, e.comparators):
                parts.append(self.cmp(op, left, right))
                left = right
            return "(" + " && ".join(parts) + ")"
        if isinstance(e, ast.Tuple) or isinstance(e, ast.List):
            return "(" + ", ".join(self.expr(x) for x in e.elts) + ")"
        if isinstance(e, ast.Call):
            return self.call(e)
        raise Unsupported("expression %s" % ast.dump(e))

    def cmp(self, op, l, r):
        m = {ast.Lt: "<?", ast.LtE: "<=?", ast.Gt: ">?", ast.GtE: ">=?", ast.Eq: "=?"}
        if isinstance(op, ast.NotEq):
            return "(negb (%s =? %s)%%Z)" % (self.expr(l), self.expr(r))
        if type(op) not in m:
            raise Unsupported("comparison %s" % type(op).__name__)
        return "(%s %s %s)%%Z" % (self.expr(l), m[type(op)], self.expr(r))

    def call(self, e):
        if e.keywords:
            raise Unsupported("keyword arguments in call")
        f = e.func
        if isinstance(f, ast.Name) and f.id in ("min", "max") and len(e.args) == 2:
            return "(Z.%s %s %s)" % (f.id, self.expr(e.args[0]), self.expr(e.args[1]))
        if isinstance(f, ast.Name) and f.id == "Location" and len(e.args) == 3:
            return "(mkLoc %s)" % " ".join(self.expr(a) for a in e.args)
        if isinstance(f, ast.Name) and f.id == self.pyname:
            self.recursive = True
            return "(%s_rec %s)" % (self.name, " ".join(self.expr(a) for a in e.args))
        raise Unsupported("call %s" % ast.dump(f))

    # ---------- statements (continuation style)
    def ret(self, e):
        s = self.expr(e)
        if self.rettype.startswith("option") and not (isinstance(e, ast.Constant) and e.value is None):
            # a recursive self-call already has the option type
            if isinstance(e, ast.Call) and isinstance(e.func, ast.Name) and e.func.id == self.pyname:
                return s
            return "(Some %s)" % s
        return s

    def block(self, stmts):
        if not stmts:
            raise Unsupported("function may fall off its end (implicit None)")
        s, rest = stmts[0], stmts[1:]
        if isinstance(s, ast.Expr) and isinstance(s.value, ast.Constant) and isinstance(s.value.value, str):
            return self.block(rest)  # docstring
        if isinstance(s, ast.Return):
            if s.value is None:
                raise Unsupported("bare return")
            return self.ret(s.value)
        if isinstance(s, ast.Assign):
            if len(s.targets) != 1:
                raise Unsupported("multiple targets")
            t = s.targets[0]
            if isinstance(t, ast.Name):
                return "let %s := %s in\n  %s" % (ident(t.id), self.expr(s.value), self.block(rest))
            if isinstance(t, ast.Tuple) and all(isinstance(x, ast.Name) for x in t.elts):
                pat = "(" + ", ".join(ident(x.id) for x in t.elts) + ")"
                return "let '%s := %s in\n  %s" % (pat, self.expr(s.value), self.block(rest))
            raise Unsupported("assignment target")
        if isinstance(s, ast.If):
            # `if x is not None:` / `if x is None:` on an option-typed name
            t = s.test
            if (isinstance(t, ast.Compare) and len(t.ops) == 1 and isinstance(t.ops[0], (ast.Is, ast.IsNot))
                    and isinstance(t.comparators[0], ast.Constant) and t.comparators[0].value is None
                    and isinstance(t.left, ast.Name)):
                x = t.left.id
                if not self.types.get(x, "").startswith("option"):
                    raise Unsupported("None test on non-option %s" % x)
                some_branch = self.block(list(s.body) + rest) if isinstance(t.ops[0], ast.IsNot) else self.block(list(s.orelse) + rest)
                none_branch = self.block(list(s.orelse) + rest) if isinstance(t.ops[0], ast.IsNot) else self.block(list(s.body) + rest)
                return "match %s with\n  | Some %s => %s\n  | None => %s\n  end" % (x, x, some_branch, none_branch)
            return "if %s\n  then %s\n  else %s" % (
                self.expr(t), self.block(list(s.body) + rest), self.block(list(s.orelse) + rest))
        raise Unsupported("statement %s" % type(s).__name__)


def find_function(tree, cls, name):
    body = tree.body
    if cls is not None:
        cands = [n for n in body if isinstance(n, ast.ClassDef) and n.name == cls]
        if len(cands) != 1:
            raise Unsupported("class %s not found exactly once" % cls)
        body = cands[0].body
    cands = [n for n in body if isinstance(n, ast.FunctionDef) and n.name == name]
    if len(cands) != 1:
        raise Unsupported("function %s not found exactly once" % name)
    return cands[0]


def translate(repo):
    out = io.StringIO()
    out.write("(* GENERATED by tools/py2coq.py from the current /repo source on every run. Do not edit. *)\n")
    out.write("From Coq Require Import ZArith Bool List.\nFrom DC Require Import Model.Base.\nImport ListNotations.\nOpen Scope Z_scope.\nOpen Scope bool_scope.\n\nModule Gen.\n\n")
    for (name, path, cls, pyname, params, rettype) in KERNELS:
        src = open(os.path.join(repo, path)).read()
        fn = find_function(ast.parse(src), cls, pyname)
        pyparams = [a.arg for a in fn.args.args]
        if pyparams != [p for p, _ in params]:
            raise Unsupported("%s: parameters changed: %s" % (name, pyparams))
        if fn.args.vararg or fn.args.kwarg or fn.args.kwonlyargs:
            raise Unsupported("%s: star-args" % name)
        tr = Tr(name, params, rettype, pyname)
        body = tr.block(list(fn.body))
        binders = " ".join("(%s : %s)" % (p, t) for p, t in params)
        if tr.recursive:
            # one level of self-recursion with swapped arguments: unfold once with fuel 1
            args = " ".join(p for p, _ in params)
            out.write("Definition %s_rec0 %s : %s := None.\n" % (name, binders, rettype))
            base = body.replace("%s_rec " % name, "%s_rec0 " % name)
            out.write("Definition %s_rec %s : %s :=\n  %s.\n" % (name, binders, rettype, base))
            out.write("Definition %s %s : %s :=\n  %s.\n\n" % (name, binders, rettype, body))
        else:
            out.write("Definition %s %s : %s :=\n  %s.\n\n" % (name, binders, rettype, body))
    out.write("End Gen.\n")
    return out.getvalue()


def write_if_changed(path, text):
    if os.path.exists(path) and open(path).read() == text:
        return False
    with open(path, "w") as f:
        f.write(text)
    return True


if __name__ == "__main__":
    repo, dest = sys.argv[1], sys.argv[2]
    try:
        text = translate(repo)
    except Unsupported as e:
        print("py2coq: FAIL-CLOSED: %s" % e)
        sys.exit(2)
    write_if_changed(dest, text)
    print("py2coq: ok")
