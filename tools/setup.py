#!/usr/bin/env python3
"""MANIFEST.setup_cmd: build the whole Coq development from files on disk (offline)."""
import os, subprocess, sys
HERE = os.path.dirname(os.path.dirname(os.path.abspath(__file__)))
COQ = os.path.join(HERE, "coq")
env = dict(os.environ, PYTHONPATH=os.path.join(HERE, "shims") + ":/repo", PYTHONHASHSEED="0")
os.makedirs(os.path.join(COQ, "Generated"), exist_ok=True)
for tool, dest in (("py2coq.py", "GenKernels.v"), ("gen_tables.py", "GenTables.v")):
    p = os.path.join(HERE, "tools", tool)
    if os.path.exists(p):
        r = subprocess.run([sys.executable, p, "/repo", os.path.join(COQ, "Generated", dest)], env=env)
        if r.returncode != 0:
            print("setup: generator %s failed (the checks will report it)" % tool)
subprocess.check_call(["coq_makefile", "-f", "_CoqProject", "-o", "Makefile"], cwd=COQ)
r = subprocess.run(["timeout", "3000", "make", "-j16", "-k"], cwd=COQ)
print("setup: make exit", r.returncode)
sys.exit(0)
