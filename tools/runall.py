#!/usr/bin/env python3
"""Run every claimed check (quick tier) for the given seeds and print one line each."""
import json, os, subprocess, sys, time
HERE = os.path.dirname(os.path.dirname(os.path.abspath(__file__)))
thorough = "--thorough" in sys.argv
only = [a for a in sys.argv[1:] if a.startswith("C")]
seeds = [a for a in sys.argv[1:] if a.isdigit()] or ["0"]
m = json.load(open(os.path.join(HERE, "MANIFEST.json")))
for seed in seeds:
    for c in m["checks"]:
        if only and c["property_id"] not in only:
            continue
        t = time.time()
        r = subprocess.run(c["thorough_cmd" if thorough else "quick_cmd"], shell=True, capture_output=True, text=True, cwd=HERE,
                           env=dict(os.environ, VERIF_SEED=seed, VERIF_TIER="thorough" if thorough else "quick"))
        lines = [l for l in r.stdout.splitlines() if l.startswith(("VIOLATION", "KNOWN", "OK", "FAIL"))]
        print("seed=%s %s exit=%d %.0fs | %s" % (seed, c["property_id"], r.returncode, time.time() - t, " || ".join(lines)[:300]), flush=True)
