#!/usr/bin/env python3
"""Run the registered checks against each seeded breaking change under /verif/seeded/<name>/.
For every change: apply patch.diff to /repo, confirm the baseline tests still pass (51), confirm the
demo exits 1, run the quick check of the targeted property (and optionally others), undo the patch.
Writes seeded/RESULTS.md.   usage: run_seeded.py [name ...] [--all-checks | --own-only]"""
import json, os, subprocess, sys, time
HERE = os.path.dirname(os.path.dirname(os.path.abspath(__file__)))
SEEDED = os.path.join(HERE, "seeded")
ENV = dict(os.environ, PYTHONPATH=os.path.join(HERE, "shims") + ":/repo", PYTHONHASHSEED="0")


def sh(cmd, **kw):
    return subprocess.run(cmd, shell=True, capture_output=True, text=True, **kw)


def main():
    args = [a for a in sys.argv[1:] if not a.startswith("--")]
    all_checks = "--all-checks" in sys.argv
    names = args or sorted(d for d in os.listdir(SEEDED) if os.path.isdir(os.path.join(SEEDED, d)))
    manifest = json.load(open(os.path.join(HERE, "MANIFEST.json")))
    cmds = {c["property_id"]: c["quick_cmd"] for c in manifest["checks"]}
    rows = []
    for name in names:
        d = os.path.join(SEEDED, name)
        meta = json.load(open(os.path.join(d, "meta.json")))
        assert sh("git -C /repo status --porcelain").stdout.strip() == "", "/repo not clean"
        r = sh("git -C /repo apply %s" % os.path.join(d, "patch.diff"))
        if r.returncode != 0:
            rows.append((name, meta["property"], "PATCH DOES NOT APPLY", "", ""))
            continue
        try:
            t = sh("cd /repo && /venv/bin/python -m pytest -q -p no:cacheprovider --timeout=900 --continue-on-collection-errors 2>&1 | tail -1")
            tests = t.stdout.strip()
            demo = sh("cd /tmp && /venv/bin/python %s" % os.path.join(d, "demo.py"), env=ENV)
            targets = sorted(cmds) if all_checks else [meta["property"]] + ([] if "--own-only" in sys.argv else meta.get("also_run", []))
            caught = []
            for pid in targets:
                t0 = time.time()
                # seed 0 first; a change that is missed, or only seen through a broken correspondence, is tried
                # again with the next seeds (the seed that caught it is recorded)
                for seed in ("0", "1", "2"):
                    c = sh(cmds[pid], cwd=HERE, env=dict(os.environ, VERIF_SEED=seed))
                    v = [l for l in c.stdout.splitlines() if l.startswith("VIOLATION")]
                    if v and "no-failing-input-found" not in v[0]:
                        break
                    if pid != meta["property"]:
                        break
                caught.append("%s: seed %s %s (%.0fs)" % (pid, seed, "exit %d %s" % (c.returncode, (v[0][:160] if v else "")), time.time() - t0))
            rows.append((name, meta["property"], tests, "demo exit %d" % demo.returncode, " | ".join(caught)))
        finally:
            sh("git -C /repo checkout -- .")
            sh("git -C /repo clean -fdq dnachisel")
        print(rows[-1], flush=True)
    rp = os.path.join(SEEDED, "results.json")
    allrows = json.load(open(rp)) if os.path.exists(rp) else {}
    for r in rows:
        allrows[r[0]] = list(r)
    json.dump(allrows, open(rp, "w"), indent=1, sort_keys=True)
    with open(os.path.join(SEEDED, "RESULTS.md"), "w") as f:
        f.write("# Seeded breaking changes vs. checks (quick tier; seed 0, then 1 and 2 when seed 0 gives no concrete input)\n\n| change | property | baseline tests | demo | checks |\n|---|---|---|---|---|\n")
        for k in sorted(allrows):
            f.write("| %s | %s | %s | %s | %s |\n" % tuple(allrows[k]))


if __name__ == "__main__":
    main()
