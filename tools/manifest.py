#!/usr/bin/env python3
"""Regenerate MANIFEST.json from the table below (keeps it valid at all times)."""
import json, os
HERE = os.path.dirname(os.path.dirname(os.path.abspath(__file__)))
ALL = ["C%02d" % i for i in range(1, 21)]

CLAIMED = {
    "C08": dict(
        text="Theorem (Coq): for every modelled built-in class except UniquifyAllKmers, AvoidHairpins and the pure objective HarmonizeRCA, every well-formed instance, every window W inside the sequence and every pair of sequences differing only inside W: if S passes before and S localized to W passes after, S passes after; if localization yields nothing the score is unchanged. The model's localized()/evaluate() are tied to the code by vm_compute correspondence on all 16 classes (including the three not proved), and a direct oracle runs the property on the implementation. Partial: UniquifyAllKmers and AvoidHairpins are decided by the differential run + oracle only.",
        note="Trusted: Coq kernel; hand model of evaluate/localized (Model/Specs.v) tied by correspondence; thresholds read as the decimals the user wrote (float caveat in DESIGN section 9); with_righthand=False variants are modelled but not claimed.",
        technique="Coq proof (window-locality lemmas, codon-window arithmetic) + vm_compute correspondence + direct oracle",
        design="6/C08"),
    "C09": dict(
        text="Theorem (Coq): for every modelled built-in class other than UniquifyAllKmers (excluded by the property) and AvoidHairpins (not proved), every well-formed instance, window W and pair of sequences differing only inside W, the score difference of the localized specification equals that of the full one (exact rationals), and is zero when localization yields nothing. Tied to the code by correspondence on all classes; direct oracle on the implementation.",
        note="Trusted: as C08. Scores are exact rationals in the model; float sums compared within 1e-9 relative in the correspondence.",
        technique="Coq proof (range-splitting of counts and sums, codon-window arithmetic) + vm_compute correspondence + direct oracle",
        design="6/C09"),
    "C14": dict(
        text="Theorems (Coq): constrain_sequence rewrites only segments whose choice did not hold and is idempotent without draws; for EVERY type of specification and every evaluate/localized/heuristic function, resolve_constraints on a state where all constraints pass returns the same sequence and the same oracle state (no random draw), and optimize at declared best scores changes nothing. The solver model (Model/Solver.v) is tied to the code trace-exactly: same evaluate-call sequence, same numpy draws, same result, on recorded runs; the oracle checks sequence and numpy.random.get_state() before/after.",
        note="Trusted: the recorder (class-level wrappers installed from outside, no source hooks); specification objects are interned by content; MatchTargetCodonUsage (whose evaluate draws) is outside the model.",
        technique="Coq proof over an abstract-specification solver model + trace-exact correspondence with recorded runs",
        design="6/C14"),
    "C15": dict(
        text="Theorems for every well-formed mutation space, member sequence and oracle stream of random draws: localized keeps exactly the choices meeting the window; all_variants is duplicate-free, is exactly the product of the multi-variant choices, starts with the current sequence and differs from it only inside the span; apply_random_mutations changes exactly min(n, #multi-choices) choices, each to a different allowed variant, and stays in the space; constrain_sequence lands in the space, touches only choices that did not hold, is idempotent and then draws nothing; size = product, 0 exactly when there is no multi-variant choice. Model tied to MutationSpace/MutationChoice by vm_compute correspondence on generated spaces with recorded numpy draws (requests and answers compared).",
        note="Trusted: numpy RandomState is an oracle (only its outputs are used; the model logs every request and the log is compared with the recorded one); Python set iteration is modelled by lists and sorting happens where the code sorts; float exp/log of space_size compared with 1e-9 relative tolerance in the harness.",
        technique="Coq proof (invariants over the partition index, product enumeration, oracle-stream bookkeeping) + vm_compute correspondence with recorded random draws",
        design="6/C15"),
    "C11": dict(
        text="Theorems: the overlap-aware scanning loop returns exactly the matching positions in order (for every fixed-size pattern, every sequence); strand +1 gives exactly the forward occurrences inside the location, strand -1 exactly the reverse-complement occurrences with mirrored coordinates, strand 0 both; for palindromic IUPAC words and for direct repeats reverse occurrences coincide with forward ones, so reporting once loses nothing; regex classes restricted to ACGT equal the IUPAC sets (regenerated csv tables). Model tied to SequencePattern.from_string(...).find_matches by vm_compute correspondence, with an independent double-loop oracle.",
        note="Trusted: the `re` engine is modelled as 'leftmost position where the fixed-size pattern matches' (first_match); enzyme site strings are Biopython data; general regexes / PSSM patterns are outside the model.",
        technique="Coq proof (induction on the scan, window lemmas, finite table checks) + regenerated tables + vm_compute correspondence",
        design="6/C11"),
    "C19": dict(
        text="Theorems: complement is base-wise on the generated IUPAC table on both sides of the 30-base switch and reverse_complement is an involution (U excluded); translate(reverse_translate(p)) = p for every generated genetic table without dual-use stop codons, every protein and every random stream (dual tables refuted by witness); the cumulative-sum windowed GC equals the counted fraction per window; difference array/count/segments = mismatches and their maximal runs; subdivide_window is a consecutive partition with pieces 1..m; index/segment grouping partitions the sorted input within the gap/spread limits and breaks only when a limit fails. Tables regenerated from the csv files and Biopython on every run; model tied to the code by vm_compute correspondence.",
        note="Trusted: Coq kernel, gen_tables.py, harness; numpy cumsum/diff/nonzero semantics are modelled (lists), float division count/w checked exactly in the harness; Biopython Seq.complement/translate are data/oracles.",
        technique="Coq proof (induction; finite table facts by vm_compute lifted with forallb_forall) + regenerated tables + vm_compute correspondence",
        design="6/C19"),
    "C18": dict(
        text="Theorems (Coq, closed under the global context) state that overlap_region is set intersection, extended is clamped growth, merge_overlapping yields sorted pairwise-disjoint locations with the same union, shifts/tuples/order laws; the integer kernels are re-translated from Location.py on every run and proved equal to the model (bridge lemmas), the rest is tied by running model and code on an exhaustive small box plus random large coordinates.",
        note="Trusted: Coq kernel; tools/py2coq.py; harness; Biopython FeatureLocation (conversions compared differentially only). Caller-object aliasing of merge is decided by the differential run (the Gallina model has immutable values).",
        technique="Coq proof (interval arithmetic lemmas by lia, merge by induction) + source-to-Gallina translation of kernels + vm_compute correspondence",
        design="6/C18"),
}

def main():
    checks = []
    for pid in ALL:
        if pid not in CLAIMED:
            continue
        c = CLAIMED[pid]
        checks.append({
            "property_id": pid,
            "quick_cmd": "/venv/bin/python /verif/check.py %s --tier quick" % pid,
            "thorough_cmd": "/venv/bin/python /verif/check.py %s --tier thorough" % pid,
            "evidence_file": "/verif/evidence/%s.json" % pid,
            "replay_cmd_template": "/venv/bin/python /verif/check.py %s --replay {path}" % pid,
            "engine": "coq-model+correspondence",
            "level_claimed": {"category": "proof", "text": c["text"], "design_ref": c["design"]},
            "level_note": c["note"],
            "technique": c["technique"],
        })
    m = {
        "version": 1,
        "setup_cmd": "cd /verif && /venv/bin/python tools/setup.py",
        "hooks": {
            "guard": "DNACHISEL_VERIF",
            "enable": "no source hooks: the harness wraps numpy.random / spec.evaluate from outside and sets DNACHISEL_VERIF=1 for its own subprocesses only",
            "baseline_off_cmd": "cd /repo && /venv/bin/python -m pytest -ra -q -p no:cacheprovider --timeout=900 --continue-on-collection-errors",
            "source_commits": [],
            "add_only": True,
        },
        "engines": [{
            "name": "coq-model+correspondence", "path": "/verif/check.py",
            "serves_properties": sorted(CLAIMED),
            "kind_free_text": "Coq 8.16 model + theorems (coq/), source->Gallina translators (tools/), vm_compute correspondence and direct-oracle search (harness/)",
        }],
        "checks": checks,
        "notes": "See DESIGN.md. Every check: regenerate Generated/*.v from /repo, rebuild and audit the property's Coq files (Print Assumptions), run model vs implementation on generated cases, run the direct oracle on the implementation.",
        "not_applicable": [
            {"property_id": pid, "reason": "model not completed yet (build in progress; see DESIGN.md section 11)"}
            for pid in ALL if pid not in CLAIMED
        ],
    }
    json.dump(m, open(os.path.join(HERE, "MANIFEST.json"), "w"), indent=1)

if __name__ == "__main__":
    main()
