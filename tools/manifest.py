#!/usr/bin/env python3
"""Regenerate MANIFEST.json from the table below (keeps it valid at all times)."""
import json, os
HERE = os.path.dirname(os.path.dirname(os.path.abspath(__file__)))
ALL = ["C%02d" % i for i in range(1, 21)]

SOLVER_NOTE = 'Trusted: Coq kernel; the solver model Model/Solver.v is hand-written and tied to ConstraintsSolverMixin/ObjectivesMaximizerMixin trace-exactly (same sequence of evaluate calls, same numpy draws, same outcome and final sequence) on recorded runs, with specification behaviour supplied as finite tables recorded from the implementation; the recorder wraps classes from outside (no source hooks) and interns specification objects by content; float-valued totals are compared trace-exactly only where binary64 arithmetic is exact (integer/dyadic scores and boosts), otherwise by the oracle with 1e-9 tolerance; numpy RandomState is an oracle.'

CLAIMED = {
    "C05": dict(
        text="Hash-seed half, theorems (Coq): wherever the code iterates a Python set of variants the model takes a list in arbitrary order, and two choices carrying the same set in different orders behave identically for every oracle stream - sorted(variants) is canonical, random_variant, the constrain_sequence loop, the (distance, variant) order and the enumeration of all_variants, the variants drawn for random mutations, extract_varying_region (reference-independent). A static scan ties every set-iteration site of MutationChoice.py/MutationSpace.py to this audit. Runtime half (differential, partial): the same problem + numpy seed is solved in fresh subprocesses under several PYTHONHASHSEED values and after several in-process histories (reverse order, solved twice, the same specification objects first used in another problem) and outcomes compared.",
        note="Partial: CPython's string hashing, numpy's generator and process-global state (lru_cache, keys added to user codon tables, marks on shared specification objects) cannot be exhibited by the Gallina model; that half is decided by differential runs only. Trusted: Coq kernel, the static scan (AST of the two files), subprocess launcher.",
        technique="Coq proof (permutation invariance of every set-consuming operation) + static audit of set-iteration sites + differential runs across hash seeds and process histories", design="6/C05"),
    "C07": dict(
        text="Theorems (Coq): the synonymous-codon mutation space of EnforceTranslation (both strands, every generated genetic table without dual-use stop codons, every start-codon policy) contains exactly the sequences whose coding region translates to the wanted protein / whose first codon obeys the policy; the MaximizeCAI score is minus a sum of independent per-codon gaps and is 0 exactly when every codon is a most-frequent synonym. Together with C04 (exact space), C12/C15 (candidates never leave the space), C09 (codon-aligned localization is score-faithful), C06 (local exhaustive search exactly optimal) and C03 these give 'same protein, per-codon optimum'. End to end (Coq, C07_cai_optimize_end_to_end, ..._reverse_strand, and ..._keep_start for the start-codon policy 'keep': first codon untouched, every other codon a most-frequent synonym of its residue): for the problem {EnforceTranslation over a coding region on either strand without start-codon policy (any generated genetic code without dual-use stops) as only constraint, MaximizeCAI over the same region as only objective, mutation space built from the constraint's restrictions, codon tables consistent with the code, randomization threshold above 64}, for every usable starting state and configuration optimize() returns, the sequence still encodes the same protein, EVERY codon is a most-frequent synonym, the length is unchanged and no nucleotide outside the region is touched - nothing is assumed about the mutation space (TranslationSpace.v discharges the local-space hypothesis of the more general theorems: optimize() closes every gap of ANY separable objective, SolverE.v; MaximizeCAI under an abstract space hypothesis, CaiEnd.v). The other start-codon policies (ATG / explicit lists), HarmonizeRCA, named and user tables and offsets are decided by the differential run against an independent per-codon table lookup: partial.",
        note="Partial: the end-to-end theorems cover MaximizeCAI (both strands) without start-codon policy; the other variants are differential; named codon tables are the sandbox shim's; log/ratio floats compared with 1e-9 tolerance.",
        technique="Coq proof (restriction meaning for EnforceTranslation; per-codon decomposition of CAI; induction over the reported locations of optimize_objective on top of the exact optimality of the local exhaustive search) + vm_compute correspondence of the classes + end-to-end oracle on the implementation", design="6/C07"),
    "C04": dict(
        text="Theorems (Coq): the space built by from_optimization_problem's merge procedure is EXACT - a sequence of the right length is a member iff it satisfies every restriction choice (merge_with keeps exactly the variants compatible with ALL overlapping choices, extract_varying_region is exact), the space is a well-formed partition, 'unsolvable' (a choice left without variant) iff no sequence satisfies all restrictions, constrain_sequence moves the initial sequence into the space. The per-class meaning is a theorem too: for AvoidChanges without edit allowance, EnforceChanges at 100 %, EnforceSequence (IUPAC, both strands), EnforceChoice and AvoidRareCodons the restriction choices hold on a sequence iff the specification's own evaluation passes on it (C04_restrictions_hold_iff_the_specification_passes; hypothesis: indices lie inside the location, refuted without it; for EnforceChanges also with ANY stored reference of the right size, C04_enforce_changes_exact_for_any_reference), and for EnforceTranslation iff the region encodes the protein / obeys the start-codon policy (C07). Also decided by brute force over all 4^L sequences (membership vs evaluate().passes) on the implementation.",
        note="Trusted: Coq kernel; hand model of MutationSpace/MutationChoice tied by correspondence; start-codon policy is read as part of the documented predicate of EnforceTranslation (the space is stricter than evaluate(), DESIGN section 7).",
        technique="Coq proof (fold invariant: partition index representing the intersection so far) + vm_compute correspondence + brute-force oracle", design="6/C04"),
    "C10": dict(
        text="Theorems (Coq) relating the evaluation ALGORITHMS (cumulative sums, nonzero, grouping, coordinate mapping) to the documented formulas and to breach coverage for AvoidPattern, EnforcePatternOccurence, EnforceGCContent (windowed and global), EnforceSequence (both strands), AvoidChanges, AvoidStopCodons, EnforceChoice, SequenceLengthBounds, EnforceChanges (minimum and amount forms), EnforceTranslation, AvoidRareCodons, EnforceTerminalGCContent and the binned-interval helper; all 16 modelled classes are tied to the code by vm_compute correspondence and checked against independent Python references (score formula, pass predicate, locations non-empty / inside the sequence / covering the breach). Partial: the formula theorems of the remaining classes are not proved (correspondence + references only).",
        note="Trusted: Coq kernel; hand model Model/Specs.v; thresholds read as written decimals; codon tables are data (log-frequencies supplied as exact values of the implementation's floats).",
        technique="Coq proof (formula = algorithm, coverage via grouping lemmas) + vm_compute correspondence + independent reference oracles", design="6/C10"),
    "C13": dict(
        text="Theorems (Coq): CircularDnaOptimizationProblem.resolve_constraints returns normally only if the circular evaluation of every constraint passes (final-check dominance, whatever the solver did on the three-copy view) and keeps the length; the circular evaluation sees across the origin (a passing whole-sequence AvoidPattern / windowed GC on the three-copy view has no occurrence / breaching window in s + s[:k-1]); edit mirroring yields three equal copies and takes over single-copy edits; AvoidChanges and EnforceChanges (location, indices, allowance / minimum / amount) pass the circular evaluation iff they pass on the sequence itself, the AvoidChanges score being the allowance minus the number of edited positions. Circular evaluations of every relocated class (12 classes, as constraint or objective, after edits), specification shifting and mirroring tied by correspondence; solves checked by an independent cyclic scan, all_constraints_pass(autopass=False) and hard-restriction membership on the implementation.",
        note="Trusted: Coq kernel; the solver run on the three-copy view is abstract in the theorem (its linear version is the subject of C01/C12); hard restrictions after a circular solve are decided by the oracle, not by a theorem.",
        technique="Coq proof (final-check dominance, wrap-around window lemmas) + vm_compute correspondence + cyclic-scan oracle", design="6/C13"),
    "C16": dict(
        text="Theorems (Coq): the label grammar of Specification.from_label / list_from_label round-trips: a descriptor (role, name, positional and keyword arguments) rendered in the documented syntax ('@'/'~' role prefix, name, arguments in parentheses separated by ', ', ':' or '=' keywords, '|' lists, labels joined by '&', surrounding blanks) parses back to the same descriptor, and values are typed as documented (quoted -> string, integer, decimal, otherwise bare string). Tied to the code by running the Gallina parser and the implementation's parser on the same generated labels. Partial: that the parsed descriptor handed to the class constructors defines the same specifications as a direct API call, shorthand-name resolution, feature location/strand mapping and the Genbank write -> load round trip are decided by the differential run (recorded constructor calls and specification content compared with the API-built problem).",
        note="Partial: Biopython's Genbank reader/writer and Python's constructor dispatch (**kwargs, default arguments) are outside the model; that half is differential only. Trusted: Coq kernel, the recorder that captures constructor calls.",
        technique="Coq proof (render/parse round-trip of the label grammar) + vm_compute correspondence of the parser + differential run API problem vs Genbank record", design="6/C16"),
    "C17": dict(
        text="Theorems (Coq): number_of_edits is the number of differing positions; edit features are exactly the maximal runs of edited positions and are labelled with the true before/after sub-sequences; the summary says SUCCESS iff every listed evaluation passes. These are functions of the current state, so 'at any point of a problem's life' is 'for all states'; histories (resolve/optimize/optimize_objective/manual assignments) are exercised by the differential run, which also checks the boost-weighted total and its rounded text against an independent formatter.",
        note="Trusted: Coq kernel; float formatting of the total and Biopython feature objects are outside the model (differential only).",
        technique="Coq proof (corollaries of the C19 difference lemmas) + vm_compute correspondence over operation histories", design="6/C17"),
    "C20": dict(
        text="Theorems (Coq): passes iff score >= 0; optimal iff score = declared best; every modelled class declaring a best score declares 0 (constants regenerated from the class attributes on every run); in its objective configuration no built-in class scores above 0, for every sequence and parameters (all 16 modelled classes); goal met completely => score 0 for AvoidPattern, EnforcePatternOccurence, windowed EnforceGCContent. Tied to the code by correspondence (flags, declared constants, scores).",
        note="Trusted: Coq kernel; MaximizeCAI needs logf <= logbest per codon (checked on each table instance by the harness; numpy.log monotone on table values is trusted).",
        technique="Coq proof (non-positivity per class; regenerated constants) + vm_compute correspondence", design="6/C20"),
    "C01": dict(
        text="Theorems (Coq) over an abstract-specification model of resolve_constraints: for EVERY type of specification with arbitrary evaluate/localized/initialized_on_problem functions and resolution heuristics (wrong ones included), every configuration and every stream of random draws, a normal return implies every constraint passes when fully re-evaluated (the return that skips the final check is covered by the C04 hypothesis); and if localized() does not raise and heuristics end with a sequence of the local space or NoSolutionError, no outcome other than return / NoSolutionError exists (every Python-level partial operation on the path is modelled as an error outcome and shown unreachable). Model tied to the code trace-exactly on recorded runs; oracle re-evaluates every constraint and classifies exceptions on the implementation.",
        note=SOLVER_NOTE, technique="Coq proof (final-check dominance; invariant 'sequence stays in the mutation space' excludes the error sites) + trace-exact correspondence with recorded runs", design="6/C01"),
    "C02": dict(
        text="Theorems (Coq): optimize, optimize_objective and the direct exhaustive/random optimisers keep every constraint satisfied (full re-evaluation), for every kind of constraint whose localization is sound (the C08 law; constraints flagged enforced are covered by the mutation-space guarantee), every objective set, configuration and random stream. Model tied trace-exactly to the code; oracle: all_constraints_pass(autopass=False) before/after single and repeated calls on the implementation.",
        note=SOLVER_NOTE + " For the modelled built-in classes with the C08 law the soundness hypothesis is itself a theorem (Proofs/Builtins.v: C02_builtin_constraints_are_sound, C02_builtin_optimize_keeps_every_constraint, instance with initialised specifications and unit boosts); for constraints the solver skips as enforced by nucleotide restrictions it is the mutation-space guarantee (C04), and for UniquifyAllKmers / HarmonizeRCA constraints it rests on correspondence.", technique="Coq proof (acceptance invariant over local searches + soundness transfer) + trace-exact correspondence", design="6/C02"),
    "C03": dict(
        text="Theorems (Coq): optimize never lowers the boost-weighted total (exact rationals), nor does a repeated call, for every objective kind with score-faithful localization (the C09 law), any boosts (zero boosts are excluded from local problems and contribute nothing), every configuration and random stream; local searches accept strict improvements only. Model tied trace-exactly to the code; oracle: objective_scores_sum before/after single and repeated optimize() on the implementation.",
        note=SOLVER_NOTE + " For the modelled built-in classes with the C09 law the faithfulness hypothesis is itself a theorem (Proofs/Builtins.v: C03_builtin_objectives_are_faithful, C03_builtin_optimize_never_lowers_the_total). Float rounding of the global sum is outside the theorem (improvements are far above 1e-13 for generated tables; compared with 1e-9 tolerance).", technique="Coq proof (local total difference = global total difference by the C09 law; strict-improvement acceptance) + trace-exact correspondence", design="6/C03"),
    "C06": dict(
        text="Theorems (Coq): resolve_constraints_by_exhaustive_search succeeds iff some variant of the mutation space is feasible (keeping the first one in enumeration order), otherwise NoSolutionError with the sequence restored, and draws nothing; optimize_by_exhaustive_search ends on a feasible variant whose weighted total is the maximum over all feasible variants, provided scores never exceed declared bests and boosts are non-negative. With C15 (all_variants = the whole product) this is completeness/optimality over the mutation space. Tied trace-exactly to the code; oracle: brute force over the product of the choices on spaces of 1..3000 variants (frozen spaces included).",
        note=SOLVER_NOTE, technique="Coq proof (loop invariant over the enumeration; weighted best-score bound for the early exit) + trace-exact correspondence + brute-force oracle", design="6/C06"),
    "C12": dict(
        text="Theorems (Coq): every sequence the solver ever assigns - top-level and every candidate of local exhaustive/random searches - has the original length and lies in the mutation space, for resolve_constraints, optimize and the direct searches, every specification kind, configuration and random stream; a failed exhaustive search restores its starting sequence. Hence an abort at ANY evaluation call leaves a usable problem. The model's evaluation/assignment trace is tied to the code trace-exactly; fault enumeration on the implementation raises at the k-th evaluate call and checks length, hard restrictions, sequence_before, re-evaluation and re-solve.",
        note=SOLVER_NOTE + " Exceptions are injected by wrapping evaluate from outside; a NoSolutionError thrown by a user specification itself would be caught by the solver and is out of scope.", technique="Coq proof (state invariant over the whole run) + trace-exact correspondence + fault enumeration on the implementation", design="6/C12"),
    "C08": dict(
        text="Theorem (Coq): for every one of the 16 modelled built-in classes (AvoidHairpins, UniquifyAllKmers in its global form and HarmonizeRCA included), every well-formed instance, every window W inside the sequence and every pair of sequences differing only inside W: if S passes before and S localized to W passes after, S passes after; if localization yields nothing the score is unchanged. The model's localized()/evaluate() are tied to the code by vm_compute correspondence on all 16 classes , and a direct oracle runs the property on the implementation. (Refuting the first statement of the law for UniquifyAllKmers exposed defect F19, fixed in the repository.)",
        note="Trusted: Coq kernel; hand model of evaluate/localized (Model/Specs.v) tied by correspondence; thresholds read as the decimals the user wrote (float caveat in DESIGN section 9); with_righthand=False variants are modelled but not claimed.",
        technique="Coq proof (window-locality lemmas, codon-window arithmetic) + vm_compute correspondence + direct oracle",
        design="6/C08"),
    "C09": dict(
        text="Theorem (Coq): for every modelled built-in class other than UniquifyAllKmers (excluded by the property) - AvoidHairpins included -, every well-formed instance, window W and pair of sequences differing only inside W, the score difference of the localized specification equals that of the full one (exact rationals), and is zero when localization yields nothing. Tied to the code by correspondence on all classes; direct oracle on the implementation.",
        note="Trusted: as C08. Scores are exact rationals in the model; float sums compared within 1e-9 relative in the correspondence.",
        technique="Coq proof (range-splitting of counts and sums, codon-window arithmetic) + vm_compute correspondence + direct oracle",
        design="6/C09"),
    "C14": dict(
        text="Theorems (Coq): constrain_sequence rewrites only segments whose choice did not hold and is idempotent without draws; for EVERY type of specification and every evaluate/localized/heuristic function, resolve_constraints on a state where all constraints pass returns the same sequence and the same oracle state (no random draw), and optimize at declared best scores changes nothing. The solver model (Model/Solver.v) is tied to the code trace-exactly: same evaluate-call sequence, same numpy draws, same result, on recorded runs; the oracle checks sequence and numpy.random.get_state() before/after.",
        note="Trusted: the recorder (class-level wrappers installed from outside, no source hooks); specification objects are interned by content; MatchTargetCodonUsage (whose evaluate draws) is outside the model.",
        technique="Coq proof over an abstract-specification solver model + trace-exact correspondence with recorded runs",
        design="6/C14"),
    "C15": dict(
        text="Theorems for every well-formed mutation space, member sequence and oracle stream of random draws: localized keeps exactly the choices meeting the window; all_variants is duplicate-free, is exactly the product of the multi-variant choices, starts with the current sequence and differs from it only inside the span; apply_random_mutations changes exactly min(n, #multi-choices) choices, each to a different allowed variant, and stays in the space; constrain_sequence lands in the space, touches only choices that did not hold, is idempotent and then draws nothing; size = product, 0 exactly when there is no multi-variant choice. Model tied to MutationSpace/MutationChoice by vm_compute correspondence on generated spaces with recorded numpy draws (requests and answers compared).",
        note="Trusted: numpy RandomState is an oracle (only its outputs are used; the model logs every request and the log is compared with the recorded one); Python set iteration is modelled by lists and sorting happens where the code sorts; float exp/log of space_size compared with 1e-9 relative tolerance in the harness.",
        technique="Coq proof (invariants over the partition index, product enumeration, oracle-stream bookkeeping) + vm_compute correspondence with recorded random draws",
        design="6/C15"),
    "C11": dict(
        text="Theorems: the overlap-aware scanning loop returns exactly the matching positions in order (for every fixed-size pattern, every sequence); strand +1 gives exactly the forward occurrences inside the location, strand -1 exactly the reverse-complement occurrences with mirrored coordinates, strand 0 both; for palindromic IUPAC words and for direct repeats reverse occurrences coincide with forward ones, so reporting once loses nothing; regex classes restricted to ACGT equal the IUPAC sets (regenerated csv tables). Model tied to SequencePattern.from_string(...).find_matches by vm_compute correspondence, with an independent double-loop oracle.",
        note="Trusted: the `re` engine is modelled as 'leftmost position where the fixed-size pattern matches' (first_match); enzyme site strings are Biopython data; general regexes / PSSM patterns are outside the model.",
        technique="Coq proof (induction on the scan, window lemmas, finite table checks) + regenerated tables + vm_compute correspondence",
        design="6/C11"),
    "C19": dict(
        text="Theorems: complement is base-wise on the generated IUPAC table on both sides of the 30-base switch and reverse_complement is an involution (U excluded); translate(reverse_translate(p)) = p for every generated genetic table without dual-use stop codons, every protein and every random stream (dual tables refuted by witness); the cumulative-sum windowed GC equals the counted fraction per window; difference array/count/segments = mismatches and their maximal runs; subdivide_window is a consecutive partition with pieces 1..m; index/segment grouping partitions the sorted input within the gap/spread limits and breaks only when a limit fails. Tables regenerated from the csv files and Biopython on every run; model tied to the code by vm_compute correspondence.",
        note="Trusted: Coq kernel, gen_tables.py, harness; numpy cumsum/diff/nonzero semantics are modelled (lists), float division count/w checked exactly in the harness; Biopython Seq.complement/translate are data/oracles.",
        technique="Coq proof (induction; finite table facts by vm_compute lifted with forallb_forall) + regenerated tables + vm_compute correspondence",
        design="6/C19"),
    "C18": dict(
        text="Theorems (Coq, closed under the global context) state that overlap_region is set intersection, extended is clamped growth, merge_overlapping yields sorted pairwise-disjoint locations with the same union, shifts/tuples/order laws; the integer kernels are re-translated from Location.py on every run and proved equal to the model (bridge lemmas), the rest is tied by running model and code on an exhaustive small box plus random large coordinates.",
        note="Trusted: Coq kernel; tools/py2coq.py; harness; Biopython FeatureLocation (conversions compared differentially only). Caller-object aliasing of merge is decided by the differential run (the Gallina model has immutable values).",
        technique="Coq proof (interval arithmetic lemmas by lia, merge by induction) + source-to-Gallina translation of kernels + vm_compute correspondence",
        design="6/C18"),
}

def main():
    checks = []
    for pid in ALL:
        if pid not in CLAIMED:
            continue
        c = CLAIMED[pid]
        checks.append({
            "property_id": pid,
            "quick_cmd": "/venv/bin/python /verif/check.py %s --tier quick" % pid,
            "thorough_cmd": "/venv/bin/python /verif/check.py %s --tier thorough" % pid,
            "evidence_file": "/verif/evidence/%s.json" % pid,
            "replay_cmd_template": "/venv/bin/python /verif/check.py %s --replay {path}" % pid,
            "engine": "coq-model+correspondence",
            "level_claimed": {"category": "proof", "text": c["text"], "design_ref": c["design"]},
            "level_note": c["note"],
            "technique": c["technique"],
        })
    m = {
        "version": 1,
        "setup_cmd": "cd /verif && /venv/bin/python tools/setup.py",
        "hooks": {
            "guard": "DNACHISEL_VERIF",
            "enable": "no source hooks: the harness wraps numpy.random / spec.evaluate from outside and sets DNACHISEL_VERIF=1 for its own subprocesses only",
            "baseline_off_cmd": "cd /repo && /venv/bin/python -m pytest -ra -q -p no:cacheprovider --timeout=900 --continue-on-collection-errors",
            "source_commits": [],
            "add_only": True,
        },
        "engines": [{
            "name": "coq-model+correspondence", "path": "/verif/check.py",
            "serves_properties": sorted(CLAIMED),
            "kind_free_text": "Coq 8.16 model + theorems (coq/), source->Gallina translators (tools/), vm_compute correspondence and direct-oracle search (harness/)",
        }],
        "checks": checks,
        "notes": "See DESIGN.md. Every check: regenerate Generated/*.v from /repo, rebuild and audit the property's Coq files (Print Assumptions), run model vs implementation on generated cases, run the direct oracle on the implementation.",
        "not_applicable": [
            {"property_id": pid, "reason": "model not completed yet (build in progress; see DESIGN.md section 11)"}
            for pid in ALL if pid not in CLAIMED
        ],
    }
    json.dump(m, open(os.path.join(HERE, "MANIFEST.json"), "w"), indent=1)

if __name__ == "__main__":
    main()
