#!/usr/bin/env python3
"""Compare theorem statements (text between `Theorem name` and `Proof.`) of two .v files."""
import re, sys
def stmts(p):
    s = re.sub(r"\(\*.*?\*\)", "", open(p).read(), flags=re.S)
    out = {}
    for m in re.finditer(r"(Theorem|Definition|Fixpoint)\s+(\w+)(.*?)(?:\nProof\.|\.\n)", s, re.S):
        out[m.group(2)] = " ".join(m.group(3).split())
    return out
a, b = stmts(sys.argv[1]), stmts(sys.argv[2])
bad = [k for k in a if k not in b or a[k] != b[k]]
print("changed or missing:", bad)
sys.exit(1 if bad else 0)
