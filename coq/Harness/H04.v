(* Correspondence cases for C04: mutation space built from the restrict_nucleotides() of the
   modelled hard constraints. *)
From Coq Require Import ZArith QArith Bool List Ascii String.
From DC Require Import Model.Base Model.Loc Model.Bio Model.Pattern Model.MSpace Model.Specs Harness.H10.
Import ListNotations.
Open Scope Z_scope.

Inductive case04 :=
| KSpace (specs : list (spec * bool)) (s : dna) (out : list (Z * Z * list dna)).

Definition restrictions (specs : list (spec * bool)) (s : dna) : list choice :=
  flat_map (fun p => restrict_nucleotides (fst p) (snd p) s) specs.

Definition check04 (c : case04) : bool :=
  match c with
  | KSpace specs s out =>
      list_eqb canon_eqb (map canon (choices_list (from_constraints s (restrictions specs s)))) out
  end.
Definition model04 (c : case04) :=
  match c with
  | KSpace specs s _ => map canon (choices_list (from_constraints s (restrictions specs s)))
  end.
