(* Correspondence cases for C10 / C20 / C08 / C09 / C04: built-in specifications. *)
From Coq Require Import ZArith QArith Qabs Bool List Ascii String.
From DC Require Import Model.Base Model.Loc Model.Bio Model.Pattern Model.MSpace Model.Specs Generated.GenTables.
Import ListNotations.
Open Scope Z_scope.

Definition tbl (name : string) : gtable :=
  match table_named name with Some T => T | None => mkGT [] [] [] end.

(* scores: exact for integer-valued classes, relative tolerance 1e-9 for float-valued ones *)
Definition q_close (m i : Q) : bool :=
  Qle_bool (Qabs (m - i)) ((1 # 1000000000) * (1 + Qabs m)).
Definition sign_agrees (m i : Q) : bool := Bool.eqb (Qle_bool 0 m) (Qle_bool 0 i).

Definition locs_eqb (a b : option (list loc)) : bool := opt_eqb (list_eqb loc_eqb) a b.

(* implementation's evaluation: (score, locations); None = it raised *)
Definition iev := option (Q * option (list loc)).
Definition ev_matches (sorted : bool) (m : option evaluation) (i : iev) : bool :=
  match m, i with
  | None, None => true
  | Some e, Some (sc, ls) =>
      q_close (score e) sc && sign_agrees (score e) sc &&
      (if sorted then locs_eqb (option_map sort_locs (locs e)) (option_map sort_locs ls)
       else locs_eqb (locs e) ls)
  | _, _ => false
  end.

Definition is_local_uniq (sp : spec) : bool :=
  match sp with SUniquify _ _ _ _ (Some _) => true | _ => false end.

Definition spec_loc (sp : spec) : option loc :=
  match sp with
  | SAvoidPattern _ l | SPatternOcc _ _ l | SGC _ _ _ l | STranslation _ l _ _ | SStopCodons _ l
  | SAvoidChanges l _ _ _ | SEnforceChanges l _ _ _ _ _ | SEnforceSequence _ l | SEnforceChoice _ l
  | SRareCodons _ _ l | SMaximizeCAI _ _ l | SHarmonizeRCA _ _ _ _ l | SUniquify _ l _ _ _
  | SHairpins _ _ l => Some l
  | _ => None
  end.

Definition canon (c : choice) : Z * Z * list dna := (cstart c, cend c, sort_dna (nodup_dna (cvariants c))).
Definition canon_eqb (a b : Z * Z * list dna) : bool :=
  let '(s1, e1, v1) := a in let '(s2, e2, v2) := b in
  (s1 =? s2) && (e1 =? e2) && list_eqb seq_eqb v1 v2.

Inductive case10 :=
| KEval (sp : spec) (s : dna) (out : iev)
  (* localized(w, with_righthand) computed on sequence s, then evaluated on s and on s2:
     kind 0 = None, 1 = a specification, 2 = raised *)
| KLocal (sp : spec) (w : loc) (rh : bool) (s s2 : dna) (kind : Z) (lloc : option loc) (e1 e2 : iev)
| KRestrict (sp : spec) (pct : bool) (s : dna) (out : list (Z * Z * list dna)).

Definition check10 (c : case10) : bool :=
  match c with
  | KEval sp s out => ev_matches (is_local_uniq sp) (evaluate sp s) out
  | KLocal sp w rh s s2 kind lloc e1 e2 =>
      match localized sp w rh s with
      | LNone => kind =? 0
      | LError => kind =? 2
      | LSome sp' =>
          (kind =? 1) && opt_eqb loc_eqb (spec_loc sp') lloc
          && ev_matches (is_local_uniq sp') (evaluate sp' s) e1
          && ev_matches (is_local_uniq sp') (evaluate sp' s2) e2
      end
  | KRestrict sp pct s out => list_eqb canon_eqb (map canon (restrict_nucleotides sp pct s)) out
  end.

Definition model10 (c : case10) :=
  match c with
  | KEval sp s _ => (evaluate sp s, None, None, [])
  | KLocal sp w rh s s2 _ _ _ _ =>
      match localized sp w rh s with
      | LSome sp' => (evaluate sp' s, evaluate sp' s2, spec_loc sp', [])
      | LNone => (None, None, Some (mkLoc 0 0 0), [])
      | LError => (None, None, Some (mkLoc (-1) (-1) 0), [])
      end
  | KRestrict sp pct s _ => (None, None, None, map canon (restrict_nucleotides sp pct s))
  end.
