(* Correspondence cases for C11 (pattern search). *)
From Coq Require Import ZArith Bool List Ascii String.
From DC Require Import Model.Base Model.Loc Model.Bio Model.Pattern.
Import ListNotations.
Open Scope Z_scope.

Inductive case11 :=
| KFind (P : pattern) (s : dna) (l : loc) (out : list loc)
| KPal (P : pattern) (pal : bool) (size : Z)
| KInString (P : pattern) (s : dna) (out : list (Z * Z)).

Definition pairb (p q : Z * Z) : bool := (fst p =? fst q) && (snd p =? snd q).
Definition pat_of (kind : Z) (p : string) (n k : Z) : pattern :=
  if kind =? 0 then PDna (list_ascii_of_string p) else PRepeat n k.

Definition check11 (c : case11) : bool :=
  match c with
  | KFind P s l out => list_eqb loc_eqb (find_matches P s l) out
  | KPal P pal size => Bool.eqb (is_palindromic P) pal && (psize P =? size)
  | KInString P s out => list_eqb pairb (find_in_string P s) out
  end.
Definition model11 (c : case11) :=
  match c with
  | KFind P s l _ => (find_matches P s l, [], false)
  | KPal P _ _ => ([], [], is_palindromic P)
  | KInString P s _ => ([], find_in_string P s, false)
  end.
