(* Correspondence cases for C19 (biotools). *)
From Coq Require Import ZArith Bool List Ascii String.
From DC Require Import Model.Base Model.Bio Generated.GenTables.
Import ListNotations.
Open Scope Z_scope.

Definition astr_of (s : string) : astr := list_ascii_of_string s.
Definition astr_eqb (a b : astr) : bool := list_eqb Ascii.eqb a b.
Definition pair_eqb (p q : Z * Z) : bool := (fst p =? fst q) && (snd p =? snd q).

Inductive case19 :=
| KComplement (s : string) (comp revcomp : option string)       (* None = KeyError *)
| KRc (s : dna) (out : dna)
| KGcWindows (s : dna) (w : Z) (counts : list Z)
| KGcGlobal (s : dna) (count : Z)
| KDiff (s t : dna) (arr : list bool) (count : Z) (segs : list (Z * Z))
| KSubdivide (a b m : Z) (out : list (Z * Z))
| KGroupIdx (l : list Z) (gap spread : option Z) (out : list (list Z))
| KGroupSeg (l : list (Z * Z)) (gap spread : option Z) (out : list (list (Z * Z)))
| KTranslate (table : string) (s : dna) (assume_start : bool) (out : option string)
| KRevTranslate (table : string) (p : string) (ks : list Z) (out : option dna)
| KBackTable (table : string) (aa : ascii) (codons : list dna).

Definition ostr_eqb (a : option astr) (b : option string) : bool :=
  match a, b with
  | None, None => true
  | Some x, Some y => astr_eqb x (astr_of y)
  | _, _ => false
  end.

Definition check19 (c : case19) : bool :=
  match c with
  | KComplement s comp rcmp =>
      ostr_eqb (complement (astr_of s)) comp && ostr_eqb (reverse_complement (astr_of s)) rcmp
  | KRc s out => seq_eqb (rc s) out
  | KGcWindows s w counts => list_eqb Z.eqb (gc_window_counts s w) counts
  | KGcGlobal s n => count_gc s =? n
  | KDiff s t arr n segs =>
      list_eqb Bool.eqb (diff_array s t) arr && (diff_count s t =? n)
      && list_eqb pair_eqb (diff_segments s t) segs
  | KSubdivide a b m out => list_eqb pair_eqb (subdivide_window a b m) out
  | KGroupIdx l g sp out => list_eqb (list_eqb Z.eqb) (group_nearby_indices l g sp) out
  | KGroupSeg l g sp out => list_eqb (list_eqb pair_eqb) (group_nearby_segments l g sp) out
  | KTranslate name s st out =>
      match table_named name with
      | Some T => ostr_eqb (translate_start T s st) out
      | None => false
      end
  | KRevTranslate name p ks out =>
      match table_named name with
      | Some T => opt_eqb seq_eqb (reverse_translate T (astr_of p) ks) out
      | None => false
      end
  | KBackTable name aa cods =>
      match table_named name with
      | Some T => list_eqb seq_eqb (back_codons T aa) cods
      | None => false
      end
  end.

Definition model19 (c : case19) :=
  match c with
  | KComplement s _ _ => (complement (astr_of s), reverse_complement (astr_of s), [], [], [])
  | KGcWindows s w _ => (None, None, gc_window_counts s w, [], [])
  | KDiff s t _ _ _ => (None, None, [diff_count s t], diff_segments s t, [])
  | KSubdivide a b m _ => (None, None, [], subdivide_window a b m, [])
  | KGroupIdx l g sp _ => (None, None, [], [], group_nearby_indices l g sp)
  | _ => (None, None, [], [], [])
  end.
