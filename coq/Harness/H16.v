(* Correspondence cases for C16: label parsing. *)
From Coq Require Import ZArith Bool List Ascii String.
From DC Require Import Model.Base Model.Label.
Import ListNotations.
Open Scope Z_scope.

Fixpoint value_eqb (a b : value) : bool :=
  match a, b with
  | VStr x, VStr y => str_eqb x y
  | VInt x, VInt y => x =? y
  | VFloat _, VFloat _ => true            (* the numeric value is compared by the harness *)
  | VList l, VList m =>
      (fix go (l m : list value) : bool :=
         match l, m with
         | [], [] => true
         | x :: l', y :: m' => value_eqb x y && go l' m'
         | _, _ => false
         end) l m
  | _, _ => false
  end.
Definition parg_eqb (a b : parg) : bool :=
  match a, b with
  | Pos x, Pos y => value_eqb x y
  | Kw k x, Kw j y => str_eqb k j && value_eqb x y
  | _, _ => false
  end.
(* the implementation hands positional and keyword arguments over separately (args, kwargs): the
   relative order between the two groups is not observable *)
Definition is_pos (p : parg) : bool := match p with Pos _ => true | Kw _ _ => false end.
Definition parsed_eqb (a b : bool * str * list parg) : bool :=
  let '(r1, n1, a1) := a in let '(r2, n2, a2) := b in
  Bool.eqb r1 r2 && str_eqb n1 n2
  && list_eqb parg_eqb (filter is_pos a1) (filter is_pos a2)
  && list_eqb parg_eqb (filter (fun p => negb (is_pos p)) a1) (filter (fun p => negb (is_pos p)) a2).

Inductive case16 := KLabel (label : string) (out : list (option (bool * str * list parg))).
Definition check16 (c : case16) : bool :=
  match c with KLabel label out => list_eqb (opt_eqb parsed_eqb) (parse_labels (lit label)) out end.
Definition model16 (c : case16) := match c with KLabel label _ => parse_labels (lit label) end.
