(* Correspondence cases for C13 (circular problems). *)
From Coq Require Import ZArith QArith Bool List Ascii String.
From DC Require Import Model.Base Model.Loc Model.Bio Model.Pattern Model.MSpace Model.Specs Model.Circular Harness.H10.
Import ListNotations.
Open Scope Z_scope.

Inductive case13 :=
| KReplace (new : dna) (out : dna)
| KCircLocs (L : Z) (l : loc) (out : list loc)
  (* circular evaluation of one constraint (as listed by constraints_evaluations, autopass=False):
     one entry per circularized copy *)
| KCircEval (sp : spec) (s : dna) (out : list iev) (all_pass : bool).

Definition check13 (c : case13) : bool :=
  match c with
  | KReplace new out => seq_eqb (replace_circular new) out
  | KCircLocs L l out => list_eqb loc_eqb (circularized_locs L l) out
  | KCircEval sp s out ap =>
      let evs := circular_evaluations [sp] s in
      (Nat.eqb (List.length evs) (List.length out))
      && forallb (fun p => ev_matches false (fst p) (snd p)) (combine evs out)
      && Bool.eqb (circular_all_pass [sp] s) ap
  end.
Definition model13 (c : case13) :=
  match c with
  | KReplace new _ => (replace_circular new, [], [])
  | KCircLocs L l _ => ([], circularized_locs L l, [])
  | KCircEval sp s _ _ => ([], [], circular_evaluations [sp] s)
  end.
