(* Correspondence cases for C15 / C04 (mutation space). *)
From Coq Require Import ZArith Bool List.
From DC Require Import Model.Base Model.Loc Model.MSpace.
Import ListNotations.
Open Scope Z_scope.

(* canonical view of a choice: (start, end, sorted variants) *)
Definition canon (c : choice) : Z * Z * list dna := (cstart c, cend c, sort_dna (cvariants c)).
Definition canon_eqb (a b : Z * Z * list dna) : bool :=
  let '(s1, e1, v1) := a in let '(s2, e2, v2) := b in
  (s1 =? s2) && (e1 =? e2) && list_eqb seq_eqb v1 v2.
Definition mk (t : Z * Z * list dna) : choice := let '(s, e, v) := t in mkChoice s e v false.

(* a space is described either by restrictions applied to a sequence, or by a raw list of
   (segment, variants) laid out left to right (positions not covered are None) *)
Inductive space_desc :=
| SFrom (s : dna) (restrictions : list (Z * Z * list dna))
| SRaw (len : Z) (choices : list (Z * Z * list dna)).

Definition raw_index (len : Z) (cs : list (Z * Z * list dna)) : list (option choice) :=
  fold_left (fun acc t => set_range acc (fst (fst t)) (snd (fst t)) (Some (mk t))) cs
            (repeat None (Z.to_nat len)).
Definition build (d : space_desc) : mspace :=
  match d with
  | SFrom s rs => from_constraints s (map mk rs)
  | SRaw len cs => mkSpace (raw_index len cs)
  end.

Definition req_eqb (a b : req) : bool :=
  match a, b with
  | RInt n, RInt m => n =? m
  | RChoice n k, RChoice m j => (n =? m) && (k =? j)
  | _, _ => false
  end.

Inductive case15 :=
| KChoices (d : space_desc) (out : list (Z * Z * list dna)) (span : option (Z * Z)) (size : Z) (nmulti : Z)
| KLocalized (d : space_desc) (a b : Z) (out : list (Z * Z * list dna)) (span : option (Z * Z)) (size : Z)
| KConstrain (d : space_desc) (s : dna) (stream : list (list Z)) (out : option dna) (log : list req)
| KAllVariants (d : space_desc) (s : dna) (out : option (list dna))
| KApply (d : space_desc) (n : Z) (s : dna) (stream : list (list Z)) (out : dna) (log : list req)
| KMerge (self : Z * Z * list dna) (others : list (Z * Z * list dna)) (out : Z * Z * list dna)
| KExtract (c : Z * Z * list dna) (out : list (Z * Z * list dna)).

Definition pairb (p q : Z * Z) : bool := (fst p =? fst q) && (snd p =? snd q).

Definition check15 (c : case15) : bool :=
  match c with
  | KChoices d out span size nm =>
      let ms := build d in
      list_eqb canon_eqb (map canon (choices_list ms)) out && opt_eqb pairb (choices_span ms) span
      && (space_size_exact ms =? size) && (zlen (multichoices ms) =? nm)
  | KLocalized d a b out span size =>
      let ms := ms_localized (build d) a b in
      list_eqb canon_eqb (map canon (choices_list ms)) out && opt_eqb pairb (choices_span ms) span
      && (space_size_exact ms =? size)
  | KConstrain d s stream out log =>
      match constrain_sequence (build d) s (mkR stream []), out with
      | COk s' r, Some o => seq_eqb s' o && list_eqb req_eqb (r_log r) log
                            && match r_stream r with [] => true | _ => false end
      | CUnsolvable _ _, None => true
      | _, _ => false
      end
  | KAllVariants d s out => opt_eqb (list_eqb seq_eqb) (all_variants (build d) s) out
  | KApply d n s stream out log =>
      match apply_random_mutations (build d) n s (mkR stream []) with
      | Some (s', r) => seq_eqb s' out && list_eqb req_eqb (r_log r) log
                        && match r_stream r with [] => true | _ => false end
      | None => false
      end
  | KMerge self others out => canon_eqb (canon (merge_with (mk self) (map mk others))) out
  | KExtract c out => list_eqb canon_eqb (map canon (extract_varying_region (mk c))) out
  end.

Definition model15 (c : case15) :=
  match c with
  | KChoices d _ _ _ _ => (map canon (choices_list (build d)), choices_span (build d), space_size_exact (build d), None, [])
  | KLocalized d a b _ _ _ => let ms := ms_localized (build d) a b in
      (map canon (choices_list ms), choices_span ms, space_size_exact ms, None, [])
  | KConstrain d s stream _ _ =>
      match constrain_sequence (build d) s (mkR stream []) with
      | COk s' r => ([], None, 0, Some [s'], r_log r)
      | _ => ([], None, -1, None, [])
      end
  | KAllVariants d s _ => ([], None, 0, all_variants (build d) s, [])
  | KApply d n s stream _ _ =>
      match apply_random_mutations (build d) n s (mkR stream []) with
      | Some (s', r) => ([], None, 0, Some [s'], r_log r)
      | None => ([], None, -1, None, [])
      end
  | KMerge self others _ => ([canon (merge_with (mk self) (map mk others))], None, 0, None, [])
  | KExtract c _ => (map canon (extract_varying_region (mk c)), None, 0, None, [])
  end.
