(* Correspondence cases for C18: each case carries the implementation's observed output;
   [check] recomputes it with the model (hand model AND the kernels generated from source). *)
From Coq Require Import ZArith Bool List.
From DC Require Import Model.Base Model.Loc Generated.GenKernels.
Import ListNotations.
Open Scope Z_scope.

Inductive case18 :=
| KOverlap (a b : loc) (out : option loc)
| KExtended (a : loc) (n lower : Z) (upper : option Z) (left right : bool) (out : loc)
| KMerge (l : list loc) (out : list loc) (inputs_after : list loc)
| KShift (a : loc) (n : Z) (plus minus : loc) (len : Z)
| KOrder (a b : loc) (lt eq hash_eq ge : bool)
| KIndices (a : loc) (out : list Z)
| KTuple (a : loc) (t : Z * Z * Z) (back : loc)
| KWindows (w1 w2 : Z * Z) (out : option (Z * Z)).

Definition pair_eqb (p q : Z * Z) : bool := (fst p =? fst q) && (snd p =? snd q).

Definition model18 (c : case18) : case18 :=
  match c with
  | KOverlap a b _ => KOverlap a b (overlap_region a b)
  | KExtended a n lo up l r _ => KExtended a n lo up l r (extended a n lo up l r)
  | KMerge l _ _ => KMerge l (merge_overlapping l) l
  | KShift a n _ _ _ => KShift a n (loc_add a n) (loc_sub a n) (loc_len a)
  | KOrder a b _ _ _ _ => KOrder a b (loc_ltb a b) (loc_eqb a b) (loc_eqb a b) (loc_leb b a)
  | KIndices a _ => KIndices a (loc_indices a)
  | KTuple a _ _ => KTuple a (to_tuple a) (from_tuple3 (to_tuple a))
  | KWindows w1 w2 _ => KWindows w1 w2 (windows_overlap w1 w2)
  end.

(* hashes: equal locations must hash equally; unequal ones may collide (CPython: hash(-1) = hash(-2)) *)
Definition check18 (c : case18) : bool :=
  match c with
  | KOverlap a b out =>
      opt_eqb loc_eqb (overlap_region a b) out && opt_eqb loc_eqb (Gen.overlap_region a b) out
  | KExtended a n lo up l r out =>
      loc_eqb (extended a n lo up l r) out && loc_eqb (Gen.extended a n lo up l r) out
  | KMerge l out after =>
      list_eqb loc_eqb (merge_overlapping l) out && list_eqb loc_eqb l after
  | KShift a n p m len =>
      loc_eqb (loc_add a n) p && loc_eqb (loc_sub a n) m && (loc_len a =? len)
      && loc_eqb (Gen.loc_add a n) p && loc_eqb (Gen.loc_sub a n) m && (Gen.loc_len a =? len)
  | KOrder a b lt eq h ge =>
      Bool.eqb (loc_ltb a b) lt && Bool.eqb (loc_eqb a b) eq && implb (loc_eqb a b) h
      && Bool.eqb (loc_leb b a) ge
  | KIndices a out => list_eqb Z.eqb (loc_indices a) out
  | KTuple a t back =>
      let '(s, e, st) := t in
      loc_eqb (from_tuple3 (to_tuple a)) back && loc_eqb (mkLoc s e st) a
  | KWindows w1 w2 out =>
      opt_eqb pair_eqb (windows_overlap w1 w2) out && opt_eqb pair_eqb (Gen.windows_overlap w1 w2) out
  end.
