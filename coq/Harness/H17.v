(* Correspondence cases for C17. *)
From Coq Require Import ZArith QArith Bool List.
From DC Require Import Model.Base Model.Bio Model.Report.
Import ListNotations.
Open Scope Z_scope.
Inductive case17 :=
| KReport (cur orig : dna) (n_edits : Z) (features : list (Z * Z * dna * dna))
          (cst_scores : list Q) (success : bool) (n_failed : Z).
Definition feat_eqb (f : edit_feature) (t : Z * Z * dna * dna) : bool :=
  let '(a, b, bef, aft) := t in
  (ef_start f =? a) && (ef_end f =? b) && seq_eqb (ef_before f) bef && seq_eqb (ef_after f) aft.
Fixpoint all2 {X Y} (f : X -> Y -> bool) (l1 : list X) (l2 : list Y) : bool :=
  match l1, l2 with [], [] => true | x :: l1', y :: l2' => f x y && all2 f l1' l2' | _, _ => false end.
Definition check17 (c : case17) : bool :=
  match c with
  | KReport cur orig n feats scores success nf =>
      (number_of_edits cur orig =? n) && all2 feat_eqb (edit_features cur orig) feats
      && Bool.eqb (summary_is_success scores) success && (success || (failed_count scores =? nf))
  end.
Definition model17 (c : case17) :=
  match c with KReport cur orig _ _ scores _ _ =>
    (number_of_edits cur orig, edit_features cur orig, summary_is_success scores, failed_count scores) end.
