(* Correspondence cases for the solver (C01, C02, C03, C06, C12, C14): the abstract solver of
   Model/Solver.v instantiated with finite oracle tables recorded from the implementation.
   spec := nat (content-interned specification objects). *)
From Coq Require Import ZArith QArith Bool List.
From DC Require Import Model.Base Model.Loc Model.MSpace Model.Solver Harness.H15.
Import ListNotations.
Open Scope Z_scope.

Record attrs := mkAttrs { a_enforced : bool; a_priority : Z; a_best : option Q; a_boost : Q;
                          a_passive : bool; a_accepts_rh : bool; a_has_heuristic : bool }.
Definition default_attrs := mkAttrs false 0 None 1 false true false.

Record tables := mkTables {
  t_ev : list (nat * dna * (Q * option (list loc)));
  t_loc : list (nat * loc * bool * dna * lres nat);
  t_reinit : list (bool * nat * dna * nat);
  t_attr : list (nat * attrs);
  (* results of resolution heuristics, keyed by (constraint, local sequence, index of the heuristic call): (solved?, sequence) *)
  t_heur : list (nat * dna * Z * (bool * dna)) }.

Section Inst.
  Variable tb : tables.
  Definition missing_score : Q := (-(987654321) # 1)%Q.

  Fixpoint lookup_ev (c : nat) (s : dna) (t : list (nat * dna * (Q * option (list loc)))) :=
    match t with
    | [] => (missing_score, None)
    | (c', s', v) :: t' => if Nat.eqb c c' && seq_eqb s s' then v else lookup_ev c s t'
    end.
  Definition ev (c : nat) (s : dna) := lookup_ev c s (t_ev tb).

  Fixpoint lookup_loc (c : nat) (w : loc) (rh : bool) (s : dna) (t : list (nat * loc * bool * dna * lres nat)) :=
    match t with
    | [] => LError
    | (c', w', rh', s', v) :: t' =>
        if Nat.eqb c c' && loc_eqb w w' && Bool.eqb rh rh' && seq_eqb s s' then v
        else lookup_loc c w rh s t'
    end.
  (* the implementation is asked once per (spec, window, rh, sequence); localisation of most
     classes does not depend on the sequence, so fall back to any recorded sequence *)
  Fixpoint lookup_loc_any (c : nat) (w : loc) (rh : bool) (t : list (nat * loc * bool * dna * lres nat)) :=
    match t with
    | [] => LError
    | (c', w', rh', _, v) :: t' =>
        if Nat.eqb c c' && loc_eqb w w' && Bool.eqb rh rh' then v else lookup_loc_any c w rh t'
    end.
  Definition localize (c : nat) (w : loc) (rh : bool) (s : dna) : lres nat :=
    match lookup_loc c w rh s (t_loc tb) with
    | LError => lookup_loc_any c w rh (t_loc tb)
    | r => r
    end.

  Fixpoint lookup_reinit (o : bool) (c : nat) (s : dna) (t : list (bool * nat * dna * nat)) : nat :=
    match t with
    | [] => c
    | (o', c', s', v) :: t' =>
        if Bool.eqb o o' && Nat.eqb c c' && seq_eqb s s' then v else lookup_reinit o c s t'
    end.
  Definition reinit (o : bool) (c : nat) (s : dna) : nat := lookup_reinit o c s (t_reinit tb).

  Fixpoint lookup_attr (c : nat) (t : list (nat * attrs)) : attrs :=
    match t with [] => default_attrs | (c', a) :: t' => if Nat.eqb c c' then a else lookup_attr c t' end.
  Definition attr (c : nat) := lookup_attr c (t_attr tb).

  (* heuristics may draw random numbers of their own (not part of the modelled stream), so the same
     (constraint, sequence) can give different results on different calls.  The recorder puts a
     marker (request RInt (-2), answer = index of the heuristic call) into the oracle stream at
     each heuristic call; the model's heuristic consumes it and looks the result up by that index. *)
  Fixpoint lookup_heur (c : nat) (s : dna) (k : Z) (t : list (nat * dna * Z * (bool * dna)))
    : option (bool * dna) :=
    match t with
    | [] => None
    | (c', s', k', v) :: t' =>
        if Nat.eqb c c' && seq_eqb s s' && (k =? k') then Some v else lookup_heur c s k t'
    end.
  Definition heuristic (c : nat)
    : option (settings -> lproblem nat -> state nat -> outcome * state nat) :=
    if a_has_heuristic (attr c) then
      Some (fun _ lp st =>
              match draw_int (-2) (rng _ st) with
              | None => (OOutOfStream, st)
              | Some (k, r') =>
                  match lookup_heur c (cur _ st) k (t_heur tb) with
                  | Some (true, s') => (ODone, mkState _ s' r' (trace _ st))
                  | Some (false, _) => (ONoSolution, mkState _ (cur _ st) r' (trace _ st))
                  | None => (OPyError 99, st)
                  end
              end)
    else None.

  Definition m_resolve_constraints cfg space cs fc st :=
    resolve_constraints nat Nat.eqb ev localize (fun c => a_accepts_rh (attr c)) reinit
      (fun c => a_enforced (attr c)) (fun c => a_priority (attr c)) heuristic cfg space cs fc st.
  Definition m_optimize cfg space cs os st :=
    optimize nat ev localize reinit (fun c => a_enforced (attr c)) (fun c => a_best (attr c))
      (fun c => a_boost (attr c)) (fun c => a_passive (attr c)) (fun _ => None) cfg space cs os st.
  Definition m_resolve_exhaustive (p : lproblem nat) st :=
    resolve_exhaustive nat ev (fun c => a_enforced (attr c)) p st.
  Definition m_resolve_random cfg (p : lproblem nat) st :=
    resolve_random nat ev (fun c => a_enforced (attr c)) cfg p st.
  Definition m_optimize_exhaustive (p : lproblem nat) st :=
    optimize_exhaustive nat ev (fun c => a_enforced (attr c)) (fun c => a_best (attr c))
      (fun c => a_boost (attr c)) p st.
  Definition m_optimize_random cfg (p : lproblem nat) st :=
    optimize_random nat ev (fun c => a_enforced (attr c)) (fun c => a_best (attr c))
      (fun c => a_boost (attr c)) cfg p st.
End Inst.

(* outcome codes shared with the harness: 0 done, 1 NoSolutionError, 2 other exception *)
Definition ocode (o : outcome) : Z :=
  match o with ODone => 0 | ONoSolution => 1 | OPyError _ => 2 | OOutOfStream => 3 end.

Fixpoint evals_of (tr : list (event nat)) : list (nat * dna) :=
  match tr with
  | [] => []
  | EvEval _ c s :: tr' => (c, s) :: evals_of tr'
  | EvAssign _ _ :: tr' => evals_of tr'
  end.
Definition ne_eqb (a b : nat * dna) : bool := Nat.eqb (fst a) (fst b) && seq_eqb (snd a) (snd b).

(* which entry point *)
Inductive entry := EResolve (final_check : bool) | EOptimize | EResolveExhaustive | EResolveRandom
                 | EOptimizeExhaustive | EOptimizeRandom.

Record run := mkRun {
  run_tables : tables; run_cfg : settings; run_space : space_desc;
  run_constraints : list nat; run_objectives : list nat; run_seq : dna; run_stream : list (list Z);
  run_entry : entry }.

Definition exec (r : run) : outcome * state nat :=
  let st0 := mkState nat (run_seq r) (mkR (run_stream r) []) [] in
  let sp := build (run_space r) in
  let lp := mkLP nat None (run_constraints r) (run_objectives r) sp in
  match run_entry r with
  | EResolve fc => m_resolve_constraints (run_tables r) (run_cfg r) sp (run_constraints r) fc st0
  | EOptimize => m_optimize (run_tables r) (run_cfg r) sp (run_constraints r) (run_objectives r) st0
  | EResolveExhaustive => m_resolve_exhaustive (run_tables r) lp st0
  | EResolveRandom => m_resolve_random (run_tables r) (run_cfg r) lp st0
  | EOptimizeExhaustive => m_optimize_exhaustive (run_tables r) lp st0
  | EOptimizeRandom => m_optimize_random (run_tables r) (run_cfg r) lp st0
  end.

Inductive case01 :=
| KRun (r : run) (code : Z) (final : dna) (evals : list (nat * dna)) (log : list req).

Definition check01 (c : case01) : bool :=
  match c with
  | KRun r code final evals log =>
      let '(o, st) := exec r in
      (ocode o =? code) && seq_eqb (cur _ st) final
      && list_eqb ne_eqb (rev (evals_of (trace _ st))) evals
      && list_eqb req_eqb (r_log (rng _ st)) log
      && match r_stream (rng _ st) with [] => true | _ => false end
  end.

Definition model01 (c : case01) :=
  match c with
  | KRun r _ _ _ _ =>
      let '(o, st) := exec r in
      (ocode o, cur _ st, rev (evals_of (trace _ st)), r_log (rng _ st), List.length (r_stream (rng _ st)))
  end.
