(* Hand model of the solver: dnachisel/DnaOptimizationProblem/mixins/ConstraintsSolverMixin.py
   (resolve_constraints, resolve_constraint, the exhaustive and random local searches, the final
   check) and ObjectivesMaximizerMixin.py (optimize, optimize_objective, optimize_by_exhaustive_search, optimize_by_random_mutations), on top of
   the concrete mutation-space model (Model/MSpace.v).

   Specifications are ABSTRACT: a type [spec] with arbitrary evaluate / localized /
   initialized_on_problem / heuristic functions (Section variables).  Theorems proved in this
   generality hold for every user-defined Specification subclass; the built-in classes are the
   instance Model/Specs.v.  In the correspondence runs the functions are finite tables recorded
   from the implementation, and the model must make exactly the recorded evaluate calls, consume
   exactly the recorded random draws and end in the same sequence.

   Python exceptions on the path are modelled as outcomes:
     ONoSolution  = NoSolutionError,   OPyError k = any other exception (k names the site),
     OOutOfStream = the oracle stream of random draws was shorter than needed (harness artefact). *)
From Coq Require Import ZArith QArith Bool List.
From DC Require Import Model.Base Model.Loc Model.MSpace.
Import ListNotations.
Open Scope Z_scope.

Inductive outcome := ODone | ONoSolution | OPyError (site : Z) | OOutOfStream.


Record settings := mkSettings {
  st_threshold : Z;            (* randomization_threshold *)
  st_max_iters : nat;          (* max_random_iters *)
  st_mutations : Z;            (* mutations_per_iteration *)
  st_extensions : list Z;      (* local_extensions *)
  st_stagnation : option Z }.  (* optimization_stagnation_tolerance *)

Section Solver.
  Variable spec : Type.
  Variable spec_eqb : spec -> spec -> bool.
  (* evaluate: (score, locations) *)
  Variable ev : spec -> dna -> Q * option (list loc).
  (* localized(location, problem=..., with_righthand=rh) called on a problem whose sequence is s *)
  Variable localize : spec -> loc -> bool -> dna -> lres spec.
  Variable accepts_rh : spec -> bool.
  (* initialized_on_problem(local_problem, role): re-initialisation when a local problem is built *)
  Variable reinit : bool (* is_objective *) -> spec -> dna -> spec.
  Variable enforced : spec -> bool.        (* enforced_by_nucleotide_restrictions *)
  Variable priority : spec -> Z.
  Variable best : spec -> option Q.        (* best_possible_score *)
  Variable boost : spec -> Q.
  Variable passive : spec -> bool.         (* optimize_passively *)

  Inductive event := EvEval (c : spec) (s : dna) | EvAssign (s : dna).

  (* mutable part of a problem during a search *)
  Record state := mkState { cur : dna; rng : rstate; trace : list event (* most recent first *) }.

  Definition assign (st : state) (s : dna) : state := mkState s (rng st) (EvAssign s :: trace st).
  Definition evaluate (c : spec) (st : state) : (Q * option (list loc)) * state :=
    (ev c (cur st), mkState (cur st) (rng st) (EvEval c (cur st) :: trace st)).
  Definition passesq (q : Q) : bool := Qle_bool 0 q.

  (* all(c.evaluate(self).passes for c in cs)  -- short-circuits at the first failure *)
  Fixpoint all_pass (cs : list spec) (st : state) : bool * state :=
    match cs with
    | [] => (true, st)
    | c :: cs' =>
        let '(e, st1) := evaluate c st in
        if passesq (fst e) then all_pass cs' st1 else (false, st1)
    end.
  (* all_constraints_pass(autopass=True) *)
  Definition all_constraints_pass (cs : list spec) (st : state) : bool * state :=
    all_pass (filter (fun c => negb (enforced c)) cs) st.

  (* a local problem: constraints with an optional focus constraint (is_focus) first *)
  Record lproblem := mkLP { lp_focus : option (spec * Q (* stored evaluation score *));
                            lp_others : list spec;
                            lp_objectives : list spec;
                            lp_space : mspace }.
  Definition lp_constraints (p : lproblem) : list spec :=
    match lp_focus p with Some (f, _) => f :: lp_others p | None => lp_others p end.

  (* ---------------- resolve_constraints_by_exhaustive_search ---------------- *)
  Fixpoint exhaustive_loop (p : lproblem) (variants : list dna) (st : state) : bool * state :=
    match variants with
    | [] => (false, st)
    | v :: rest =>
        let st1 := assign st v in
        match lp_focus p with
        | Some (f, _) =>
            let '(e, st2) := evaluate f st1 in
            if passesq (fst e) then
              let '(ok, st3) := all_pass (lp_others p) st2 in
              if ok then (true, st3) else exhaustive_loop p rest st3
            else exhaustive_loop p rest st2
        | None =>
            let '(ok, st2) := all_constraints_pass (lp_others p) st1 in
            if ok then (true, st2) else exhaustive_loop p rest st2
        end
    end.
  Definition resolve_exhaustive (p : lproblem) (st : state) : outcome * state :=
    let before := cur st in
    match all_variants (lp_space p) (cur st) with
    | None => (OPyError 1, st)          (* choices_span None / current sub-sequence not a variant *)
    | Some vs =>
        let '(ok, st1) := exhaustive_loop p vs st in
        if ok then (ODone, st1) else (ONoSolution, assign st1 before)
    end.

  (* ---------------- random searches ---------------- *)
  (* constraints_evaluations(autopass=True): enforced constraints get the fake score 1 *)
  Fixpoint evaluations (cs : list spec) (st : state) : list Q * state :=
    match cs with
    | [] => ([], st)
    | c :: cs' =>
        if enforced c then let '(r, st1) := evaluations cs' st in (1%Q :: r, st1)
        else let '(e, st1) := evaluate c st in
             let '(r, st2) := evaluations cs' st1 in (fst e :: r, st2)
    end.
  Definition failing_sum (qs : list Q) : Q :=
    fold_right Qplus 0%Q (filter (fun q => negb (passesq q)) qs).
  Definition all_passq (qs : list Q) : bool := forallb passesq qs.

  Definition mutate (p : lproblem) (n : Z) (st : state) : option state :=
    match apply_random_mutations (lp_space p) n (cur st) (rng st) with
    | Some (s', r') => Some (mkState s' r' (EvAssign s' :: trace st))
    | None => None
    end.

  Fixpoint random_all_loop (iters : nat) (p : lproblem) (n : Z) (evs : list Q) (score : Q) (st : state)
    : outcome * state :=
    match iters with
    | O => (ONoSolution, st)
    | S k =>
        if all_passq evs then (ODone, st)
        else
          let previous := cur st in
          match mutate p n st with
          | None => (OOutOfStream, st)
          | Some st1 =>
              let '(evs', st2) := evaluations (lp_others p) st1 in
              let new_score := failing_sum evs' in
              if Qlt_le_dec score new_score   (* new_score > score *)
              then random_all_loop k p n evs' new_score st2
              else random_all_loop k p n evs' score (assign st2 previous)
          end
    end.

  Fixpoint random_single_loop (iters : nat) (p : lproblem) (n : Z) (f : spec) (score : Q) (st : state)
    : outcome * state :=
    match iters with
    | O => (ONoSolution, st)
    | S k =>
        let previous := cur st in
        match mutate p n st with
        | None => (OOutOfStream, st)
        | Some st1 =>
            let '(e, st2) := evaluate f st1 in
            if Qlt_le_dec score (fst e) then
              let '(ok, st3) := all_pass (lp_others p) st2 in
              if ok then
                (if passesq (fst e) then (ODone, st3) else random_single_loop k p n f (fst e) st3)
              else random_single_loop k p n f score (assign st3 previous)
            else random_single_loop k p n f score (assign st2 previous)
        end
    end.

  Definition resolve_random (cfg : settings) (p : lproblem) (st : state) : outcome * state :=
    match lp_focus p with
    | Some (f, sc) => random_single_loop (st_max_iters cfg) p (st_mutations cfg) f sc st
    | None =>
        let '(evs, st1) := evaluations (lp_others p) st in
        random_all_loop (st_max_iters cfg) p (st_mutations cfg) evs (failing_sum evs) st1
    end.

  (* resolve_constraints_locally *)
  Definition resolve_locally (cfg : settings) (p : lproblem) (st : state) : outcome * state :=
    if space_size_exact (lp_space p) <? st_threshold cfg
    then resolve_exhaustive p st else resolve_random cfg p st.

  (* resolution_heuristic of a constraint (None = the class has none): arbitrary function of the
     local problem and state; it may solve, fail with NoSolutionError, or crash *)
  Variable heuristic : spec -> option (settings -> lproblem -> state -> outcome * state).

  (* ---------------- resolve_constraint ---------------- *)
  Fixpoint localized_passing (cs : list spec) (skip : spec) (w : loc) (st : state) : option (list spec) * state :=
    match cs with
    | [] => (Some [], st)
    | c :: cs' =>
        if spec_eqb c skip || enforced c then localized_passing cs' skip w st
        else
          match localize c w true (cur st) with
          | LError => (None, st)
          | LNone => localized_passing cs' skip w st
          | LSome c' =>
              (* note: the Python code first localizes every constraint, then evaluates; the order
                 of the evaluate calls is the same *)
              let '(e, st1) := evaluate c' st in
              let '(r, st2) := localized_passing cs' skip w st1 in
              (match r with
               | Some l => Some (if passesq (fst e) then c' :: l else l)
               | None => None
               end, st2)
          end
    end.

  (* one (location, extension) attempt.  Result: inl = exception or NoSolutionError propagating out
     of resolve_constraint / solved (break) ; inr = "continue" with the next extension *)
  Inductive attempt := ABreak (st : state) | AContinue (st : state) | ARaise (o : outcome) (st : state).

  Definition attempt_extension (cfg : settings) (space : mspace) (constraints : list spec)
             (c : spec) (location : loc) (next_loc : option loc) (ext : Z) (is_last : bool)
             (st : state) : attempt :=
    let new_location := extended location ext 0 None true true in
    let lspace := ms_localized space (lstart new_location) (lend new_location) in
    if space_size_exact lspace =? 0 then
      (if is_last then ARaise ONoSolution st else AContinue st)
    else
      match choices_span lspace with
      | None => ARaise (OPyError 2) st
      | Some (a, b) =>
          let new_location := mkLoc a b 0 in
          let overlapping :=
            match next_loc with
            | Some nl => match overlap_region nl new_location with Some _ => true | None => false end
            | None => false
            end in
          let rh := negb (overlapping && accepts_rh c) in
          match localize c new_location rh (cur st) with
          | LError => ARaise (OPyError 3) st
          | LNone => AContinue st
          | LSome lc =>
              let '(e, st1) := evaluate lc st in
              if passesq (fst e) then AContinue st1
              else
                match localized_passing constraints c new_location st1 with
                | (None, st2) => ARaise (OPyError 4) st2
                | (Some others, st2) =>
                    let s0 := cur st2 in
                    let lp := mkLP (Some (reinit false lc s0, fst e))
                                   (map (fun o => reinit false o s0) others) [] lspace in
                    let '(o, lst) :=
                      match heuristic c with
                      | Some h => h cfg lp (mkState s0 (rng st2) [])
                      | None => resolve_locally cfg lp (mkState s0 (rng st2) [])
                      end in
                    (* the local problem's events are spliced into the trace; its sequence only
                       replaces the parent's on success *)
                    let st3 := mkState (cur st2) (rng lst) (trace lst ++ trace st2) in
                    match o with
                    | ODone => ABreak (assign st3 (cur lst))
                    | ONoSolution => if is_last then ARaise ONoSolution st3 else AContinue st3
                    | other => ARaise other st3
                    end
                end
          end
      end.

  (* `extension != self.local_extensions[-1]` compares with the LAST configured extension (by value) *)
  Fixpoint try_extensions (cfg : settings) (space : mspace) (constraints : list spec) (c : spec)
           (location : loc) (next_loc : option loc) (last_ext : Z) (exts : list Z) (st : state)
    : outcome * state :=
    match exts with
    | [] => (ODone, st)
    | ext :: rest =>
        match attempt_extension cfg space constraints c location next_loc ext (ext =? last_ext) st with
        | ABreak st' => (ODone, st')
        | AContinue st' => try_extensions cfg space constraints c location next_loc last_ext rest st'
        | ARaise o st' => (o, st')
        end
    end.

  Fixpoint for_locations (cfg : settings) (space : mspace) (constraints : list spec) (c : spec)
           (locs : list loc) (st : state) : outcome * state :=
    match locs with
    | [] => (ODone, st)
    | l :: rest =>
        match try_extensions cfg space constraints c l (hd_error rest)
                             (last (st_extensions cfg) 0) (st_extensions cfg) st with
        | (ODone, st') => for_locations cfg space constraints c rest st'
        | other => other
        end
    end.

  Definition resolve_constraint (cfg : settings) (space : mspace) (constraints : list spec) (c : spec)
             (st : state) : outcome * state :=
    let '(e, st1) := evaluate c st in
    if passesq (fst e) then (ODone, st1)
    else match snd e with
         | None => (ONoSolution, st1)
         | Some ls => for_locations cfg space constraints c (sort_locs ls) st1
         end.

  (* sorted(constraints, key=lambda c: -c.priority): stable *)
  Fixpoint insert_prio (x : spec) (l : list spec) : list spec :=
    match l with
    | [] => [x]
    | y :: l' => if priority x <? priority y then y :: insert_prio x l' else x :: l
    end.
  Definition sort_by_priority (l : list spec) : list spec := fold_right insert_prio [] l.

  Fixpoint resolve_each (cfg : settings) (space : mspace) (constraints todo : list spec) (st : state)
    : outcome * state :=
    match todo with
    | [] => (ODone, st)
    | c :: rest =>
        match resolve_constraint cfg space constraints c st with
        | (ODone, st') => resolve_each cfg space constraints rest st'
        | other => other
        end
    end.

  (* perform_final_constraints_check: every constraint, no autopass, stops at the first failure *)
  (* on failure the error message is built from constraints_text_summary(failed_only=True,
     autopass=False), which evaluates every constraint once more *)
  Fixpoint eval_all (cs : list spec) (st : state) : state :=
    match cs with [] => st | c :: cs' => eval_all cs' (snd (evaluate c st)) end.
  Definition final_check (constraints : list spec) (st : state) : outcome * state :=
    let '(ok, st') := all_pass constraints st in
    if ok then (ODone, st') else (ONoSolution, eval_all constraints st').

  Definition resolve_constraints (cfg : settings) (space : mspace) (constraints : list spec)
             (do_final_check : bool) (st : state) : outcome * state :=
    let todo := sort_by_priority (filter (fun c => negb (enforced c)) constraints) in
    match todo with
    | [] => (ODone, st)          (* `if len(constraints) == 0: return` -- before the final check *)
    | _ =>
        match resolve_each cfg space constraints todo st with
        | (ODone, st') => if do_final_check then final_check constraints st' else (ODone, st')
        | other => other
        end
    end.

  (* ---------------- objectives ---------------- *)
  Fixpoint scores_sum (objs : list spec) (st : state) : Q * state :=
    match objs with
    | [] => (0%Q, st)
    | o :: rest =>
        let '(e, st1) := evaluate o st in
        let '(r, st2) := scores_sum rest st1 in
        ((boost o * fst e + r)%Q, st2)
    end.

  Definition sum_best (objs : list spec) (weighted : bool) : option Q :=
    fold_right (fun o acc => match best o, acc with
                             | Some b, Some a => Some ((if weighted then b * boost o else b) + a)%Q
                             | _, _ => None
                             end) (Some 0%Q) objs.

  (* optimize_by_exhaustive_search; [reached] = early exit at best_possible_score *)
  Fixpoint opt_exhaustive_loop (p : lproblem) (bestsum : option Q) (variants : list dna)
           (best_score : Q) (best_seq : dna) (st : state) : Q * dna * state :=
    match variants with
    | [] => (best_score, best_seq, st)
    | v :: rest =>
        let st1 := assign st v in
        let '(ok, st2) := all_constraints_pass (lp_constraints p) st1 in
        if ok then
          let '(sc, st3) := scores_sum (lp_objectives p) st2 in
          if Qlt_le_dec best_score sc then
            match bestsum with
            | Some b => if Qle_bool b sc then (sc, v, st3)
                        else opt_exhaustive_loop p bestsum rest sc v st3
            | None => opt_exhaustive_loop p bestsum rest sc v st3
            end
          else opt_exhaustive_loop p bestsum rest best_score best_seq st3
        else opt_exhaustive_loop p bestsum rest best_score best_seq st2
    end.
  Definition optimize_exhaustive (p : lproblem) (st : state) : outcome * state :=
    let '(ok, st1) := all_constraints_pass (lp_constraints p) st in
    if negb ok then (ONoSolution, snd (evaluations (lp_constraints p) st1))   (* text summary *)
    else
      let '(sc, st2) := scores_sum (lp_objectives p) st1 in
      match all_variants (lp_space p) (cur st2) with
      | None => (OPyError 5, st2)
      | Some vs =>
          let '(_, bseq, st3) := opt_exhaustive_loop p (sum_best (lp_objectives p) true) vs sc (cur st2) st2 in
          (ODone, assign st3 bseq)
      end.

  Fixpoint opt_random_loop (iters : nat) (p : lproblem) (cfg : settings) (bestsum : option Q)
           (score : Q) (stagnating : Z) (st : state) : outcome * state :=
    match iters with
    | O => (ODone, st)
    | S k =>
        if match bestsum with Some b => Qle_bool b score | None => false end then (ODone, st)
        else if match st_stagnation cfg with Some t => t <? stagnating | None => false end then (ODone, st)
        else
          let previous := cur st in
          match mutate p (st_mutations cfg) st with
          | None => (OOutOfStream, st)
          | Some st1 =>
              let '(ok, st2) := all_constraints_pass (lp_constraints p) st1 in
              if ok then
                let '(sc, st3) := scores_sum (lp_objectives p) st2 in
                if Qlt_le_dec score sc
                then opt_random_loop k p cfg bestsum sc 1 st3
                else opt_random_loop k p cfg bestsum score (stagnating + 1) (assign st3 previous)
              else opt_random_loop k p cfg bestsum score (stagnating + 1) (assign st2 previous)
          end
    end.
  Definition optimize_random (cfg : settings) (p : lproblem) (st : state) : outcome * state :=
    let '(ok, st1) := all_constraints_pass (lp_constraints p) st in
    if negb ok then (OPyError 6, snd (evaluations (lp_constraints p) st1))       (* ValueError *)
    else
      let '(sc, st2) := scores_sum (lp_objectives p) st1 in
      opt_random_loop (st_max_iters cfg) p cfg (sum_best (lp_objectives p) true) sc 0 st2.

  Fixpoint localize_all (cs : list spec) (w : loc) (s : dna) : option (list spec) :=
    match cs with
    | [] => Some []
    | c :: cs' =>
        match localize c w true s, localize_all cs' w s with
        | LError, _ => None
        | _, None => None
        | LNone, Some r => Some r
        | LSome c', Some r => Some (c' :: r)
        end
    end.

  (* optimization_heuristic of an objective *)
  Variable opt_heuristic : spec -> option (settings -> lproblem -> state -> outcome * state).

  Fixpoint optimize_locations (cfg : settings) (space : mspace) (constraints objectives : list spec)
           (obj : spec) (locs : list loc) (st : state) : outcome * state :=
    match locs with
    | [] => (ODone, st)
    | l :: rest =>
        let lspace := ms_localized space (lstart l) (lend l) in
        if space_size_exact lspace =? 0 then optimize_locations cfg space constraints objectives obj rest st
        else
          match choices_span lspace with
          | None => (OPyError 7, st)
          | Some (a, b) =>
              let w := mkLoc a b 0 in
              let s0 := cur st in
              match localize_all constraints w s0,
                    localize_all (filter (fun o => negb (Qeq_bool (boost o) 0)) objectives) w s0 with
              | Some lcs, Some los =>
                  let lp := mkLP None (map (fun c => reinit false c s0) lcs)
                                 (map (fun o => reinit true o s0) los) lspace in
                  let '(o, lst) :=
                    match opt_heuristic obj with
                    | Some h => h cfg lp (mkState s0 (rng st) [])
                    | None =>
                        if space_size_exact lspace <? st_threshold cfg
                        then optimize_exhaustive lp (mkState s0 (rng st) [])
                        else optimize_random cfg lp (mkState s0 (rng st) [])
                    end in
                  let st1 := mkState (cur st) (rng lst) (trace lst ++ trace st) in
                  match o with
                  | ODone => optimize_locations cfg space constraints objectives obj rest (assign st1 (cur lst))
                  | other => (other, st1)
                  end
              | _, _ => (OPyError 8, st)
              end
          end
    end.

  Definition optimize_objective (cfg : settings) (space : mspace) (constraints objectives : list spec)
             (obj : spec) (st : state) : outcome * state :=
    let '(e, st1) := evaluate obj st in
    match best obj with
    | Some b => if Qeq_bool (fst e) b then (ODone, st1)
                else match snd e with
                     | None => (OPyError 9, st1)    (* iterating over None *)
                     | Some ls => optimize_locations cfg space constraints objectives obj ls st1
                     end
    | None => match snd e with
              | None => (OPyError 9, st1)
              | Some ls => optimize_locations cfg space constraints objectives obj ls st1
              end
    end.

  Fixpoint optimize_each (cfg : settings) (space : mspace) (constraints objectives todo : list spec)
           (st : state) : outcome * state :=
    match todo with
    | [] => (ODone, st)
    | o :: rest =>
        match optimize_objective cfg space constraints objectives o st with
        | (ODone, st') => optimize_each cfg space constraints objectives rest st'
        | other => other
        end
    end.
  Definition optimize (cfg : settings) (space : mspace) (constraints objectives : list spec) (st : state)
    : outcome * state :=
    optimize_each cfg space constraints objectives
      (filter (fun o => negb (passive o) && negb (Qeq_bool (boost o) 0)) objectives) st.
End Solver.
