(* Hand model of dnachisel/Location.py (executable definitions only).
   The integer kernels are also regenerated from the source (Generated/GenKernels.v) and
   proved equal to these in Proofs/LocBridge.v on every run. *)
From Coq Require Import ZArith Bool List.
From DC Require Import Model.Base.
Import ListNotations.
Open Scope Z_scope.

(* Location.overlap_region  (Location.py:45-57) *)
Definition overlap_region (a b : loc) : option loc :=
  let l := if lstart b <? lstart a then b else a in
  let r := if lstart b <? lstart a then a else b in
  if lstart r >=? lend l then None
  else Some (mkLoc (lstart r) (Z.min (lend l) (lend r)) (lstrand a)).

(* Location.extended  (Location.py:59-81) *)
Definition extended (a : loc) (n lower : Z) (upper : option Z) (left right : bool) : loc :=
  let lo := if left then Z.max lower (lstart a - n) else lstart a in
  let hi := if right
            then match upper with Some u => Z.min u (lend a + n) | None => lend a + n end
            else lend a in
  mkLoc lo hi (lstrand a).

Definition to_tuple (a : loc) : Z * Z * Z := (lstart a, lend a, lstrand a).
Definition from_tuple3 (t : Z * Z * Z) : loc := let '(s, e, st) := t in mkLoc s e st.
Definition from_tuple2 (t : Z * Z) (default_strand : Z) : loc := let '(s, e) := t in mkLoc s e default_strand.
Definition loc_add (a : loc) (n : Z) : loc := mkLoc (lstart a + n) (lend a + n) (lstrand a).
Definition loc_sub (a : loc) (n : Z) : loc := mkLoc (lstart a - n) (lend a - n) (lstrand a).
Definition loc_len (a : loc) : Z := lend a - lstart a.

(* tuple order used by total_ordering: lexicographic on (start, end, strand) *)
Definition loc_ltb (a b : loc) : bool :=
  if lstart a <? lstart b then true else if lstart b <? lstart a then false
  else if lend a <? lend b then true else if lend b <? lend a then false
  else lstrand a <? lstrand b.
Definition loc_leb (a b : loc) : bool := negb (loc_ltb b a).

(* Location.indices  (Location.py:94-97) *)
Definition loc_indices (a : loc) : list Z :=
  let r := zrange (lstart a) (lend a) in
  if lstrand a =? -1 then rev r else r.

(* membership of a position in the half-open interval *)
Definition in_loc (i : Z) (a : loc) : Prop := lstart a <= i < lend a.
Definition in_locb (i : Z) (a : loc) : bool := (lstart a <=? i) && (i <? lend a).
Definition nonempty (a : loc) : Prop := lstart a < lend a.

(* sorted(locations): insertion sort with the tuple order (stable; equal keys are equal triples) *)
Fixpoint insert_loc (x : loc) (l : list loc) : list loc :=
  match l with
  | [] => [x]
  | y :: l' => if loc_ltb y x then y :: insert_loc x l' else x :: l
  end.
Definition sort_locs (l : list loc) : list loc := fold_right insert_loc [] l.

(* Location.merge_overlapping_locations  (Location.py:130-142), functional version:
   returns the merged list.  [merge_acc cur rest] carries the currently growing location. *)
Fixpoint merge_acc (cur : loc) (rest : list loc) : list loc :=
  match rest with
  | [] => [cur]
  | x :: rest' =>
      match overlap_region cur x with
      | Some _ => merge_acc (mkLoc (lstart cur) (Z.max (lend cur) (lend x)) (lstrand cur)) rest'
      | None => cur :: merge_acc x rest'
      end
  end.
Definition merge_overlapping (l : list loc) : list loc :=
  match sort_locs l with
  | [] => []
  | x :: rest => merge_acc x rest
  end.

(* indices_operations.windows_overlap: note the closed test start2 <= end1 *)
Definition windows_overlap (w1 w2 : Z * Z) : option (Z * Z) :=
  let '(s1, e1) := w1 in let '(s2, e2) := w2 in
  if s2 <? s1 then (if s1 <=? e2 then Some (s1, Z.min e2 e1) else None)
  else if s2 <=? e1 then Some (s2, Z.min e1 e2) else None.
