(* Hand model of dnachisel/biotools: sequences_operations.py, gc_content.py,
   sequences_differences.py, indices_operations.py, biotables.py (executable definitions only).
   Data tables come from Generated/GenTables.v (regenerated from the source on every run). *)
From Coq Require Import ZArith Bool List Ascii String.
From DC Require Import Model.Base Generated.GenTables.
Import ListNotations.
Open Scope Z_scope.

Definition astr := list ascii.   (* general strings: IUPAC patterns, proteins *)

Fixpoint assoc {V} (k : ascii) (t : list (ascii * V)) : option V :=
  match t with
  | [] => None
  | (k', v) :: t' => if Ascii.eqb k k' then Some v else assoc k t'
  end.

Fixpoint mapM {X Y} (f : X -> option Y) (l : list X) : option (list Y) :=
  match l with
  | [] => Some []
  | x :: l' => match f x, mapM f l' with Some y, Some r => Some (y :: r) | _, _ => None end
  end.

(* ---- complement / reverse_complement (sequences_operations.py:15-35) ---- *)
Definition comp_csv (c : ascii) : option ascii := assoc c csv_complements.      (* KeyError -> None *)
Definition comp_bio (c : ascii) : ascii :=
  match assoc c bio_complements with Some d => d | None => c end.
Definition complement (s : astr) : option astr :=
  if zlen s <=? complement_switch then mapM comp_csv s else Some (map comp_bio s).
Definition reverse_complement (s : astr) : option astr := option_map (@rev ascii) (complement s).

(* the same on ACGT sequences *)
Definition ncomp (x : nuc) : nuc := match x with nA => nT | nC => nG | nG => nC | nT => nA end.
Definition rc (s : dna) : dna := rev (map ncomp s).
Definition nuc_ascii (x : nuc) : ascii :=
  match x with nA => "A" | nC => "C" | nG => "G" | nT => "T" end%char.
Definition to_astr (s : dna) : astr := map nuc_ascii s.

(* ---- GC content (gc_content.py) ---- *)
Definition is_gc (x : nuc) : Z := match x with nC | nG => 1 | _ => 0 end.
Definition count_gc (s : dna) : Z := fold_right Z.add 0 (map is_gc s).
Fixpoint cumsum_from (acc : Z) (l : list Z) : list Z :=
  match l with [] => [] | x :: l' => (acc + x) :: cumsum_from (acc + x) l' end.
(* numerators of gc_content(sequence, window_size): (a - b) with a = cs[w-1:], b = [0]+cs[:-w];
   the implementation divides each by w.  numpy broadcasting: a=[] against b=[0] gives []. *)
Definition gc_window_counts (s : dna) (w : Z) : list Z :=
  let cs := cumsum_from 0 (map is_gc s) in
  let a := pyslice cs (w - 1) (zlen cs) in
  let b := 0 :: pyslice cs 0 (- w) in
  map (fun p => fst p - snd p) (combine a b).

(* ---- differences (sequences_differences.py) ---- *)
Fixpoint diff_array (s t : dna) : list bool :=
  match s, t with
  | x :: s', y :: t' => negb (nuc_eqb x y) :: diff_array s' t'
  | _, _ => []
  end.
Definition count_true (l : list bool) : Z := fold_right Z.add 0 (map (fun b : bool => if b then 1 else 0) l).
Definition diff_count (s t : dna) : Z := count_true (diff_array s t).
Fixpoint np_diff (l : list Z) : list Z :=
  match l with
  | x :: ((y :: _) as l') => (y - x) :: np_diff l'
  | _ => []
  end.
Fixpoint nonzero_from (i : Z) (l : list Z) : list Z :=
  match l with
  | [] => []
  | x :: l' => if x =? 0 then nonzero_from (i + 1) l' else i :: nonzero_from (i + 1) l'
  end.
Fixpoint pair_up (l : list Z) : list (Z * Z) :=
  match l with a :: b :: l' => (a, b) :: pair_up l' | _ => [] end.
Definition diff_segments (s t : dna) : list (Z * Z) :=
  let arr := map (fun b : bool => if b then 1 else 0) (diff_array s t) in
  pair_up (nonzero_from 0 (np_diff (0 :: arr ++ [0]))).

(* ---- indices_operations.py ---- *)
(* range(a, b, step) for step >= 1 *)
Definition zrange_step (a b step : Z) : list Z :=
  if b <=? a then [] else
  map (fun k => a + Z.of_nat k * step) (List.seq 0 (Z.to_nat ((b - a + step - 1) / step))).
Fixpoint zip_next (l : list Z) : list (Z * Z) :=
  match l with x :: ((y :: _) as l') => (x, y) :: zip_next l' | _ => [] end.
Definition subdivide_window (a b max_span : Z) : list (Z * Z) :=
  zip_next (zrange_step a b max_span ++ [b]).

Fixpoint insert_z (x : Z) (l : list Z) : list Z :=
  match l with [] => [x] | y :: l' => if y <? x then y :: insert_z x l' else x :: l end.
Definition sort_z (l : list Z) : list Z := fold_right insert_z [] l.

Definition opt_lt (x : Z) (bound : option Z) : bool :=
  match bound with None => true | Some m => x <? m end.

Fixpoint group_from (first last : Z) (cur_rev : list Z) (rest : list Z) (gap spread : option Z) : list (list Z) :=
  match rest with
  | [] => [rev cur_rev]
  | x :: rest' =>
      if opt_lt (x - last) gap && opt_lt (x - first) spread
      then group_from first x (x :: cur_rev) rest' gap spread
      else rev cur_rev :: group_from x x [x] rest' gap spread
  end.
Definition group_nearby_indices (l : list Z) (gap spread : option Z) : list (list Z) :=
  match sort_z l with
  | [] => []
  | x :: rest => group_from x x [x] rest gap spread
  end.

Definition seg_ltb (p q : Z * Z) : bool :=
  if fst p <? fst q then true else if fst q <? fst p then false else snd p <? snd q.
Fixpoint insert_seg (x : Z * Z) (l : list (Z * Z)) : list (Z * Z) :=
  match l with [] => [x] | y :: l' => if seg_ltb y x then y :: insert_seg x l' else x :: l end.
Definition sort_segs (l : list (Z * Z)) : list (Z * Z) := fold_right insert_seg [] l.
Fixpoint sgroup_from (first last : Z) (cur_rev : list (Z * Z)) (rest : list (Z * Z)) (gap spread : option Z)
  : list (list (Z * Z)) :=
  match rest with
  | [] => [rev cur_rev]
  | x :: rest' =>
      if opt_lt (fst x - last) gap && opt_lt (fst x - first) spread
      then sgroup_from first (fst x) (x :: cur_rev) rest' gap spread
      else rev cur_rev :: sgroup_from (fst x) (fst x) [x] rest' gap spread
  end.
Definition group_nearby_segments (l : list (Z * Z)) (gap spread : option Z) : list (list (Z * Z)) :=
  match sort_segs l with
  | [] => []
  | x :: rest => sgroup_from (fst x) (fst x) [x] rest gap spread
  end.

(* ---- genetic codes: translate / reverse_translate (sequences_operations.py:38-95,
        biotables.py:52-68).  Tables without dual-use stop codons only. ---- *)
Fixpoint dna_mem (c : dna) (l : list dna) : bool :=
  match l with [] => false | d :: l' => seq_eqb c d || dna_mem c l' end.
Fixpoint dna_assoc {V} (c : dna) (t : list (dna * V)) : option V :=
  match t with [] => None | (d, v) :: t' => if seq_eqb c d then Some v else dna_assoc c t' end.

Definition no_dual_stop (T : gtable) : bool :=
  forallb (fun c => match dna_assoc c (gt_forward T) with Some _ => false | None => true end) (gt_stops T).

(* Biopython: a codon of the forward table is translated as its amino acid even when it is
   also listed as a stop codon (dual-use tables) *)
Definition codon_aa (T : gtable) (c : dna) : option ascii :=
  match dna_assoc c (gt_forward T) with
  | Some a => Some a
  | None => if dna_mem c (gt_stops T) then Some "*"%char else None
  end.

Fixpoint codons_fuel (fuel : nat) (s : dna) : list dna :=
  match fuel with
  | O => []
  | S f => match s with a :: b :: c :: s' => [a; b; c] :: codons_fuel f s' | _ => [] end
  end.
Definition codons (s : dna) : list dna := codons_fuel (List.length s) s.

Definition translate (T : gtable) (s : dna) : option astr := mapM (codon_aa T) (codons s).
Definition translate_start (T : gtable) (s : dna) (assume_start : bool) : option astr :=
  if assume_start && dna_mem (firstn 3 s) (gt_starts T)
  then option_map (cons "M"%char) (translate T (skipn 3 s))
  else translate T s.

(* get_backtranslation_table: aa -> codons in forward-table order; "*" -> stop codons *)
Definition back_codons (T : gtable) (aa : ascii) : list dna :=
  if Ascii.eqb aa "*" then gt_stops T
  else map fst (filter (fun p => Ascii.eqb (snd p) aa) (gt_forward T)).
(* reverse_translate(protein, randomize_codons): the k-th random number selects
   table[aa][k mod len]; without randomisation every k is 0 *)
Fixpoint reverse_translate (T : gtable) (p : astr) (ks : list Z) : option dna :=
  match p with
  | [] => Some []
  | aa :: p' =>
      let cs := back_codons T aa in
      let k := match ks with k :: _ => k | [] => 0 end in
      match nth_error cs (Z.to_nat (k mod zlen cs)), reverse_translate T p' (tl ks) with
      | Some c, Some r => Some (c ++ r)
      | _, _ => None
      end
  end.

Fixpoint sassoc {V} (k : string) (t : list (string * V)) : option V :=
  match t with [] => None | (k', v) :: t' => if String.eqb k k' then Some v else sassoc k t' end.
Definition table_named (name : string) : option gtable := sassoc name genetic_tables.
