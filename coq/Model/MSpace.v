(* Hand model of dnachisel/MutationSpace (MutationChoice.py, MutationSpace.py).
   Python sets of variants are lists (any order, no duplicates); every place where the code
   iterates a set is either order-independent or sorts first - the model sorts in the same places.
   Random draws come from an oracle stream (recorded from numpy.random in the correspondence runs)
   and every request is logged so that kind and arguments can be compared. *)
From Coq Require Import ZArith Bool List.
From DC Require Import Model.Base Model.Loc Generated.GenTables.
Import ListNotations.
Open Scope Z_scope.

Record choice := mkChoice { cstart : Z; cend : Z; cvariants : list dna; cany : bool }.

Definition choice_eqb (a b : choice) : bool :=
  (cstart a =? cstart b) && (cend a =? cend b) && list_eqb seq_eqb (cvariants a) (cvariants b)
  && Bool.eqb (cany a) (cany b).

Fixpoint dmem (v : dna) (l : list dna) : bool :=
  match l with [] => false | w :: l' => seq_eqb v w || dmem v l' end.
Fixpoint nodup_dna (l : list dna) : list dna :=
  match l with [] => [] | v :: l' => if dmem v l' then nodup_dna l' else v :: nodup_dna l' end.
Fixpoint insert_dna (x : dna) (l : list dna) : list dna :=
  match l with [] => [x] | y :: l' => if seq_ltb y x then y :: insert_dna x l' else x :: l end.
Definition sort_dna (l : list dna) : list dna := fold_right insert_dna [] l.

(* ---- oracle stream of random draws ---- *)
Inductive req := RInt (n : Z) | RChoice (n k : Z).
Record rstate := mkR { r_stream : list (list Z); r_log : list req }.
Definition draw (q : req) (r : rstate) : option (list Z * rstate) :=
  match r_stream r with
  | [] => None                                      (* model asked for more than was recorded *)
  | a :: rest => Some (a, mkR rest (r_log r ++ [q]))
  end.
Definition draw_int (n : Z) (r : rstate) : option (Z * rstate) :=
  match draw (RInt n) r with
  | Some ([v], r') => Some (v, r')
  | _ => None
  end.

(* ---- MutationSpace ---- *)
Record mspace := mkSpace { choices_index : list (option choice) }.

Fixpoint dedupe (prev : option choice) (l : list (option choice)) : list choice :=
  match l with
  | [] => []
  | None :: l' => dedupe prev l'
  | Some c :: l' =>
      match prev with
      | Some p => if choice_eqb c p then dedupe prev l' else c :: dedupe (Some c) l'
      | None => c :: dedupe (Some c) l'
      end
  end.
Definition choices_list (ms : mspace) : list choice := dedupe None (choices_index ms).
Definition nvariants (c : choice) : Z := zlen (cvariants c).
Definition multichoices (ms : mspace) : list choice := filter (fun c => 2 <=? nvariants c) (choices_list ms).
Definition unsolvable_segments (ms : mspace) : list (Z * Z) :=
  map (fun c => (cstart c, cend c)) (filter (fun c => nvariants c =? 0) (choices_list ms)).

Definition choices_span (ms : mspace) : option (Z * Z) :=
  match multichoices ms with
  | [] => None
  | c :: _ => Some (cstart c, cend (last (multichoices ms) c))
  end.

(* space_size, exactly (the implementation computes exp(min(100, sum(log n_i))) in floats) *)
Definition space_size_exact (ms : mspace) : Z :=
  match multichoices ms with
  | [] => 0
  | mc => fold_right Z.mul 1 (map nvariants mc)
  end.

(* localized(location): choices_index[start:end] padded on the left with `start` Nones *)
Definition ms_localized (ms : mspace) (a b : Z) : mspace :=
  mkSpace (repeat None (Z.to_nat a) ++ pyslice (choices_index ms) a b).

(* random_variant *)
Definition random_variant (c : choice) (s : dna) (r : rstate) : option (dna * rstate) :=
  let cur := slice s (cstart c) (cend c) in
  let vs := sort_dna (filter (fun v => negb (seq_eqb v cur)) (cvariants c)) in
  match draw_int (zlen vs) r with
  | Some (k, r') => match nth_error vs (Z.to_nat k) with Some v => Some (v, r') | None => None end
  | None => None
  end.

(* constrain_sequence: Error = "unsolvable" ValueError *)
Inductive cres := COk (s : dna) (r : rstate) | CUnsolvable (a b : Z) | COutOfStream.
Fixpoint constrain_loop (cs : list choice) (orig cur : dna) (r : rstate) : cres :=
  match cs with
  | [] => COk cur r
  | c :: cs' =>
      match cvariants c with
      | [] => CUnsolvable (cstart c) (cend c)
      | [v] => constrain_loop cs' orig (splice cur (cstart c) (cend c) v) r
      | vs =>
          if dmem (pyslice orig (cstart c) (cend c)) vs then constrain_loop cs' orig cur r
          else match draw_int (zlen vs) r with
               | Some (k, r') =>
                   match nth_error (sort_dna vs) (Z.to_nat k) with
                   | Some v => constrain_loop cs' orig (splice cur (cstart c) (cend c) v) r'
                   | None => COutOfStream
                   end
               | None => COutOfStream
               end
      end
  end.
Definition constrain_sequence (ms : mspace) (s : dna) (r : rstate) : cres :=
  constrain_loop (choices_list ms) s s r.

(* pick_random_mutations / apply_random_mutations *)
Fixpoint variants_for (cs : list choice) (s : dna) (r : rstate) : option (list (choice * dna) * rstate) :=
  match cs with
  | [] => Some ([], r)
  | c :: cs' =>
      match random_variant c s r with
      | Some (v, r') =>
          match variants_for cs' s r' with
          | Some (l, r'') => Some ((c, v) :: l, r'')
          | None => None
          end
      | None => None
      end
  end.
Fixpoint nth_all {X} (l : list X) (idx : list Z) : option (list X) :=
  match idx with
  | [] => Some []
  | i :: idx' =>
      match (if i <? 0 then None else nth_error l (Z.to_nat i)), nth_all l idx' with
      | Some x, Some r => Some (x :: r)
      | _, _ => None
      end
  end.
Definition pick_random_mutations (ms : mspace) (n : Z) (s : dna) (r : rstate)
  : option (list (choice * dna) * rstate) :=
  let mc := multichoices ms in
  let n' := Z.min (zlen mc) n in
  if n' =? 1 then
    match draw_int (zlen mc) r with
    | Some (i, r') =>
        match nth_all mc [i] with
        | Some cs => variants_for cs s r'
        | None => None
        end
    | None => None
    end
  else
    match draw (RChoice (zlen mc) n') r with
    | Some (idx, r') =>
        match nth_all mc idx with
        | Some cs => variants_for cs s r'
        | None => None
        end
    | None => None
    end.
Definition apply_mutations (s : dna) (muts : list (choice * dna)) : dna :=
  fold_left (fun acc cv => splice acc (cstart (fst cv)) (cend (fst cv)) (snd cv)) muts s.
Definition apply_random_mutations (ms : mspace) (n : Z) (s : dna) (r : rstate) : option (dna * rstate) :=
  match pick_random_mutations ms n s r with
  | Some (muts, r') => Some (apply_mutations s muts, r')
  | None => None
  end.

(* all_variants: per multichoice, variants sorted by (|rank - rank_current|, variant) where rank is
   the position in sorted(variants); itertools.product order (first slot slowest).
   None = the Python code would raise (current sub-sequence not among the variants -> KeyError). *)
Fixpoint index_of (v : dna) (l : list dna) (i : Z) : option Z :=
  match l with [] => None | w :: l' => if seq_eqb v w then Some i else index_of v l' (i + 1) end.
Definition key_ltb (k1 k2 : Z * dna) : bool :=
  if fst k1 <? fst k2 then true else if fst k2 <? fst k1 then false else seq_ltb (snd k1) (snd k2).
Fixpoint insert_key (x : Z * dna) (l : list (Z * dna)) : list (Z * dna) :=
  match l with [] => [x] | y :: l' => if key_ltb y x then y :: insert_key x l' else x :: l end.
Definition sorted_by_distance (c : choice) (s : dna) : option (list dna) :=
  let alpha := sort_dna (cvariants c) in
  match index_of (slice s (cstart c) (cend c)) alpha 0 with
  | None => None
  | Some rc =>
      Some (map snd (fold_right insert_key []
             (map (fun v => (match index_of v alpha 0 with Some rv => Z.abs (rv - rc) | None => 0 end, v))
                  (cvariants c))))
  end.
Fixpoint product_apply (slots : list (choice * list dna)) (s : dna) : list dna :=
  match slots with
  | [] => [s]
  | (c, vs) :: slots' =>
      flat_map (fun v => product_apply slots' (splice s (cstart c) (cend c) v)) vs
  end.
Fixpoint slots_of (mc : list choice) (s : dna) : option (list (choice * list dna)) :=
  match mc with
  | [] => Some []
  | c :: mc' =>
      match sorted_by_distance c s, slots_of mc' s with
      | Some vs, Some r => Some ((c, vs) :: r)
      | _, _ => None
      end
  end.
Definition all_variants (ms : mspace) (s : dna) : option (list dna) :=
  match choices_span ms with
  | None => Some [s]       (* frozen space: the only variant is the sequence itself *)
  | Some _ => option_map (fun slots => product_apply slots s) (slots_of (multichoices ms) s)
  end.

(* ---- MutationChoice.merge_with / extract_varying_region ---- *)
Definition sort_by_start (l : list choice) : list choice :=
  fold_right (fun x acc =>
    (fix ins (l : list choice) := match l with
       | [] => [x]
       | y :: l' => if cstart y <? cstart x then y :: ins l' else x :: l
       end) acc) [] l.

(* slots: for each other choice, its variants compatible with the candidate on the overlap *)
Definition compatible (self other : choice) (cand v : dna) : bool :=
  match windows_overlap (cstart other, cend other) (cstart self, cend self) with
  | Some (i0, i1) =>
      seq_eqb (pyslice v (i0 - cstart other) (i1 - cstart other))
              (pyslice cand (i0 - cstart self) (i1 - cstart self))
  | None => false    (* the Python code would fail to unpack None: never happens for underlying choices *)
  end.
Fixpoint product_concat (slots : list (list dna)) : list dna :=
  match slots with
  | [] => [[]]
  | vs :: slots' => flat_map (fun v => map (fun rest => v ++ rest) (product_concat slots')) vs
  end.
Definition merge_with (self : choice) (others : list choice) : choice :=
  let others := sort_by_start others in
  match others with
  | [] => self   (* not reachable: others[0] would raise IndexError *)
  | o0 :: _ =>
      let o_start := cstart o0 in
      let o_end := cend (last others o0) in
      let finals :=
        flat_map (fun cand =>
          let slots := map (fun o => filter (compatible self o cand) (cvariants o)) others in
          filter (fun sq_ => seq_eqb (pyslice sq_ (cstart self - o_start) (cend self - o_start)) cand)
                 (product_concat slots))
          (cvariants self) in
      mkChoice o_start o_end (nodup_dna finals) false
  end.

(* first / last position at which some variant differs from the reference (first variant) *)
Definition differs_at (i : nat) (ref : dna) (vs : list dna) : bool :=
  existsb (fun v => match nth_error v i, nth_error ref i with
                    | Some x, Some y => negb (nuc_eqb x y)
                    | None, None => false
                    | _, _ => true
                    end) vs.
Definition extract_varying_region (c : choice) : list choice :=
  match cvariants c with
  | [] | [_] => [c]
  | ref :: vs =>
      let n := List.length ref in
      let idxs := filter (fun i => differs_at i ref vs) (List.seq 0 n) in
      match idxs with
      | [] => [c]     (* not reachable for a set of >= 2 distinct equal-length strings *)
      | i0 :: _ =>
          let st := Z.of_nat i0 in
          let en := Z.of_nat (last idxs i0) + 1 in
          let all := ref :: vs in
          (if 0 <? st then [mkChoice (cstart c) (cstart c + st) [firstn i0 ref] false] else [])
          ++ [mkChoice (cstart c + st) (cstart c + en)
                       (nodup_dna (map (fun v => slice v st en) all)) false]
          ++ (if en <? Z.of_nat n
              then [mkChoice (cstart c + en) (cend c) (nodup_dna (map (fun v => skipn (Z.to_nat en) v) all)) false]
              else [])
      end
  end.

(* ---- MutationSpace.from_optimization_problem ---- *)
Definition nuc_variants (x : nuc) : list nuc :=
  match find (fun p => nuc_eqb (fst p) x) any_nucleotide_variants with
  | Some p => snd p
  | None => []
  end.
Definition initial_index (s : dna) : list (option choice) :=
  map (fun ix => Some (mkChoice (fst ix) (fst ix + 1) (map (fun y => [y]) (nuc_variants (snd ix))) true))
      (combine (zrange 0 (zlen s)) s).

(* stable sort of the restriction choices by (length, start) *)
Definition rkey_ltb (a b : choice) : bool :=
  let la := cend a - cstart a in let lb := cend b - cstart b in
  if la <? lb then true else if lb <? la then false else cstart a <? cstart b.
Fixpoint insert_stable (x : choice) (l : list choice) : list choice :=
  match l with
  | [] => [x]
  | y :: l' => if rkey_ltb y x then y :: insert_stable x l' else x :: l
  end.
Definition sort_restrictions (l : list choice) : list choice := fold_right insert_stable [] l.

Definition set_range {X} (l : list X) (a b : Z) (v : X) : list X :=
  firstn (Z.to_nat a) l ++ repeat v (Z.to_nat (b - a)) ++ skipn (Z.to_nat b) l.

Fixpoint distinct_somes (l : list (option choice)) : list choice :=
  match l with
  | [] => []
  | None :: l' => distinct_somes l'
  | Some c :: l' => let r := distinct_somes l' in if existsb (choice_eqb c) r then r else c :: r
  end.

Definition place_choice (idx : list (option choice)) (ch : choice) : list (option choice) :=
  let underlying := pyslice idx (cstart ch) (cend ch) in
  let new_choice :=
    match underlying with
    | [] => ch
    | _ => if forallb (fun o => match o with Some c => cany c | None => false end) underlying
           then ch else merge_with ch (distinct_somes underlying)
    end in
  fold_left (fun acc c =>
      let acc := if zlen acc <? cend c then acc ++ repeat None (Z.to_nat (cend c - zlen acc)) else acc in
      set_range acc (cstart c) (cend c) (Some c))
    (extract_varying_region new_choice) idx.

Definition from_constraints_on (idx : list (option choice)) (restrictions : list choice) : mspace :=
  mkSpace (fold_left place_choice (sort_restrictions restrictions) idx).
Definition from_constraints (s : dna) (restrictions : list choice) : mspace :=
  from_constraints_on (initial_index s) restrictions.

(* membership of a sequence in a space: every choice's segment carries one of its variants *)
Definition in_space (ms : mspace) (s : dna) : bool :=
  forallb (fun c => dmem (slice s (cstart c) (cend c)) (cvariants c)) (choices_list ms).
