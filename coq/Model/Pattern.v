(* Hand model of dnachisel/SequencePattern: SequencePattern.find_matches (strand dispatch,
   coordinate mapping), the overlap-aware scanning loop, DnaNotationPattern (IUPAC letters via the
   generated nucleotide_to_regexpr classes), HomopolymerPattern, RepeatedKmerPattern,
   EnzymeSitePattern (site strings are Biopython data handed in by the harness).
   The regular-expression engine is modelled as "leftmost position at which the fixed-size
   pattern matches" ([first_match]); everything around it is modelled literally. *)
From Coq Require Import ZArith Bool List Ascii String.
From DC Require Import Model.Base Model.Bio Generated.GenTables.
Import ListNotations.
Open Scope Z_scope.

Inductive pattern :=
| PDna (p : astr)            (* DnaNotationPattern / Homopolymer / EnzymeSite *)
| PRepeat (n k : Z).         (* RepeatedKmerPattern(n_repeats, kmer_size): ([ATGC]{k})\1{n-1} *)

Fixpoint amem (c : ascii) (l : list ascii) : bool :=
  match l with [] => false | d :: l' => Ascii.eqb c d || amem c l' end.

(* one pattern letter against one nucleotide: the regex character class of the letter *)
Definition letter_matches (c : ascii) (x : nuc) : bool :=
  match assoc c nucleotide_to_regexpr with
  | Some cls => amem (nuc_ascii x) cls
  | None => false
  end.

(* does the IUPAC word p match a prefix of s ? *)
Fixpoint prefix_matches (p : astr) (s : dna) : bool :=
  match p, s with
  | [], _ => true
  | c :: p', x :: s' => letter_matches c x && prefix_matches p' s'
  | _ :: _, [] => false
  end.

Definition psize (P : pattern) : Z :=
  match P with PDna p => zlen p | PRepeat n k => n * k end.

(* n direct copies of the k-mer at the head of s *)
Fixpoint copies (n : nat) (kmer : dna) : dna :=
  match n with O => [] | S n' => kmer ++ copies n' kmer end.
Definition repeat_at_head (n k : Z) (s : dna) : bool :=
  let kn := Z.to_nat k in
  (n * k <=? zlen s) && seq_eqb (firstn (Z.to_nat (n * k)) s) (copies (Z.to_nat n) (firstn kn s)).

Definition matches_at_head (P : pattern) (s : dna) : bool :=
  match P with
  | PDna p => prefix_matches p s
  | PRepeat n k => repeat_at_head n k s
  end.

(* re.search: leftmost start (offset from the head of s) *)
Fixpoint first_match (P : pattern) (s : dna) : option Z :=
  if matches_at_head P s then Some 0
  else match s with
       | [] => None
       | _ :: s' => option_map Z.succ (first_match P s')
       end.

(* find_matches_in_string, lookahead="loop"  (SequencePattern.py:140-156) *)
Fixpoint scan (fuel : nat) (P : pattern) (s : dna) (pos : Z) : list (Z * Z) :=
  match fuel with
  | O => []
  | S f =>
      match first_match P s with
      | None => []
      | Some i =>
          if i >=? zlen s
          then [(pos + i, pos + i + psize P)]     (* zero-length match at the very end: stop *)
          else (pos + i, pos + i + psize P) :: scan f P (skipn (Z.to_nat (i + 1)) s) (pos + i + 1)
      end
  end.
Definition find_in_string (P : pattern) (s : dna) : list (Z * Z) :=
  scan (S (List.length s)) P s 0.

(* is_palyndromic *)
Definition is_palindromic (P : pattern) : bool :=
  match P with
  | PDna p => match reverse_complement p with Some r => list_eqb Ascii.eqb r p | None => false end
  | PRepeat _ _ => true
  end.

(* find_matches(sequence, location, forced_strand) *)
Definition find_forced (P : pattern) (s : dna) (l : loc) (strand : Z) : list loc :=
  let sub := pyslice s (lstart l) (lend l) in
  if strand =? 1 then
    map (fun m => mkLoc (fst m + lstart l) (snd m + lstart l) 1) (find_in_string P sub)
  else
    map (fun m => mkLoc (lend l - snd m) (lend l - fst m) (-1)) (find_in_string P (rc sub)).

(* find_matches(sequence, location) for location.strand in {1, -1, 0} *)
Definition find_matches (P : pattern) (s : dna) (l : loc) : list loc :=
  if lstrand l =? 1 then find_forced P s l 1
  else if lstrand l =? -1 then
    (if is_palindromic P then find_forced P s l 1 else find_forced P s l (-1))
  else
    find_forced P s l 1 ++ (if is_palindromic P then [] else find_forced P s l (-1)).

(* reference semantics used by the theorems: occurrence of P at absolute position i *)
Definition occurs_fwd (P : pattern) (s : dna) (i : Z) : bool :=
  (0 <=? i) && matches_at_head P (skipn (Z.to_nat i) s).
Definition occurs_rev (P : pattern) (s : dna) (i : Z) : bool :=
  (0 <=? i) && (i + psize P <=? zlen s) && matches_at_head P (rc (slice s i (i + psize P))).

(* IUPAC meaning of a pattern letter, from the generated iupac_notation table *)
Definition iupac_matches (c : ascii) (x : nuc) : bool :=
  match assoc c iupac_notation with
  | Some set => amem (nuc_ascii x) set
  | None => false
  end.
