(* Hand model of dnachisel/builtin_specifications: evaluate / localized / restrict_nucleotides of
   the core built-in classes, on the specification AFTER initialized_on_problem (location known).
   Scores are exact rationals (Q); thresholds are the decimal values the user wrote.
   [None] locations = the evaluation carries no locations (SequenceLengthBounds). *)
From Coq Require Import ZArith QArith Qminmax Qabs Bool List Ascii String.
From DC Require Import Model.Base Model.Loc Model.Bio Model.Pattern Model.MSpace Generated.GenTables.
Import ListNotations.
Open Scope Z_scope.

Record evaluation := mkEv { score : Q; locs : option (list loc) }.
Definition passes (e : evaluation) : bool := Qle_bool 0 (score e).
Definition zq (n : Z) : Q := inject_Z n.

(* Location.extract_sequence *)
Definition extract (l : loc) (s : dna) : dna :=
  let sub := pyslice s (lstart l) (lend l) in
  if lstrand l =? -1 then rc sub else sub.

(* result of spec.localized(...) *)

(* start-codon policy of EnforceTranslation *)
Inductive start_policy := StartNone | StartKeep | StartCodons (cs : list dna).

(* UniquifyAllKmers localization data: per label (location / extended): fixed k-mers, changing indices *)
Record kdata := mkKD { kd_loc_fixed : list dna; kd_loc_changing : list Z;
                       kd_ext_fixed : list dna; kd_ext_changing : list Z }.

Inductive spec :=
| SAvoidPattern (P : pattern) (l : loc)
| SPatternOcc (P : pattern) (occ : Z) (l : loc)
| SGC (mini maxi : Q) (window : option Z) (l : loc)
| STranslation (T : gtable) (l : loc) (translation : astr) (start : start_policy)
| SStopCodons (T : gtable) (l : loc)
| SAvoidChanges (l : loc) (indices : option (list Z)) (target : dna) (max_edits : Z)
| SEnforceChanges (l : loc) (indices : option (list Z)) (reference : dna)
                  (minimum : option Z) (amount : option Q) (amount_percent_is_100 : bool)
| SEnforceSequence (w : astr) (l : loc)
| SEnforceChoice (choices : list dna) (l : loc)
| SRareCodons (freqs : list (dna * Q)) (min_freq : Q) (l : loc)
| SMaximizeCAI (logf : list (dna * Q)) (logbest : list (dna * Q)) (l : loc)
| SHarmonizeRCA (rca : list (dna * Q)) (rca_orig : list (dna * Q)) (synonyms : list (dna * list dna))
                (original_codons : list dna) (l : loc)
| SUniquify (k : Z) (l reference : loc) (include_rc : bool) (data : option kdata)
| SHairpins (stem window : Z) (l : loc)
| STerminalGC (wsize : Z) (mini maxi : Q) (ends : list loc)
| SLength (min_length : Z) (max_length : option Z).

(* ------------------------------------------------------------------ helpers *)
Definition intervals_of (idx : list Z) (spread : Z) : list loc :=
  map (fun g => match g with
                | [] => mkLoc 0 0 1
                | f :: _ => mkLoc f (last g f + 1) 1
                end) (group_nearby_indices idx None (Some spread)).

Definition qsum (l : list Q) : Q := fold_right Qplus 0%Q l.
Fixpoint qassoc (c : dna) (t : list (dna * Q)) : option Q :=
  match t with [] => None | (d, v) :: t' => if seq_eqb c d then Some v else qassoc c t' end.

Fixpoint indices_where {X} (f : X -> bool) (l : list X) (i : Z) : list Z :=
  match l with
  | [] => []
  | x :: l' => if f x then i :: indices_where f l' (i + 1) else indices_where f l' (i + 1)
  end.

(* CodonSpecification.codon_index_to_location *)
Definition codon_loc (l : loc) (i : Z) : loc :=
  if 0 <=? lstrand l then mkLoc (lstart l + 3 * i) (lstart l + 3 * (i + 1)) 1
  else mkLoc (lend l - 3 * (i + 1)) (lend l - 3 * i) (-1).

(* BaseCodonOptimizationClass.codons_indices_to_locations (group spread 3) *)
Definition codons_indices_to_locations (l : loc) (idx : list Z) : list loc :=
  if lstrand l =? -1 then
    map (fun g => match g with [] => mkLoc 0 0 (-1) | f :: _ => mkLoc (f - 3) (last g f) (-1) end)
        (group_nearby_indices (map (fun i => lend l - 3 * i) idx) None (Some 3))
  else
    map (fun g => match g with [] => mkLoc 0 0 0 | f :: _ => mkLoc f (last g f + 3) 0 end)
        (group_nearby_indices (map (fun i => lstart l + 3 * i) idx) None (Some 3)).

(* get_codons: None = ValueError (length not a multiple of 3) *)
Definition get_codons (l : loc) (s : dna) : option (list dna) :=
  let sub := extract l s in
  if (zlen sub) mod 3 =? 0 then Some (codons sub) else None.

(* ------------------------------------------------------------------ evaluate, per class
   [option evaluation]: None = the Python code raises *)

Definition eval_avoid_pattern (P : pattern) (l : loc) (s : dna) : evaluation :=
  let m := find_matches P s l in mkEv (zq (- zlen m)) (Some m).

Definition eval_pattern_occ (P : pattern) (occ : Z) (l : loc) (s : dna) : evaluation :=
  let m := find_matches P s l in mkEv (zq (- Z.abs (zlen m - occ))) (Some [l]).

Definition breach (mini maxi gc : Q) : Q := (Qmax 0 (mini - gc) + Qmax 0 (gc - maxi))%Q.

Definition eval_gc (mini maxi : Q) (window : option Z) (l : loc) (s : dna) : evaluation :=
  let sub := extract l s in
  match window with
  | Some w =>
      let br := map (fun c => breach mini maxi (c # Z.to_pos w)) (gc_window_counts sub w) in
      let starts := map (fun i => lstart l + i) (indices_where (fun b => negb (Qle_bool b 0)) br 0) in
      let ls :=
        match starts with
        | [] => []
        | [st] => [mkLoc st (st + w) 0]
        | _ => map (fun g => match g with
                             | [] => mkLoc 0 0 0
                             | f :: _ => mkLoc (fst f) (snd (last g f)) 0
                             end)
                   (group_nearby_segments (map (fun b => (b, b + w)) starts) None
                                          (Some (Z.max 1 50)))
        end in
      mkEv (- qsum br)%Q (Some ls)
  | None =>
      let b := breach mini maxi (count_gc sub # Z.to_pos (zlen sub)) in
      mkEv (- b)%Q (Some (if Qle_bool b 0 then [] else [mkLoc (lstart l) (lend l) 0]))
  end.

Definition aa_at (t : astr) (i : nat) : option ascii := nth_error t i.
Definition eval_translation (T : gtable) (l : loc) (tr : astr) (start : start_policy) (s : dna)
  : option evaluation :=
  let assume := match start with StartNone => false | _ => true end in
  (* a first codon that the user declared as a start codon reads as Met even if the genetic table
     does not list it as one (the codons restrict_nucleotides allows there) *)
  let declared := match start with
                  | StartCodons cs => dna_mem (firstn 3 (extract l s)) cs
                  | _ => false
                  end in
  match translate_start T (extract l s) assume with
  | None => None
  | Some got0 =>
      let got := match got0 with
                 | _ :: rest => if declared then "M"%char :: rest else got0
                 | [] => got0
                 end in
      let errs := indices_where (fun p => match snd p with
                                          | Some want => negb (Ascii.eqb (fst p) want)
                                          | None => true
                                          end)
                                (combine got (map (fun i => nth_error tr i) (List.seq 0 (List.length got)))) 0 in
      Some (mkEv (zq (- zlen errs)) (Some (map (codon_loc l) errs)))
  end.

Definition eval_stop_codons (T : gtable) (l : loc) (s : dna) : option evaluation :=
  match translate T (extract l s) with
  | None => None
  | Some got =>
      let errs := indices_where (fun a => Ascii.eqb a "*") got 0 in
      Some (mkEv (zq (- zlen errs)) (Some (map (codon_loc l) errs)))
  end.

(* characters of s at the given absolute indices *)
Definition take_indices (s : dna) (idx : list Z) : option dna :=
  mapM (fun i => if i <? 0 then None else nth_error s (Z.to_nat i)) idx.
Definition extract_subsequence (l : loc) (indices : option (list Z)) (s : dna) : option dna :=
  match indices with Some idx => take_indices s idx | None => Some (extract l s) end.

Definition absolute_positions (l : loc) (indices : option (list Z)) (rel : list Z) : list Z :=
  match indices with
  | Some idx => map (fun r => nth (Z.to_nat r) idx 0) rel
  | None => if lstrand l =? -1 then map (fun r => lend l - r) rel else map (fun r => r + lstart l) rel
  end.

Definition eval_avoid_changes (l : loc) (indices : option (list Z)) (target : dna) (max_edits : Z) (s : dna)
  : option evaluation :=
  match extract_subsequence l indices s with
  | None => None
  | Some sub =>
      if negb (zlen sub =? zlen target) then None else
      let rel := indices_where (fun b : bool => b) (diff_array sub target) 0 in
      let pos := absolute_positions l indices rel in
      Some (mkEv (zq (max_edits - zlen pos)) (Some (intervals_of pos 6)))
  end.

Definition eval_enforce_changes (l : loc) (indices : option (list Z)) (reference : dna)
           (minimum : option Z) (amount : option Q) (s : dna) : option evaluation :=
  match extract_subsequence l indices s with
  | None => None
  | Some sub =>
      if negb (zlen sub =? zlen reference) then None else
      let rel := indices_where (fun b : bool => negb b) (diff_array sub reference) 0 in
      let eqs := absolute_positions l indices rel in
      let n_indices := match indices with Some idx => zlen idx | None => loc_len l end in
      let n_diff := n_indices - zlen eqs in
      match minimum, amount with
      | Some m, _ => Some (mkEv (zq (n_diff - m)) (Some [l]))
      | None, Some a =>
          let sc := (- Qabs (zq n_diff - a))%Q in
          let ivs :=
            if Qle_bool (zq n_diff) a then intervals_of eqs 7
            else intervals_of (filter (fun i => negb (existsb (Z.eqb i) eqs)) (loc_indices l)) 7 in
          Some (mkEv sc (Some ivs))
      | None, None => None
      end
  end.

Definition eval_enforce_sequence (w : astr) (l : loc) (s : dna) : evaluation :=
  let sub := extract l s in
  let rel := indices_where (fun p => negb (iupac_matches (snd p) (fst p))) (combine sub w) 0 in
  let pos := if lstrand l =? -1 then map (fun r => lend l - 1 - r) rel
             else map (fun r => r + lstart l) rel in
  mkEv (zq (- zlen rel)) (Some (intervals_of pos 6)).

Definition eval_enforce_choice (choices : list dna) (l : loc) (s : dna) : evaluation :=
  if dmem (extract l s) choices then mkEv 0 (Some []) else mkEv (zq (-1)) (Some [l]).

Definition eval_rare_codons (freqs : list (dna * Q)) (min_freq : Q) (l : loc) (s : dna) : option evaluation :=
  match get_codons l s with
  | None => None
  | Some cods =>
      let is_rare c := match qassoc c freqs with Some f => negb (Qle_bool min_freq f) | None => false end in
      let idx := indices_where is_rare cods 0 in
      let sc := qsum (map (fun c => match qassoc c freqs with Some f => (f - min_freq)%Q | None => 0%Q end)
                          (filter is_rare cods)) in
      Some (mkEv sc (Some (codons_indices_to_locations l idx)))
  end.

(* codon -> amino-acid key shared by logf/logbest: logbest is given per codon by the harness *)
Definition eval_maximize_cai (logf logbest : list (dna * Q)) (l : loc) (s : dna) : option evaluation :=
  match get_codons l s with
  | None => None
  | Some cods =>
      match mapM (fun c => match qassoc c logf, qassoc c logbest with
                           | Some f, Some b => Some (b - f)%Q
                           | _, _ => None
                           end) cods with
      | None => None
      | Some nonopt =>
          match nonopt with
          | [d] => Some (mkEv (- d)%Q (Some (if Qeq_bool d 0 then [] else [l])))
          | _ =>
              let idx := indices_where (fun d => negb (Qeq_bool d 0)) nonopt 0 in
              Some (mkEv (- qsum nonopt)%Q (Some (codons_indices_to_locations l idx)))
          end
      end
  end.

(* HarmonizeRCA (after the fix of F7): discrepancy of codon i = |rca(c_i) - rca_orig(original_i)|;
   a codon is flagged when its discrepancy is not the smallest possible among its synonyms *)
Definition qmin_list (l : list Q) : option Q :=
  match l with [] => None | x :: l' => Some (fold_right Qmin x l') end.
Definition smallest_discrepancy (rca rca_orig : list (dna * Q)) (syn : list (dna * list dna)) (orig : dna) : option Q :=
  match dna_assoc orig syn, qassoc orig rca_orig with
  | Some cs, Some ro =>
      match mapM (fun c => option_map (fun r => Qabs (r - ro)) (qassoc c rca)) cs with
      | Some ds => qmin_list ds
      | None => None
      end
  | _, _ => None
  end.
Definition eval_harmonize (rca rca_orig : list (dna * Q)) (syn : list (dna * list dna))
           (originals : list dna) (l : loc) (s : dna) : option evaluation :=
  match get_codons l s with
  | None => None
  | Some cods =>
      if negb (zlen cods =? zlen originals) then None else
      match mapM (fun p => match qassoc (fst p) rca, qassoc (snd p) rca_orig,
                                 smallest_discrepancy rca rca_orig syn (snd p) with
                           | Some r, Some ro, Some sm => Some (Qabs (ro - r), sm)
                           | _, _, _ => None
                           end) (combine cods originals) with
      | None => None
      | Some ds =>
          match ds with
          | [(d, _)] => Some (mkEv (- d)%Q (Some (if Qeq_bool d 0 then [] else [l])))
          | _ =>
              let idx := indices_where (fun p => negb (Qeq_bool (snd p - fst p) 0)) ds 0 in
              Some (mkEv (- qsum (map fst ds))%Q (Some (codons_indices_to_locations l idx)))
          end
      end
  end.

(* UniquifyAllKmers *)
Definition kmer_at (s : dna) (include_rc : bool) (k i : Z) : dna :=
  let sub := pyslice s i (i + k) in
  if include_rc then
    let L := zlen s in
    let r := pyslice (rc s) (L - i - k) (L - i) in
    if seq_ltb r sub then r else sub
  else sub.
Definition count_dna (v : dna) (l : list dna) : Z := zlen (filter (seq_eqb v) l).

Definition eval_uniquify_global (k : Z) (l reference : loc) (include_rc : bool) (s : dna) : evaluation :=
  let idx := zrange (lstart reference) (lend reference - k + 1) in
  let kmers := map (kmer_at s include_rc k) idx in
  let bad := filter (fun i => (2 <=? count_dna (kmer_at s include_rc k i) kmers)
                              && (lstart l <=? i) && (i <? i + k) && (i + k <=? lend l)) idx in
  mkEv (zq (- zlen bad)) (Some (map (fun i => mkLoc i (i + k) 0) bad)).

(* local evaluation: multiset bookkeeping as in the Python code; the ORDER of reported locations
   depends on dict/set iteration, so the model reports them sorted and the harness sorts too *)
Definition eval_uniquify_local (k : Z) (include_rc : bool) (d : kdata) (s : dna) : evaluation :=
  let km := kmer_at s include_rc k in
  let locv := map (fun i => (km i, i)) (kd_loc_changing d) in
  let extv := map (fun i => (km i, i)) (kd_ext_changing d) in
  let lkeys := nodup_dna (map fst locv) in
  let ekeys := nodup_dna (map fst extv) in
  let idx_of (v : dna) (t : list (dna * Z)) := map snd (filter (fun p => seq_eqb (fst p) v) t) in
  let part1 := flat_map (fun v => let is := idx_of v locv in if 2 <=? zlen is then is else []) lkeys in
  let part2 := flat_map (fun c => flat_map (fun v => if dmem v c then idx_of v locv else []) lkeys)
                        [ekeys; nodup_dna (kd_loc_fixed d); nodup_dna (kd_ext_fixed d)] in
  let part3 := flat_map (fun c => flat_map (fun v => if dmem v c then idx_of v extv else []) ekeys)
                        [lkeys; nodup_dna (kd_loc_fixed d)] in
  let all := sort_z (part1 ++ part2 ++ part3) in
  mkEv (zq (- zlen all)) (Some (map (fun i => mkLoc i (i + k) 0) all)).

(* AvoidHairpins (absolute coordinates, clamped to the segment: after the fixes F15/F17) *)
Fixpoint find_sub (w : dna) (r : dna) (i : Z) : option Z :=
  if (zlen w <=? zlen r) && seq_eqb (firstn (List.length w) r) w then Some i
  else match r with [] => None | _ :: r' => find_sub w r' (i + 1) end.
Definition eval_hairpins (stem window : Z) (l : loc) (s : dna) : evaluation :=
  let sub := extract l s in
  let rev := rc sub in
  let n := zlen sub in
  let hits := flat_map (fun i =>
      let word := pyslice sub i (i + stem) in
      let rest := pyslice rev (- (i + window)) (- (i + stem)) in
      match find_sub word rest 0 with
      | Some index => [(i, Z.min n (i + window - index - 1))]
      | None => []
      end) (zrange 0 (n - stem)) in
  let groups := group_nearby_segments hits None (Some 10) in
  let ls := sort_locs (map (fun g => match g with
                                     | [] => mkLoc 0 0 0
                                     | f :: _ => mkLoc (lstart l + fst f) (lstart l + snd (last g f)) 0
                                     end) groups) in
  mkEv (zq (- zlen hits)) (Some ls).

Definition eval_terminal_gc (mini maxi : Q) (ends : list loc) (s : dna) : evaluation :=
  let per := map (fun e => let sub := extract e s in
                           (e, (- breach mini maxi (count_gc sub # Z.to_pos (zlen sub)))%Q)) ends in
  mkEv (qsum (map snd per)) (Some (map fst (filter (fun p => negb (Qle_bool 0 (snd p))) per))).

Definition eval_length (mn : Z) (mx : option Z) (s : dna) : evaluation :=
  let L := zlen s in
  let ok := match mx with None => mn <=? L | Some m => (mn <=? L) && (L <=? m) end in
  mkEv (zq ((if ok then 1 else 0) - 1)) None.

Definition evaluate (sp : spec) (s : dna) : option evaluation :=
  match sp with
  | SAvoidPattern P l => Some (eval_avoid_pattern P l s)
  | SPatternOcc P occ l => Some (eval_pattern_occ P occ l s)
  | SGC mini maxi w l => Some (eval_gc mini maxi w l s)
  | STranslation T l tr st => eval_translation T l tr st s
  | SStopCodons T l => eval_stop_codons T l s
  | SAvoidChanges l idx tg me => eval_avoid_changes l idx tg me s
  | SEnforceChanges l idx ref mn am _ => eval_enforce_changes l idx ref mn am s
  | SEnforceSequence w l => Some (eval_enforce_sequence w l s)
  | SEnforceChoice cs l => Some (eval_enforce_choice cs l s)
  | SRareCodons fr mf l => eval_rare_codons fr mf l s
  | SMaximizeCAI lf lb l => eval_maximize_cai lf lb l s
  | SHarmonizeRCA r ro syn orig l => eval_harmonize r ro syn orig l s
  | SUniquify k l ref irc None => Some (eval_uniquify_global k l ref irc s)
  | SUniquify k l ref irc (Some d) => Some (eval_uniquify_local k irc d s)
  | SHairpins st w l => Some (eval_hairpins st w l s)
  | STerminalGC _ mini maxi ends => Some (eval_terminal_gc mini maxi ends s)
  | SLength mn mx => Some (eval_length mn mx s)
  end.

(* ------------------------------------------------------------------ localized *)

(* CodonSpecification.localized: codon-aligned span of the overlap and the codon index range.
   int(x / 3) truncates toward zero: Z.quot *)
Definition codon_window (l w : loc) : option (loc * Z * Z) :=
  match overlap_region l w with
  | None => None
  | Some o =>
      if negb (lstrand l =? -1) then
        let sc := Z.quot (lstart o - lstart l) 3 in
        let ec := Z.quot (lend o - lstart l - 1) 3 + 1 in
        Some (mkLoc (lstart l + 3 * sc) (Z.min (lend l) (lstart l + 3 * ec)) (lstrand l), sc, ec)
      else
        let sc := Z.quot (lend l - lend o) 3 in
        let ec := Z.quot (lend l - lstart o - 1) 3 + 1 in
        Some (mkLoc (Z.max (lstart l) (lend l - 3 * ec)) (lend l - 3 * sc) (lstrand l), sc, ec)
  end.

Definition filter_indices (idx : list Z) (data : dna) (a b : Z) : list Z * dna :=
  let keep := filter (fun p => (a <=? fst p) && (fst p <? b)) (combine idx data) in
  (map fst keep, map snd keep).

(* window-extension pattern shared by AvoidPattern and EnforceGCContent *)
Definition extended_overlap (l w : loc) (ext : Z) (with_righthand : bool) : option loc :=
  overlap_region l (extended w ext 0 None true with_righthand).

Definition uniq_localized (k : Z) (l reference : loc) (include_rc : bool) (w : loc) (rh : bool) (s : dna)
  : lres spec :=
  match overlap_region w reference with
  | None => LNone
  | Some _ =>
      let ref' := extended w (k - 1) 0 None true rh in
      match overlap_region ref' reference with
      | None => LError                     (* changing_kmers_zone.indices on None *)
      | Some zone =>
          (* k-mer start positions as ranges, whatever the strands (after fix F19) *)
          let changing := zrange (lstart zone) (lend zone - k + 1) in
          let km := kmer_at s include_rc k in
          let part (lc : loc) :=
            let all := zrange (lstart lc) (lend lc - k + 1) in
            let fixed := filter (fun i => negb (existsb (Z.eqb i) changing)) all in
            let chg := filter (fun i => existsb (Z.eqb i) changing) all in
            (map km fixed, chg) in
          let '(lf, lchg) := part l in
          let '(ef, echg) := part reference in
          let echg' := filter (fun i => negb (existsb (Z.eqb i) lchg)) echg in
          LSome (SUniquify k zone reference include_rc
                   (Some (mkKD (nodup_dna lf) (sort_z lchg) (nodup_dna ef) (sort_z echg'))))
      end
  end.

(* accepts_righthand: does the class's localized() accept the keyword with_righthand ?
   (resolve_constraint passes it when the next breach overlaps) *)
Definition accepts_righthand (sp : spec) : bool :=
  match sp with
  | SPatternOcc _ _ _ | SEnforceSequence _ _ | STerminalGC _ _ _ _ | SLength _ _ => false
  | _ => true
  end.

Definition localized_raw (sp : spec) (w : loc) (rh : bool) (s : dna) : lres spec :=
  match sp with
  | SAvoidPattern P l =>
      match overlap_region l w with
      | None => LNone
      | Some _ =>
          match extended_overlap l w (psize P - 1) rh with
          | Some nl => LSome (SAvoidPattern P nl)
          | None => LError
          end
      end
  | SPatternOcc P occ l =>
      match overlap_region l w with None => LNone | Some _ => LSome sp end
  | SGC mini maxi None l => LSome sp
  | SGC mini maxi (Some win) l =>
      match overlap_region l w with
      | None => LNone
      | Some _ =>
          match extended_overlap l w (win - 1) rh with
          | Some nl => LSome (SGC mini maxi (Some win) nl)
          | None => LError
          end
      end
  | STranslation T l tr st =>
      match codon_window l w with
      | None => LNone
      | Some (nl, sc, ec) =>
          let at_start := if lstrand l =? -1 then lend l <=? lend nl else lstart nl <=? lstart l in
          (* the localized copy is rebuilt through __init__, which turns a strand outside {-1, 1} into 1 *)
          let nl' := mkLoc (lstart nl) (lend nl) (if lstrand nl =? -1 then -1 else 1) in
          LSome (STranslation T nl' (pyslice tr sc ec) (if at_start then st else StartNone))
      end
  | SStopCodons T l =>
      match codon_window l w with None => LNone | Some (nl, _, _) => LSome (SStopCodons T nl) end
  | SAvoidChanges l idx tg me =>
      if negb (me =? 0) then LSome sp else
      match idx with
      | Some ix => let '(ni, nt) := filter_indices ix tg (lstart w) (lend w) in
                   LSome (SAvoidChanges l (Some ni) nt me)
      | None =>
          match overlap_region l w with
          | None => LNone
          | Some nl => LSome (SAvoidChanges nl None (extract (loc_add nl (- lstart l)) tg) me)
          end
      end
  | SEnforceChanges l idx ref mn am is100 =>
      (* [is100] stands for "the percent parameter of the active mode is 100": amount_percent for an
         objective (mn = None), minimum_percent for a constraint (mn = Some _).  localized() tests
         amount_percent only, so a constraint-mode instance localizes to itself. *)
      if negb is100 || (match mn with Some _ => true | None => false end) then LSome sp else
      match idx with
      | Some ix => let '(ni, nr) := filter_indices ix ref (lstart w) (lend w) in
                   LSome (SEnforceChanges l (Some ni) nr
                            (option_map (fun _ => zlen ni) mn) (option_map (fun _ => zq (zlen ni)) am) is100)
      | None =>
          match overlap_region l w with
          | None => LNone
          | Some nl => LSome (SEnforceChanges nl None (extract (loc_add nl (- lstart l)) ref)
                                (option_map (fun _ => loc_len w) mn)
                                (option_map (fun _ => zq (loc_len w)) am) is100)
          end
      end
  | SEnforceSequence wd l =>
      match overlap_region l w with
      | None => LNone
      | Some nl =>
          let a := if lstrand l =? -1 then lend l - lend nl else lstart nl - lstart l in
          let b := if lstrand l =? -1 then lend l - lstart nl else lend nl - lstart l in
          LSome (SEnforceSequence (pyslice wd a b) nl)
      end
  | SEnforceChoice _ _ => LSome sp
  | SRareCodons fr mf l =>
      match codon_window l w with None => LNone | Some (nl, _, _) => LSome (SRareCodons fr mf nl) end
  | SMaximizeCAI lf lb l =>
      match codon_window l w with None => LNone | Some (nl, _, _) => LSome (SMaximizeCAI lf lb nl) end
  | SHarmonizeRCA r ro syn orig l =>
      match codon_window l w with
      | None => LNone
      | Some (nl, sc, ec) => LSome (SHarmonizeRCA r ro syn (pyslice orig sc ec) nl)
      end
  | SUniquify k l ref irc _ => uniq_localized k l ref irc w rh s
  | SHairpins st win l =>
      match overlap_region l w with
      | None => LNone
      | Some nl =>
          LSome (SHairpins st win
                   (mkLoc (Z.max (lstart l) (lstart nl - win))
                          (if rh then Z.min (lend l) (lend nl + win) else lend nl) (lstrand nl)))
      end
  | STerminalGC ws mini maxi ends =>
      let keep := filter (fun e => match overlap_region w e with Some _ => true | None => false end) ends in
      LSome (STerminalGC ws mini maxi keep)
  | SLength _ _ => LSome sp
  end.

(* the solver passes with_righthand=False only to classes whose localized() accepts the keyword *)
Definition localized (sp : spec) (w : loc) (rh : bool) (s : dna) : lres spec :=
  localized_raw sp w (rh || negb (accepts_righthand sp)) s.

(* ------------------------------------------------------------------ restrict_nucleotides *)
Definition rchoice (a b : Z) (vs : list dna) : choice := mkChoice a b vs false.

Definition other_bases_of (x : nuc) : list dna :=
  match find (fun p => nuc_eqb (fst p) x) other_bases with
  | Some p => map (fun y => [y]) (snd p)
  | None => []
  end.

Definition nucs_of_iupac (c : ascii) : list nuc :=
  filter (iupac_matches c) [nA; nC; nG; nT].

Definition restrict_nucleotides (sp : spec) (max_edits_percent_set : bool) (s : dna) : list choice :=
  match sp with
  | SAvoidChanges l idx _ me =>
      (* (the percent flag no longer matters: the decision is on max_edits, after the fix of F3) *)
      if negb (me =? 0) then [] else
      match idx with
      | Some ix => map (fun i => rchoice i (i + 1) [pyslice s i (i + 1)])
                       (filter (fun i => (lstart l <=? i) && (i <? lend l)) ix)
      | None => [rchoice (lstart l) (lend l) [pyslice s (lstart l) (lend l)]]
      end
  | SEnforceChanges l idx ref (Some _) _ true =>     (* minimum_percent == 100 *)
      let pos := match idx with
                 | Some ix => filter (fun i => (lstart l <=? i) && (i <? lend l)) ix
                 | None => zrange (lstart l) (lend l)
                 end in
      (* the nucleotide to avoid is the one of the reference: dict(zip(positions, reference)), the last
         entry of a repeated position wins; positions the reference does not reach fall back on the sequence *)
      let orig := rev (combine (match idx with
                                | Some ix => ix
                                | None => if lstrand l =? -1 then rev (zrange (lstart l) (lend l)) else zrange (lstart l) (lend l)
                                end) ref) in
      map (fun i => rchoice i (i + 1)
                      (match find (fun p => fst p =? i) orig with
                       | Some p => other_bases_of (snd p)
                       | None => match pyslice s i (i + 1) with [x] => other_bases_of x | _ => [] end
                       end)) pos
  | SEnforceSequence w l =>
      map (fun i =>
             if lstrand l =? -1
             then rchoice i (i + 1) (map (fun x => [ncomp x])
                    (nucs_of_iupac (nth (Z.to_nat (lend l - i - 1)) w "N"%char)))
             else rchoice i (i + 1) (map (fun x => [x])
                    (nucs_of_iupac (nth (Z.to_nat (i - lstart l)) w "N"%char))))
          (zrange (lstart l) (lend l))
  | SEnforceChoice cs l =>
      [rchoice (lstart l) (lend l) (nodup_dna (if lstrand l =? -1 then map rc cs else cs))]
  | SRareCodons fr mf l =>
      let nonrare := map fst (filter (fun p => Qle_bool mf (snd p)) fr) in
      let nonrare := if lstrand l =? -1 then map rc nonrare else nonrare in
      map (fun i => rchoice i (i + 3) (nodup_dna nonrare)) (zrange_step (lstart l) (lend l) 3)
  | STranslation T l tr st =>
      let first_loc := codon_loc l 0 in
      let first_codon := extract first_loc s in
      let first_choices :=
        match st with
        | StartNone => match tr with aa :: _ => back_codons T aa | [] => [] end
        | StartKeep => [first_codon]
        | StartCodons cs => cs
        end in
      let std (lc : loc) (cs : list dna) :=
        rchoice (lstart lc) (lend lc) (nodup_dna (if lstrand lc =? -1 then map rc cs else cs)) in
      let all := std first_loc first_choices ::
                 map (fun p => std (codon_loc l (fst p)) (back_codons T (snd p)))
                     (tl (combine (zrange 0 (zlen tr)) tr)) in
      (* sorted() of (segment, list) pairs: by segment start *)
      fold_right (fun x acc =>
         (fix ins (l0 : list choice) := match l0 with
            | [] => [x]
            | y :: l' => if cstart y <? cstart x then y :: ins l' else x :: l0
            end) acc) [] all
  | _ => []
  end.
