(* Hand model of the annotation-label grammar: Specification.from_label / list_from_label /
   _format_string_value (dnachisel/Specification/FeatureRepresentationMixin.py:56-148).
   Strings are lists of characters. *)
From Coq Require Import ZArith Bool List Ascii String.
Import ListNotations.
Open Scope Z_scope.

Definition str := list ascii.
Definition ch (s : string) : ascii := match s with String c _ => c | EmptyString => " "%char end.
Definition lit (s : string) : str := list_ascii_of_string s.

Fixpoint str_eqb (a b : str) : bool :=
  match a, b with
  | [], [] => true
  | x :: a', y :: b' => Ascii.eqb x y && str_eqb a' b'
  | _, _ => false
  end.
Fixpoint mem (c : ascii) (s : str) : bool :=
  match s with [] => false | d :: s' => Ascii.eqb c d || mem c s' end.

(* str.strip() / regex \S: blank, tab, newline, carriage return, vertical tab, form feed *)
Definition is_space (c : ascii) : bool :=
  mem c [" "%char; ascii_of_nat 9; ascii_of_nat 10; ascii_of_nat 13; ascii_of_nat 11; ascii_of_nat 12].
Fixpoint lstrip (s : str) : str := match s with c :: s' => if is_space c then lstrip s' else s | [] => [] end.
Definition strip (s : str) : str := rev (lstrip (rev (lstrip s))).

Fixpoint starts_with (p s : str) : bool :=
  match p, s with
  | [], _ => true
  | x :: p', y :: s' => Ascii.eqb x y && starts_with p' s'
  | _ :: _, [] => false
  end.
Definition ends_with (p s : str) : bool := starts_with (rev p) (rev s).

(* str.split(sep) for a non-empty separator *)
Fixpoint split_aux (fuel : nat) (sep : str) (cur_rev : str) (s : str) : list str :=
  match fuel with
  | O => [rev cur_rev]
  | S f =>
      match s with
      | [] => [rev cur_rev]
      | c :: s' =>
          if starts_with sep s then rev cur_rev :: split_aux f sep [] (skipn (List.length sep) s)
          else split_aux f sep (c :: cur_rev) s'
      end
  end.
Definition split (sep s : str) : list str := split_aux (S (List.length s)) sep [] s.

(* values after _format_string_value *)
Inductive value := VStr (s : str) | VInt (z : Z) | VFloat (text : str) | VList (l : list value).

Definition is_digit (c : ascii) : bool := mem c (lit "0123456789").
Definition digit_val (c : ascii) : Z := Z.of_nat (nat_of_ascii c) - 48.
Definition all_digits (s : str) : bool := match s with [] => false | _ => forallb is_digit s end.
Definition digits_val (s : str) : Z := fold_left (fun acc c => 10 * acc + digit_val c) s 0.
(* int(value): optional sign followed by digits (other spellings accepted by Python's int() --
   underscores, surrounding blanks -- are outside the modelled grammar) *)
Definition parse_int (s : str) : option Z :=
  match s with
  | c :: s' => if Ascii.eqb c (ch "-") then (if all_digits s' then Some (- digits_val s') else None)
               else if Ascii.eqb c (ch "+") then (if all_digits s' then Some (digits_val s') else None)
               else if all_digits s then Some (digits_val s) else None
  | [] => None
  end.
(* float(value): [sign] digits "." digits  (the decimal notations of the documented grammar) *)
Definition is_decimal (s : str) : bool :=
  let body := match s with c :: s' => if Ascii.eqb c (ch "-") || Ascii.eqb c (ch "+") then s' else s | [] => [] end in
  match split (lit ".") body with
  | [a; b] => (all_digits a && (all_digits b || match b with [] => true | _ => false end))
              || (match a with [] => true | _ => false end) && all_digits b
  | _ => false
  end.

(* re.match(r"'(.*)'", value): starts with a quote and has another quote later; group = up to the LAST quote *)
Fixpoint upto_last_quote (s : str) : option str :=
  match s with
  | [] => None
  | c :: s' =>
      match upto_last_quote s' with
      | Some r => Some (c :: r)
      | None => if Ascii.eqb c (ch "'") then Some [] else None
      end
  end.
Definition quoted_inner (s : str) : option str :=
  match s with
  | c :: s' => if Ascii.eqb c (ch "'") then upto_last_quote s' else None
  | [] => None
  end.

Definition format_atom (s : str) : value :=
  match quoted_inner s with
  | Some inner => VStr inner
  | None => match parse_int s with
            | Some z => VInt z
            | None => if is_decimal s then VFloat s else VStr s
            end
  end.
Definition format_value (s : str) : value :=
  if mem (ch "|") s then VList (map format_atom (split (lit "|") s)) else format_atom s.

Inductive parg := Pos (v : value) | Kw (key : str) (v : value).

(* one argument of the parenthesised list; None = ValueError (more than one ':' resp. '=') *)
Definition parse_arg (a : str) : option parg :=
  if mem (ch ":") a then
    match split (lit ":") a with [k; v] => Some (Kw k (format_value v)) | _ => None end
  else if mem (ch "=") a then
    match split (lit "=") a with [k; v] => Some (Kw k (format_value v)) | _ => None end
  else Some (Pos (format_atom a)).

Fixpoint parse_args (l : list str) : option (list parg) :=
  match l with
  | [] => Some []
  | a :: l' =>
      match a with
      | [] => parse_args l'                          (* empty argument: skipped *)
      | _ => match parse_arg a, parse_args l' with
             | Some p, Some r => Some (p :: r)
             | _, _ => None
             end
      end
  end.

(* regex ([@~])(\S+)(\(.*\)) on one line: role, name = longest run of non-blank characters followed
   by "(" such that a ")" follows; parameters up to the LAST ")" *)
Fixpoint last_index (c : ascii) (s : str) (i : nat) : option nat :=
  match s with
  | [] => None
  | d :: s' => match last_index c s' (S i) with
               | Some j => Some j
               | None => if Ascii.eqb c d then Some i else None
               end
  end.
(* candidates j: rest[0..j) non-blank (j >= 1), rest[j] = "(", and a ")" occurs after j; largest j *)
Fixpoint name_split (fuel : nat) (j : nat) (rest : str) : option (str * str) :=
  match fuel with
  | O => None
  | S f =>
      let here :=
        match nth_error rest j with
        | Some c => if (1 <=? j)%nat && Ascii.eqb c (ch "(") && forallb (fun x => negb (is_space x)) (firstn j rest)
                    then match last_index (ch ")") (skipn (S j) rest) 0 with
                         | Some k => Some (firstn j rest, firstn (S k) (skipn (S j) rest))   (* inner ++ ")" *)
                         | None => None
                         end
                    else None
        | None => None
        end in
      match name_split f (S j) rest with
      | Some r => Some r
      | None => here
      end
  end.

(* from_label: (is_constraint, name, arguments) *)
Definition parse_label (label : str) : option (bool * str * list parg) :=
  let l := strip label in
  let l := if ends_with (lit ")") l then l else l ++ lit "()" in
  match l with
  | r :: rest =>
      if Ascii.eqb r (ch "@") || Ascii.eqb r (ch "~") then
        match name_split (S (List.length rest)) 0 rest with
        | Some (name, inner_close) =>
            (* inner_close = parameters without the opening "(" : drop the final ")" *)
            let inner := removelast inner_close in
            match parse_args (split (lit ", ") inner) with
            | Some args => Some (Ascii.eqb r (ch "@"), name, args)
            | None => None
            end
        | None => None
        end
      else None
  | [] => None
  end.

(* list_from_label *)
Definition parse_labels (label : str) : list (option (bool * str * list parg)) :=
  map parse_label (split (lit "&") label).
