(* Base definitions shared by every model file: nucleotides, sequences, Python slicing,
   the Location record.  Executable definitions only (no proofs). *)
From Coq Require Import ZArith Bool List Ascii String.
Import ListNotations.
Open Scope Z_scope.

Inductive nuc := nA | nC | nG | nT.

Definition nuc_eqb (x y : nuc) : bool :=
  match x, y with nA, nA | nC, nC | nG, nG | nT, nT => true | _, _ => false end.

Definition nuc_rank (x : nuc) : Z := match x with nA => 0 | nC => 1 | nG => 2 | nT => 3 end.

Definition dna := list nuc.

Fixpoint seq_eqb (s t : dna) : bool :=
  match s, t with
  | [], [] => true
  | x :: s', y :: t' => nuc_eqb x y && seq_eqb s' t'
  | _, _ => false
  end.

(* Python string order on ACGT strings (ASCII order A<C<G<T; a proper prefix is smaller) *)
Fixpoint seq_ltb (s t : dna) : bool :=
  match s, t with
  | [], [] => false
  | [], _ :: _ => true
  | _ :: _, [] => false
  | x :: s', y :: t' =>
      if nuc_rank x <? nuc_rank y then true
      else if nuc_rank y <? nuc_rank x then false else seq_ltb s' t'
  end.
Definition seq_leb (s t : dna) : bool := negb (seq_ltb t s).

(* harness-side literal syntax: sq "ACGT"; characters other than ACGT never occur *)
Definition nuc_of_ascii (c : ascii) : nuc :=
  if Ascii.eqb c "C" then nC else if Ascii.eqb c "G" then nG else if Ascii.eqb c "T" then nT else nA.
Fixpoint sq (s : string) : dna :=
  match s with EmptyString => [] | String c s' => nuc_of_ascii c :: sq s' end.

Definition zlen {X} (l : list X) : Z := Z.of_nat (List.length l).

(* Python slice l[a:b] for 0 <= a (negative indices are normalised by [pyslice]) *)
Definition slice {X} (l : list X) (a b : Z) : list X :=
  firstn (Z.to_nat (b - a)) (skipn (Z.to_nat a) l).

Definition norm_idx (n i : Z) : Z :=
  if i <? 0 then Z.max 0 (n + i) else Z.min n i.
Definition pyslice {X} (l : list X) (a b : Z) : list X :=
  let n := zlen l in
  let a' := norm_idx n a in let b' := norm_idx n b in
  slice l a' b'.

(* l[a:b] = v  (bytearray slice assignment of equal length is the only use) *)
Definition splice {X} (l : list X) (a b : Z) (v : list X) : list X :=
  firstn (Z.to_nat a) l ++ v ++ skipn (Z.to_nat (Z.max a b)) l.

(* range(a, b) *)
Definition zrange (a b : Z) : list Z :=
  map (fun k => a + Z.of_nat k) (List.seq 0 (Z.to_nat (b - a))).

Record loc := mkLoc { lstart : Z; lend : Z; lstrand : Z }.

Definition loc_eqb (a b : loc) : bool :=
  (lstart a =? lstart b) && (lend a =? lend b) && (lstrand a =? lstrand b).

(* used by the correspondence harness: indices of the cases on which a boolean check fails *)
Fixpoint bad_from {X} (f : X -> bool) (l : list X) (i : nat) : list nat :=
  match l with
  | [] => []
  | x :: l' => if f x then bad_from f l' (S i) else i :: bad_from f l' (S i)
  end.
Definition bad_indices {X} (f : X -> bool) (l : list X) : list nat := bad_from f l 0%nat.

Fixpoint list_eqb {X} (eqb : X -> X -> bool) (l1 l2 : list X) : bool :=
  match l1, l2 with
  | [], [] => true
  | x :: l1', y :: l2' => eqb x y && list_eqb eqb l1' l2'
  | _, _ => false
  end.
Definition opt_eqb {X} (eqb : X -> X -> bool) (a b : option X) : bool :=
  match a, b with
  | None, None => true
  | Some x, Some y => eqb x y
  | _, _ => false
  end.

(* result of spec.localized(...): None / a specification / the call raises *)
Inductive lres (X : Type) := LNone | LSome (x : X) | LError.
Arguments LNone {X}. Arguments LSome {X} x. Arguments LError {X}.
