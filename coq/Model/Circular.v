(* Hand model of dnachisel/DnaOptimizationProblem/CircularDnaOptimizationProblem.py:
   three-copy view, specification shifting, edit mirroring (return_the_loony), central-copy filter,
   recentring of evaluations, and the final check under the circular evaluation. *)
From Coq Require Import ZArith QArith Bool List.
From DC Require Import Model.Base Model.Loc Model.Bio Model.Pattern Model.MSpace Model.Specs Model.Solver.
Import ListNotations.
Open Scope Z_scope.

Definition triple (s : dna) : dna := s ++ s ++ s.

(* _circularized_specs: a specification spanning the whole sequence gets the location (0, 3L);
   any other one is replaced by its three shifts *)
Definition circularized_locs (L : Z) (l : loc) : list loc :=
  if (lstart l =? 0) && (lend l =? L) then [mkLoc 0 (3 * L) (lstrand l)]
  else [l; loc_add l L; loc_add l (2 * L)].

(* relocation of a built-in specification (Specification.shifted / copy_with_changes) *)
Definition with_loc (sp : spec) (nl : loc) : spec :=
  match sp with
  | SAvoidPattern P _ => SAvoidPattern P nl
  | SPatternOcc P occ _ => SPatternOcc P occ nl
  | SGC mini maxi w _ => SGC mini maxi w nl
  | SStopCodons T _ => SStopCodons T nl
  | SHairpins st w _ => SHairpins st w nl
  | SEnforceSequence w _ => SEnforceSequence w nl
  | SEnforceChoice cs _ => SEnforceChoice cs nl
  | STranslation T _ tr st => STranslation T nl tr st
  | SRareCodons fr mf _ => SRareCodons fr mf nl
  | SMaximizeCAI lf lb _ => SMaximizeCAI lf lb nl
  | other => other       (* not relocated by this model: see [circular_modelled] *)
  end.
Definition spec_location (sp : spec) : option loc :=
  match sp with
  | SAvoidPattern _ l | SPatternOcc _ _ l | SGC _ _ _ l | SStopCodons _ l | SHairpins _ _ l
  | SEnforceSequence _ l | SEnforceChoice _ l | STranslation _ l _ _ | SRareCodons _ _ l
  | SMaximizeCAI _ _ l => Some l
  | _ => None
  end.
(* the classes whose circularization this file models (the correspondence only sends those);
   HarmonizeRCA, UniquifyAllKmers (own shifted()), EnforceTerminalGCContent and SequenceLengthBounds
   (no location: the circular class raises) are outside *)
Definition circular_modelled (sp : spec) : bool :=
  match sp with
  | SHarmonizeRCA _ _ _ _ _ | SUniquify _ _ _ _ _ | STerminalGC _ _ _ _ | SLength _ _ => false
  | _ => true
  end.
(* AvoidChanges.shifted: the location AND the indices move (the target and the allowance stay) *)
Definition shift_avoid_changes (l : loc) (idx : option (list Z)) (tg : dna) (me : Z) (d : Z) : spec :=
  SAvoidChanges (loc_add l d) (option_map (map (fun i => i + d)) idx) tg me.
(* EnforceChanges.shifted: same (the reference, the amounts and the 100 % flag stay) *)
Definition shift_enforce_changes (l : loc) (idx : option (list Z)) (ref : dna) (mn : option Z) (am : option Q)
           (full : bool) (d : Z) : spec :=
  SEnforceChanges (loc_add l d) (option_map (map (fun i => i + d)) idx) ref mn am full.
Definition circularized (L : Z) (sp : spec) : list spec :=
  match sp with
  | SAvoidChanges l idx tg me =>
      (* position-wise specification: never spread over the three copies, one shifted version per copy
         (whole-sequence location included) *)
      map (shift_avoid_changes l idx tg me) [0; L; 2 * L]
  | SEnforceChanges l idx ref mn am full =>
      map (shift_enforce_changes l idx ref mn am full) [0; L; 2 * L]
  | _ =>
    match spec_location sp with
    | Some l => map (with_loc sp) (circularized_locs L l)
    | None => [sp]
    end
  end.

Definition central (L : Z) : loc := mkLoc L (2 * L) 0.
Definition meets_central (L : Z) (l : loc) : bool :=
  match overlap_region l (central L) with Some _ => true | None => false end.

(* _recentered_evaluations: keep the locations meeting the central copy, shifted back by L *)
Definition recenter (L : Z) (e : evaluation) : evaluation :=
  mkEv (score e)
       (option_map (fun ls => map (fun l => loc_sub l L) (filter (meets_central L) ls)) (locs e)).

(* constraints_evaluations of the circular problem (autopass=False): every circularized copy of
   every constraint evaluated on the tripled sequence *)
Definition circular_evaluations (constraints : list spec) (s : dna) : list (option evaluation) :=
  let L := zlen s in
  flat_map (fun sp => map (fun c => option_map (recenter L) (Specs.evaluate c (triple s))) (circularized L sp)) constraints.
Definition circular_all_pass (constraints : list spec) (s : dna) : bool :=
  forallb (fun oe => match oe with Some e => passes e | None => false end) (circular_evaluations constraints s).

(* CircularViewProblem._replace_sequence *)
Definition loony (a b c : nuc) : nuc :=
  if nuc_eqb a b then c else if nuc_eqb a c then b else a.
Fixpoint map3 (f : nuc -> nuc -> nuc -> nuc) (x y z : dna) : dna :=
  match x, y, z with
  | a :: x', b :: y', c :: z' => f a b c :: map3 f x' y' z'
  | _, _, _ => []
  end.
Definition replace_circular (new : dna) : dna :=
  let L := zlen new / 3 in
  triple (map3 loony (slice new 0 L) (slice new L (2 * L)) (slice new (2 * L) (3 * L))).

(* resolve_constraints of the circular problem.  [view_resolve] stands for the loop
   "for c in view.constraints: if c meets the central copy: view.resolve_constraint(c)" run on the
   three-copy view (the linear solver of Model/Solver.v with _replace_sequence = replace_circular):
   it is left abstract here -- the statement below holds whatever it does. *)
Definition circular_resolve (view_resolve : dna -> outcome * dna) (constraints : list spec)
           (final_check : bool) (s : dna) : outcome * dna :=
  let L := zlen s in
  match view_resolve (triple s) with
  | (ODone, s3) =>
      let s' := slice s3 L (2 * L) in
      if final_check then (if circular_all_pass constraints s' then (ODone, s') else (ONoSolution, s'))
      else (ODone, s')
  | (o, _) => (o, s)       (* the exception propagates before self.sequence is assigned *)
  end.
