(* Hand model of the edit accounting and summaries: DnaOptimizationProblem.number_of_edits /
   sequence_edits_as_array, RecordRepresentationMixin.sequence_edits_as_features,
   ProblemConstraintsEvaluations.text_summary_message, SpecEvaluations.scores_sum. *)
From Coq Require Import ZArith QArith Bool List.
From DC Require Import Model.Base Model.Bio.
Import ListNotations.
Open Scope Z_scope.

Definition number_of_edits (current original : dna) : Z := diff_count current original.

(* one feature per maximal run of edited positions, labelled before=>after *)
Record edit_feature := mkEF { ef_start : Z; ef_end : Z; ef_before : dna; ef_after : dna }.
Definition edit_features (current original : dna) : list edit_feature :=
  map (fun p => mkEF (fst p) (snd p) (slice original (fst p) (snd p)) (slice current (fst p) (snd p)))
      (diff_segments current original).

(* text_summary_message: SUCCESS iff no listed evaluation fails; otherwise the number of failures *)
Definition failed_count (scores : list Q) : Z := zlen (filter (fun q => negb (Qle_bool 0 q)) scores).
Definition summary_is_success (scores : list Q) : bool := failed_count scores =? 0.

(* scores_sum: boost-weighted sum *)
Definition objectives_total (boost_scores : list (Q * Q)) : Q :=
  fold_right (fun p acc => (fst p * snd p + acc)%Q) 0%Q boost_scores.
