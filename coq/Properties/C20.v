(* C20 - Scores, pass/optimal flags and declared best scores are mutually consistent.
   (i) passes <-> score >= 0; optimal <-> score = declared best;
   (ii) every modelled class that declares a best possible score declares 0 (constants regenerated
        from the class attributes in the source on every run);
   (iii) in its objective configuration no built-in scores above 0, so that the solver's "nothing
         left to optimize" exits are justified;
   (iv) a sequence that meets the documented goal completely scores exactly 0 (from the C10 formulas). *)
From Coq Require Import ZArith QArith Qminmax Qabs Bool List Ascii String Lia.
From DC Require Import Model.Base Model.Loc Model.Bio Model.Pattern Model.MSpace Model.Specs
                       Generated.GenTables Proofs.SpecsDefs Proofs.SpecsEval Proofs.SpecsLocalA Proofs.SpecsLocalB Proofs.SpecsLocalC.
Import ListNotations.
Open Scope Z_scope.

Definition is_optimal (best : option Q) (e : evaluation) : bool :=
  match best with Some b => Qeq_bool (score e) b | None => false end.

Theorem C20_passes_iff_nonneg : forall e, passes e = true <-> (0 <= score e)%Q.
Proof. exact passes_iff_nonneg. Qed.
Print Assumptions C20_passes_iff_nonneg.

Theorem C20_optimal_iff_best : forall best e,
  is_optimal best e = true <-> exists b, best = Some b /\ (score e == b)%Q.
Proof.
  intros best e. unfold is_optimal. destruct best as [b|].
  - rewrite Qeq_bool_iff. split; [intro H; exists b; split; [reflexivity|exact H] | intros [b' [Hb H]]; inversion Hb; subst; exact H].
  - split; [discriminate | intros [b [Hb _]]; discriminate].
Qed.
Print Assumptions C20_optimal_iff_best.

Theorem C20_declared_best_scores_are_zero :
  forallb (fun p => match sc_best (snd p) with Some b => b =? 0 | None => true end) spec_constants = true.
Proof. exact declared_best_scores_are_zero. Qed.
Print Assumptions C20_declared_best_scores_are_zero.

(* objective configurations: everything except AvoidChanges with an edit allowance and
   EnforceChanges with a minimum (constraint configurations whose score legitimately exceeds 0) *)
Definition objective_configuration (sp : spec) : Prop :=
  match sp with
  | SAvoidChanges _ _ _ me => me = 0
  | SEnforceChanges _ _ _ mn am _ => mn = None /\ am <> None
  | SGC _ _ w _ => match w with Some k => 1 <= k | None => True end
  | SMaximizeCAI lf lb _ => forall c f b, qassoc c lf = Some f -> qassoc c lb = Some b -> (f <= b)%Q
  | _ => True
  end.

Theorem C20_no_sequence_scores_above_the_declared_best : forall sp s e,
  objective_configuration sp -> evaluate sp s = Some e -> (score e <= 0)%Q.
Proof.
  intros sp s e Hc He. destruct sp.
  - cbn [evaluate] in He. inversion He; subst. apply avoid_pattern_nonpos.
  - cbn [evaluate] in He. inversion He; subst. apply pattern_occ_nonpos.
  - cbn [evaluate] in He. inversion He; subst. apply gc_nonpos. exact Hc.
  - cbn [evaluate] in He. exact (translation_nonpos _ _ _ _ _ _ He).
  - cbn [evaluate] in He. exact (stop_codons_nonpos _ _ _ _ He).
  - cbn [objective_configuration] in Hc. subst. exact (avoid_changes_nonpos _ _ _ _ _ He).
  - destruct Hc as [Hmn Ham]. subst. destruct amount as [a|]; [|contradiction].
    exact (enforce_changes_amount_nonpos _ _ _ _ _ _ _ He).
  - cbn [evaluate] in He. inversion He; subst. apply enforce_sequence_nonpos.
  - cbn [evaluate] in He. inversion He; subst. apply enforce_choice_nonpos.
  - cbn [evaluate] in He. exact (rare_codons_nonpos _ _ _ _ _ He).
  - cbn [evaluate] in He. exact (maximize_cai_nonpos _ _ _ _ _ Hc He).
  - cbn [evaluate] in He. exact (harmonize_nonpos _ _ _ _ _ _ _ He).
  - exact (uniquify_nonpos _ _ _ _ _ _ _ He).
  - cbn [evaluate] in He. inversion He; subst. apply hairpins_nonpos.
  - cbn [evaluate] in He. inversion He; subst. apply terminal_gc_nonpos.
  - cbn [evaluate] in He. inversion He; subst. apply length_nonpos.
Qed.
Print Assumptions C20_no_sequence_scores_above_the_declared_best.

(* goal met completely => score exactly the declared best (0) *)
Theorem C20_goal_met_scores_best_avoid_pattern : forall P l s, 1 <= psize P -> loc_in l (zlen s) ->
  n_occ P s l = 0 -> score (eval_avoid_pattern P l s) = 0%Q.
Proof.
  intros P l s Hk Hl H0. destruct (avoid_pattern_meaning P l s Hk Hl) as (Hs & _). rewrite Hs, H0. reflexivity.
Qed.
Print Assumptions C20_goal_met_scores_best_avoid_pattern.

Theorem C20_goal_met_scores_best_gc : forall mini maxi w l s, 1 <= w -> loc_in l (zlen s) -> lstrand l <> -1 ->
  (forall i, In i (zrange (lstart l) (lend l - w + 1)) -> (mini <= gc_frac s i w)%Q /\ (gc_frac s i w <= maxi)%Q) ->
  (score (eval_gc mini maxi (Some w) l s) == 0)%Q.
Proof.
  intros mini maxi w l s Hw Hl Hst Hall.
  destruct (gc_windowed_meaning mini maxi w l s Hw Hl Hst) as (_ & Hp & _).
  apply Hp in Hall. apply passes_iff_nonneg in Hall.
  pose proof (gc_nonpos mini maxi (Some w) l s Hw) as Hle.
  apply Qle_antisym; assumption.
Qed.
Print Assumptions C20_goal_met_scores_best_gc.

Theorem C20_goal_met_scores_best_pattern_occurrence : forall P occ l s, 0 <= psize P -> loc_in l (zlen s) ->
  n_occ P s l = occ -> score (eval_pattern_occ P occ l s) = 0%Q.
Proof.
  intros P occ l s Hk Hl H0. destruct (pattern_occ_meaning P occ l s Hk Hl) as (Hs & _).
  rewrite Hs, H0, Z.sub_diag. reflexivity.
Qed.
Print Assumptions C20_goal_met_scores_best_pattern_occurrence.
