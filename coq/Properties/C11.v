(* C11 - Pattern search finds exactly the occurrences, on the requested strands.
   The regular-expression engine is modelled as "leftmost position at which the fixed-size pattern
   matches" (Model/Pattern.v first_match); the scanning loop, strand dispatch and coordinate
   mapping are modelled literally.  Character classes come from the regenerated csv tables. *)
From Coq Require Import ZArith Bool List Ascii String Lia.
From DC Require Import Model.Base Model.Loc Model.Bio Model.Pattern Generated.GenTables Proofs.PatternProofs.
Import ListNotations.
Open Scope Z_scope.

(* the overlap-aware loop returns every matching position (overlapping ones included), in order *)
Theorem C11_scan_finds_exactly_the_occurrences : forall P s, 0 <= psize P ->
  find_in_string P s =
  map (fun i => (i, i + psize P))
      (filter (fun i => matches_at_head P (skipn (Z.to_nat i) s)) (zrange 0 (zlen s + 1))).
Proof. exact scan_complete. Qed.
Print Assumptions C11_scan_finds_exactly_the_occurrences.

Theorem C11_match_is_local : forall P s, 0 <= psize P ->
  matches_at_head P s = (psize P <=? zlen s) && matches_at_head P (firstn (Z.to_nat (psize P)) s).
Proof. exact matches_at_head_local. Qed.
Print Assumptions C11_match_is_local.

(* strand +1: exactly the forward occurrences lying entirely inside the location *)
Theorem C11_forward_strand : forall P s a b st, 0 <= psize P -> 0 <= a <= b -> b <= zlen s ->
  find_forced P s (mkLoc a b st) 1 =
  map (fun i => mkLoc i (i + psize P) 1)
      (filter (fun i => (i + psize P <=? b) && occurs_fwd P s i) (zrange a (b + 1))).
Proof. exact find_forced_forward. Qed.
Print Assumptions C11_forward_strand.

(* strand -1: exactly the spans whose reverse complement matches, reported with strand -1 *)
Theorem C11_reverse_strand : forall P s a b st, 0 <= psize P -> 0 <= a <= b -> b <= zlen s ->
  find_forced P s (mkLoc a b st) (-1) =
  map (fun i => mkLoc i (i + psize P) (-1))
      (filter (fun i => (a <=? i) && occurs_rev P s i)
              (map (fun j => b - psize P - j) (zrange 0 (b - a + 1)))).
Proof. exact find_forced_reverse. Qed.
Print Assumptions C11_reverse_strand.

(* strand dispatch: +1 forward, -1 reverse (forward if palindromic), 0 both (once if palindromic) *)
Theorem C11_strand_dispatch : forall P s l,
  find_matches P s l =
  if lstrand l =? 1 then find_forced P s l 1
  else if lstrand l =? -1 then (if is_palindromic P then find_forced P s l 1 else find_forced P s l (-1))
  else find_forced P s l 1 ++ (if is_palindromic P then [] else find_forced P s l (-1)).
Proof. exact find_matches_dispatch. Qed.
Print Assumptions C11_strand_dispatch.

(* palindromic patterns: reverse-strand occurrences are the forward ones, so searching once loses
   nothing.  (The side condition excludes only the empty pattern past the end of the sequence.) *)
Theorem C11_palindromes_once : forall p s i,
  Forall (fun c => In c (map fst nucleotide_to_regexpr)) p ->
  is_palindromic (PDna p) = true -> 0 <= i ->
  1 <= psize (PDna p) \/ i <= zlen s ->
  occurs_rev (PDna p) s i = occurs_fwd (PDna p) s i.
Proof. exact palindromic_reverse_is_forward. Qed.
Print Assumptions C11_palindromes_once.

Theorem C11_repeats_are_strand_symmetric : forall n k s i, 0 <= n -> 0 <= k -> 0 <= i ->
  1 <= psize (PRepeat n k) \/ i <= zlen s ->
  occurs_rev (PRepeat n k) s i = occurs_fwd (PRepeat n k) s i.
Proof. exact repeat_reverse_is_forward. Qed.
Print Assumptions C11_repeats_are_strand_symmetric.

(* the regular-expression class of every pattern letter, restricted to ACGT, is its IUPAC set *)
Theorem C11_regex_classes_are_iupac : forall c x,
  In c (map fst nucleotide_to_regexpr) -> letter_matches c x = iupac_matches c x.
Proof. exact regex_class_is_iupac. Qed.
Print Assumptions C11_regex_classes_are_iupac.

Example C11_ex_overlapping :
  find_in_string (PDna (list_ascii_of_string "AAA")) (sq "AAAAA") = [(0, 3); (1, 4); (2, 5)].
Proof. vm_compute. reflexivity. Qed.
Example C11_ex_reverse :
  find_matches (PDna (list_ascii_of_string "CGTCTC")) (sq "AAGAGACGTT") (mkLoc 0 10 0)
  = [mkLoc 2 8 (-1)].
Proof. vm_compute. reflexivity. Qed.
Example C11_ex_palindrome_once :
  find_matches (PDna (list_ascii_of_string "GAATTC")) (sq "TTGAATTCAA") (mkLoc 0 10 0) = [mkLoc 2 8 1].
Proof. vm_compute. reflexivity. Qed.
