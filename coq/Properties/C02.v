(* C02 - optimize() never trades a satisfied constraint for objective score: if every constraint
   passes (fully re-evaluated) before optimize() or one of its building blocks, every constraint
   still passes afterwards -- for every kind of constraint whose localization is [sound] (the C08
   law for constraints that are evaluated; the mutation-space guarantee C04 for those flagged
   enforced_by_nucleotide_restrictions), every objective set, configuration and random stream. *)
From Coq Require Import ZArith QArith Bool List Lia Sorting.Sorted.
From DC Require Import Model.Base Model.Loc Model.MSpace Model.Solver
                       Proofs.MSpaceDefs Proofs.MSpaceA Proofs.MSpaceB Proofs.MSpaceC
                       Proofs.SolverA Proofs.SolverB Proofs.SolverC Proofs.SolverD
                       Model.Specs Proofs.SpecsDefs Proofs.Builtins.
Import ListNotations.
Open Scope Z_scope.

Section AnySpecifications.
  Variable spec : Type.
  Variable spec_eqb : spec -> spec -> bool.
  Variable ev : spec -> dna -> Q * option (list loc).
  Variable localize : spec -> loc -> bool -> dna -> lres spec.
  Variable accepts_rh : spec -> bool.
  Variable reinit : bool -> spec -> dna -> spec.
  Variable enforced : spec -> bool.
  Variable priority : spec -> Z.
  Variable best : spec -> option Q.
  Variable boost : spec -> Q.
  Variable passive : spec -> bool.
  Variable heuristic : spec -> option (settings -> lproblem spec -> state spec -> outcome * state spec).
  Variable opt_heuristic : spec -> option (settings -> lproblem spec -> state spec -> outcome * state spec).
  Variable space : mspace.
  Variable n : Z.
  Hypothesis space_wf : wf_space space.
  Hypothesis space_fits : forall c, In c (choices_list space) -> cend c <= n.

  Theorem C02_optimize_keeps_every_constraint : forall cfg cs objs st o st',
    (forall ob, In ob objs -> opt_heuristic ob = None) ->
    (forall c, In c cs -> sound spec ev localize reinit enforced space n c) ->
    state_good spec space n st ->
    (forall c, In c cs -> passes_c spec ev c (cur _ st)) ->
    optimize spec ev localize reinit enforced best boost passive opt_heuristic cfg space cs objs st = (o, st') ->
    forall c, In c cs -> passes_c spec ev c (cur _ st').
  Proof.
    intros cfg cs objs st o st' Hh Hs Hg Hp Hr.
    eapply optimize_keeps_constraints with (opt_heuristic := opt_heuristic); eassumption.
  Qed.

  Theorem C02_optimize_objective_keeps_every_constraint : forall cfg cs objs ob st o st',
    opt_heuristic ob = None ->
    (forall c, In c cs -> sound spec ev localize reinit enforced space n c) ->
    state_good spec space n st ->
    (forall c, In c cs -> passes_c spec ev c (cur _ st)) ->
    optimize_objective spec ev localize reinit enforced best boost opt_heuristic cfg space cs objs ob st = (o, st') ->
    forall c, In c cs -> passes_c spec ev c (cur _ st').
  Proof.
    intros cfg cs objs ob st o st' Hh Hs Hg Hp Hr.
    eapply optimize_objective_keeps_constraints with (opt_heuristic := opt_heuristic); eassumption.
  Qed.

  Theorem C02_direct_optimizers_keep_every_constraint : forall cfg (p : lproblem spec) st o st',
    lp_space _ p = space -> state_good spec space n st ->
    (forall c t, In c (lp_constraints _ p) -> enforced c = true -> good space n t -> passes_c spec ev c t) ->
    (forall c, In c (lp_constraints _ p) -> passes_c spec ev c (cur _ st)) ->
    (optimize_exhaustive spec ev enforced best boost p st = (o, st') \/
     optimize_random spec ev enforced best boost cfg p st = (o, st')) ->
    forall c, In c (lp_constraints _ p) -> passes_c spec ev c (cur _ st').
  Proof.
    intros cfg p st o st' Hsp Hg Henf Hp Hr.
    eapply direct_optimizers_keep_constraints; eassumption.
  Qed.
End AnySpecifications.
Print Assumptions C02_optimize_keeps_every_constraint.
Print Assumptions C02_optimize_objective_keeps_every_constraint.
Print Assumptions C02_direct_optimizers_keep_every_constraint.


(* ---- Built-in classes: [sound] is a theorem, not an assumption ----
   Same instance as in C03.  For every class with the C08 law (all modelled classes except
   UniquifyAllKmers, AvoidHairpins, HarmonizeRCA) whose localized copies are evaluated by the solver
   (not skipped as enforced by nucleotide restrictions), [sound] follows from C08, hence: *)
Theorem C02_builtin_constraints_are_sound :
  forall (enforced : Specs.spec -> bool) (space : mspace) (n : Z) (c : Specs.spec),
  b08_class c = true -> wf_spec c n -> b08_side c -> evaluable c n ->
  (forall w s c', Specs.localized c w true s = LSome c' -> enforced c' = false) ->
  sound Specs.spec b_ev Specs.localized b_reinit enforced space n c.
Proof. exact builtin_sound. Qed.
Print Assumptions C02_builtin_constraints_are_sound.

Theorem C02_builtin_optimize_keeps_every_constraint :
  forall (enforced : Specs.spec -> bool) (best : Specs.spec -> option Q) (passive : Specs.spec -> bool)
         (space : mspace) (n : Z),
    wf_space space -> (forall c, In c (choices_list space) -> cend c <= n) ->
    forall cfg (cs objs : list Specs.spec) st o st',
    (forall c, In c cs -> b08_class c = true /\ wf_spec c n /\ b08_side c /\ evaluable c n /\
                          (forall w s c', Specs.localized c w true s = LSome c' -> enforced c' = false)) ->
    state_good Specs.spec space n st ->
    (forall c, In c cs -> passes_c Specs.spec b_ev c (cur _ st)) ->
    optimize Specs.spec b_ev Specs.localized b_reinit enforced best b_boost passive (fun _ => None)
             cfg space cs objs st = (o, st') ->
    forall c, In c cs -> passes_c Specs.spec b_ev c (cur _ st').
Proof. exact builtin_optimize_keeps_constraints. Qed.
Print Assumptions C02_builtin_optimize_keeps_every_constraint.

(* classes whose well-formed instances are always evaluable ([evaluable] is then no extra assumption) *)
Theorem C02_wellformed_instances_are_evaluable : forall sp n,
  match sp with
  | SAvoidPattern _ _ | SPatternOcc _ _ _ | SGC _ _ _ _ | SEnforceSequence _ _ | SEnforceChoice _ _
  | SAvoidChanges _ _ _ _ | SLength _ _ => True
  | _ => False
  end -> wf_spec sp n -> evaluable sp n.
Proof. exact wf_evaluable. Qed.
Print Assumptions C02_wellformed_instances_are_evaluable.
