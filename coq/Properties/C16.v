(* placeholder: theorems being added *)
From DC Require Import Model.Base Model.Label.
