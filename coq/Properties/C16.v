(* C16 - Genbank annotations define the same problem as the Python API.
   Theorems: the label grammar of Specification.from_label / list_from_label round-trips -- a
   descriptor (role, name, positional and keyword arguments) rendered in the documented syntax
   ("@"/"~", name, arguments between parentheses separated by ", ", ":" or "=" keywords, "|" lists,
   labels joined by "&", blanks around) is parsed back to the same descriptor, and values are typed as
   documented (quoted -> string, integer, decimal, otherwise bare string).
   Partial: that the parsed descriptor, handed to the class constructors, defines the same
   specifications as a direct constructor call, that names/shorthands resolve to their classes, and
   the Genbank write -> load round trip (Biopython) are decided by the differential run. *)
From Coq Require Import ZArith Bool List Ascii String Lia.
From DC Require Import Model.Base Model.Label Proofs.LabelProofs.
Import ListNotations.
Open Scope Z_scope.

Theorem C16_format_atom_bare : forall s, plain s -> parse_int s = None -> is_decimal s = false ->
  format_atom s = VStr s.
Proof. exact format_atom_bare. Qed.
Print Assumptions C16_format_atom_bare.

Theorem C16_format_atom_quoted : forall s, forallb (fun c => negb (Ascii.eqb c (ch "'"))) s = true ->
  format_atom (ch "'" :: s ++ [ch "'"]) = VStr s.
Proof. exact format_atom_quoted. Qed.
Print Assumptions C16_format_atom_quoted.

Theorem C16_format_atom_int : forall z, format_atom (render_int z) = VInt z.
Proof. exact format_atom_int. Qed.
Print Assumptions C16_format_atom_int.

Theorem C16_format_atom_decimal : forall t, plain t -> is_decimal t = true -> parse_int t = None ->
  format_atom t = VFloat t.
Proof. exact format_atom_decimal. Qed.
Print Assumptions C16_format_atom_decimal.

Theorem C16_split_join_char : forall c l, l <> [] -> Forall (free_of c) l -> split [c] (join [c] l) = l.
Proof. exact split_join_char. Qed.
Print Assumptions C16_split_join_char.

Theorem C16_split_join_comma_space : forall l, l <> [] -> Forall (free_of (ch ",")) l ->
  split (lit ", ") (join (lit ", ") l) = l.
Proof. exact split_join_comma_space. Qed.
Print Assumptions C16_split_join_comma_space.

Theorem C16_format_value_list : forall atoms, (2 <= List.length atoms)%nat -> Forall plain atoms ->
  format_value (join (lit "|") atoms) = VList (map format_atom atoms).
Proof. exact format_value_list. Qed.
Print Assumptions C16_format_value_list.

Theorem C16_parse_keyword_argument : forall (eq : bool) k v, plain k -> plain v ->
  parse_arg (k ++ [if eq then ch "=" else ch ":"] ++ v) = Some (Kw k (format_atom v)).
Proof. exact parse_keyword_argument. Qed.
Print Assumptions C16_parse_keyword_argument.

Theorem C16_parse_positional_argument : forall v, plain v -> parse_arg v = Some (Pos (format_atom v)).
Proof. exact parse_positional_argument. Qed.
Print Assumptions C16_parse_positional_argument.

Theorem C16_parse_label_roundtrip : forall (constraint : bool) name texts args,
  plain name -> Forall2 rendered_arg texts args ->
  parse_label ([if constraint then ch "@" else ch "~"] ++ name ++ lit "(" ++ join (lit ", ") texts ++ lit ")")
  = Some (constraint, name, args).
Proof. exact parse_label_roundtrip. Qed.
Print Assumptions C16_parse_label_roundtrip.

Theorem C16_parse_label_no_parentheses : forall (constraint : bool) name, plain name ->
  parse_label ([if constraint then ch "@" else ch "~"] ++ name) = Some (constraint, name, []).
Proof. exact parse_label_no_parentheses. Qed.
Print Assumptions C16_parse_label_no_parentheses.

Theorem C16_parse_labels_joined : forall labels,
  labels <> [] -> Forall (free_of (ch "&")) labels ->
  parse_labels (join (lit "&") labels) = map parse_label labels.
Proof. exact parse_labels_joined. Qed.
Print Assumptions C16_parse_labels_joined.

Theorem C16_parse_label_ignores_surrounding_blanks : forall l, parse_label (lit " " ++ l ++ lit " ") = parse_label l.
Proof. exact parse_label_ignores_surrounding_blanks. Qed.
Print Assumptions C16_parse_label_ignores_surrounding_blanks.

Example C16_ex :
  parse_labels (lit "@gc(mini:0.25, window=8) & ~keep"%string)
  = [Some (true, lit "gc"%string, [Kw (lit "mini"%string) (VFloat (lit "0.25"%string)); Kw (lit "window"%string) (VInt 8)]);
     Some (false, lit "keep"%string, [])].
Proof. vm_compute. reflexivity. Qed.
