(* C18 - Location arithmetic is exact interval arithmetic.
   Property theorems only; each is closed by [exact <lemma>] and followed by Print Assumptions.
   The kernels overlap_region / extended / to_tuple / + / - / len are ALSO regenerated from the
   current Python source (Generated/GenKernels.v) and the theorems are transported to the
   generated definitions through the bridge lemmas (C18_gen_* below). *)
From Coq Require Import ZArith Bool List Lia Sorting.Sorted.
From DC Require Import Model.Base Model.Loc Generated.GenKernels Proofs.LocBridge Proofs.LocProofs.
Import ListNotations.
Open Scope Z_scope.

Theorem C18_overlap_is_intersection : forall a b r,
  nonempty a -> nonempty b -> overlap_region a b = Some r ->
  (forall i, in_loc i r <-> in_loc i a /\ in_loc i b) /\ lstrand r = lstrand a /\ nonempty r.
Proof. exact overlap_some. Qed.
Print Assumptions C18_overlap_is_intersection.

Theorem C18_overlap_absent_iff_disjoint : forall a b,
  nonempty a -> nonempty b ->
  (overlap_region a b = None <-> forall i, ~ (in_loc i a /\ in_loc i b)).
Proof. exact overlap_none. Qed.
Print Assumptions C18_overlap_absent_iff_disjoint.

Theorem C18_overlap_touching_absent : forall a b,
  lend a = lstart b -> nonempty a -> overlap_region a b = None.
Proof. exact overlap_touching_none. Qed.
Print Assumptions C18_overlap_touching_absent.

Theorem C18_overlap_argument_order : forall a b,
  nonempty a -> nonempty b ->
  match overlap_region a b, overlap_region b a with
  | Some r, Some r' => lstart r = lstart r' /\ lend r = lend r'
  | None, None => True
  | _, _ => False
  end.
Proof. exact overlap_span_sym. Qed.
Print Assumptions C18_overlap_argument_order.

Theorem C18_extended : forall a n lo up left right,
  let r := extended a n lo up left right in
  lstrand r = lstrand a /\
  lstart r = (if left then Z.max lo (lstart a - n) else lstart a) /\
  lend r = (if right then match up with Some u => Z.min u (lend a + n) | None => lend a + n end
            else lend a).
Proof. exact extended_spec. Qed.
Print Assumptions C18_extended.

Theorem C18_merge_overlapping : forall l,
  Forall nonempty l ->
  let out := merge_overlapping l in
  (forall i, covers out i <-> covers l i) /\
  Forall nonempty out /\
  StronglySorted (fun a b => lend a <= lstart b) out.
Proof. exact merge_overlapping_spec. Qed.
Print Assumptions C18_merge_overlapping.

Theorem C18_separated_means_sorted_and_disjoint : forall a b,
  nonempty a -> nonempty b -> lend a <= lstart b ->
  overlap_region a b = None /\ overlap_region b a = None /\ loc_ltb a b = true.
Proof. exact separated_no_overlap. Qed.
Print Assumptions C18_separated_means_sorted_and_disjoint.

Theorem C18_shift_roundtrip : forall a n, loc_sub (loc_add a n) n = a /\ loc_add (loc_sub a n) n = a.
Proof. intros; split; [apply add_sub|apply sub_add]. Qed.
Print Assumptions C18_shift_roundtrip.

Theorem C18_shift_moves_indices : forall a n i,
  (in_loc i a <-> in_loc (i + n) (loc_add a n)) /\ loc_len (loc_add a n) = loc_len a.
Proof. intros; split; [apply add_in_loc|apply add_len]. Qed.
Print Assumptions C18_shift_moves_indices.

Theorem C18_indices : forall a i, In i (loc_indices a) <-> in_loc i a.
Proof. exact in_indices. Qed.
Print Assumptions C18_indices.

Theorem C18_indices_minus_strand_reversed : forall a,
  loc_indices (mkLoc (lstart a) (lend a) (-1)) = rev (loc_indices (mkLoc (lstart a) (lend a) 1)).
Proof. exact indices_minus. Qed.
Print Assumptions C18_indices_minus_strand_reversed.

Theorem C18_tuple_roundtrip : forall a t,
  from_tuple3 (to_tuple a) = a /\ to_tuple (from_tuple3 t) = t.
Proof. intros; split; [apply from_to_tuple|apply to_from_tuple]. Qed.
Print Assumptions C18_tuple_roundtrip.

Theorem C18_eq_is_tuple_eq : forall a b,
  (loc_eqb a b = true <-> a = b) /\ (loc_eqb a b = true <-> to_tuple a = to_tuple b).
Proof. intros; split; [apply loc_eqb_eq|apply loc_eqb_tuple]. Qed.
Print Assumptions C18_eq_is_tuple_eq.

Theorem C18_strict_total_order : forall a b c,
  loc_ltb a a = false /\
  (loc_ltb a b = true -> loc_ltb b c = true -> loc_ltb a c = true) /\
  (loc_ltb a b = true \/ a = b \/ loc_ltb b a = true) /\
  (loc_ltb a b = true -> loc_ltb b a = false).
Proof.
  intros; repeat split;
    [apply loc_ltb_irrefl|apply loc_ltb_trans|apply loc_ltb_total|apply loc_ltb_asym].
Qed.
Print Assumptions C18_strict_total_order.

(* The same statements about the definitions regenerated from the Python source. *)
Theorem C18_gen_overlap_region : forall a b, Gen.overlap_region a b = overlap_region a b.
Proof. exact gen_overlap_region_eq. Qed.
Print Assumptions C18_gen_overlap_region.
Theorem C18_gen_extended : forall a n lo up l r, Gen.extended a n lo up l r = extended a n lo up l r.
Proof. exact gen_extended_eq. Qed.
Print Assumptions C18_gen_extended.
Theorem C18_gen_shift_len_tuple : forall a n,
  Gen.loc_add a n = loc_add a n /\ Gen.loc_sub a n = loc_sub a n /\
  Gen.loc_len a = loc_len a /\ Gen.to_tuple a = to_tuple a.
Proof. intros; repeat split. Qed.
Print Assumptions C18_gen_shift_len_tuple.

(* Non-vacuity: the hypotheses are met by concrete locations, and the functions compute. *)
Example C18_ex_overlap :
  nonempty (mkLoc 2 9 1) /\ nonempty (mkLoc 5 12 (-1)) /\
  overlap_region (mkLoc 2 9 1) (mkLoc 5 12 (-1)) = Some (mkLoc 5 9 1) /\
  overlap_region (mkLoc 2 5 1) (mkLoc 5 12 (-1)) = None.
Proof. unfold nonempty; simpl; repeat split; lia. Qed.
Example C18_ex_merge :
  merge_overlapping [mkLoc 6 9 0; mkLoc 0 3 1; mkLoc 2 5 0; mkLoc 5 7 0]
  = [mkLoc 0 5 1; mkLoc 5 9 0].
Proof. vm_compute. reflexivity. Qed.
