(* C19 - Sequence utilities obey their algebraic laws.
   Property theorems only (each closed by [exact]); tables come from Generated/GenTables.v, which is
   regenerated from /repo (csv files) and the installed Biopython on every run. *)
From Coq Require Import ZArith Bool List Ascii String Lia Sorting.Sorted Permutation.
From DC Require Import Model.Base Model.Bio Generated.GenTables Proofs.BioA Proofs.BioB Proofs.BioC.
Import ListNotations.
Open Scope Z_scope.

(* (i) complement / reverse_complement *)
Theorem C19_complement_is_basewise : forall s,
  Forall (fun c => In c csv_alphabet) s -> complement s = Some (map comp_total s).
Proof. exact complement_basewise. Qed.
Print Assumptions C19_complement_is_basewise.

Theorem C19_reverse_complement_involution : forall s,
  Forall (fun c => In c csv_alphabet /\ c <> "U"%char) s ->
  exists r, reverse_complement s = Some r /\ reverse_complement r = Some s.
Proof. exact reverse_complement_involutive. Qed.
Print Assumptions C19_reverse_complement_involution.

Theorem C19_reverse_complement_on_dna : forall s : dna,
  reverse_complement (to_astr s) = Some (to_astr (rc s)) /\ rc (rc s) = s /\
  List.length (rc s) = List.length s.
Proof. intro s; split; [apply reverse_complement_dna | split; [apply rc_involutive | apply rc_length]]. Qed.
Print Assumptions C19_reverse_complement_on_dna.

(* (ii) translate o reverse_translate = id, for every table without dual-use stop codons,
   every protein over the table's amino acids (and "*"), every stream of random numbers *)
Theorem C19_translate_reverse_translate : forall name T p ks,
  In (name, T) genetic_tables -> no_dual_stop T = true ->
  Forall (aa_known T) p ->
  exists d, reverse_translate T p ks = Some d /\ translate T d = Some p.
Proof. exact translate_reverse_translate. Qed.
Print Assumptions C19_translate_reverse_translate.

Theorem C19_dual_stop_tables_refuted :
  exists name T p, In (name, T) genetic_tables /\ no_dual_stop T = false /\ Forall (aa_known T) p /\
    exists d, reverse_translate T p [] = Some d /\ translate T d <> Some p.
Proof. exact translate_reverse_translate_dual_refuted. Qed.
Print Assumptions C19_dual_stop_tables_refuted.

(* (iii) GC content: the cumulative-sum algorithm yields the counted fraction, one per window *)
Theorem C19_gc_windows : forall (s : dna) w, 1 <= w <= zlen s ->
  gc_window_counts s w = map (fun i => count_gc (slice s i (i + w))) (zrange 0 (zlen s - w + 1))
  /\ zlen (gc_window_counts s w) = zlen s - w + 1.
Proof. intros s w H; split; [apply gc_window_counts_spec | apply gc_window_counts_length]; exact H. Qed.
Print Assumptions C19_gc_windows.

Theorem C19_gc_windows_short_sequence : forall (s : dna) w, zlen s < w -> gc_window_counts s w = [].
Proof. exact gc_window_counts_short. Qed.
Print Assumptions C19_gc_windows_short_sequence.

Theorem C19_gc_count_bounds : forall s : dna, 0 <= count_gc s <= zlen s.
Proof. exact count_gc_bounds. Qed.
Print Assumptions C19_gc_count_bounds.

(* (iv) differences *)
Theorem C19_diff_array : forall s t i, List.length s = List.length t ->
  ((0 <= i /\ nth_error (diff_array s t) (Z.to_nat i) = Some true) <-> mismatch s t i)
  /\ List.length (diff_array s t) = List.length s
  /\ diff_count s t = zlen (filter (fun b : bool => b) (diff_array s t)).
Proof.
  intros s t i H; split; [apply diff_array_spec; exact H | split; [apply diff_array_length; exact H | apply diff_count_spec]].
Qed.
Print Assumptions C19_diff_array.

Theorem C19_diff_segments_are_maximal_runs : forall s t, List.length s = List.length t ->
  let segs := diff_segments s t in
  (forall i, (exists p, In p segs /\ fst p <= i < snd p) <-> mismatch s t i) /\
  Forall (fun p => 0 <= fst p < snd p /\ snd p <= zlen s) segs /\
  StronglySorted (fun p q => snd p < fst q) segs.
Proof. exact diff_segments_spec. Qed.
Print Assumptions C19_diff_segments_are_maximal_runs.

(* (v) window subdivision *)
Theorem C19_subdivide_window : forall a b m, a < b -> 1 <= m ->
  let ps := subdivide_window a b m in
  chain a ps b /\ Forall (fun p => 1 <= snd p - fst p <= m) ps.
Proof. exact subdivide_window_spec. Qed.
Print Assumptions C19_subdivide_window.

Theorem C19_subdivide_empty_window : forall a b m, b <= a -> 1 <= m -> subdivide_window a b m = [].
Proof. exact subdivide_window_empty. Qed.
Print Assumptions C19_subdivide_empty_window.

(* (vi) grouping *)
Theorem C19_sort : forall l,
  Permutation l (sort_z l) /\ StronglySorted (fun x y => x <= y) (sort_z l).
Proof. exact sort_z_sorted_perm. Qed.
Print Assumptions C19_sort.

Theorem C19_group_nearby_indices : forall l gap spread,
  let gs := group_nearby_indices l gap spread in
  List.concat gs = sort_z l /\ Forall (group_ok gap spread) gs /\ breaks_ok gap spread gs.
Proof. exact group_nearby_indices_spec. Qed.
Print Assumptions C19_group_nearby_indices.

Theorem C19_group_nearby_segments : forall l gap spread,
  let gs := group_nearby_segments l gap spread in
  List.concat gs = sort_segs l /\ Forall (sgroup_ok gap spread) gs /\ sbreaks_ok gap spread gs.
Proof. exact group_nearby_segments_spec. Qed.
Print Assumptions C19_group_nearby_segments.

(* Non-vacuity *)
Example C19_ex_tables : List.length genetic_tables = 45%nat /\
  List.length (filter (fun nt => no_dual_stop (snd nt)) genetic_tables) = 42%nat.
Proof. vm_compute. split; reflexivity. Qed.
Example C19_ex_gc : gc_window_counts (sq "ACGGTTCA") 3 = [2; 3; 2; 1; 1; 1].
Proof. vm_compute. reflexivity. Qed.
Example C19_ex_segments : diff_segments (sq "AAAAAAAA") (sq "ACCAAATA") = [(1, 3); (6, 7)].
Proof. vm_compute. reflexivity. Qed.
Example C19_ex_groups : group_nearby_indices [9; 1; 2; 4; 20] (Some 3) (Some 4) = [[1; 2; 4]; [9]; [20]].
Proof. vm_compute. reflexivity. Qed.
