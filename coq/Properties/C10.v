(* C10 - Built-in specifications evaluate to their documented meaning; failing evaluations report
   non-empty breach locations that lie inside the specification's span and cover the breach.
   Each theorem relates the evaluation ALGORITHM of the model (cumulative sums, nonzero, grouping,
   coordinate mapping; tied to the code by correspondence on all 16 modelled classes) to the
   documented formula written directly.  Classes whose formula theorem is not proved here
   (MaximizeCAI: see C07; HarmonizeRCA; the localized form of UniquifyAllKmers) are decided by
   correspondence + independent references. *)
From Coq Require Import ZArith QArith Qminmax Qabs Bool List Ascii String Lia.
From DC Require Import Model.Base Model.Loc Model.Bio Model.Pattern Model.MSpace Model.Specs
                       Generated.GenTables Proofs.SpecsDefs Proofs.SpecsEval Proofs.SpecsLocalA Proofs.SpecsLocalB Proofs.SpecsLocalC Proofs.Meaning2 Proofs.Meaning3.
Import ListNotations.
Open Scope Z_scope.

Theorem C10_intervals_of_cover : forall idx spread i, 1 <= spread -> In i idx -> covered (intervals_of idx spread) i.
Proof. exact intervals_of_cover. Qed.
Print Assumptions C10_intervals_of_cover.

Theorem C10_intervals_of_within : forall idx spread lo hi,
  (forall i, In i idx -> lo <= i < hi) -> all_within (intervals_of idx spread) lo hi.
Proof. exact intervals_of_within. Qed.
Print Assumptions C10_intervals_of_within.

Theorem C10_intervals_of_nonempty : forall idx spread, idx <> [] -> intervals_of idx spread <> [].
Proof. exact intervals_of_nonempty. Qed.
Print Assumptions C10_intervals_of_nonempty.

Theorem C10_avoid_pattern_meaning : forall P l s, 1 <= psize P -> loc_in l (zlen s) ->
  let e := eval_avoid_pattern P l s in
  score e = zq (- n_occ P s l) /\
  (passes e = true <-> n_occ P s l = 0) /\
  (exists ls, locs e = Some ls /\ zlen ls = n_occ P s l /\
     all_within ls (lstart l) (lend l) /\ Forall (fun m => lend m - lstart m = psize P) ls).
Proof. exact avoid_pattern_meaning. Qed.
Print Assumptions C10_avoid_pattern_meaning.

Theorem C10_pattern_occ_meaning : forall P occ l s, 0 <= psize P -> loc_in l (zlen s) ->
  let e := eval_pattern_occ P occ l s in
  score e = zq (- Z.abs (n_occ P s l - occ)) /\ (passes e = true <-> n_occ P s l = occ) /\ locs e = Some [l].
Proof. exact pattern_occ_meaning. Qed.
Print Assumptions C10_pattern_occ_meaning.

Theorem C10_gc_windowed_meaning : forall mini maxi w l s, 1 <= w -> loc_in l (zlen s) -> lstrand l <> -1 ->
  let e := eval_gc mini maxi (Some w) l s in
  let starts := zrange (lstart l) (lend l - w + 1) in
  (score e == - qsum (map (fun i => breach mini maxi (gc_frac s i w)) starts))%Q /\
  (passes e = true <-> forall i, In i starts -> (mini <= gc_frac s i w)%Q /\ (gc_frac s i w <= maxi)%Q) /\
  (exists ls, locs e = Some ls /\ all_within ls (lstart l) (lend l) /\
     (forall i, In i starts -> ~ ((mini <= gc_frac s i w)%Q /\ (gc_frac s i w <= maxi)%Q) -> span_covered ls i (i + w)) /\
     (passes e = false -> ls <> [])).
Proof. exact gc_windowed_meaning. Qed.
Print Assumptions C10_gc_windowed_meaning.

Theorem C10_gc_global_meaning : forall mini maxi l s, loc_in l (zlen s) -> lstrand l <> -1 -> lstart l < lend l ->
  let e := eval_gc mini maxi None l s in
  let g := (count_gc (slice s (lstart l) (lend l)) # Z.to_pos (loc_len l)) in
  (score e == - breach mini maxi g)%Q /\
  (passes e = true <-> (mini <= g)%Q /\ (g <= maxi)%Q) /\
  (passes e = false -> locs e = Some [mkLoc (lstart l) (lend l) 0]).
Proof. exact gc_global_meaning. Qed.
Print Assumptions C10_gc_global_meaning.

Theorem C10_enforce_sequence_meaning : forall w l s, loc_in l (zlen s) -> zlen w = loc_len l ->
  let e := eval_enforce_sequence w l s in
  let sub := extract l s in
  let bad := indices_where (fun p => negb (iupac_matches (snd p) (fst p))) (combine sub w) 0 in
  score e = zq (- zlen bad) /\
  (passes e = true <-> bad = []) /\
  (exists ls, locs e = Some ls /\ all_within ls (lstart l) (lend l) /\
     (forall r, In r bad -> covered ls (if lstrand l =? -1 then lend l - 1 - r else lstart l + r)) /\
     (passes e = false -> ls <> [])).
Proof. exact enforce_sequence_meaning. Qed.
Print Assumptions C10_enforce_sequence_meaning.

Theorem C10_avoid_changes_meaning : forall l tg me s e, loc_in l (zlen s) -> lstrand l <> -1 -> zlen tg = loc_len l ->
  evaluate (SAvoidChanges l None tg me) s = Some e ->
  score e = zq (me - diff_count (slice s (lstart l) (lend l)) tg) /\
  (exists ls, locs e = Some ls /\ all_within ls (lstart l) (lend l) /\
     (forall i, lstart l <= i < lend l ->
        nth_error s (Z.to_nat i) <> nth_error tg (Z.to_nat (i - lstart l)) -> covered ls i)).
Proof. exact avoid_changes_meaning. Qed.
Print Assumptions C10_avoid_changes_meaning.

Theorem C10_stop_codons_meaning : forall T l s e, eval_stop_codons T l s = Some e ->
  exists aas, translate T (extract l s) = Some aas /\
    score e = zq (- zlen (filter (fun a => Ascii.eqb a "*") aas)) /\
    (passes e = true <-> forall a, In a aas -> a <> "*"%char).
Proof. exact stop_codons_meaning. Qed.
Print Assumptions C10_stop_codons_meaning.

Theorem C10_choice_meaning : forall cs l s,
  let e := eval_enforce_choice cs l s in
  (In (extract l s) cs -> score e = 0%Q /\ locs e = Some []) /\
  (~ In (extract l s) cs -> score e = zq (-1) /\ locs e = Some [l]).
Proof. exact choice_meaning. Qed.
Print Assumptions C10_choice_meaning.

Theorem C10_length_meaning : forall mn mx s,
  let e := eval_length mn mx s in
  let ok := mn <= zlen s /\ match mx with Some m => zlen s <= m | None => True end in
  (ok -> score e = zq 0) /\ (~ ok -> score e = zq (-1)).
Proof. exact length_meaning. Qed.
Print Assumptions C10_length_meaning.

(* Non-vacuity *)
Example C10_ex_gc :
  option_map (fun e => (Qeq_bool (score e) (-(1 # 2)), locs e))
             (evaluate (SGC (1 # 4) (3 # 4) (Some 4) (mkLoc 0 8 0)) (sq "GGGGAAAA"))
  = Some (true, Some [mkLoc 0 8 0]).
Proof. vm_compute. reflexivity. Qed.

(* ---- second series (Proofs/Meaning2.v) ---- *)

(* EnforceChanges as a constraint: score = changed positions - minimum; location or indices form
   (location form: the location lies within the sequence, i.e. as long as the reference - refuted
   without it: enforce_changes_location_length_needed) *)
Theorem C10_enforce_changes_minimum_meaning : forall l idx ref m am s e sub,
  extract_subsequence l idx s = Some sub -> zlen sub = zlen ref ->
  (idx = None -> loc_len l = zlen ref) ->
  eval_enforce_changes l idx ref (Some m) am s = Some e ->
  score e = zq (n_changed sub ref - m) /\
  (passes e = true <-> m <= n_changed sub ref) /\
  locs e = Some [l].
Proof. exact enforce_changes_minimum_meaning. Qed.
Print Assumptions C10_enforce_changes_minimum_meaning.

Theorem C10_enforce_changes_amount_meaning : forall l idx ref a s e sub,
  extract_subsequence l idx s = Some sub -> zlen sub = zlen ref ->
  (idx = None -> loc_len l = zlen ref) ->
  eval_enforce_changes l idx ref None (Some a) s = Some e ->
  (score e == - Qabs (zq (n_changed sub ref) - a))%Q /\
  (passes e = true <-> (zq (n_changed sub ref) == a)%Q).
Proof. exact enforce_changes_amount_meaning. Qed.
Print Assumptions C10_enforce_changes_amount_meaning.

Theorem C10_translation_meaning : forall T l tr s e,
  eval_translation T l tr StartNone s = Some e ->
  exists got, translate_start T (extract l s) false = Some got /\
    let wrong := filter (fun p => match snd p with
                                  | Some want => negb (Ascii.eqb (fst p) want)
                                  | None => true
                                  end)
                        (combine got (map (fun i => nth_error tr i) (List.seq 0 (List.length got)))) in
    score e = zq (- zlen wrong) /\
    (passes e = true <-> wrong = []) /\
    (wrong = [] -> List.length got <= List.length tr /\ got = firstn (List.length got) tr)%nat.
Proof. exact translation_meaning. Qed.
Print Assumptions C10_translation_meaning.

Theorem C10_rare_codons_meaning : forall fr mf l s e,
  eval_rare_codons fr mf l s = Some e ->
  exists cods, get_codons l s = Some cods /\
    let is_rare c := match qassoc c fr with Some f => negb (Qle_bool mf f) | None => false end in
    (score e == qsum (map (fun c => match qassoc c fr with Some f => (f - mf)%Q | None => 0%Q end)
                          (filter is_rare cods)))%Q /\
    (score e <= 0)%Q /\
    (passes e = true <-> forall c, In c cods -> is_rare c = false).
Proof. exact rare_codons_meaning. Qed.
Print Assumptions C10_rare_codons_meaning.

Theorem C10_terminal_gc_meaning : forall mini maxi ends s,
  (mini <= maxi)%Q ->
  let e := eval_terminal_gc mini maxi ends s in
  let g w := (count_gc (extract w s) # Z.to_pos (zlen (extract w s))) in
  (score e == - qsum (map (fun w => breach mini maxi (g w)) ends))%Q /\
  (passes e = true <-> forall w, In w ends -> (mini <= g w)%Q /\ (g w <= maxi)%Q) /\
  (forall w, In w ends -> ~ ((mini <= g w)%Q /\ (g w <= maxi)%Q) ->
     exists ls, locs e = Some ls /\ In w ls).
Proof. exact terminal_gc_meaning. Qed.
Print Assumptions C10_terminal_gc_meaning.

(* ---- third series (Proofs/Meaning3.v) ---- *)

(* UniquifyAllKmers evaluated globally: minus the number of window starts of the reference span whose
   k-mer lies inside the location and occurs at least twice among the k-mers of the reference span *)
Theorem C10_uniquify_global_meaning : forall k l ref irc s, 1 <= k ->
  let e := eval_uniquify_global k l ref irc s in
  let starts := zrange (lstart ref) (lend ref - k + 1) in
  let repeated i := 2 <=? count_dna (kmer_at s irc k i) (map (kmer_at s irc k) starts) in
  let inside i := (lstart l <=? i) && (i + k <=? lend l) in
  score e = zq (- zlen (filter (fun i => repeated i && inside i) starts)) /\
  (passes e = true <-> forall i, In i starts -> inside i = true -> repeated i = false) /\
  locs e = Some (map (fun i => mkLoc i (i + k) 0) (filter (fun i => repeated i && inside i) starts)).
Proof. exact uniquify_global_meaning. Qed.
Print Assumptions C10_uniquify_global_meaning.

(* AvoidHairpins: minus the number of stem starts i of the segment that have a partner - an offset j with
   i + stem <= j and j + stem <= min(n, i + window) whose word is the reverse complement of the stem word
   ([hairpin_at], a closed form of the negative-index slices of the code; any location, either strand) *)
Theorem C10_hairpins_meaning : forall stem window l s, 1 <= stem -> stem <= window ->
  let e := eval_hairpins stem window l s in
  let sub := extract l s in
  let starts := filter (hairpin_at stem window sub) (zrange 0 (zlen sub - stem)) in
  score e = zq (- zlen starts) /\ (passes e = true <-> starts = []).
Proof. exact hairpins_meaning_gen. Qed.
Print Assumptions C10_hairpins_meaning.
