(* C05 - Results are a function of the inputs and the numpy seed only.
   Hash-seed half (theorems): wherever the code iterates a Python set of variants the model takes the
   elements as a list in ARBITRARY order; the theorems below show that two choices carrying the same
   set of variants in different orders behave identically, for every oracle stream of random draws:
   sorted(variants) is canonical, random_variant, constrain_sequence's loop, the (distance, variant)
   ordering of all_variants and the enumeration built from it, the variants drawn for random mutations,
   and extract_varying_region (independent of which variant serves as reference).  The solver reaches
   the mutation space only through these operations.
   Runtime half (differential, see the check): CPython's actual string hashing, process state
   (lru_cache of the k-mer extractor, keys added to user codon tables, is_focus marks on shared
   specification objects) are exhibited by running the same problem + numpy seed in fresh subprocesses
   under several PYTHONHASHSEED values and after several in-process histories.  A static scan ties
   the audited set-iteration sites of MutationChoice.py / MutationSpace.py to the lemmas. *)
From Coq Require Import ZArith Bool List Lia Permutation Sorting.Sorted.
From DC Require Import Model.Base Model.Loc Model.MSpace Proofs.MSpaceDefs Proofs.MSpaceA Proofs.MSpaceE.
Import ListNotations.
Open Scope Z_scope.

Theorem C05_sort_dna_canonical : forall l l', Permutation l l' -> sort_dna l = sort_dna l'.
Proof. exact sort_dna_canonical. Qed.
Print Assumptions C05_sort_dna_canonical.

Theorem C05_random_variant_order_independent : forall c c' s r,
  choice_equiv c c' -> random_variant c s r = random_variant c' s r.
Proof. exact random_variant_order_independent. Qed.
Print Assumptions C05_random_variant_order_independent.

Theorem C05_sorted_by_distance_order_independent : forall c c' s,
  choice_equiv c c' -> NoDup (cvariants c) -> sorted_by_distance c s = sorted_by_distance c' s.
Proof. exact sorted_by_distance_order_independent. Qed.
Print Assumptions C05_sorted_by_distance_order_independent.

Theorem C05_slots_order_independent : forall mc mc' s,
  Forall2 choice_equiv mc mc' -> Forall (fun c => NoDup (cvariants c)) mc ->
  option_map (map snd) (slots_of mc s) = option_map (map snd) (slots_of mc' s) /\
  option_map (fun sl => product_apply sl s) (slots_of mc s) =
  option_map (fun sl => product_apply sl s) (slots_of mc' s).
Proof. exact slots_order_independent. Qed.
Print Assumptions C05_slots_order_independent.

Theorem C05_constrain_loop_order_independent : forall cs cs' orig cur r,
  Forall2 choice_equiv cs cs' -> Forall (fun c => NoDup (cvariants c)) cs ->
  constrain_loop cs orig cur r = constrain_loop cs' orig cur r.
Proof. exact constrain_loop_order_independent. Qed.
Print Assumptions C05_constrain_loop_order_independent.

Theorem C05_variants_for_order_independent : forall cs cs' s r,
  Forall2 choice_equiv cs cs' ->
  option_map (fun p => (map snd (fst p), snd p)) (variants_for cs s r) =
  option_map (fun p => (map snd (fst p), snd p)) (variants_for cs' s r).
Proof. exact variants_for_order_independent. Qed.
Print Assumptions C05_variants_for_order_independent.

Theorem C05_extract_varying_region_order_independent : forall c c',
  choice_equiv c c' -> wf_choice c ->
  Forall2 choice_equiv (extract_varying_region c) (extract_varying_region c').
Proof. exact extract_varying_region_order_independent. Qed.
Print Assumptions C05_extract_varying_region_order_independent.

Example C05_ex :
  let c  := mkChoice 0 2 [[nG; nT]; [nA; nC]; [nC; nC]] false in
  let c' := mkChoice 0 2 [[nC; nC]; [nG; nT]; [nA; nC]] false in
  choice_equiv c c' /\ sorted_by_distance c [nC; nC] = Some [[nC; nC]; [nA; nC]; [nG; nT]]
  /\ sorted_by_distance c' [nC; nC] = Some [[nC; nC]; [nA; nC]; [nG; nT]].
Proof.
  split; [|vm_compute; split; reflexivity].
  unfold choice_equiv; simpl; repeat split.
  apply Permutation_sym. apply (Permutation_cons_app [[nG; nT]; [nA; nC]] [] [nC; nC]). simpl. apply Permutation_refl.
Qed.
