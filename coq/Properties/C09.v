(* C09 - Localized objectives measure exactly the global score change of a local edit.
   For every modelled built-in class other than UniquifyAllKmers (excluded by the property),
   AvoidHairpins included, every well-formed instance,
   every window W inside the sequence and every pair of sequences that differ only inside W:
     score(localized S, s') - score(localized S, s) == score(S, s') - score(S, s),
   and when localization yields nothing the score does not change ([local_delta_law]). *)
From Coq Require Import ZArith QArith Bool List Lia Ascii String.
From DC Require Import Model.Base Model.Loc Model.Bio Model.Pattern Model.MSpace Model.Specs
                       Proofs.SpecsDefs Proofs.SpecsLocalA Proofs.SpecsLocalB Proofs.SpecsLocalC Proofs.Hairpins.
Import ListNotations.
Open Scope Z_scope.
Open Scope string_scope.

(* extra side conditions of two classes (they hold for every instance the library builds) *)
Definition c09_side (sp : spec) : Prop :=
  match sp with
  | SEnforceChanges l idx _ mn am is100 =>
      is100 = true -> mn = None /\ am = Some (zq (match idx with Some ix => zlen ix | None => loc_len l end))
  | SMaximizeCAI lf lb _ => forall c f b, qassoc c lf = Some f -> qassoc c lb = Some b -> (f <= b)%Q
  | _ => True
  end.
Definition c09_class (sp : spec) : bool :=
  match sp with SUniquify _ _ _ _ _ => false | _ => true end.

Theorem C09_localized_score_difference_is_global : forall sp w s s',
  c09_class sp = true -> wf_spec sp (zlen s) -> c09_side sp ->
  window_in w (zlen s) -> agree_outside w s s' ->
  local_delta_law sp w s s'.
Proof.
  intros sp w s s' Hc Hwf Hside Hw Ha.
  destruct sp; try discriminate Hc.
  - apply avoid_pattern_delta; assumption.
  - apply pattern_occ_delta; assumption.
  - apply gc_delta; assumption.
  - apply translation_laws; assumption.
  - apply stop_codons_laws; assumption.
  - apply avoid_changes_laws; assumption.
  - apply enforce_changes_laws; assumption.
  - apply enforce_sequence_laws; assumption.
  - apply enforce_choice_laws.
  - apply rare_codons_laws; assumption.
  - apply maximize_cai_laws; assumption.
  - apply harmonize_laws; assumption.
  - apply hairpins_delta; assumption.
  - apply terminal_gc_laws; assumption.
  - apply length_laws; assumption.
Qed.
Print Assumptions C09_localized_score_difference_is_global.

(* Non-vacuity: a concrete instance where the window straddles the border of the location and the
   edit creates one occurrence inside and destroys none *)
Example C09_ex :
  let sp := SAvoidPattern (PDna (list_ascii_of_string "AAT")) (mkLoc 2 12 1) in
  let s := sq "CCAATCCCCCCCCC" in let s' := sq "CCAATCAATCCCCC" in
  localized sp (mkLoc 6 8 0) true s = LSome (SAvoidPattern (PDna (list_ascii_of_string "AAT")) (mkLoc 4 10 1))
  /\ delta sp s s' = Some (-1 # 1)%Q.
Proof. vm_compute. split; reflexivity. Qed.
