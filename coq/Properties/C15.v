(* C15 - Mutation-space operations stay inside the space and cover it.
   For every well-formed space (index = partition into contiguous choices; variants distinct and of
   the segment's length), every member sequence and every oracle stream of random draws. *)
From Coq Require Import ZArith Bool List Lia Sorting.Sorted String.
From DC Require Import Model.Base Model.Loc Model.MSpace Proofs.MSpaceDefs Proofs.MSpaceA Proofs.MSpaceB Proofs.MSpaceC.
Import ListNotations.
Open Scope Z_scope.
Open Scope string_scope.

Theorem C15_localized_keeps_exactly_overlapping_choices : forall ms a b c,
  wf_space ms -> 0 <= a -> a <= b ->
  (In c (choices_list (ms_localized ms a b)) <->
   In c (choices_list ms) /\ Z.max a (cstart c) < Z.min b (cend c)).
Proof. exact localized_keeps_overlapping. Qed.
Print Assumptions C15_localized_keeps_exactly_overlapping_choices.

Theorem C15_all_variants : forall ms s,
  wf_choices ms -> member ms s -> (forall c, In c (choices_list ms) -> cend c <= zlen s) ->
  multichoices ms <> [] ->
  exists vs, all_variants ms s = Some vs /\
    NoDup vs /\
    hd_error vs = Some s /\
    (forall t, In t vs <-> is_variant_of ms s t) /\
    zlen vs = space_size_exact ms /\
    (forall t, In t vs -> member ms t).
Proof. exact all_variants_spec. Qed.
Print Assumptions C15_all_variants.

Theorem C15_all_variants_only_inside_span : forall ms s vs a b t i,
  wf_choices ms -> member ms s -> (forall c, In c (choices_list ms) -> cend c <= zlen s) ->
  all_variants ms s = Some vs -> choices_span ms = Some (a, b) -> In t vs ->
  0 <= i -> ~ (a <= i < b) -> nth_error t (Z.to_nat i) = nth_error s (Z.to_nat i).
Proof. exact all_variants_outside_span. Qed.
Print Assumptions C15_all_variants_only_inside_span.

Theorem C15_random_mutations : forall ms n s stream s' r',
  wf_choices ms -> member ms s -> (forall c, In c (choices_list ms) -> cend c <= zlen s) ->
  0 <= n ->
  apply_random_mutations ms n s (mkR stream []) = Some (s', r') ->
  valid_run stream r' ->
  zlen s' = zlen s /\
  member ms s' /\
  (exists cs, NoDup cs /\ zlen cs = Z.min n (zlen (multichoices ms)) /\
     (forall c, In c cs -> In c (multichoices ms) /\ changed c s s' /\ holds c s') /\
     (forall c, In c (choices_list ms) -> ~ In c cs -> ~ changed c s s') /\
     (forall i, 0 <= i -> (forall c, In c cs -> ~ (cstart c <= i < cend c)) ->
        nth_error s' (Z.to_nat i) = nth_error s (Z.to_nat i))).
Proof. exact apply_random_mutations_spec. Qed.
Print Assumptions C15_random_mutations.

Theorem C15_random_variant_differs : forall c s r v r',
  random_variant c s r = Some (v, r') ->
  In v (cvariants c) /\ v <> slice s (cstart c) (cend c).
Proof. exact random_variant_spec. Qed.
Print Assumptions C15_random_variant_differs.

Theorem C15_constrain_sequence : forall ms s r s' r',
  wf_choices ms -> (forall c, In c (choices_list ms) -> cend c <= zlen s) ->
  constrain_sequence ms s r = COk s' r' ->
  member ms s' /\ zlen s' = zlen s /\
  (forall i, 0 <= i -> nth_error s' (Z.to_nat i) <> nth_error s (Z.to_nat i) ->
     exists c, In c (choices_list ms) /\ cstart c <= i < cend c /\ ~ holds c s) /\
  (forall r2, constrain_sequence ms s' r2 = COk s' r2).
Proof. exact constrain_sequence_spec. Qed.
Print Assumptions C15_constrain_sequence.

Theorem C15_space_size : forall ms,
  (multichoices ms <> [] ->
     space_size_exact ms = fold_right Z.mul 1 (map nvariants (multichoices ms))
     /\ 2 ^ (zlen (multichoices ms)) <= space_size_exact ms)
  /\ ((forall c, In c (choices_list ms) -> 0 <= nvariants c) ->
      (space_size_exact ms = 0 <-> choices_span ms = None)).
Proof. intro ms; split; [apply space_size_is_product | apply space_size_zero_iff_no_span]. Qed.
Print Assumptions C15_space_size.

Theorem C15_in_space_reflects_membership : forall ms t, in_space ms t = true <-> member ms t.
Proof. exact in_space_member. Qed.
Print Assumptions C15_in_space_reflects_membership.

(* Non-vacuity: a concrete well-formed space with two multi-variant choices *)
Definition ex_c1 := mkChoice 0 2 [[nA; nC]; [nG; nT]] false.
Definition ex_c2 := mkChoice 3 4 [[nA]; [nC]; [nT]] false.
Definition ex_ms := mkSpace [Some ex_c1; Some ex_c1; None; Some ex_c2].
Example C15_ex_variants :
  all_variants ex_ms (sq "ACGA") =
  Some [sq "ACGA"; sq "ACGC"; sq "ACGT"; sq "GTGA"; sq "GTGC"; sq "GTGT"]
  /\ space_size_exact ex_ms = 6 /\ choices_span ex_ms = Some (0, 4).
Proof. vm_compute. repeat split. Qed.
Example C15_ex_mutation :
  option_map fst (apply_random_mutations ex_ms 2 (sq "ACGA") (mkR [[1; 0]; [0]; [0]] [])) = Some (sq "GTGC").
Proof. vm_compute. reflexivity. Qed.
