(* C06 - Exhaustive searches are complete and exactly optimal over the mutation space. *)
From Coq Require Import ZArith QArith Bool List Lia Sorting.Sorted.
From DC Require Import Model.Base Model.Loc Model.MSpace Model.Solver
                       Proofs.MSpaceDefs Proofs.MSpaceA Proofs.MSpaceB Proofs.MSpaceC
                       Proofs.SolverA Proofs.SolverB Proofs.SolverC Proofs.SolverD.
Import ListNotations.
Open Scope Z_scope.

Section AnySpecifications.
  Variable spec : Type.
  Variable spec_eqb : spec -> spec -> bool.
  Variable ev : spec -> dna -> Q * option (list loc).
  Variable localize : spec -> loc -> bool -> dna -> lres spec.
  Variable accepts_rh : spec -> bool.
  Variable reinit : bool -> spec -> dna -> spec.
  Variable enforced : spec -> bool.
  Variable priority : spec -> Z.
  Variable best : spec -> option Q.
  Variable boost : spec -> Q.
  Variable passive : spec -> bool.
  Variable heuristic : spec -> option (settings -> lproblem spec -> state spec -> outcome * state spec).
  Variable opt_heuristic : spec -> option (settings -> lproblem spec -> state spec -> outcome * state spec).

  (* resolve_constraints_by_exhaustive_search: success iff some variant is feasible (then the first
     one in enumeration order is kept); NoSolutionError iff none is, with the sequence restored *)
  Theorem C06_exhaustive_constraint_search_is_complete : forall (p : lproblem spec) st vs,
    all_variants (lp_space _ p) (cur _ st) = Some vs ->
    ((exists t, In t vs /\ feasible spec ev enforced p t) ->
       exists st' pre t post, resolve_exhaustive spec ev enforced p st = (ODone, st') /\ cur _ st' = t /\
         vs = pre ++ t :: post /\ feasible spec ev enforced p t /\
         (forall u, In u pre -> ~ feasible spec ev enforced p u)) /\
    ((forall t, In t vs -> ~ feasible spec ev enforced p t) ->
       exists st', resolve_exhaustive spec ev enforced p st = (ONoSolution, st') /\ cur _ st' = cur _ st) /\
    (forall st', resolve_exhaustive spec ev enforced p st = (ODone, st') ->
       In (cur _ st') vs /\ feasible spec ev enforced p (cur _ st')) /\
    (forall st', resolve_exhaustive spec ev enforced p st = (ONoSolution, st') ->
       cur _ st' = cur _ st /\ forall t, In t vs -> ~ feasible spec ev enforced p t) /\
    (forall o st', resolve_exhaustive spec ev enforced p st = (o, st') -> rng _ st' = rng _ st).
  Proof.
    exact (resolve_exhaustive_complete spec ev enforced).
  Qed.

  (* optimize_by_exhaustive_search: the kept sequence is feasible, never worse than the start, and
     -- provided no objective exceeds its declared best score and boosts are non-negative -- it
     maximises the boost-weighted total over ALL feasible variants. *)
  Theorem C06_exhaustive_optimization_is_exactly_optimal : forall (p : lproblem spec) st vs o st',
    all_variants (lp_space _ p) (cur _ st) = Some vs ->
    optimize_exhaustive spec ev enforced best boost p st = (o, st') ->
    rng _ st' = rng _ st /\
    (o = ONoSolution -> ~ cfeasible spec ev enforced (lp_constraints _ p) (cur _ st) /\ cur _ st' = cur _ st) /\
    (o = ODone ->
       cfeasible spec ev enforced (lp_constraints _ p) (cur _ st) /\
       (cur _ st' = cur _ st \/ In (cur _ st') vs) /\
       cfeasible spec ev enforced (lp_constraints _ p) (cur _ st') /\
       (total spec ev boost (lp_objectives _ p) (cur _ st) <= total spec ev boost (lp_objectives _ p) (cur _ st'))%Q /\
       ((forall ob, In ob (lp_objectives _ p) -> (0 <= boost ob)%Q) ->
        (forall ob b t, In ob (lp_objectives _ p) -> best ob = Some b -> In t vs -> (fst (ev ob t) <= b)%Q) ->
        forall t, In t vs -> cfeasible spec ev enforced (lp_constraints _ p) t ->
                  (total spec ev boost (lp_objectives _ p) t <= total spec ev boost (lp_objectives _ p) (cur _ st'))%Q)).
  Proof.
    exact (optimize_exhaustive_spec spec ev enforced best boost).
  Qed.
End AnySpecifications.
Print Assumptions C06_exhaustive_constraint_search_is_complete.
Print Assumptions C06_exhaustive_optimization_is_exactly_optimal.

(* Regression witness of finding F11 (fixed in the repository): a user objective whose declared best
   is 10 and whose boost is 2.  Before the fix the early exit compared the boosted total with the
   un-boosted sum of bests and stopped at [nC] (total 10); the search now reaches [nG] (total 20). *)
Definition f11_ev (c : nat) (s : dna) : Q * option (list loc) :=
  (if seq_eqb s [nC] then 5%Q else if seq_eqb s [nG] then 10%Q else 0%Q, Some []).
Definition f11_problem := mkLP nat None [] [0%nat] (mkSpace [Some (mkChoice 0 1 [[nA]; [nC]; [nG]] false)]).
Example C06_ex_boosted_best_score :
  let r := optimize_exhaustive nat f11_ev (fun _ => false) (fun _ => Some 10%Q) (fun _ => 2%Q) f11_problem
             (mkState nat [nA] (mkR [] []) []) in
  fst r = ODone /\ cur _ (snd r) = [nG] /\
  (total nat f11_ev (fun _ => 2%Q) [0%nat] [nG] == 20)%Q.
Proof. vm_compute. repeat split; reflexivity. Qed.
