(* C03 - optimize() never lowers the boost-weighted objective total: for every kind of objective whose
   localization is score-faithful (the C09 law, [faithful]), every constraint set, every solver
   configuration and every stream of random draws; totals are exact rationals. *)
From Coq Require Import ZArith QArith Bool List Lia Sorting.Sorted.
From DC Require Import Model.Base Model.Loc Model.MSpace Model.Solver
                       Proofs.MSpaceDefs Proofs.MSpaceA Proofs.MSpaceB Proofs.MSpaceC
                       Proofs.SolverA Proofs.SolverB Proofs.SolverC Proofs.SolverD
                       Model.Specs Proofs.SpecsDefs Proofs.Builtins.
Import ListNotations.
Open Scope Z_scope.

Section AnySpecifications.
  Variable spec : Type.
  Variable spec_eqb : spec -> spec -> bool.
  Variable ev : spec -> dna -> Q * option (list loc).
  Variable localize : spec -> loc -> bool -> dna -> lres spec.
  Variable accepts_rh : spec -> bool.
  Variable reinit : bool -> spec -> dna -> spec.
  Variable enforced : spec -> bool.
  Variable priority : spec -> Z.
  Variable best : spec -> option Q.
  Variable boost : spec -> Q.
  Variable passive : spec -> bool.
  Variable heuristic : spec -> option (settings -> lproblem spec -> state spec -> outcome * state spec).
  Variable opt_heuristic : spec -> option (settings -> lproblem spec -> state spec -> outcome * state spec).
  Variable space : mspace.
  Variable n : Z.
  Hypothesis space_wf : wf_space space.
  Hypothesis space_fits : forall c, In c (choices_list space) -> cend c <= n.

  Theorem C03_optimize_never_lowers_the_weighted_total : forall cfg cs objs st o st',
    (forall ob, In ob objs -> opt_heuristic ob = None) ->
    (forall ob, In ob objs -> faithful spec ev localize reinit boost space n ob) ->
    state_good spec space n st ->
    optimize spec ev localize reinit enforced best boost passive opt_heuristic cfg space cs objs st = (o, st') ->
    (total spec ev boost objs (cur _ st) <= total spec ev boost objs (cur _ st'))%Q.
  Proof.
    intros cfg cs objs st o st' Hh Hf Hg Hr.
    eapply optimize_never_lowers_total with (opt_heuristic := opt_heuristic); eassumption.
  Qed.

  (* repeating optimize() never loses score either *)
  Theorem C03_repeated_optimize_never_lowers_the_total : forall cfg cs objs st o1 st1 o2 st2,
    (forall ob, In ob objs -> opt_heuristic ob = None) ->
    (forall ob, In ob objs -> faithful spec ev localize reinit boost space n ob) ->
    (forall c h, opt_heuristic c = Some h -> heuristic_sound spec space n h) ->
    state_good spec space n st ->
    optimize spec ev localize reinit enforced best boost passive opt_heuristic cfg space cs objs st = (o1, st1) ->
    optimize spec ev localize reinit enforced best boost passive opt_heuristic cfg space cs objs st1 = (o2, st2) ->
    (total spec ev boost objs (cur _ st) <= total spec ev boost objs (cur _ st2))%Q.
  Proof.
    intros cfg cs objs st o1 st1 o2 st2 Hh Hf Hs Hg H1 H2.
    eapply Qle_trans.
    - eapply optimize_never_lowers_total with (opt_heuristic := opt_heuristic); eassumption.
    - eapply optimize_never_lowers_total with (opt_heuristic := opt_heuristic); try eassumption.
      eapply optimize_states_good with (opt_heuristic := opt_heuristic); eassumption.
  Qed.

  Theorem C03_local_searches_never_lower_the_local_total : forall cfg (p : lproblem spec) st o st',
    (optimize_random spec ev enforced best boost cfg p st = (o, st') -> o <> OPyError 6 ->
       (total spec ev boost (lp_objectives _ p) (cur _ st) <= total spec ev boost (lp_objectives _ p) (cur _ st'))%Q).
  Proof.
    intros cfg p st o st' Hr Hne.
    destruct (optimize_random_spec spec ev enforced best boost cfg p st o st' Hr) as (_ & H2).
    apply H2; exact Hne.
  Qed.
End AnySpecifications.
Print Assumptions C03_optimize_never_lowers_the_weighted_total.
Print Assumptions C03_repeated_optimize_never_lowers_the_total.
Print Assumptions C03_local_searches_never_lower_the_local_total.


(* ---- Built-in classes: [faithful] is a theorem, not an assumption ----
   Instance of the solver: specification type = the modelled built-in classes (Model/Specs.v),
   evaluate/localized = their models, already-initialised specifications (re-initialisation is the
   identity), boosts 1.  For every class with the C09 law (all modelled classes except
   UniquifyAllKmers and AvoidHairpins) [faithful] follows from C09, hence: *)
Theorem C03_builtin_objectives_are_faithful : forall (space : mspace) (n : Z) (ob : Specs.spec),
  b09_class ob = true -> wf_spec ob n -> b09_side ob -> evaluable ob n ->
  faithful Specs.spec b_ev Specs.localized b_reinit b_boost space n ob.
Proof. exact builtin_faithful. Qed.
Print Assumptions C03_builtin_objectives_are_faithful.

Theorem C03_builtin_optimize_never_lowers_the_total :
  forall (enforced : Specs.spec -> bool) (best : Specs.spec -> option Q) (passive : Specs.spec -> bool)
         (space : mspace) (n : Z),
    wf_space space -> (forall c, In c (choices_list space) -> cend c <= n) ->
    forall cfg (cs objs : list Specs.spec) st o st',
    (forall ob, In ob objs -> b09_class ob = true /\ wf_spec ob n /\ b09_side ob /\ evaluable ob n) ->
    state_good Specs.spec space n st ->
    optimize Specs.spec b_ev Specs.localized b_reinit enforced best b_boost passive (fun _ => None)
             cfg space cs objs st = (o, st') ->
    (total Specs.spec b_ev b_boost objs (cur _ st) <= total Specs.spec b_ev b_boost objs (cur _ st'))%Q.
Proof. exact builtin_optimize_never_lowers_total. Qed.
Print Assumptions C03_builtin_optimize_never_lowers_the_total.

(* the hypotheses are satisfiable *)
Example C03_builtin_ex :
  let ob := SGC (1 # 2) (1 # 2) (Some 4) (mkLoc 0 12 0) in
  b09_class ob = true /\ wf_spec ob 12 /\ b09_side ob /\ b08_class ob = true /\ b08_side ob.
Proof. exact builtin_ex. Qed.
