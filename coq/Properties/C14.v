(* C14 - The solver does not touch what is already fine.
   (i) building a problem: constrain_sequence only rewrites segments whose choice did not hold, and
       is idempotent (no draw the second time);
   (ii) resolve_constraints on a problem whose constraints all pass returns the same sequence and
        the SAME oracle state (no random number drawn), for every kind of specification;
   (iii) optimize on a problem whose objectives are all at their declared best changes nothing. *)
From Coq Require Import ZArith QArith Bool List Lia.
From DC Require Import Model.Base Model.Loc Model.MSpace Model.Solver
                       Proofs.MSpaceDefs Proofs.MSpaceA Proofs.SolverA.
Import ListNotations.
Open Scope Z_scope.

Theorem C14_building_a_problem_only_repairs_incompatible_segments : forall ms s r s' r',
  wf_choices ms -> (forall c, In c (choices_list ms) -> cend c <= zlen s) ->
  constrain_sequence ms s r = COk s' r' ->
  member ms s' /\ zlen s' = zlen s /\
  (forall i, 0 <= i -> nth_error s' (Z.to_nat i) <> nth_error s (Z.to_nat i) ->
     exists c, In c (choices_list ms) /\ cstart c <= i < cend c /\ ~ holds c s) /\
  (forall r2, constrain_sequence ms s' r2 = COk s' r2).
Proof. exact constrain_sequence_spec. Qed.
Print Assumptions C14_building_a_problem_only_repairs_incompatible_segments.

Section AnySpecifications.
  Variable spec : Type.
  Variable spec_eqb : spec -> spec -> bool.
  Variable ev : spec -> dna -> Q * option (list loc).
  Variable localize : spec -> loc -> bool -> dna -> lres spec.
  Variable accepts_rh : spec -> bool.
  Variable reinit : bool -> spec -> dna -> spec.
  Variable enforced : spec -> bool.
  Variable priority : spec -> Z.
  Variable best : spec -> option Q.
  Variable boost : spec -> Q.
  Variable passive : spec -> bool.
  Variable heuristic : spec -> option (settings -> lproblem spec -> state spec -> outcome * state spec).
  Variable opt_heuristic : spec -> option (settings -> lproblem spec -> state spec -> outcome * state spec).

  Theorem C14_resolve_constraints_is_a_noop_when_all_pass : forall cfg space cs fc st,
    (forall c, In c cs -> passes_on spec ev c (cur _ st)) ->
    exists st', resolve_constraints spec spec_eqb ev localize accepts_rh reinit enforced priority heuristic
                  cfg space cs fc st = (ODone, st') /\
                cur _ st' = cur _ st /\ rng _ st' = rng _ st.
  Proof.
    exact (resolve_constraints_noop spec spec_eqb ev localize accepts_rh reinit enforced priority best boost
             passive heuristic opt_heuristic).
  Qed.

  Theorem C14_optimize_is_a_noop_at_best_score : forall cfg space cs objs st,
    (forall o, In o objs -> exists b, best o = Some b /\ (fst (ev o (cur _ st)) == b)%Q) ->
    exists st', optimize spec ev localize reinit enforced best boost passive opt_heuristic
                  cfg space cs objs st = (ODone, st') /\
                cur _ st' = cur _ st /\ rng _ st' = rng _ st.
  Proof.
    exact (optimize_noop spec spec_eqb ev localize accepts_rh reinit enforced priority best boost
             passive heuristic opt_heuristic).
  Qed.
End AnySpecifications.
Print Assumptions C14_resolve_constraints_is_a_noop_when_all_pass.
Print Assumptions C14_optimize_is_a_noop_at_best_score.
