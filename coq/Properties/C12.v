(* C12 - A failed or interrupted solve leaves a usable, restriction-respecting problem.
   The model's run emits every assignment to a sequence -- of the problem itself and of every local
   problem -- in a trace, together with every evaluate call.  An abort at the k-th evaluation
   (NoSolutionError, or an exception thrown by a user specification) leaves the problem with the last
   value assigned before that call; so it suffices that EVERY assigned value is usable, which is the
   invariant proved here for all specifications, settings and random streams. *)
From Coq Require Import ZArith QArith Bool List Lia Sorting.Sorted.
From DC Require Import Model.Base Model.Loc Model.MSpace Model.Solver
                       Proofs.MSpaceDefs Proofs.MSpaceA Proofs.MSpaceB Proofs.MSpaceC
                       Proofs.SolverA Proofs.SolverB Proofs.SolverC Proofs.SolverD.
Import ListNotations.
Open Scope Z_scope.

Section AnySpecifications.
  Variable spec : Type.
  Variable spec_eqb : spec -> spec -> bool.
  Variable ev : spec -> dna -> Q * option (list loc).
  Variable localize : spec -> loc -> bool -> dna -> lres spec.
  Variable accepts_rh : spec -> bool.
  Variable reinit : bool -> spec -> dna -> spec.
  Variable enforced : spec -> bool.
  Variable priority : spec -> Z.
  Variable best : spec -> option Q.
  Variable boost : spec -> Q.
  Variable passive : spec -> bool.
  Variable heuristic : spec -> option (settings -> lproblem spec -> state spec -> outcome * state spec).
  Variable opt_heuristic : spec -> option (settings -> lproblem spec -> state spec -> outcome * state spec).
  Variable space : mspace.
  Variable n : Z.
  Hypothesis space_wf : wf_space space.
  Hypothesis space_fits : forall c, In c (choices_list space) -> cend c <= n.

  Hypothesis heuristics_sound : forall c h, heuristic c = Some h -> heuristic_sound spec space n h.
  Hypothesis opt_heuristics_sound : forall c h, opt_heuristic c = Some h -> heuristic_sound spec space n h.
  Hypothesis localize_total : forall c w rh s, localize c w rh s <> LError.

  (* usable = original length and every hard nucleotide restriction respected ([good]);
     [state_good]: the current sequence and every sequence ever assigned (the trace) are usable *)
  Theorem C12_resolve_constraints_only_passes_through_usable_states : forall cfg cs fc st o st',
    state_good spec space n st ->
    resolve_constraints spec spec_eqb ev localize accepts_rh reinit enforced priority heuristic
      cfg space cs fc st = (o, st') ->
    state_good spec space n st'.
  Proof. intros cfg cs fc st o st' Hg Hr. eapply resolve_constraints_states_good with (heuristic := heuristic); eassumption. Qed.

  Theorem C12_optimize_only_passes_through_usable_states : forall cfg cs objs st o st',
    state_good spec space n st ->
    optimize spec ev localize reinit enforced best boost passive opt_heuristic cfg space cs objs st = (o, st') ->
    state_good spec space n st'.
  Proof. intros cfg cs objs st o st' Hg Hr. eapply optimize_states_good with (opt_heuristic := opt_heuristic); eassumption. Qed.

  Theorem C12_direct_searches_only_pass_through_usable_states : forall cfg (p : lproblem spec) st o st',
    lp_space _ p = space -> state_good spec space n st ->
    (resolve_exhaustive spec ev enforced p st = (o, st') \/ resolve_random spec ev enforced cfg p st = (o, st') \/
     optimize_exhaustive spec ev enforced best boost p st = (o, st') \/
     optimize_random spec ev enforced best boost cfg p st = (o, st')) ->
    state_good spec space n st'.
  Proof. intros cfg p st o st' Hsp Hg Hr. eapply direct_searches_states_good; eassumption. Qed.

  (* a failed exhaustive constraint search restores exactly the sequence it started from *)
  Theorem C12_failed_exhaustive_search_restores_the_sequence : forall (p : lproblem spec) st vs st',
    all_variants (lp_space _ p) (cur _ st) = Some vs ->
    resolve_exhaustive spec ev enforced p st = (ONoSolution, st') ->
    cur _ st' = cur _ st /\ rng _ st' = rng _ st.
  Proof.
    intros p st vs st' Hv Hr.
    destruct (resolve_exhaustive_complete spec ev enforced p st vs Hv) as (_ & _ & _ & H4 & H5).
    split; [apply (H4 st' Hr) | apply (H5 _ _ Hr)].
  Qed.
End AnySpecifications.
Print Assumptions C12_resolve_constraints_only_passes_through_usable_states.
Print Assumptions C12_optimize_only_passes_through_usable_states.
Print Assumptions C12_direct_searches_only_pass_through_usable_states.
Print Assumptions C12_failed_exhaustive_search_restores_the_sequence.
