(* C13 - Circular problems: a successful solve holds across the sequence origin.
   (i) whatever the solver does on the three-copy view (it is left abstract: final-check dominance),
       CircularDnaOptimizationProblem.resolve_constraints returns normally only if the CIRCULAR
       evaluation of every constraint passes, and the sequence keeps its length;
   (ii) the circular evaluation really sees across the origin: a whole-sequence AvoidPattern /
        windowed EnforceGCContent that passes on the three-copy view has no occurrence / no breaching
        window in the wrapped sequence s ++ s[:k-1];
   (iii) edit mirroring (return_the_loony) yields three equal copies and takes over an edit made in
         exactly one copy.
   The circular evaluation, the specification shifting and the mirroring are tied to the code by
   correspondence; hard restrictions after a solve are decided by the oracle on the implementation. *)
From Coq Require Import ZArith QArith Bool List Lia Ascii String.
From DC Require Import Model.Base Model.Loc Model.Bio Model.Pattern Model.MSpace Model.Specs Model.Solver Model.Circular
                       Proofs.SpecsDefs Proofs.PatternProofs Proofs.BioB Proofs.SpecsEval Proofs.CircularProofs Proofs.CircularAC Proofs.CircularEC.
Import ListNotations.
Open Scope Z_scope.

Theorem C13_circular_resolve_done : forall view_resolve constraints s s',
  (forall t o t', view_resolve t = (o, t') -> zlen t' = zlen t) ->
  circular_resolve view_resolve constraints true s = (ODone, s') ->
  circular_all_pass constraints s' = true /\ zlen s' = zlen s.
Proof. exact circular_resolve_done. Qed.
Print Assumptions C13_circular_resolve_done.

Theorem C13_circular_resolve_outcomes : forall view_resolve constraints fc s o s',
  circular_resolve view_resolve constraints fc s = (o, s') ->
  o = ODone \/ o = ONoSolution \/ (exists t, view_resolve (triple s) = (o, t) /\ s' = s).
Proof. exact circular_resolve_outcomes. Qed.
Print Assumptions C13_circular_resolve_outcomes.

Theorem C13_pattern_wraparound : forall P s st, 1 <= psize P -> psize P <= zlen s + 1 ->
  passes (eval_avoid_pattern P (mkLoc 0 (3 * zlen s) st) (triple s)) = true -> (st = 1 \/ st = 0) ->
  forall i, 0 <= i < zlen s ->
    occurs_fwd P (s ++ firstn (Z.to_nat (psize P - 1)) s) i = false.
Proof. exact pattern_wraparound. Qed.
Print Assumptions C13_pattern_wraparound.

Theorem C13_gc_wraparound : forall mini maxi w s, 1 <= w -> w <= zlen s + 1 ->
  passes (eval_gc mini maxi (Some w) (mkLoc 0 (3 * zlen s) 0) (triple s)) = true ->
  forall i, 0 <= i < zlen s ->
    let g := gc_frac (s ++ firstn (Z.to_nat (w - 1)) s) i w in (mini <= g)%Q /\ (g <= maxi)%Q.
Proof. exact gc_wraparound. Qed.
Print Assumptions C13_gc_wraparound.

Theorem C13_replace_circular_spec : forall s new, zlen new = 3 * zlen s ->
  exists s', replace_circular new = triple s' /\ zlen s' = zlen s /\
    forall i x, 0 <= i < zlen s -> nth_error s (Z.to_nat i) = Some x ->
      (forall a b c, nth_error new (Z.to_nat i) = Some a -> nth_error new (Z.to_nat (i + zlen s)) = Some b ->
                     nth_error new (Z.to_nat (i + 2 * zlen s)) = Some c ->
         
         (a = x -> b = x -> c = x -> nth_error s' (Z.to_nat i) = Some x) /\
         
         (a <> x -> b = x -> c = x -> nth_error s' (Z.to_nat i) = Some a) /\
         (a = x -> b <> x -> c = x -> nth_error s' (Z.to_nat i) = Some b) /\
         (a = x -> b = x -> c <> x -> nth_error s' (Z.to_nat i) = Some c)).
Proof. exact replace_circular_spec. Qed.
Print Assumptions C13_replace_circular_spec.

(* (iv) AvoidChanges (location, indices, edit allowance) keeps its meaning in a circular problem: the
   circular evaluation passes exactly when the specification passes on the sequence itself, and what its
   score counts is the allowance minus the number of edited positions (fix F23; before it, only the first
   copy carried the indices and a whole-sequence target was re-read from the current sequence). *)
Theorem C13_avoid_changes_keeps_its_meaning : forall l idx tg me s,
  0 <= lstart l -> lstart l <= lend l -> lend l <= zlen s -> indices_inside idx (zlen s) ->
  circular_all_pass [SAvoidChanges l idx tg me] s
  = match eval_avoid_changes l idx tg me s with Some e => passes e | None => false end.
Proof. exact avoid_changes_circular_iff_linear. Qed.
Print Assumptions C13_avoid_changes_keeps_its_meaning.

Theorem C13_avoid_changes_score_counts_edits : forall l tg me s e,
  eval_avoid_changes l None tg me s = Some e ->
  score e = zq (me - zlen (filter (fun p => negb (nuc_eqb (fst p) (snd p))) (combine (extract l s) tg))).
Proof. exact avoid_changes_score_counts_edits. Qed.
Print Assumptions C13_avoid_changes_score_counts_edits.

(* (v) the same for EnforceChanges (location or indices, minimum or amount): fix F24 *)
Theorem C13_enforce_changes_keeps_its_meaning : forall l idx ref mn am full s,
  0 <= lstart l -> lstart l <= lend l -> lend l <= zlen s -> indices_inside idx (zlen s) ->
  circular_all_pass [SEnforceChanges l idx ref mn am full] s
  = match eval_enforce_changes l idx ref mn am s with Some e => passes e | None => false end.
Proof. exact enforce_changes_circular_iff_linear. Qed.
Print Assumptions C13_enforce_changes_keeps_its_meaning.

(* Non-vacuity: a whole-sequence EnforceChanges that must differ everywhere from "ACGT": one position kept fails *)
Example C13_ex_changes :
  circular_all_pass [SEnforceChanges (mkLoc 0 4 0) None (sq "ACGT"%string) (Some 4) None true] (sq "CATA"%string) = true
  /\ circular_all_pass [SEnforceChanges (mkLoc 0 4 0) None (sq "ACGT"%string) (Some 4) None true] (sq "CAGA"%string) = false.
Proof. vm_compute. split; reflexivity. Qed.

(* Non-vacuity: two edits under an allowance of one are seen, whole-sequence location and indices at the origin *)
Example C13_ex_allowance :
  let s0 := sq "CGATGATAATTA"%string in let s1 := sq "CCATGATAATCA"%string in
  circular_all_pass [SAvoidChanges (mkLoc 0 12 0) None s0 1] s1 = false
  /\ circular_all_pass [SAvoidChanges (mkLoc 0 12 0) None s0 2] s1 = true
  /\ circular_all_pass [SAvoidChanges (mkLoc 1 11 1) (Some [1; 10]) (sq "GT"%string) 0] s1 = false.
Proof. vm_compute. repeat split; reflexivity. Qed.

(* Non-vacuity: GGC across the origin is seen by the circular evaluation and missed by the linear one *)
Example C13_ex_junction :
  let sp := SAvoidPattern (PDna (list_ascii_of_string "GGC"%string)) (mkLoc 0 8 0) in
  let s := sq "CAAAAAGG"%string in
  option_map passes (Specs.evaluate sp s) = Some true /\ circular_all_pass [sp] s = false.
Proof. vm_compute. split; reflexivity. Qed.
