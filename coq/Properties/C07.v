(* C07 - Codon optimization reaches the true per-codon optimum and keeps the protein.
   Theorems: (i) the synonymous-codon mutation space of EnforceTranslation (both strands, every
   generated genetic table without dual-use stop codons, every start-codon policy) contains exactly the
   sequences whose coding region translates to the wanted protein (resp. whose first codon obeys the
   policy) -- so every candidate the optimiser can produce keeps the protein (with C12/C15: candidates
   never leave the space; with C04: the space is exact); (ii) the MaximizeCAI score is minus the sum of
   independent per-codon gaps to the best synonym, and is 0 (its declared best) exactly when every
   codon is a most-frequent synonym; (iii) with C09 (codon-aligned localization is score-faithful),
   C06 (the local exhaustive search is exactly optimal) and C03 these give the per-codon optimum.
   The end-to-end statement (optimize() reaches it, outside untouched, HarmonizeRCA variant) is
   decided by the differential run against an independent per-codon table lookup: partial. *)
From Coq Require Import ZArith QArith Qabs Bool List Ascii String Lia.
From DC Require Import Model.Base Model.Loc Model.Bio Model.Pattern Model.MSpace Model.Specs
                       Generated.GenTables Proofs.SpecsDefs Proofs.BioA Proofs.MSpaceDefs Proofs.SpecsCodon.
Import ListNotations.
Open Scope Z_scope.

Theorem C07_translation_restrictions_mean_same_protein : forall name T l tr s t,
  In (name, T) genetic_tables -> no_dual_stop T = true ->
  loc_in l (zlen s) -> loc_len l = 3 * zlen tr -> 1 <= zlen tr -> zlen t = zlen s ->
  (Forall (fun r => holds r t) (restrict_nucleotides (STranslation T l tr StartNone) false s) <->
   translate T (extract l t) = Some tr).
Proof. exact translation_restrictions_mean_same_protein. Qed.
Print Assumptions C07_translation_restrictions_mean_same_protein.

Theorem C07_translation_restrictions_empty_refuted :
  exists name T l tr s t,
    In (name, T) genetic_tables /\ no_dual_stop T = true /\
    loc_in l (zlen s) /\ loc_len l = 3 * zlen tr /\ zlen t = zlen s /\
    ~ (Forall (fun r => holds r t) (restrict_nucleotides (STranslation T l tr StartNone) false s) <->
       translate T (extract l t) = Some tr).
Proof. exact translation_restrictions_empty_refuted. Qed.
Print Assumptions C07_translation_restrictions_empty_refuted.

Theorem C07_translation_restrictions_with_start_policy : forall name T l tr st s t,
  In (name, T) genetic_tables -> no_dual_stop T = true ->
  loc_in l (zlen s) -> loc_len l = 3 * zlen tr -> 1 <= zlen tr -> zlen t = zlen s ->
  st <> StartNone ->
  (Forall (fun r => holds r t) (restrict_nucleotides (STranslation T l tr st) false s) <->
   (In (codon_of l t 0) (match st with
                         | StartKeep => [codon_of l s 0]
                         | StartCodons cs => cs
                         | StartNone => []
                         end)) /\
   (forall i, 1 <= i < zlen tr ->
      exists aa, nth_error tr (Z.to_nat i) = Some aa /\ codon_aa T (codon_of l t i) = Some aa)).
Proof. exact translation_restrictions_with_start_policy. Qed.
Print Assumptions C07_translation_restrictions_with_start_policy.

Theorem C07_cai_score_is_sum_of_codon_gaps : forall lf lb l s e cods,
  get_codons l s = Some cods -> eval_maximize_cai lf lb l s = Some e ->
  exists gaps, mapM (fun c => match qassoc c lf, qassoc c lb with
                              | Some f, Some b => Some (b - f)%Q | _, _ => None end) cods = Some gaps /\
               (score e == - qsum gaps)%Q.
Proof. exact cai_score_is_sum_of_codon_gaps. Qed.
Print Assumptions C07_cai_score_is_sum_of_codon_gaps.

Theorem C07_cai_optimal_iff_every_codon_best : forall lf lb l s e cods,
  (forall c f b, qassoc c lf = Some f -> qassoc c lb = Some b -> (f <= b)%Q) ->
  get_codons l s = Some cods -> eval_maximize_cai lf lb l s = Some e ->
  ((score e == 0)%Q <->
   forall c, In c cods -> exists f b, qassoc c lf = Some f /\ qassoc c lb = Some b /\ (f == b)%Q).
Proof. exact cai_optimal_iff_every_codon_best. Qed.
Print Assumptions C07_cai_optimal_iff_every_codon_best.

