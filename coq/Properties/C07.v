(* C07 - Codon optimization reaches the true per-codon optimum and keeps the protein.
   Theorems: (i) the synonymous-codon mutation space of EnforceTranslation (both strands, every
   generated genetic table without dual-use stop codons, every start-codon policy) contains exactly the
   sequences whose coding region translates to the wanted protein (resp. whose first codon obeys the
   policy) -- so every candidate the optimiser can produce keeps the protein (with C12/C15: candidates
   never leave the space; with C04: the space is exact); (ii) the MaximizeCAI score is minus the sum of
   independent per-codon gaps to the best synonym, and is 0 (its declared best) exactly when every
   codon is a most-frequent synonym; (iii) with C09 (codon-aligned localization is score-faithful),
   C06 (the local exhaustive search is exactly optimal) and C03 these give the per-codon optimum.
   The end-to-end statement (optimize() reaches it, outside untouched, HarmonizeRCA variant) is
   decided by the differential run against an independent per-codon table lookup: partial. *)
From Coq Require Import ZArith QArith Qabs Bool List Ascii String Lia.
From DC Require Import Model.Base Model.Loc Model.Bio Model.Pattern Model.MSpace Model.Specs
                       Generated.GenTables Proofs.SpecsDefs Proofs.BioA Proofs.MSpaceDefs Proofs.SpecsCodon
                       Model.Solver Proofs.SolverB Proofs.SolverC Proofs.SolverE Proofs.Builtins Proofs.CaiEnd Proofs.CaiFull Proofs.CaiFullRev Proofs.CaiFullKeep.
Import ListNotations.
Open Scope Z_scope.

Theorem C07_translation_restrictions_mean_same_protein : forall name T l tr s t,
  In (name, T) genetic_tables -> no_dual_stop T = true ->
  loc_in l (zlen s) -> loc_len l = 3 * zlen tr -> 1 <= zlen tr -> zlen t = zlen s ->
  (Forall (fun r => holds r t) (restrict_nucleotides (STranslation T l tr StartNone) false s) <->
   translate T (extract l t) = Some tr).
Proof. exact translation_restrictions_mean_same_protein. Qed.
Print Assumptions C07_translation_restrictions_mean_same_protein.

Theorem C07_translation_restrictions_empty_refuted :
  exists name T l tr s t,
    In (name, T) genetic_tables /\ no_dual_stop T = true /\
    loc_in l (zlen s) /\ loc_len l = 3 * zlen tr /\ zlen t = zlen s /\
    ~ (Forall (fun r => holds r t) (restrict_nucleotides (STranslation T l tr StartNone) false s) <->
       translate T (extract l t) = Some tr).
Proof. exact translation_restrictions_empty_refuted. Qed.
Print Assumptions C07_translation_restrictions_empty_refuted.

Theorem C07_translation_restrictions_with_start_policy : forall name T l tr st s t,
  In (name, T) genetic_tables -> no_dual_stop T = true ->
  loc_in l (zlen s) -> loc_len l = 3 * zlen tr -> 1 <= zlen tr -> zlen t = zlen s ->
  st <> StartNone ->
  (Forall (fun r => holds r t) (restrict_nucleotides (STranslation T l tr st) false s) <->
   (In (codon_of l t 0) (match st with
                         | StartKeep => [codon_of l s 0]
                         | StartCodons cs => cs
                         | StartNone => []
                         end)) /\
   (forall i, 1 <= i < zlen tr ->
      exists aa, nth_error tr (Z.to_nat i) = Some aa /\ codon_aa T (codon_of l t i) = Some aa)).
Proof. exact translation_restrictions_with_start_policy. Qed.
Print Assumptions C07_translation_restrictions_with_start_policy.

Theorem C07_cai_score_is_sum_of_codon_gaps : forall lf lb l s e cods,
  get_codons l s = Some cods -> eval_maximize_cai lf lb l s = Some e ->
  exists gaps, mapM (fun c => match qassoc c lf, qassoc c lb with
                              | Some f, Some b => Some (b - f)%Q | _, _ => None end) cods = Some gaps /\
               (score e == - qsum gaps)%Q.
Proof. exact cai_score_is_sum_of_codon_gaps. Qed.
Print Assumptions C07_cai_score_is_sum_of_codon_gaps.

Theorem C07_cai_optimal_iff_every_codon_best : forall lf lb l s e cods,
  (forall c f b, qassoc c lf = Some f -> qassoc c lb = Some b -> (f <= b)%Q) ->
  get_codons l s = Some cods -> eval_maximize_cai lf lb l s = Some e ->
  ((score e == 0)%Q <->
   forall c, In c cods -> exists f b, qassoc c lf = Some f /\ qassoc c lb = Some b /\ (f == b)%Q).
Proof. exact cai_optimal_iff_every_codon_best. Qed.
Print Assumptions C07_cai_optimal_iff_every_codon_best.



(* ---- the solver side of the end-to-end statement, abstract in the objective ----
   optimize() drives every SEPARABLE objective to its declared best score 0: an objective whose score
   is a sum of per-unit (per-codon) gaps <= 0, each depending only on the nucleotides of its unit,
   whose first evaluation reports the units with a negative gap as breach locations, whose
   localization to the span of a unit's local mutation space moves like that unit's gap
   ([unit_searchable]: local space non-empty, below the exhaustive-search threshold, contains a
   gap-closing variant); constraints whose local copies are skipped as "enforced by nucleotide
   restrictions" (EnforceTranslation) are arbitrary. *)
Section AnySeparableObjective.
  Variable spec : Type.
  Variable ev : spec -> dna -> Q * option (list loc).
  Variable localize : spec -> loc -> bool -> dna -> lres spec.
  Variable reinit : bool -> spec -> dna -> spec.
  Variable enforced : spec -> bool.
  Variable best : spec -> option Q.
  Variable boost : spec -> Q.
  Variable opt_heuristic : spec -> option (settings -> lproblem spec -> state spec -> outcome * state spec).
  Variable space : mspace.
  Variable n : Z.
  Hypothesis space_wf : wf_space space.
  Hypothesis space_fits : forall c, In c (choices_list space) -> cend c <= n.
  Variable obj : spec.
  Variable units : list loc.
  Variable gap : loc -> dna -> Q.
  Variable cfg : settings.
  Variable cs : list spec.
  Hypothesis gap_nonpos : forall u s, (gap u s <= 0)%Q.
  Hypothesis ev_score : forall s, good space n s -> (fst (ev obj s) == qsum_gaps units gap s)%Q.
  Hypothesis best_obj : best obj = Some 0%Q.
  Hypothesis boost_obj : (0 < boost obj)%Q.
  Hypothesis no_heuristic : opt_heuristic obj = None.
  Hypothesis units_in : forall u, In u units -> 0 <= lstart u /\ lstart u < lend u /\ lend u <= n.
  Hypothesis units_disjoint : forall (i j : nat) u v, nth_error units i = Some u -> nth_error units j = Some v ->
    i <> j -> lend u <= lstart v \/ lend v <= lstart u.
  Hypothesis gap_local : forall u s t, In u units -> good space n s -> good space n t ->
    (forall i, lstart u <= i < lend u -> nth_error s (Z.to_nat i) = nth_error t (Z.to_nat i)) ->
    (gap u s == gap u t)%Q.
  Hypothesis constraints_skipped : forall c w s, In c cs ->
    match localize c w true s with
    | LSome c' => enforced (reinit false c' s) = true
    | LNone => True
    | LError => False
    end.

  Theorem C07_optimize_closes_every_initially_open_gap : forall passive st o st',
    passive obj = false ->
    state_good spec space n st ->
    snd (ev obj (cur _ st)) = Some (filter (fun u => negative gap u (cur _ st)) units) ->
    (forall u s, In u units -> negative gap u (cur _ st) = true -> good space n s -> negative gap u s = true ->
                 unit_searchable spec ev localize reinit best boost space n obj gap cfg u s) ->
    optimize spec ev localize reinit enforced best boost passive opt_heuristic cfg space cs [obj] st = (o, st') ->
    o = ODone /\ good space n (cur _ st') /\ (fst (ev obj (cur _ st')) == 0)%Q /\
    (forall u, In u units -> (gap u (cur _ st') == 0)%Q).
  Proof.
    exact (optimize_closes_initially_open_gaps spec ev localize reinit enforced best boost opt_heuristic
             space n space_wf space_fits obj units gap cfg cs gap_nonpos ev_score best_obj boost_obj
             no_heuristic units_in units_disjoint gap_local constraints_skipped).
  Qed.
End AnySeparableObjective.
Print Assumptions C07_optimize_closes_every_initially_open_gap.

(* ---- end to end for the modelled MaximizeCAI (forward strand) ----
   Instance of the solver: the modelled built-in classes (Proofs/Builtins.v).  optimize() on a problem
   whose only objective is MaximizeCAI, next to constraints whose local copies are skipped as enforced
   by nucleotide restrictions (EnforceTranslation), ends with EVERY codon a most-frequent synonym.
   The objective side (score = sum of codon gaps, reported locations = the sub-optimal codons one by
   one - the grouping with spread 3 never merges two codons -, localization to a codon) is proved;
   the mutation-space side is the hypothesis [block_searchable]: at each sub-optimal codon the local
   space is non-empty, below the exhaustive-search threshold, and contains a best synonym.  For the
   synonymous-codon space of EnforceTranslation that is (i) above + C04; it is not re-proved here for
   the concrete space, hence "_partial" - that part, the reverse strand and HarmonizeRCA are decided
   by the differential run. *)
Theorem C07_cai_optimize_reaches_every_codon_best_partial :
  forall (lf lb : list (dna * Q)) (l : loc) (space : mspace) (n : Z) (cfg : settings) (cs : list Specs.spec)
         (enforced passive : Specs.spec -> bool) st o st',
    wf_space space -> (forall c, In c (choices_list space) -> cend c <= n) ->
    wf_spec (SMaximizeCAI lf lb l) n -> lstrand l = 1 ->
    (forall c f b, qassoc c lf = Some f -> qassoc c lb = Some b -> (f <= b)%Q) ->
    (forall c w s, In c cs ->
       match Specs.localized c w true s with
       | LSome c' => enforced c' = true
       | LNone => True
       | LError => False
       end) ->
    passive (SMaximizeCAI lf lb l) = false ->
    state_good Specs.spec space n st ->
    (forall e B s, Specs.evaluate (SMaximizeCAI lf lb l) (cur _ st) = Some e ->
       In B (match locs e with Some ls => ls | None => [] end) -> good space n s ->
       block_searchable space n cfg lf lb l B s) ->
    optimize Specs.spec b_ev Specs.localized b_reinit enforced (fun _ => Some 0%Q) b_boost passive (fun _ => None)
             cfg space cs [SMaximizeCAI lf lb l] st = (o, st') ->
    o = ODone /\ good space n (cur _ st') /\
    forall i, 0 <= i < loc_len l / 3 -> codon_best lf lb l (cur _ st') i.
Proof. exact cai_optimize_reaches_every_codon_best_partial. Qed.
Print Assumptions C07_cai_optimize_reaches_every_codon_best_partial.

(* ---- C07 end to end, nothing assumed about the mutation space ----
   The problem the property talks about: EnforceTranslation over a coding region (forward strand, no
   start-codon policy, any generated genetic code without dual-use stop codons) as the only
   constraint, MaximizeCAI over the same region as the only objective, the mutation space built from
   the constraint's nucleotide restrictions (from_optimization_problem), codon-usage tables consistent
   with the genetic code (the best log-frequency of a codon is reached by one of its synonyms), a
   randomization threshold above 64.  For every usable starting state and every configuration,
   optimize() returns, the sequence still encodes the same protein, EVERY codon is a most-frequent
   synonym, the length is unchanged and no nucleotide outside the region is touched.
   (The reverse strand is the next theorem; start-codon policies and HarmonizeRCA: differential run.) *)
Theorem C07_cai_optimize_end_to_end :
  forall (name : string) (T : gtable) (lf lb : list (dna * Q)) (l : loc) (tr : astr) (s0 : dna)
         (cfg : settings) (passive : Specs.spec -> bool) st o st',
    In (name, T) genetic_tables -> no_dual_stop T = true ->
    wf_spec (SMaximizeCAI lf lb l) (zlen s0) -> lstrand l = 1 ->
    loc_len l = 3 * zlen tr -> 1 <= zlen tr ->
    tables_consistent T lf lb ->
    64 < st_threshold cfg ->
    let space := from_constraints s0 (restrict_nucleotides (STranslation T l tr StartNone) false s0) in
    passive (SMaximizeCAI lf lb l) = false ->
    state_good Specs.spec space (zlen s0) st ->
    optimize Specs.spec b_ev Specs.localized b_reinit tr_enforced (fun _ => Some 0%Q) b_boost passive (fun _ => None)
             cfg space [STranslation T l tr StartNone] [SMaximizeCAI lf lb l] st = (o, st') ->
    o = ODone /\
    translate T (extract l (cur _ st')) = Some tr /\
    (forall i, 0 <= i < loc_len l / 3 -> codon_best lf lb l (cur _ st') i) /\
    zlen (cur _ st') = zlen s0 /\
    (forall i, 0 <= i -> ~ (lstart l <= i < lend l) ->
       nth_error (cur _ st') (Z.to_nat i) = nth_error (cur _ st) (Z.to_nat i)).
Proof. exact cai_optimize_end_to_end. Qed.
Print Assumptions C07_cai_optimize_end_to_end.

(* with the start-codon policy "keep" (the first codon is frozen to the one of the supplied sequence):
   the first codon is untouched, every OTHER codon still encodes its residue and ends as a
   most-frequent synonym.  The evaluation keeps reporting the frozen first codon when it is not a best
   synonym: the solver skips locations whose local space is frozen (CaiFullKeep.v, section SolverFrozen:
   optimize closes every gap that is not frozen, for any separable objective). *)
Theorem C07_cai_optimize_end_to_end_keep_start :
  forall (name : string) (T : gtable) (lf lb : list (dna * Q)) (l : loc) (tr : astr) (s0 : dna)
         (cfg : settings) (passive : Specs.spec -> bool) st o st',
    In (name, T) genetic_tables -> no_dual_stop T = true ->
    wf_spec (SMaximizeCAI lf lb l) (zlen s0) -> lstrand l = 1 ->
    loc_len l = 3 * zlen tr -> 1 <= zlen tr ->
    tables_consistent T lf lb ->
    64 < st_threshold cfg ->
    let space := from_constraints s0 (restrict_nucleotides (STranslation T l tr StartKeep) false s0) in
    passive (SMaximizeCAI lf lb l) = false ->
    state_good Specs.spec space (zlen s0) st ->
    optimize Specs.spec b_ev Specs.localized b_reinit tr_enforced (fun _ => Some 0%Q) b_boost passive (fun _ => None)
             cfg space [STranslation T l tr StartKeep] [SMaximizeCAI lf lb l] st = (o, st') ->
    o = ODone /\
    slice (cur _ st') (lstart l) (lstart l + 3) = slice s0 (lstart l) (lstart l + 3) /\
    (forall i, 1 <= i < loc_len l / 3 -> codon_best lf lb l (cur _ st') i) /\
    (forall i aa, 1 <= i < zlen tr -> nth_error tr (Z.to_nat i) = Some aa ->
        codon_aa T (slice (cur _ st') (lstart l + 3 * i) (lstart l + 3 * i + 3)) = Some aa) /\
    zlen (cur _ st') = zlen s0 /\
    (forall i, 0 <= i -> ~ (lstart l <= i < lend l) ->
       nth_error (cur _ st') (Z.to_nat i) = nth_error (cur _ st) (Z.to_nat i)).
Proof. exact cai_optimize_end_to_end_keep_start. Qed.
Print Assumptions C07_cai_optimize_end_to_end_keep_start.

(* the same on the REVERSE strand *)
Theorem C07_cai_optimize_end_to_end_reverse_strand :
  forall (name : string) (T : gtable) (lf lb : list (dna * Q)) (l : loc) (tr : astr) (s0 : dna)
         (cfg : settings) (passive : Specs.spec -> bool) st o st',
    In (name, T) genetic_tables -> no_dual_stop T = true ->
    wf_spec (SMaximizeCAI lf lb l) (zlen s0) -> lstrand l = -1 ->
    loc_len l = 3 * zlen tr -> 1 <= zlen tr ->
    tables_consistent T lf lb ->
    64 < st_threshold cfg ->
    let space := from_constraints s0 (restrict_nucleotides (STranslation T l tr StartNone) false s0) in
    passive (SMaximizeCAI lf lb l) = false ->
    state_good Specs.spec space (zlen s0) st ->
    optimize Specs.spec b_ev Specs.localized b_reinit tr_enforced (fun _ => Some 0%Q) b_boost passive (fun _ => None)
             cfg space [STranslation T l tr StartNone] [SMaximizeCAI lf lb l] st = (o, st') ->
    o = ODone /\
    translate T (extract l (cur _ st')) = Some tr /\
    (forall i, 0 <= i < loc_len l / 3 -> codon_best lf lb l (cur _ st') i) /\
    zlen (cur _ st') = zlen s0 /\
    (forall i, 0 <= i -> ~ (lstart l <= i < lend l) ->
       nth_error (cur _ st') (Z.to_nat i) = nth_error (cur _ st) (Z.to_nat i)).
Proof. exact cai_optimize_end_to_end_reverse_strand. Qed.
Print Assumptions C07_cai_optimize_end_to_end_reverse_strand.

(* the mutation-space hypothesis is satisfiable: a one-codon gene CTC whose space offers CTC / CTG,
   with CTG the most frequent synonym *)
Open Scope string_scope.
Definition ex_space := mkSpace [Some (mkChoice 0 3 [sq "CTC"; sq "CTG"] false); Some (mkChoice 0 3 [sq "CTC"; sq "CTG"] false); Some (mkChoice 0 3 [sq "CTC"; sq "CTG"] false)].
Definition ex_cfg := mkSettings 10 5%nat 2 [0; 5] None.
Definition ex_lf : list (dna * Q) := [(sq "CTG", 0%Q); (sq "CTC", (-1)%Q)].
Definition ex_lb : list (dna * Q) := [(sq "CTG", 0%Q); (sq "CTC", 0%Q)].
Example C07_block_searchable_ex :
  block_searchable ex_space 3 ex_cfg ex_lf ex_lb (mkLoc 0 3 1) (mkLoc 0 3 0) (sq "CTC").
Proof.
  unfold block_searchable. cbv zeta.
  split; [vm_compute; discriminate|]. split; [vm_compute; reflexivity|].
  exists 0, 3, [sq "CTC"; sq "CTG"].
  split; [vm_compute; reflexivity|]. split; [cbn; lia|]. split; [cbn; lia|].
  split; [vm_compute; reflexivity|].
  exists (sq "CTG"). split; [right; left; reflexivity|].
  intros i Hi _ _. assert (i = 0) by (change (loc_len (mkLoc 0 3 1) / 3) with 1 in Hi; lia). subst i.
  exists 0%Q, 0%Q. vm_compute. repeat split; reflexivity.
Qed.
