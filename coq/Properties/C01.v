(* C01 - resolve_constraints returns only with every constraint satisfied, or raises
   NoSolutionError.  Stated over the abstract solver model (Model/Solver.v): [spec] is ANY type of
   specifications with ARBITRARY evaluate / localized / initialized_on_problem functions and
   resolution heuristics -- in particular ones whose localization or heuristic is wrong. *)
From Coq Require Import ZArith QArith Bool List Lia Sorting.Sorted.
From DC Require Import Model.Base Model.Loc Model.MSpace Model.Solver
                       Proofs.MSpaceDefs Proofs.MSpaceA Proofs.MSpaceB Proofs.MSpaceC
                       Proofs.SolverA Proofs.SolverB Proofs.SolverC Proofs.SolverD.
Import ListNotations.
Open Scope Z_scope.

Section AnySpecifications.
  Variable spec : Type.
  Variable spec_eqb : spec -> spec -> bool.
  Variable ev : spec -> dna -> Q * option (list loc).
  Variable localize : spec -> loc -> bool -> dna -> lres spec.
  Variable accepts_rh : spec -> bool.
  Variable reinit : bool -> spec -> dna -> spec.
  Variable enforced : spec -> bool.
  Variable priority : spec -> Z.
  Variable best : spec -> option Q.
  Variable boost : spec -> Q.
  Variable passive : spec -> bool.
  Variable heuristic : spec -> option (settings -> lproblem spec -> state spec -> outcome * state spec).
  Variable opt_heuristic : spec -> option (settings -> lproblem spec -> state spec -> outcome * state spec).

  Notation resolve_constraints :=
    (resolve_constraints spec spec_eqb ev localize accepts_rh reinit enforced priority heuristic).

  (* a normal return means every constraint passes when fully re-evaluated (no autopass).  The one
     return that skips the final check (no constraint needs solving: all are flagged
     enforced_by_nucleotide_restrictions) is covered by the mutation-space guarantee C04, which
     enters as the second hypothesis. *)
  Theorem C01_return_means_every_constraint_passes : forall cfg space cs st st',
    resolve_constraints cfg space cs true st = (ODone, st') ->
    (filter (fun c => negb (enforced c)) cs = [] -> forall c, In c cs -> passes_on spec ev c (cur _ st)) ->
    forall c, In c cs -> passes_on spec ev c (cur _ st').
  Proof.
    exact (resolve_constraints_done_all_pass spec spec_eqb ev localize accepts_rh reinit enforced priority
             best boost passive heuristic opt_heuristic).
  Qed.

  Theorem C01_unenforced_constraints_always_pass_on_return : forall cfg space cs st st',
    resolve_constraints cfg space cs true st = (ODone, st') ->
    forall c, In c cs -> enforced c = false -> passes_on spec ev c (cur _ st').
  Proof.
    exact (resolve_constraints_done_unenforced_pass spec spec_eqb ev localize accepts_rh reinit enforced priority
             best boost passive heuristic opt_heuristic).
  Qed.

  Variable space : mspace.
  Variable n : Z.
  Hypothesis space_wf : wf_space space.
  Hypothesis space_fits : forall c, In c (choices_list space) -> cend c <= n.

  (* well-formed user code: localized() does not raise; heuristics end in NoSolutionError or with a
     sequence of the local mutation space (what the library's own searches produce) *)
  Hypothesis heuristics_sound : forall c h, heuristic c = Some h -> heuristic_sound spec space n h.
  Hypothesis localize_total : forall c w rh s, localize c w rh s <> LError.

  (* ... then no exception other than NoSolutionError can escape, for every configuration and every
     stream of random draws (OOutOfStream is the harness artefact "recorded stream too short") *)
  Theorem C01_only_NoSolutionError_can_escape : forall cfg cs fc st o st',
    state_good spec space n st -> resolve_constraints cfg space cs fc st = (o, st') ->
    o = ODone \/ o = ONoSolution \/ o = OOutOfStream.
  Proof.
    intros cfg cs fc st o st' Hg Hr.
    eapply resolve_constraints_no_other_exception with (heuristic := heuristic); eassumption.
  Qed.
End AnySpecifications.
Print Assumptions C01_return_means_every_constraint_passes.
Print Assumptions C01_unenforced_constraints_always_pass_on_return.
Print Assumptions C01_only_NoSolutionError_can_escape.

(* Non-vacuity: a tiny instance (spec = nat, one constraint forbidding the sequence "A") where the
   solver has to work and returns with the constraint passing. *)
Definition ex_ev (c : nat) (s : dna) : Q * option (list loc) :=
  if seq_eqb s [nA] then ((-1 # 1)%Q, Some [mkLoc 0 1 0]) else (0%Q, Some []).
Definition ex_space := mkSpace [Some (mkChoice 0 1 [[nA]; [nC]] false)].
Example C01_ex :
  let r := resolve_constraints nat Nat.eqb ex_ev (fun c _ _ _ => LSome c) (fun _ => true) (fun _ c _ => c)
             (fun _ => false) (fun _ => 0) (fun _ => None)
             (mkSettings 10000 10 2 [0; 5] None) ex_space [0%nat] true
             (mkState nat [nA] (mkR [] []) []) in
  fst r = ODone /\ cur _ (snd r) = [nC].
Proof. vm_compute. split; reflexivity. Qed.
