(* C08 - A constraint that passes locally after a local edit passes globally; and if localization
   yields nothing the edit does not change the score ([local_pass_law]).
   Proved for the modelled built-in classes below, AvoidHairpins and UniquifyAllKmers (in its global
   form, as the solver localizes it; model of the code after fix F19) and the pure objective HarmonizeRCA
   included: all 16 modelled classes. *)
From Coq Require Import ZArith QArith Bool List Lia Ascii String.
From DC Require Import Model.Base Model.Loc Model.Bio Model.Pattern Model.MSpace Model.Specs
                       Proofs.SpecsDefs Proofs.SpecsLocalA Proofs.SpecsLocalB Proofs.SpecsLocalC Proofs.Hairpins Proofs.Uniquify Proofs.HarmonizePass.
Import ListNotations.
Open Scope Z_scope.
Open Scope string_scope.

Definition c08_side (sp : spec) : Prop :=
  match sp with
  | SEnforceChanges _ _ _ _ _ is100 => is100 = false      (* the constraint configurations *)
  | SMaximizeCAI lf lb _ => forall c f b, qassoc c lf = Some f -> qassoc c lb = Some b -> (f <= b)%Q
  | _ => True
  end.
Definition c08_class (sp : spec) : bool :=
  match sp with SUniquify _ _ _ _ (Some _) => false | _ => true end.

Theorem C08_local_pass_implies_global_pass : forall sp w s s',
  c08_class sp = true -> wf_spec sp (zlen s) -> c08_side sp ->
  window_in w (zlen s) -> agree_outside w s s' ->
  local_pass_law sp w s s'.
Proof.
  intros sp w s s' Hc Hwf Hside Hw Ha.
  destruct sp; try discriminate Hc.
  - apply avoid_pattern_pass; assumption.
  - apply pattern_occ_delta; assumption.
  - apply gc_pass; assumption.
  - apply translation_laws; assumption.
  - apply stop_codons_laws; assumption.
  - apply avoid_changes_laws; assumption.
  - apply enforce_changes_pass; assumption.
  - apply enforce_sequence_laws; assumption.
  - apply enforce_choice_laws.
  - apply rare_codons_laws; assumption.
  - apply maximize_cai_laws; assumption.
  - apply harmonize_pass; assumption.
  - match goal with d : option kdata |- _ => destruct d; [discriminate|] end. apply uniquify_pass; assumption.
  - apply hairpins_pass; assumption.
  - apply terminal_gc_laws; assumption.
  - apply length_laws; assumption.
Qed.
Print Assumptions C08_local_pass_implies_global_pass.

Example C08_ex :
  let sp := SGC (1 # 4) (3 # 4) (Some 4) (mkLoc 0 12 0) in
  localized sp (mkLoc 5 6 0) true (sq "ACGTACGTACGT") = LSome (SGC (1 # 4) (3 # 4) (Some 4) (mkLoc 2 9 0))
  /\ option_map passes (evaluate sp (sq "ACGTACGTACGT")) = Some true.
Proof. vm_compute. split; reflexivity. Qed.
