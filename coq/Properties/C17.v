(* C17 - Edit accounting and summaries agree with the actual sequences.
   These quantities are functions of the CURRENT state (current sequence, original sequence, current
   evaluations), so "at any point of a problem's life" reduces to "for all states"; histories only
   matter for reaching states and are exercised by the differential run.  The rounded text of the
   objectives total (float formatting) is outside the model: differential only. *)
From Coq Require Import ZArith QArith Bool List Lia Sorting.Sorted String.
From DC Require Import Model.Base Model.Bio Model.Report Proofs.BioB Proofs.ReportProofs.
Import ListNotations.
Open Scope Z_scope.

Theorem C17_number_of_edits_is_the_number_of_differing_positions : forall cur orig,
  number_of_edits cur orig = zlen (filter (fun b : bool => b) (diff_array cur orig)).
Proof. exact number_of_edits_counts_mismatches. Qed.
Print Assumptions C17_number_of_edits_is_the_number_of_differing_positions.

Theorem C17_differences_array_marks_exactly_the_mismatches : forall s t i, List.length s = List.length t ->
  (0 <= i /\ nth_error (diff_array s t) (Z.to_nat i) = Some true) <-> mismatch s t i.
Proof. exact diff_array_spec. Qed.
Print Assumptions C17_differences_array_marks_exactly_the_mismatches.

Theorem C17_edit_features_cover_exactly_the_edits : forall cur orig, List.length cur = List.length orig ->
  (forall i, (exists f, In f (edit_features cur orig) /\ ef_start f <= i < ef_end f) <-> mismatch cur orig i) /\
  StronglySorted (fun p q => snd p < fst q) (map (fun f => (ef_start f, ef_end f)) (edit_features cur orig)).
Proof. exact edit_features_cover_exactly_the_edits. Qed.
Print Assumptions C17_edit_features_cover_exactly_the_edits.

Theorem C17_edit_labels_are_the_true_subsequences : forall cur orig f, In f (edit_features cur orig) ->
  ef_before f = slice orig (ef_start f) (ef_end f) /\ ef_after f = slice cur (ef_start f) (ef_end f).
Proof. exact edit_features_labels. Qed.
Print Assumptions C17_edit_labels_are_the_true_subsequences.

Theorem C17_success_iff_every_listed_evaluation_passes : forall scores,
  summary_is_success scores = true <-> forall q, In q scores -> Qle_bool 0 q = true.
Proof. exact summary_success_iff_all_pass. Qed.
Print Assumptions C17_success_iff_every_listed_evaluation_passes.

Example C17_ex : edit_features (sq "ACCTAAGA"%string) (sq "ACGTAATT"%string)
  = [mkEF 2 3 (sq "G"%string) (sq "C"%string); mkEF 6 8 (sq "TT"%string) (sq "GA"%string)] /\ number_of_edits (sq "ACCTAAGA"%string) (sq "ACGTAATT"%string) = 3.
Proof. vm_compute. split; reflexivity. Qed.
