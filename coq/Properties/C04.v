(* C04 - The mutation space is exactly the set of sequences the hard constraints allow.
   (a) from_constraints is EXACT: a sequence of the right length is a member of the space iff it
       satisfies every restriction choice it was built from (merge_with keeps exactly the variants
       compatible with all overlapping choices; extract_varying_region is exact); the space is
       well-formed; "unsolvable" (a choice without variant) iff no sequence satisfies them all;
   (b) per class, the restriction choices of an enforcing specification hold on a sequence iff the
       specification's own evaluation passes on it: theorems below for AvoidChanges (no edit
       allowance), EnforceChanges (100 %), EnforceSequence, EnforceChoice, AvoidRareCodons (and, in
       Properties/C07.v, EnforceTranslation); also tied to the code by the correspondence on generated
       constraint sets and decided by brute force over all 4^L sequences;
   (c) the initial sequence ends in the space (constrain_sequence, C15). *)
From Coq Require Import ZArith Bool List Lia Sorting.Sorted Permutation.
From DC Require Import Model.Specs Proofs.SpecsDefs Proofs.RestrictMeaning.
From DC Require Import Model.Base Model.Loc Model.MSpace Proofs.MSpaceDefs Proofs.MSpaceA Proofs.MSpaceD.
Import ListNotations.
Open Scope Z_scope.

Theorem C04_space_is_exactly_what_the_restrictions_allow : forall s rs t,
  Forall (wf_restriction (zlen s)) rs -> zlen t = zlen s ->
  (member (from_constraints s rs) t <-> Forall (fun r => holds r t) rs).
Proof. exact from_constraints_exact. Qed.
Print Assumptions C04_space_is_exactly_what_the_restrictions_allow.

Theorem C04_space_is_well_formed : forall s rs,
  Forall (wf_restriction (zlen s)) rs ->
  wf_space (from_constraints s rs) /\
  (forall c, In c (choices_list (from_constraints s rs)) -> cend c <= zlen s).
Proof. exact from_constraints_wf. Qed.
Print Assumptions C04_space_is_well_formed.

Theorem C04_unsolvable_iff_no_sequence_satisfies_all : forall s rs,
  Forall (wf_restriction (zlen s)) rs ->
  ((exists c, In c (choices_list (from_constraints s rs)) /\ cvariants c = []) <->
   ~ (exists t, zlen t = zlen s /\ Forall (fun r => holds r t) rs)).
Proof. exact unsolvable_iff_no_sequence. Qed.
Print Assumptions C04_unsolvable_iff_no_sequence_satisfies_all.

Theorem C04_extract_varying_region_is_exact : forall c t,
  wf_choice c -> cend c <= zlen t ->
  (holds c t <-> Forall (fun p => holds p t) (extract_varying_region c)).
Proof. exact extract_varying_region_exact. Qed.
Print Assumptions C04_extract_varying_region_is_exact.

(* constrain_sequence raises "unsolvable" exactly when some choice has no variant; otherwise the
   initial sequence is moved into the space *)
Theorem C04_initial_sequence_ends_in_the_space : forall ms s r s' r',
  wf_choices ms -> (forall c, In c (choices_list ms) -> cend c <= zlen s) ->
  constrain_sequence ms s r = COk s' r' -> member ms s' /\ zlen s' = zlen s.
Proof.
  intros ms s r s' r' Hwf Hfit H. destruct (constrain_sequence_spec ms s r s' r' Hwf Hfit H) as (Hm & Hl & _).
  split; assumption.
Qed.
Print Assumptions C04_initial_sequence_ends_in_the_space.

Theorem C04_unsolvable_error_exactly_for_empty_choices : forall ms s r a b,
  constrain_sequence ms s r = CUnsolvable a b ->
  exists c, In c (choices_list ms) /\ cvariants c = [] /\ cstart c = a /\ cend c = b.
Proof. exact constrain_no_unsolvable. Qed.
Print Assumptions C04_unsolvable_error_exactly_for_empty_choices.

(* Non-vacuity: two overlapping codon-like restrictions *)
Example C04_ex :
  map (fun c => (cstart c, cend c, cvariants c))
      (choices_list (from_constraints [nA; nC; nG; nT] [mkChoice 0 3 [[nA; nC; nG]; [nA; nC; nA]] false;
                                                          mkChoice 2 4 [[nG; nT]; [nA; nA]] false]))
  = [(0, 2, [[nA; nC]]); (2, 4, [[nG; nT]; [nA; nA]])].
Proof. vm_compute. reflexivity. Qed.


(* ---- (b): what the restrictions of each enforcing class mean ----
   [c04_init sp s]: what the constructors and initialized_on_problem establish on the problem's
   sequence s (stored sequence read from s; indices inside the location; for AvoidRareCodons one
   table entry per codon).  *)
Theorem C04_restrictions_hold_iff_the_specification_passes : forall sp s t,
  c04_class sp -> c04_init sp s -> zlen t = zlen s ->
  (Forall (fun r => holds r t) (restrict_nucleotides sp false s) <->
   exists e, Specs.evaluate sp t = Some e /\ passes e = true).
Proof. exact enforced_restrictions_mean_pass. Qed.
Print Assumptions C04_restrictions_hold_iff_the_specification_passes.

(* with (a): membership in the space built from ONE such specification = the specification passes *)
Theorem C04_enforce_sequence_exact : forall w l s t,
  loc_in l (zlen s) -> zlen t = zlen s ->
  (Forall (fun r => holds r t) (restrict_nucleotides (SEnforceSequence w l) false s) <->
   exists e, Specs.evaluate (SEnforceSequence w l) t = Some e /\ passes e = true).
Proof. exact enforce_sequence_restrictions_exact. Qed.
Print Assumptions C04_enforce_sequence_exact.

(* EnforceChanges (100 %) with ANY stored reference of the right size - what the copies made for local
   and circular problems carry - not only a reference read from the problem's own sequence (fix F24:
   before it, the restrictions forbade the nucleotides of the sequence handed to restrict_nucleotides,
   whatever the reference).  Locations of EnforceChanges never have strand -1 (the constructor turns it
   into +1); indices are distinct. *)
Theorem C04_enforce_changes_exact_for_any_reference : forall l idx ref am s t,
  reference_fits l idx ref s -> idx_covered l idx -> zlen t = zlen s ->
  let sp := SEnforceChanges l idx ref (Some (n_positions l idx)) am true in
  (Forall (fun r => holds r t) (restrict_nucleotides sp false s) <->
   exists e, Specs.evaluate sp t = Some e /\ passes e = true).
Proof. exact enforce_changes_restrictions_exact_any_reference. Qed.
Print Assumptions C04_enforce_changes_exact_for_any_reference.

(* both side conditions are necessary (witnesses): a repeated index with two different reference
   nucleotides; a location on the reverse strand *)
Theorem C04_enforce_changes_repeated_index_refuted :
  exists l ix ref am s t,
    Forall (fun i => 0 <= i < zlen s) ix /\ List.length ref = List.length ix /\
    idx_covered l (Some ix) /\ zlen t = zlen s /\
    let sp := SEnforceChanges l (Some ix) ref (Some (n_positions l (Some ix))) am true in
    ~ (Forall (fun r => holds r t) (restrict_nucleotides sp false s) <->
       exists e, Specs.evaluate sp t = Some e /\ passes e = true).
Proof. exact enforce_changes_repeated_index_refuted. Qed.
Print Assumptions C04_enforce_changes_repeated_index_refuted.

Theorem C04_enforce_changes_reverse_strand_refuted :
  exists l ref am s t,
    changes_init l None ref s /\ zlen t = zlen s /\
    let sp := SEnforceChanges l None ref (Some (n_positions l None)) am true in
    ~ (Forall (fun r => holds r t) (restrict_nucleotides sp false s) <->
       exists e, Specs.evaluate sp t = Some e /\ passes e = true).
Proof. exact enforce_changes_reverse_strand_refuted. Qed.
Print Assumptions C04_enforce_changes_reverse_strand_refuted.

(* the coverage hypothesis is necessary: a specification given BOTH a location and indices outside
   it (not the documented use: "alternatively, indices can be provided") restricts nothing while its
   evaluation fails *)
Theorem C04_indices_outside_the_location_refuted :
  exists l idx tg s t,
    wf_spec (SAvoidChanges l idx tg 0) (zlen s) /\ changes_init l idx tg s /\ zlen t = zlen s /\
    ~ (Forall (fun r => holds r t) (restrict_nucleotides (SAvoidChanges l idx tg 0) false s) <->
       exists e, Specs.evaluate (SAvoidChanges l idx tg 0) t = Some e /\ passes e = true).
Proof. exact avoid_changes_restrictions_refuted. Qed.
Print Assumptions C04_indices_outside_the_location_refuted.
