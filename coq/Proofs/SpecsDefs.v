(* Shared definitions for the specification lemmas (C08 / C09 / C10 / C20). *)
From Coq Require Import ZArith QArith Bool List Lia.
From DC Require Import Model.Base Model.Loc Model.Bio Model.Pattern Model.MSpace Model.Specs.
Import ListNotations.
Open Scope Z_scope.

(* s and s' have the same length and agree at every position outside the window w *)
Definition agree_outside (w : loc) (s s' : dna) : Prop :=
  List.length s = List.length s' /\
  forall i, 0 <= i -> ~ (lstart w <= i < lend w) -> nth_error s (Z.to_nat i) = nth_error s' (Z.to_nat i).

(* a location lying inside a sequence of length n, with a legal strand *)
Definition loc_in (l : loc) (n : Z) : Prop :=
  0 <= lstart l /\ lstart l <= lend l /\ lend l <= n /\ (lstrand l = 1 \/ lstrand l = -1 \/ lstrand l = 0).

(* a non-empty window inside the sequence *)
Definition window_in (w : loc) (n : Z) : Prop := 0 <= lstart w /\ lstart w < lend w /\ lend w <= n.

(* score difference of a specification between two sequences (when both evaluations succeed) *)
Definition delta (sp : spec) (s s' : dna) : option Q :=
  match evaluate sp s, evaluate sp s' with
  | Some e, Some e' => Some (score e' - score e)%Q
  | _, _ => None
  end.

(* the C09 law for one specification / window / pair of sequences *)
Definition local_delta_law (sp : spec) (w : loc) (s s' : dna) : Prop :=
  match localized sp w true s with
  | LSome sp' =>
      match delta sp s s', delta sp' s s' with
      | Some d, Some d' => (d == d')%Q
      | None, _ => True              (* the full specification cannot be evaluated (ill-formed) *)
      | Some _, None => False        (* the localized one must be evaluable whenever the full one is *)
      end
  | LNone =>
      match delta sp s s' with Some d => (d == 0)%Q | None => True end
  | LError => False
  end.

(* the C08 law *)
Definition local_pass_law (sp : spec) (w : loc) (s s' : dna) : Prop :=
  match evaluate sp s, evaluate sp s' with
  | Some e, Some e' =>
      passes e = true ->
      match localized sp w true s with
      | LSome sp' =>
          match evaluate sp' s' with
          | Some l' => passes l' = true -> passes e' = true
          | None => False
          end
      | LNone => (score e' == score e)%Q
      | LError => False
      end
  | _, _ => True
  end.

(* every ACGT codon has an entry in a per-codon table *)
Definition table_total (t : list (dna * Q)) : Prop :=
  forall a b c : nuc, exists v, qassoc [a; b; c] t = Some v.

(* well-formedness of an initialised specification on a sequence of length n (what
   initialized_on_problem / the constructors guarantee for a well-formed problem) *)
Definition wf_spec (sp : spec) (n : Z) : Prop :=
  match sp with
  | SAvoidPattern P l => 1 <= psize P /\ loc_in l n
  | SPatternOcc P _ l => 0 <= psize P /\ loc_in l n
  | SGC _ _ w l => loc_in l n /\ lstrand l <> -1 /\ match w with Some k => 1 <= k | None => True end
  | STranslation _ l tr _ => loc_in l n /\ loc_len l = 3 * zlen tr
  | SStopCodons _ l => loc_in l n /\ (loc_len l) mod 3 = 0
  | SAvoidChanges l None tg _ => loc_in l n /\ lstrand l <> -1 /\ zlen tg = loc_len l
  | SAvoidChanges l (Some idx) tg _ => zlen tg = zlen idx /\ Forall (fun i => 0 <= i < n) idx
  | SEnforceChanges l None ref _ _ _ => loc_in l n /\ lstrand l <> -1 /\ zlen ref = loc_len l
  | SEnforceChanges l (Some idx) ref _ _ _ => zlen ref = zlen idx /\ Forall (fun i => 0 <= i < n) idx
  | SEnforceSequence w l => loc_in l n /\ zlen w = loc_len l
  | SEnforceChoice _ l => loc_in l n
  | SRareCodons fr _ l => loc_in l n /\ (loc_len l) mod 3 = 0 /\ table_total fr
  | SMaximizeCAI lf lb l => loc_in l n /\ (loc_len l) mod 3 = 0 /\ table_total lf /\ table_total lb
  | SHarmonizeRCA r ro syn orig l =>
      loc_in l n /\ loc_len l = 3 * zlen orig /\ table_total r /\ table_total ro
  | SUniquify k l ref _ _ => 1 <= k /\ loc_in l n /\ loc_in ref n
  | SHairpins st win l => 1 <= st /\ st <= win /\ loc_in l n /\ lstrand l <> -1
  | STerminalGC ws _ _ ends => 1 <= ws /\ Forall (fun e => loc_in e n /\ lstrand e <> -1 /\ lstart e < lend e) ends
  | SLength _ _ => True
  end.
