(* C15 lemmas, part C: random mutations stay in the space and change exactly
   min(n, number of multi-variant choices) choices, each to a different allowed variant. *)
From Coq Require Import ZArith Bool List Lia Sorting.Sorted.
From DC Require Import Model.Base Model.Loc Model.MSpace Proofs.MSpaceDefs.
Import ListNotations.
Open Scope Z_scope.

(* the choices of ms whose segment differs between s and s' *)
Definition changed (c : choice) (s s' : dna) : Prop :=
  slice s' (cstart c) (cend c) <> slice s (cstart c) (cend c).

(* ---------- generic list facts ---------- *)
Lemma nth_error_skipn_c {X} : forall (m : nat) (l : list X) (k : nat),
  nth_error (skipn m l) k = nth_error l (m + k)%nat.
Proof.
  induction m as [|m IH]; intros l k.
  - reflexivity.
  - destruct l as [|x l].
    + simpl. destruct k; reflexivity.
    + simpl. apply IH.
Qed.

Lemma nth_error_firstn_c {X} : forall (n : nat) (l : list X) (k : nat),
  (k < n)%nat -> nth_error (firstn n l) k = nth_error l k.
Proof.
  induction n as [|n IH]; intros l k Hk.
  - lia.
  - destruct l as [|x l].
    + reflexivity.
    + destruct k as [|k].
      * reflexivity.
      * simpl. apply IH. lia.
Qed.

Lemma nth_error_ext_c {X} : forall (l1 l2 : list X),
  (forall k, nth_error l1 k = nth_error l2 k) -> l1 = l2.
Proof.
  induction l1 as [|x l1 IH]; intros l2 H.
  - destruct l2 as [|y l2]; [reflexivity|]. specialize (H 0%nat). discriminate H.
  - destruct l2 as [|y l2].
    + specialize (H 0%nat). discriminate H.
    + pose proof (H 0%nat) as H0. simpl in H0. inversion H0; subst.
      f_equal. apply IH. intro k. exact (H (S k)).
Qed.

Lemma firstn_ext_c {X} : forall (n : nat) (l1 l2 : list X),
  (forall k, (k < n)%nat -> nth_error l1 k = nth_error l2 k) -> firstn n l1 = firstn n l2.
Proof.
  induction n as [|n IH]; intros l1 l2 H.
  - reflexivity.
  - pose proof (H 0%nat ltac:(lia)) as H0.
    destruct l1 as [|x l1]; destruct l2 as [|y l2]; simpl in H0; try discriminate H0.
    + reflexivity.
    + inversion H0; subst. simpl. f_equal. apply IH. intros k Hk.
      apply (H (S k)). lia.
Qed.

Lemma zlen_nonneg_c {X} (l : list X) : 0 <= zlen l.
Proof. unfold zlen. lia. Qed.

(* ---------- slice / splice ---------- *)
Lemma slice_ext {X} : forall (l1 l2 : list X) a b, 0 <= a ->
  (forall i, a <= i < b -> nth_error l1 (Z.to_nat i) = nth_error l2 (Z.to_nat i)) ->
  slice l1 a b = slice l2 a b.
Proof.
  intros l1 l2 a b Ha H. unfold slice. apply firstn_ext_c. intros k Hk.
  rewrite !nth_error_skipn_c.
  replace (Z.to_nat a + k)%nat with (Z.to_nat (a + Z.of_nat k)) by lia.
  apply H. lia.
Qed.

Lemma splice_nth_out {X} : forall (l v : list X) a b i,
  0 <= a <= b -> b <= zlen l -> zlen v = b - a -> 0 <= i -> ~ (a <= i < b) ->
  nth_error (splice l a b v) (Z.to_nat i) = nth_error l (Z.to_nat i).
Proof.
  intros l v a b i Hab Hb Hv Hi Hout. unfold splice. unfold zlen in *.
  rewrite Z.max_r by lia.
  assert (Hfl : length (firstn (Z.to_nat a) l) = Z.to_nat a).
  { apply firstn_length_le. lia. }
  destruct (Z_lt_dec i a) as [Hlt|Hge].
  - rewrite nth_error_app1 by (rewrite Hfl; lia).
    apply nth_error_firstn_c. lia.
  - rewrite nth_error_app2 by (rewrite Hfl; lia).
    rewrite nth_error_app2 by (rewrite Hfl; lia).
    rewrite nth_error_skipn_c. rewrite Hfl. f_equal. lia.
Qed.

Lemma splice_zlen {X} : forall (l v : list X) a b,
  0 <= a <= b -> b <= zlen l -> zlen v = b - a -> zlen (splice l a b v) = zlen l.
Proof.
  intros l v a b Hab Hb Hv. unfold splice, zlen in *. rewrite Z.max_r by lia.
  rewrite !app_length, skipn_length, firstn_length_le by lia. lia.
Qed.

Lemma splice_slice_same {X} : forall (l v : list X) a b,
  0 <= a <= b -> b <= zlen l -> zlen v = b - a -> slice (splice l a b v) a b = v.
Proof.
  intros l v a b Hab Hb Hv. unfold splice, slice, zlen in *.
  assert (Hfl : length (firstn (Z.to_nat a) l) = Z.to_nat a).
  { apply firstn_length_le. lia. }
  rewrite skipn_app, Hfl, Nat.sub_diag. simpl skipn at 2.
  rewrite skipn_all2 by (rewrite Hfl; lia). simpl.
  replace (Z.to_nat (b - a)) with (length v + 0)%nat by lia.
  rewrite firstn_app_2. simpl. apply app_nil_r.
Qed.

Lemma splice_slice_other {X} : forall (l v : list X) a b a' b',
  0 <= a <= b -> b <= zlen l -> zlen v = b - a -> 0 <= a' ->
  b' <= a \/ b <= a' ->
  slice (splice l a b v) a' b' = slice l a' b'.
Proof.
  intros l v a b a' b' Hab Hb Hv Ha' Hd. apply slice_ext; [exact Ha'|].
  intros i Hi. apply splice_nth_out; try assumption; lia.
Qed.

(* ---------- seq_eqb, sort_dna ---------- *)
Lemma nuc_eqb_refl : forall x, nuc_eqb x x = true.
Proof. destruct x; reflexivity. Qed.

Lemma seq_eqb_refl : forall s, seq_eqb s s = true.
Proof.
  induction s as [|x s IH]; simpl; [reflexivity|].
  rewrite nuc_eqb_refl, IH. reflexivity.
Qed.

Lemma in_insert_dna : forall v x l, In v (insert_dna x l) -> v = x \/ In v l.
Proof.
  intros v x l. induction l as [|y l IH]; simpl; intro H.
  - destruct H as [H|[]]. left. symmetry. exact H.
  - destruct (seq_ltb y x).
    + destruct H as [H|H].
      * right. left. exact H.
      * destruct (IH H) as [H1|H1]; [left; exact H1 | right; right; exact H1].
    + destruct H as [H|H].
      * left. symmetry. exact H.
      * right. exact H.
Qed.

Lemma in_sort_dna : forall v l, In v (sort_dna l) -> In v l.
Proof.
  intros v l. induction l as [|x l IH]; simpl; intro H.
  - exact H.
  - destruct (in_insert_dna _ _ _ H) as [H1|H1].
    + left. symmetry. exact H1.
    + right. apply IH. exact H1.
Qed.

Theorem random_variant_spec : forall c s r v r',
  random_variant c s r = Some (v, r') ->
  In v (cvariants c) /\ v <> slice s (cstart c) (cend c).
Proof.
  intros c s r v r' H. unfold random_variant in H.
  destruct (draw_int _ r) as [[k r1]|]; [|discriminate H].
  destruct (nth_error _ (Z.to_nat k)) as [w|] eqn:Hn; [|discriminate H].
  inversion H; subst w r1. clear H.
  apply nth_error_In in Hn. apply in_sort_dna in Hn.
  apply filter_In in Hn. destruct Hn as [Hin Hneq]. split; [exact Hin|].
  intro Heq. rewrite <- Heq in Hneq. rewrite seq_eqb_refl in Hneq. discriminate Hneq.
Qed.

(* ---------- log / stream bookkeeping ---------- *)
Lemma draw_spec : forall q r a r2, draw q r = Some (a, r2) ->
  r_stream r = a :: r_stream r2 /\ r_log r2 = r_log r ++ [q].
Proof.
  intros q r a r2 H. unfold draw in H. destruct (r_stream r) as [|x rest] eqn:Hs; [discriminate H|].
  inversion H; subst. simpl. split; reflexivity.
Qed.

Lemma draw_int_spec : forall n r v r2, draw_int n r = Some (v, r2) ->
  r_stream r = [v] :: r_stream r2 /\ r_log r2 = r_log r ++ [RInt n].
Proof.
  intros n r v r2 H. unfold draw_int in H.
  destruct (draw (RInt n) r) as [[a r1]|] eqn:Hd; [|discriminate H].
  destruct a as [|x [|y a]]; try discriminate H.
  inversion H; subst. apply draw_spec in Hd. exact Hd.
Qed.

Lemma random_variant_log : forall c s r v r2, random_variant c s r = Some (v, r2) ->
  exists qs, r_log r2 = r_log r ++ qs.
Proof.
  intros c s r v r2 H. unfold random_variant in H.
  destruct (draw_int _ r) as [[k r1]|] eqn:Hd; [|discriminate H].
  destruct (nth_error _ (Z.to_nat k)) as [w|]; [|discriminate H].
  inversion H; subst. apply draw_int_spec in Hd. destruct Hd as [_ Hl].
  eexists. exact Hl.
Qed.

Lemma variants_for_log : forall cs s r muts r2, variants_for cs s r = Some (muts, r2) ->
  exists qs, r_log r2 = r_log r ++ qs.
Proof.
  induction cs as [|c cs IH]; intros s r muts r2 H; simpl in H.
  - inversion H; subst. exists []. symmetry. apply app_nil_r.
  - destruct (random_variant c s r) as [[v r1]|] eqn:Hr; [|discriminate H].
    destruct (variants_for cs s r1) as [[l r3]|] eqn:Hv; [|discriminate H].
    inversion H; subst.
    apply random_variant_log in Hr. destruct Hr as [q1 Hq1].
    apply IH in Hv. destruct Hv as [q2 Hq2].
    exists (q1 ++ q2). rewrite Hq2, Hq1. symmetry. apply app_assoc.
Qed.

(* the first request of a run from an empty log has a valid answer *)
Lemma first_answer_valid : forall stream q a r1 r' qs,
  draw q (mkR stream []) = Some (a, r1) ->
  r_log r' = r_log r1 ++ qs ->
  valid_run stream r' -> valid_answer q a.
Proof.
  intros stream q a r1 r' qs Hd Hl [Hv _].
  apply draw_spec in Hd. simpl in Hd. destruct Hd as [Hs Hl1].
  rewrite Hl1 in Hl. simpl in Hl. rewrite Hl, Hs in Hv. simpl in Hv.
  inversion Hv; subst. assumption.
Qed.

(* ---------- variants_for ---------- *)
Lemma variants_for_spec : forall cs s r muts r2, variants_for cs s r = Some (muts, r2) ->
  map fst muts = cs /\
  Forall (fun cv => In (snd cv) (cvariants (fst cv)) /\
                    snd cv <> slice s (cstart (fst cv)) (cend (fst cv))) muts.
Proof.
  induction cs as [|c cs IH]; intros s r muts r2 H; simpl in H.
  - inversion H; subst. split; [reflexivity|constructor].
  - destruct (random_variant c s r) as [[v r1]|] eqn:Hr; [|discriminate H].
    destruct (variants_for cs s r1) as [[l r3]|] eqn:Hv; [|discriminate H].
    inversion H; subst.
    apply random_variant_spec in Hr. apply IH in Hv. destruct Hv as [Hm Hf].
    split; [simpl; f_equal; exact Hm|]. constructor; [exact Hr|exact Hf].
Qed.

(* ---------- nth_all ---------- *)
Lemma nth_all_spec {X} : forall (l : list X) idx cs, nth_all l idx = Some cs ->
  length cs = length idx /\
  (forall c, In c cs -> exists j, In j idx /\ 0 <= j /\ nth_error l (Z.to_nat j) = Some c).
Proof.
  intros l. induction idx as [|i idx IH]; intros cs H; simpl in H.
  - inversion H; subst. split; [reflexivity|]. intros c [].
  - destruct (i <? 0) eqn:Hi; [discriminate H|].
    destruct (nth_error l (Z.to_nat i)) as [x|] eqn:Hn; [|discriminate H].
    destruct (nth_all l idx) as [r|] eqn:Hr; [|discriminate H].
    inversion H; subst. destruct (IH r eq_refl) as [Hlen Hin].
    split; [simpl; f_equal; exact Hlen|].
    intros c [Hc|Hc].
    + subst c. exists i. split; [left; reflexivity|]. split; [lia|exact Hn].
    + destruct (Hin c Hc) as [j [Hj1 [Hj2 Hj3]]]. exists j.
      split; [right; exact Hj1|]. split; assumption.
Qed.

Lemma nth_all_nodup {X} : forall (l : list X) idx cs, NoDup l -> NoDup idx ->
  nth_all l idx = Some cs -> NoDup cs.
Proof.
  intros l idx cs Hl. revert cs. induction idx as [|i idx IH]; intros cs Hi H; simpl in H.
  - inversion H; subst. constructor.
  - destruct (i <? 0) eqn:Hi0; [discriminate H|].
    destruct (nth_error l (Z.to_nat i)) as [x|] eqn:Hn; [|discriminate H].
    destruct (nth_all l idx) as [r|] eqn:Hr; [|discriminate H].
    inversion H; subst. inversion Hi as [|? ? Hni Hnd]; subst.
    constructor; [|apply IH; [exact Hnd|reflexivity]].
    intro Hx. destruct (nth_all_spec l idx r Hr) as [_ Hin].
    destruct (Hin x Hx) as [j [Hj1 [Hj2 Hj3]]].
    assert (Heq : Z.to_nat i = Z.to_nat j).
    { apply (proj1 (NoDup_nth_error l) Hl).
      - apply nth_error_Some. rewrite Hn. discriminate.
      - rewrite Hn, Hj3. reflexivity. }
    assert (i = j) by lia. subst j. contradiction.
Qed.

(* ---------- disjoint segments ---------- *)
Definition disj (c c' : choice) : Prop := cend c <= cstart c' \/ cend c' <= cstart c.

Lemma disj_sym : forall c c', disj c c' -> disj c' c.
Proof. intros c c' [H|H]; [right|left]; exact H. Qed.

Lemma sorted_sep : forall cl, StronglySorted (fun a b => cend a <= cstart b) cl ->
  forall c c', In c cl -> In c' cl -> c = c' \/ disj c c'.
Proof.
  intros cl Hs. induction Hs as [|x l Hs IH Hf]; intros c c' Hc Hc'.
  - destruct Hc.
  - rewrite Forall_forall in Hf. destruct Hc as [Hc|Hc]; destruct Hc' as [Hc'|Hc'].
    + left. congruence.
    + subst x. right. left. apply Hf. exact Hc'.
    + subst x. right. right. apply Hf. exact Hc.
    + apply IH; assumption.
Qed.

Lemma sorted_nodup : forall cl, Forall wf_choice cl ->
  StronglySorted (fun a b => cend a <= cstart b) cl -> NoDup cl.
Proof.
  intros cl Hw Hs. induction Hs as [|x l Hs IH Hf].
  - constructor.
  - inversion Hw as [|? ? Hwx Hwl]; subst. constructor; [|apply IH; exact Hwl].
    intro Hin. rewrite Forall_forall in Hf. specialize (Hf x Hin).
    destruct Hwx as [Hx _]. lia.
Qed.

Fixpoint pdisj (cs : list choice) : Prop :=
  match cs with
  | [] => True
  | c :: l => (forall c', In c' l -> disj c c') /\ pdisj l
  end.

Lemma nodup_pdisj : forall cs,
  (forall c c', In c cs -> In c' cs -> c = c' \/ disj c c') -> NoDup cs -> pdisj cs.
Proof.
  induction cs as [|x cs IH]; intros Hsep Hnd; simpl.
  - exact I.
  - inversion Hnd as [|? ? Hni Hnd']; subst. split.
    + intros c' Hc'. destruct (Hsep x c' (or_introl eq_refl) (or_intror Hc')) as [He|Hd].
      * subst c'. contradiction.
      * exact Hd.
    + apply IH; [|exact Hnd']. intros c c' Hc Hc'. apply Hsep; right; assumption.
Qed.

(* ---------- apply_mutations ---------- *)
Definition mut_ok (L : Z) (cv : choice * dna) : Prop :=
  0 <= cstart (fst cv) <= cend (fst cv) /\ cend (fst cv) <= L /\
  zlen (snd cv) = cend (fst cv) - cstart (fst cv).

Lemma apply_mutations_spec : forall muts acc L,
  zlen acc = L -> Forall (mut_ok L) muts -> pdisj (map fst muts) ->
  zlen (apply_mutations acc muts) = L /\
  (forall cv, In cv muts ->
     slice (apply_mutations acc muts) (cstart (fst cv)) (cend (fst cv)) = snd cv) /\
  (forall i, 0 <= i -> (forall cv, In cv muts -> ~ (cstart (fst cv) <= i < cend (fst cv))) ->
     nth_error (apply_mutations acc muts) (Z.to_nat i) = nth_error acc (Z.to_nat i)).
Proof.
  induction muts as [|[c v] muts IH]; intros acc L HL Hok Hd.
  - simpl. split; [exact HL|]. split; [intros cv []|]. intros i _ _. reflexivity.
  - inversion Hok as [|? ? Hcv Hok']; subst. simpl in Hd. destruct Hd as [Hdc Hd'].
    destruct Hcv as [Hc1 [Hc2 Hc3]]. simpl in Hc1, Hc2, Hc3.
    assert (HL' : zlen (splice acc (cstart c) (cend c) v) = zlen acc).
    { apply splice_zlen; assumption. }
    change (apply_mutations acc ((c, v) :: muts))
      with (apply_mutations (splice acc (cstart c) (cend c) v) muts).
    destruct (IH (splice acc (cstart c) (cend c) v) (zlen acc) HL' Hok' Hd')
      as [IH1 [IH2 IH3]].
    split; [exact IH1|]. split.
    + intros cv [Hcv|Hcv].
      * subst cv. simpl.
        rewrite <- (splice_slice_same acc v (cstart c) (cend c)) at 2 by assumption.
        apply slice_ext; [lia|]. intros i Hi. apply IH3; [lia|].
        intros cv' Hcv' Hin.
        assert (Hdd : disj c (fst cv')).
        { apply Hdc. apply in_map. exact Hcv'. }
        destruct Hdd as [Hdd|Hdd]; lia.
      * apply IH2. exact Hcv.
    + intros i Hi Hout. rewrite IH3.
      * apply splice_nth_out; try assumption.
        apply (Hout (c, v)). left. reflexivity.
      * exact Hi.
      * intros cv Hcv. apply Hout. right. exact Hcv.
Qed.

(* ---------- assembling ---------- *)
Lemma in_or_disj : forall (c : choice) cs,
  (forall c', In c' cs -> c = c' \/ disj c c') ->
  In c cs \/ (forall c', In c' cs -> disj c c').
Proof.
  intros c. induction cs as [|x cs IH]; intro H.
  - right. intros c' [].
  - destruct (H x (or_introl eq_refl)) as [He|Hd].
    + left. left. symmetry. exact He.
    + destruct IH as [Hin|Hall].
      * intros c' Hc'. apply H. right. exact Hc'.
      * left. right. exact Hin.
      * right. intros c' [Hc'|Hc']; [subst c'; exact Hd|apply Hall; exact Hc'].
Qed.

Lemma mutate_core : forall ms s cs r1 muts r',
  wf_choices ms -> member ms s -> (forall c, In c (choices_list ms) -> cend c <= zlen s) ->
  NoDup cs -> (forall c, In c cs -> In c (multichoices ms)) ->
  variants_for cs s r1 = Some (muts, r') ->
  zlen (apply_mutations s muts) = zlen s /\
  member ms (apply_mutations s muts) /\
  (forall c, In c cs -> In c (multichoices ms) /\ changed c s (apply_mutations s muts) /\
                        holds c (apply_mutations s muts)) /\
  (forall c, In c (choices_list ms) -> ~ In c cs -> ~ changed c s (apply_mutations s muts)) /\
  (forall i, 0 <= i -> (forall c, In c cs -> ~ (cstart c <= i < cend c)) ->
     nth_error (apply_mutations s muts) (Z.to_nat i) = nth_error s (Z.to_nat i)).
Proof.
  intros ms s cs r1 muts r' Hwf Hmem Hend Hnd Hsub Hvf.
  destruct Hwf as [Hwc Hsorted].
  rewrite Forall_forall in Hwc.
  destruct (variants_for_spec _ _ _ _ _ Hvf) as [Hmap Hprops].
  rewrite Forall_forall in Hprops.
  assert (Hcl : forall c, In c cs -> In c (choices_list ms)).
  { intros c Hc. specialize (Hsub c Hc). unfold multichoices in Hsub.
    apply filter_In in Hsub. tauto. }
  assert (Hsep : forall c c', In c (choices_list ms) -> In c' cs -> c = c' \/ disj c c').
  { intros c c' Hc Hc'. apply (sorted_sep _ Hsorted); [exact Hc|apply Hcl; exact Hc']. }
  assert (Hpd : pdisj (map fst muts)).
  { rewrite Hmap. apply nodup_pdisj; [|exact Hnd].
    intros c c' Hc Hc'. apply Hsep; [apply Hcl; exact Hc|exact Hc']. }
  assert (Hfst : forall cv, In cv muts -> In (fst cv) cs).
  { intros cv Hcv. rewrite <- Hmap. apply in_map. exact Hcv. }
  assert (Hok : Forall (mut_ok (zlen s)) muts).
  { rewrite Forall_forall. intros cv Hcv.
    pose proof (Hcl _ (Hfst cv Hcv)) as Hc.
    destruct (Hwc _ Hc) as [Hc1 [_ Hc3]]. rewrite Forall_forall in Hc3.
    destruct (Hprops cv Hcv) as [Hin _].
    unfold mut_ok. split; [lia|]. split; [apply Hend; exact Hc|]. apply Hc3. exact Hin. }
  destruct (apply_mutations_spec muts s (zlen s) eq_refl Hok Hpd) as [A1 [A2 A3]].
  set (s' := apply_mutations s muts) in *.
  assert (Hnth : forall i, 0 <= i -> (forall c, In c cs -> ~ (cstart c <= i < cend c)) ->
     nth_error s' (Z.to_nat i) = nth_error s (Z.to_nat i)).
  { intros i Hi Hout. apply A3; [exact Hi|]. intros cv Hcv. apply Hout. apply Hfst. exact Hcv. }
  assert (Hsame : forall c, In c (choices_list ms) -> (forall c', In c' cs -> disj c c') ->
     slice s' (cstart c) (cend c) = slice s (cstart c) (cend c)).
  { intros c Hc Hdis. destruct (Hwc _ Hc) as [Hc1 _].
    apply slice_ext; [lia|]. intros i Hi. apply Hnth; [lia|].
    intros c' Hc' Hin. destruct (Hdis c' Hc') as [Hd|Hd]; lia. }
  assert (Hnew : forall c, In c cs ->
     changed c s s' /\ holds c s').
  { intros c Hc. rewrite <- Hmap in Hc. apply in_map_iff in Hc.
    destruct Hc as [cv [Hcv1 Hcv2]]. subst c.
    destruct (Hprops cv Hcv2) as [Hin Hneq].
    unfold changed, holds. rewrite (A2 cv Hcv2). split; assumption. }
  split; [exact A1|]. split; [|split; [|split]].
  - unfold member in *. rewrite Forall_forall in *. intros c Hc.
    destruct (in_or_disj c cs (fun c' Hc' => Hsep c c' Hc Hc')) as [Hin|Hdis].
    + apply Hnew. exact Hin.
    + unfold holds. rewrite (Hsame c Hc Hdis). apply Hmem. exact Hc.
  - intros c Hc. split; [apply Hsub; exact Hc|apply Hnew; exact Hc].
  - intros c Hc Hnin Hch. apply Hch. apply Hsame; [exact Hc|].
    intros c' Hc'. destruct (Hsep c c' Hc Hc') as [He|Hd]; [|exact Hd].
    subst c'. contradiction.
  - exact Hnth.
Qed.

Lemma mutate_idx : forall ms s idx cs r1 muts r',
  wf_choices ms -> member ms s -> (forall c, In c (choices_list ms) -> cend c <= zlen s) ->
  NoDup idx -> nth_all (multichoices ms) idx = Some cs ->
  variants_for cs s r1 = Some (muts, r') ->
  zlen (apply_mutations s muts) = zlen s /\
  member ms (apply_mutations s muts) /\
  (exists cs, NoDup cs /\ zlen cs = zlen idx /\
  (forall c, In c cs -> In c (multichoices ms) /\ changed c s (apply_mutations s muts) /\
                        holds c (apply_mutations s muts)) /\
  (forall c, In c (choices_list ms) -> ~ In c cs -> ~ changed c s (apply_mutations s muts)) /\
  (forall i, 0 <= i -> (forall c, In c cs -> ~ (cstart c <= i < cend c)) ->
     nth_error (apply_mutations s muts) (Z.to_nat i) = nth_error s (Z.to_nat i))).
Proof.
  intros ms s idx cs r1 muts r' Hwf Hmem Hend Hnd Hna Hvf.
  assert (Hndmc : NoDup (multichoices ms)).
  { unfold multichoices. apply NoDup_filter. destruct Hwf as [Hwc Hs].
    apply sorted_nodup; assumption. }
  pose proof (nth_all_nodup _ _ _ Hndmc Hnd Hna) as Hndcs.
  destruct (nth_all_spec _ _ _ Hna) as [Hlen Hin].
  assert (Hsub : forall c, In c cs -> In c (multichoices ms)).
  { intros c Hc. destruct (Hin c Hc) as [j [_ [_ Hj]]]. apply nth_error_In in Hj. exact Hj. }
  destruct (mutate_core ms s cs r1 muts r' Hwf Hmem Hend Hndcs Hsub Hvf)
    as [B1 [B2 [B3 [B4 B5]]]].
  split; [exact B1|]. split; [exact B2|].
  exists cs. split; [exact Hndcs|]. split; [unfold zlen; rewrite Hlen; reflexivity|].
  split; [exact B3|]. split; [exact B4|exact B5].
Qed.

(* for every oracle stream whose answers are legitimate *)
Theorem apply_random_mutations_spec : forall ms n s stream s' r',
  wf_choices ms -> member ms s -> (forall c, In c (choices_list ms) -> cend c <= zlen s) ->
  0 <= n ->
  apply_random_mutations ms n s (mkR stream []) = Some (s', r') ->
  valid_run stream r' ->
  zlen s' = zlen s /\
  member ms s' /\
  (exists cs, NoDup cs /\ zlen cs = Z.min n (zlen (multichoices ms)) /\
     (forall c, In c cs -> In c (multichoices ms) /\ changed c s s' /\ holds c s') /\
     (forall c, In c (choices_list ms) -> ~ In c cs -> ~ changed c s s') /\
     (forall i, 0 <= i -> (forall c, In c cs -> ~ (cstart c <= i < cend c)) ->
        nth_error s' (Z.to_nat i) = nth_error s (Z.to_nat i))).
Proof.
  intros ms n s stream s' r' Hwf Hmem Hend Hn Hrun Hvalid.
  unfold apply_random_mutations in Hrun.
  destruct (pick_random_mutations ms n s (mkR stream [])) as [[muts r2]|] eqn:Hpick;
    [|discriminate Hrun].
  inversion Hrun; subst s' r2. clear Hrun.
  unfold pick_random_mutations in Hpick.
  destruct (Z.min (zlen (multichoices ms)) n =? 1) eqn:Hn1.
  - apply Z.eqb_eq in Hn1.
    destruct (draw_int (zlen (multichoices ms)) (mkR stream [])) as [[i r1]|] eqn:Hd;
      [|discriminate Hpick].
    destruct (nth_all (multichoices ms) [i]) as [cs|] eqn:Hna; [|discriminate Hpick].
    assert (Hndi : NoDup [i]).
    { constructor; [intros []|constructor]. }
    destruct (mutate_idx ms s [i] cs r1 muts r' Hwf Hmem Hend Hndi Hna Hpick)
      as [C1 [C2 [cs' [C3 [C4 C5]]]]].
    split; [exact C1|]. split; [exact C2|]. exists cs'. split; [exact C3|].
    split; [|exact C5]. rewrite C4. change (zlen [i]) with 1. lia.
  - apply Z.eqb_neq in Hn1.
    destruct (draw (RChoice (zlen (multichoices ms)) (Z.min (zlen (multichoices ms)) n))
                (mkR stream [])) as [[idx r1]|] eqn:Hd; [|discriminate Hpick].
    destruct (nth_all (multichoices ms) idx) as [cs|] eqn:Hna; [|discriminate Hpick].
    destruct (variants_for_log _ _ _ _ _ Hpick) as [qs Hqs].
    pose proof (first_answer_valid _ _ _ _ _ _ Hd Hqs Hvalid) as Hva.
    simpl in Hva. destruct Hva as [Hlen [Hndi _]].
    destruct (mutate_idx ms s idx cs r1 muts r' Hwf Hmem Hend Hndi Hna Hpick)
      as [C1 [C2 [cs' [C3 [C4 C5]]]]].
    split; [exact C1|]. split; [exact C2|]. exists cs'. split; [exact C3|].
    split; [|exact C5]. rewrite C4. lia.
Qed.
