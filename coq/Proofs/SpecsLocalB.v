(* C09 / C08 lemmas, part B: position-wise specifications (AvoidChanges, EnforceChanges,
   EnforceSequence) and the specifications whose localization is themselves. *)
From Coq Require Import ZArith QArith Qminmax Qabs Bool List Lia Lqa.
From DC Require Import Model.Base Model.Loc Model.Bio Model.Pattern Model.MSpace Model.Specs
                       Proofs.SpecsDefs Proofs.BioB.
Import ListNotations.
Open Scope Z_scope.

(* ------------------------------------------------------------------ list helpers *)

Lemma zlenB_nonneg {X} (l : list X) : 0 <= zlen l.
Proof. unfold zlen. lia. Qed.

Lemma zlenB_cons {X} (x : X) (l : list X) : zlen (x :: l) = 1 + zlen l.
Proof. unfold zlen. cbn [List.length]. lia. Qed.

Lemma zlenB_app {X} (a b : list X) : zlen (a ++ b) = zlen a + zlen b.
Proof. unfold zlen. rewrite app_length. lia. Qed.

Lemma zlenB_map {X Y} (f : X -> Y) (l : list X) : zlen (map f l) = zlen l.
Proof. unfold zlen. rewrite map_length. reflexivity. Qed.

Lemma zlenB_rev {X} (l : list X) : zlen (rev l) = zlen l.
Proof. unfold zlen. rewrite rev_length. reflexivity. Qed.

Lemma zlenB_length {X Y} (a : list X) (b : list Y) : zlen a = zlen b -> List.length a = List.length b.
Proof. unfold zlen. lia. Qed.

Lemma zlenB_filter_le {X} (f : X -> bool) (l : list X) : zlen (filter f l) <= zlen l.
Proof.
  induction l as [|x l IH]; cbn [filter]; [lia|].
  destruct (f x); rewrite ?zlenB_cons; lia.
Qed.

Lemma zlenB_indices_where {X} (f : X -> bool) (l : list X) (i : Z) :
  zlen (indices_where f l i) = zlen (filter f l).
Proof.
  revert i. induction l as [|x l IH]; intros i; cbn [indices_where filter]; [reflexivity|].
  destruct (f x); [rewrite !zlenB_cons, IH; reflexivity | apply IH].
Qed.

Lemma zlenB_abs_pos l idx rel : zlen (absolute_positions l idx rel) = zlen rel.
Proof.
  unfold absolute_positions. destruct idx as [ix|]; [apply zlenB_map|].
  destruct (lstrand l =? -1); apply zlenB_map.
Qed.

Lemma firstnB_plus {X} (k m : nat) (l : list X) : firstn (k + m) l = firstn k l ++ firstn m (skipn k l).
Proof.
  revert l. induction k as [|k IH]; intros l; [reflexivity|].
  destruct l as [|x l]; cbn [Nat.add firstn skipn app].
  - destruct m; reflexivity.
  - f_equal. apply IH.
Qed.

Lemma skipnB_plus {X} (a b : nat) (l : list X) : skipn (a + b) l = skipn b (skipn a l).
Proof.
  revert l. induction a as [|a IH]; intros l; [reflexivity|].
  destruct l as [|x l]; cbn [Nat.add skipn].
  - destruct b; reflexivity.
  - apply IH.
Qed.

Lemma nth_errorB_nil {X} (j : nat) : nth_error (@nil X) j = None.
Proof. destruct j; reflexivity. Qed.

Lemma nth_errorB_ext {X} (l l' : list X) : (forall j, nth_error l j = nth_error l' j) -> l = l'.
Proof.
  revert l'. induction l as [|x l IH]; intros l' H; destruct l' as [|y l'].
  - reflexivity.
  - specialize (H 0%nat). discriminate H.
  - specialize (H 0%nat). discriminate H.
  - pose proof (H 0%nat) as H0. cbn in H0. injection H0 as ->. f_equal.
    apply IH. intros j. apply (H (S j)).
Qed.

Lemma nth_errorB_firstn {X} (k : nat) (l : list X) (j : nat) :
  nth_error (firstn k l) j = if (j <? k)%nat then nth_error l j else None.
Proof.
  revert l j. induction k as [|k IH]; intros l j.
  - cbn [firstn]. rewrite nth_errorB_nil. reflexivity.
  - destruct l as [|x l]; cbn [firstn].
    + rewrite nth_errorB_nil. destruct (j <? S k)%nat; reflexivity.
    + destruct j as [|j]; [reflexivity|]. cbn [nth_error]. rewrite IH.
      change (S j <? S k)%nat with (j <? k)%nat. reflexivity.
Qed.

Lemma nth_errorB_skipn {X} (m : nat) (l : list X) (j : nat) :
  nth_error (skipn m l) j = nth_error l (m + j).
Proof.
  revert l. induction m as [|m IH]; intros l; [reflexivity|].
  destruct l as [|x l]; cbn [skipn Nat.add].
  - rewrite !nth_errorB_nil. reflexivity.
  - cbn [nth_error]. apply IH.
Qed.

(* ------------------------------------------------------------------ slices *)

Lemma pysliceB_eq {X} (l : list X) a b : 0 <= a <= zlen l -> 0 <= b <= zlen l ->
  pyslice l a b = slice l a b.
Proof.
  intros Ha Hb. unfold pyslice, norm_idx.
  destruct (Z.ltb_spec a 0) as [H1|H1]; [lia|].
  destruct (Z.ltb_spec b 0) as [H2|H2]; [lia|].
  rewrite !Z.min_r by lia. reflexivity.
Qed.

Lemma sliceB_split {X} (l : list X) x y z : 0 <= x <= y -> y <= z ->
  slice l x z = slice l x y ++ slice l y z.
Proof.
  intros Hxy Hyz. unfold slice.
  replace (Z.to_nat (z - x)) with (Z.to_nat (y - x) + Z.to_nat (z - y))%nat by lia.
  replace (Z.to_nat y) with (Z.to_nat x + Z.to_nat (y - x))%nat by lia.
  rewrite skipnB_plus. apply firstnB_plus.
Qed.

Lemma sliceB_three {X} (l : list X) a a' b' b : 0 <= a <= a' -> a' <= b' -> b' <= b ->
  slice l a b = slice l a a' ++ slice l a' b' ++ slice l b' b.
Proof.
  intros H1 H2 H3. rewrite (sliceB_split l a a' b) by lia.
  rewrite (sliceB_split l a' b' b) by lia. reflexivity.
Qed.

Lemma sliceB_full {X} (l : list X) : slice l 0 (zlen l) = l.
Proof.
  unfold slice, zlen. rewrite Z.sub_0_r, Nat2Z.id. cbn [Z.to_nat skipn]. apply firstn_all.
Qed.

Lemma zlenB_slice {X} (l : list X) a b : 0 <= a <= b -> b <= zlen l -> zlen (slice l a b) = b - a.
Proof.
  intros H1 H2. unfold slice, zlen in *. rewrite firstn_length, skipn_length. lia.
Qed.

Lemma sliceB_ext {X} (l l' : list X) a b : 0 <= a ->
  (forall i, a <= i < b -> nth_error l (Z.to_nat i) = nth_error l' (Z.to_nat i)) ->
  slice l a b = slice l' a b.
Proof.
  intros Ha H. unfold slice. apply nth_errorB_ext. intros j.
  rewrite !nth_errorB_firstn, !nth_errorB_skipn.
  destruct (Nat.ltb_spec j (Z.to_nat (b - a))) as [Hlt|Hge]; [|reflexivity].
  replace (Z.to_nat a + j)%nat with (Z.to_nat (a + Z.of_nat j)) by lia.
  apply H. lia.
Qed.

Lemma agree_slice w s s' x y : agree_outside w s s' -> 0 <= x ->
  (forall i, x <= i < y -> ~ (lstart w <= i < lend w)) -> slice s x y = slice s' x y.
Proof.
  intros [_ Hag] Hx Hout. apply sliceB_ext; [exact Hx|].
  intros i Hi. apply Hag; [lia|]. apply Hout. exact Hi.
Qed.

Lemma agree_zlen w s s' : agree_outside w s s' -> zlen s' = zlen s.
Proof. intros [Hl _]. unfold zlen. rewrite Hl. reflexivity. Qed.

Lemma rcB_app (x y : dna) : rc (x ++ y) = rc y ++ rc x.
Proof. unfold rc. rewrite map_app, rev_app_distr. reflexivity. Qed.

Lemma zlenB_rc (x : dna) : zlen (rc x) = zlen x.
Proof. unfold rc. rewrite zlenB_rev, zlenB_map. reflexivity. Qed.

Lemma extract_fwd l s : lstrand l <> -1 -> 0 <= lstart l <= lend l -> lend l <= zlen s ->
  extract l s = slice s (lstart l) (lend l).
Proof.
  intros Hs H1 H2. unfold extract.
  destruct (Z.eqb_spec (lstrand l) (-1)) as [E|E]; [contradiction|].
  apply pysliceB_eq; lia.
Qed.

Lemma extract_rev l s : lstrand l = -1 -> 0 <= lstart l <= lend l -> lend l <= zlen s ->
  extract l s = rc (slice s (lstart l) (lend l)).
Proof.
  intros Hs H1 H2. unfold extract. rewrite Hs. cbn [Z.eqb Pos.eqb].
  rewrite pysliceB_eq by lia. reflexivity.
Qed.

Lemma extract_agree w s s' l : agree_outside w s s' -> 0 <= lstart l <= lend l -> lend l <= zlen s ->
  (lend l <= lstart w \/ lend w <= lstart l) -> extract l s = extract l s'.
Proof.
  intros Hag H1 H2 Hd. pose proof (agree_zlen _ _ _ Hag) as Hz.
  unfold extract. rewrite !pysliceB_eq by lia.
  rewrite (agree_slice w s s' (lstart l) (lend l) Hag) by (try lia; intros i Hi; lia).
  reflexivity.
Qed.

(* ------------------------------------------------------------------ overlap_region *)

Lemma overlapB_none a b : overlap_region a b = None -> lend a <= lstart b \/ lend b <= lstart a.
Proof.
  unfold overlap_region.
  destruct (Z.ltb_spec (lstart b) (lstart a)) as [H|H]; rewrite Z.geb_leb;
    match goal with |- context [?x <=? ?y] => destruct (Z.leb_spec x y) end; intros E;
    try discriminate E; lia.
Qed.

Lemma overlapB_some a b r : lstart a <= lend a -> lstart b <= lend b -> overlap_region a b = Some r ->
  lstart r = Z.max (lstart a) (lstart b) /\ lend r = Z.min (lend a) (lend b) /\
  lstrand r = lstrand a /\ lstart r <= lend r.
Proof.
  intros Ha Hb. unfold overlap_region.
  destruct (Z.ltb_spec (lstart b) (lstart a)) as [H|H]; rewrite Z.geb_leb;
    match goal with |- context [?x <=? ?y] => destruct (Z.leb_spec x y) end; intros E;
    try discriminate E; injection E as <-; cbn [lstart lend lstrand]; lia.
Qed.

(* ------------------------------------------------------------------ counting *)

Definition gcount {X Y} (f : X * Y -> bool) (xs : list X) (ys : list Y) : Z :=
  zlen (filter f (combine xs ys)).

Lemma gcount_nonneg {X Y} (f : X * Y -> bool) xs ys : 0 <= gcount f xs ys.
Proof. apply zlenB_nonneg. Qed.

Lemma zlenB_combine {X Y} (xs : list X) (ys : list Y) : zlen xs = zlen ys -> zlen (combine xs ys) = zlen xs.
Proof. unfold zlen. intros H. rewrite combine_length. lia. Qed.

Lemma gcount_le {X Y} (f : X * Y -> bool) xs ys : zlen xs = zlen ys -> gcount f xs ys <= zlen xs.
Proof.
  intros H. unfold gcount. rewrite <- (zlenB_combine xs ys H). apply zlenB_filter_le.
Qed.

Lemma combineB_app {X Y} (A B : list X) (TA TB : list Y) : List.length A = List.length TA ->
  combine (A ++ B) (TA ++ TB) = combine A TA ++ combine B TB.
Proof.
  revert TA. induction A as [|x A IH]; intros TA H; destruct TA as [|y TA]; cbn [List.length] in H;
    try discriminate H; cbn [app combine]; [reflexivity|].
  f_equal. apply IH. lia.
Qed.

Lemma gcount_app {X Y} (f : X * Y -> bool) A B TA TB : List.length A = List.length TA ->
  gcount f (A ++ B) (TA ++ TB) = gcount f A TA + gcount f B TB.
Proof.
  intros H. unfold gcount. rewrite combineB_app by exact H. rewrite filter_app. apply zlenB_app.
Qed.

Definition decomp (D D' E E' : Z) : Prop := exists K, 0 <= K /\ D = K + E /\ D' = K + E'.

Lemma decomp3 {X Y} (f : X * Y -> bool) (S S' : list X) (T : list Y) A M M' C TA TM TC :
  S = A ++ M ++ C -> S' = A ++ M' ++ C -> T = TA ++ TM ++ TC ->
  List.length A = List.length TA -> List.length M = List.length TM -> List.length M' = List.length TM ->
  decomp (gcount f S T) (gcount f S' T) (gcount f M TM) (gcount f M' TM).
Proof.
  intros -> -> -> HA HM HM'.
  exists (gcount f A TA + gcount f C TC).
  rewrite !(gcount_app f A _ TA _) by exact HA.
  rewrite (gcount_app f M _ TM _) by exact HM.
  rewrite (gcount_app f M' _ TM _) by exact HM'.
  pose proof (gcount_nonneg f A TA). pose proof (gcount_nonneg f C TC). lia.
Qed.

Lemma loc_decomp_fwd {Y} (f : nuc * Y -> bool) w s s' a b a' b' (T : list Y) :
  agree_outside w s s' -> 0 <= a -> a <= a' -> a' <= b' -> b' <= b -> b <= zlen s ->
  (a = a' \/ a' <= lstart w) -> (b' = b \/ lend w <= b') -> zlen T = b - a ->
  decomp (gcount f (slice s a b) T) (gcount f (slice s' a b) T)
         (gcount f (slice s a' b') (slice T (a' - a) (b' - a)))
         (gcount f (slice s' a' b') (slice T (a' - a) (b' - a))).
Proof.
  intros Hag H0 H1 H2 H3 H4 HL HR HT.
  pose proof (agree_zlen _ _ _ Hag) as Hz.
  apply (decomp3 f _ _ _ (slice s a a') _ _ (slice s b' b)
                 (slice T 0 (a' - a)) _ (slice T (b' - a) (b - a))).
  - apply sliceB_three; lia.
  - rewrite (agree_slice w s s' a a' Hag) by (try lia; intros i Hi; lia).
    rewrite (agree_slice w s s' b' b Hag) by (try lia; intros i Hi; lia).
    apply sliceB_three; lia.
  - rewrite <- (sliceB_full T) at 1. rewrite HT. apply sliceB_three; lia.
  - apply zlenB_length. rewrite !zlenB_slice by lia. lia.
  - apply zlenB_length. rewrite !zlenB_slice by lia. lia.
  - apply zlenB_length. rewrite !zlenB_slice by lia. lia.
Qed.

Lemma loc_decomp_rev {Y} (f : nuc * Y -> bool) w s s' a b a' b' (T : list Y) :
  agree_outside w s s' -> 0 <= a -> a <= a' -> a' <= b' -> b' <= b -> b <= zlen s ->
  (a = a' \/ a' <= lstart w) -> (b' = b \/ lend w <= b') -> zlen T = b - a ->
  decomp (gcount f (rc (slice s a b)) T) (gcount f (rc (slice s' a b)) T)
         (gcount f (rc (slice s a' b')) (slice T (b - b') (b - a')))
         (gcount f (rc (slice s' a' b')) (slice T (b - b') (b - a'))).
Proof.
  intros Hag H0 H1 H2 H3 H4 HL HR HT.
  pose proof (agree_zlen _ _ _ Hag) as Hz.
  apply (decomp3 f _ _ _ (rc (slice s b' b)) _ _ (rc (slice s a a'))
                 (slice T 0 (b - b')) _ (slice T (b - a') (b - a))).
  - rewrite (sliceB_three s a a' b' b) by lia. rewrite !rcB_app, <- app_assoc. reflexivity.
  - rewrite (agree_slice w s s' a a' Hag) by (try lia; intros i Hi; lia).
    rewrite (agree_slice w s s' b' b Hag) by (try lia; intros i Hi; lia).
    rewrite (sliceB_three s' a a' b' b) by lia. rewrite !rcB_app, <- app_assoc. reflexivity.
  - rewrite <- (sliceB_full T) at 1. rewrite HT. apply sliceB_three; lia.
  - apply zlenB_length. rewrite zlenB_rc, !zlenB_slice by lia. lia.
  - apply zlenB_length. rewrite zlenB_rc, !zlenB_slice by lia. lia.
  - apply zlenB_length. rewrite zlenB_rc, !zlenB_slice by lia. lia.
Qed.

(* ------------------------------------------------------------------ Q helpers *)

Lemma zq_le a b : a <= b <-> (zq a <= zq b)%Q.
Proof. unfold zq. rewrite Zle_Qle. tauto. Qed.

Lemma zq_nonneg a : 0 <= a <-> (0 <= zq a)%Q.
Proof. apply (zq_le 0 a). Qed.

Lemma zq_nonpos a : a <= 0 -> (zq a <= 0)%Q.
Proof. intros H. apply (zq_le a 0). exact H. Qed.

Lemma zq_minus a b : (zq (a - b) == zq a - zq b)%Q.
Proof. unfold zq, Qminus. rewrite <- inject_Z_opp, <- inject_Z_plus. apply Qeq_refl. Qed.

Lemma zq_eq a b : a = b -> (zq a == zq b)%Q.
Proof. intros ->. apply Qeq_refl. Qed.

Lemma passes_iff e : passes e = true <-> (0 <= score e)%Q.
Proof. unfold passes. apply Qle_bool_iff. Qed.

Lemma qabs_amount D N : D <= N -> (- Qabs (zq D - zq N) == zq (D - N))%Q.
Proof.
  intros H. rewrite <- zq_minus. rewrite Qabs_neg by (apply zq_nonpos; lia).
  apply Qopp_involutive.
Qed.

Definition qsum_cons x l : qsum (x :: l) = (x + qsum l)%Q := eq_refl.

(* ------------------------------------------------------------------ generic forms of the laws *)

Lemma self_localized_laws sp w s s' : localized sp w true s = LSome sp ->
  local_delta_law sp w s s' /\ local_pass_law sp w s s'.
Proof.
  intros HL. unfold local_delta_law, local_pass_law. rewrite HL. split.
  - destruct (delta sp s s') as [d|]; [apply Qeq_refl | exact I].
  - destruct (evaluate sp s) as [e|]; [|exact I].
    destruct (evaluate sp s') as [e'|]; [|exact I].
    intros _ H. exact H.
Qed.

Lemma delta_from sp sp' w s s' e1 e2 e3 e4 : localized sp w true s = LSome sp' ->
  evaluate sp s = Some e1 -> evaluate sp s' = Some e2 ->
  evaluate sp' s = Some e3 -> evaluate sp' s' = Some e4 ->
  (score e2 - score e1 == score e4 - score e3)%Q -> local_delta_law sp w s s'.
Proof.
  intros HL H1 H2 H3 H4 HQ. unfold local_delta_law, delta. rewrite HL, H1, H2, H3, H4. exact HQ.
Qed.

Lemma pass_from sp sp' w s s' e1 e2 e4 : localized sp w true s = LSome sp' ->
  evaluate sp s = Some e1 -> evaluate sp s' = Some e2 -> evaluate sp' s' = Some e4 ->
  ((0 <= score e1)%Q -> (0 <= score e4)%Q -> (0 <= score e2)%Q) -> local_pass_law sp w s s'.
Proof.
  intros HL H1 H2 H4 HQ. unfold local_pass_law. rewrite HL, H1, H2, H4.
  rewrite !passes_iff. exact HQ.
Qed.

Lemma none_from sp w s s' e1 e2 : localized sp w true s = LNone ->
  evaluate sp s = Some e1 -> evaluate sp s' = Some e2 -> (score e2 == score e1)%Q ->
  local_delta_law sp w s s' /\ local_pass_law sp w s s'.
Proof.
  intros HL H1 H2 HQ. unfold local_delta_law, local_pass_law, delta. rewrite HL, H1, H2. split.
  - rewrite HQ. unfold Qminus. apply Qplus_opp_r.
  - intros _. exact HQ.
Qed.

(* consequences of a decomposition for scores of the form c - D *)
Lemma decomp_delta D D' E E' c c' : decomp D D' E E' ->
  (zq (c - D') - zq (c - D) == zq (c' - E') - zq (c' - E))%Q.
Proof.
  intros (K & HK & -> & ->). rewrite <- !zq_minus. apply zq_eq. lia.
Qed.

Lemma decomp_pass D D' E E' : decomp D D' E E' -> 0 <= E ->
  (0 <= zq (0 - D))%Q -> (0 <= zq (0 - E'))%Q -> (0 <= zq (0 - D'))%Q.
Proof.
  intros (K & HK & -> & ->) HE. rewrite <- !zq_nonneg. lia.
Qed.

(* ------------------------------------------------------------------ the specifications that localize to themselves *)

Theorem enforce_choice_laws : forall cs l w s s',
  local_delta_law (SEnforceChoice cs l) w s s' /\ local_pass_law (SEnforceChoice cs l) w s s'.
Proof.
  intros cs l w s s'. apply self_localized_laws. reflexivity.
Qed.

Theorem length_laws : forall mn mx w s s', agree_outside w s s' ->
  local_delta_law (SLength mn mx) w s s' /\ local_pass_law (SLength mn mx) w s s'.
Proof.
  intros mn mx w s s' _. apply self_localized_laws. reflexivity.
Qed.

(* ------------------------------------------------------------------ never-positive scores (C08 / C20) *)

Theorem avoid_changes_nonpos : forall l idx tg s e,
  evaluate (SAvoidChanges l idx tg 0) s = Some e -> (score e <= 0)%Q.
Proof.
  intros l idx tg s e H. cbn [evaluate] in H. unfold eval_avoid_changes in H.
  destruct (extract_subsequence l idx s) as [sub|]; [|discriminate H].
  destruct (negb (zlen sub =? zlen tg)); [discriminate H|].
  injection H as <-. cbn [score]. apply zq_nonpos.
  match goal with |- context [zlen ?x] => pose proof (zlenB_nonneg x) end. lia.
Qed.

Theorem enforce_changes_amount_nonpos : forall l idx ref am is100 s e,
  evaluate (SEnforceChanges l idx ref None (Some am) is100) s = Some e -> (score e <= 0)%Q.
Proof.
  intros l idx ref am is100 s e H. cbn [evaluate] in H. unfold eval_enforce_changes in H.
  destruct (extract_subsequence l idx s) as [sub|]; [|discriminate H].
  destruct (negb (zlen sub =? zlen ref)); [discriminate H|].
  match type of H with context [Qabs ?x] => pose proof (Qabs_nonneg x) as Hx end.
  apply Qopp_le_compat in Hx. injection H as <-. exact Hx.
Qed.

Theorem enforce_sequence_nonpos : forall wd l s, (score (eval_enforce_sequence wd l s) <= 0)%Q.
Proof.
  intros wd l s. unfold eval_enforce_sequence. cbn [score]. apply zq_nonpos.
  match goal with |- context [zlen ?x] => pose proof (zlenB_nonneg x) end. lia.
Qed.

Theorem enforce_choice_nonpos : forall cs l s, (score (eval_enforce_choice cs l s) <= 0)%Q.
Proof.
  intros cs l s. unfold eval_enforce_choice. destruct (dmem (extract l s) cs); cbn [score].
  - apply Qle_refl.
  - apply zq_nonpos. lia.
Qed.

Lemma breach_nonneg mini maxi g : (0 <= breach mini maxi g)%Q.
Proof.
  unfold breach.
  pose proof (Q.le_max_l 0 (mini - g)) as H1. pose proof (Q.le_max_l 0 (g - maxi)) as H2. lra.
Qed.

Definition tgc_term (mini maxi : Q) (s : dna) (e : loc) : Q :=
  (- breach mini maxi (count_gc (extract e s) # Z.to_pos (zlen (extract e s))))%Q.

Lemma tgc_term_nonpos mini maxi s e : (tgc_term mini maxi s e <= 0)%Q.
Proof.
  unfold tgc_term.
  pose proof (breach_nonneg mini maxi (count_gc (extract e s) # Z.to_pos (zlen (extract e s)))). lra.
Qed.

Lemma tgc_score mini maxi ends s :
  score (eval_terminal_gc mini maxi ends s) = qsum (map (tgc_term mini maxi s) ends).
Proof. unfold eval_terminal_gc. cbn [score]. rewrite map_map. reflexivity. Qed.

Lemma tgc_sum_nonpos mini maxi s ends : (qsum (map (tgc_term mini maxi s) ends) <= 0)%Q.
Proof.
  induction ends as [|e ends IH]; cbn [map].
  - apply Qle_refl.
  - rewrite qsum_cons. pose proof (tgc_term_nonpos mini maxi s e). lra.
Qed.

Theorem terminal_gc_nonpos : forall mini maxi ends s, (score (eval_terminal_gc mini maxi ends s) <= 0)%Q.
Proof. intros mini maxi ends s. rewrite tgc_score. apply tgc_sum_nonpos. Qed.

Theorem length_nonpos : forall mn mx s, (score (eval_length mn mx s) <= 0)%Q.
Proof.
  intros mn mx s. unfold eval_length. cbn [score]. apply zq_nonpos.
  match goal with |- (if ?c then 1 else 0) - 1 <= 0 => destruct c end; lia.
Qed.

(* ------------------------------------------------------------------ evaluation of the difference-counting classes *)

Definition fdiff (p : nuc * nuc) : bool := negb (nuc_eqb (fst p) (snd p)).

Lemma diff_array_combine s t : diff_array s t = map fdiff (combine s t).
Proof.
  revert t. induction s as [|x s IH]; intros t; destruct t as [|y t]; cbn [diff_array combine map];
    try reflexivity.
  f_equal. apply IH.
Qed.

Lemma zlen_filter_map_id {X} (g : X -> bool) (l : list X) :
  zlen (filter (fun b : bool => b) (map g l)) = zlen (filter g l).
Proof.
  induction l as [|x l IH]; cbn [map filter]; [reflexivity|].
  destruct (g x); rewrite ?zlenB_cons, IH; reflexivity.
Qed.

Lemma zlen_filter_map_negb {X} (g : X -> bool) (l : list X) :
  zlen (filter (fun b : bool => negb b) (map g l)) = zlen l - zlen (filter g l).
Proof.
  induction l as [|x l IH]; cbn [map filter]; [reflexivity|].
  destruct (g x); cbn [negb]; rewrite ?zlenB_cons, IH; lia.
Qed.

Lemma ac_eval l idx tg me s sub : extract_subsequence l idx s = Some sub -> zlen sub = zlen tg ->
  exists lo, eval_avoid_changes l idx tg me s = Some (mkEv (zq (me - gcount fdiff sub tg)) lo).
Proof.
  intros H1 H2. unfold eval_avoid_changes. rewrite H1.
  replace (zlen sub =? zlen tg) with true by (symmetry; apply Z.eqb_eq; exact H2).
  cbn [negb]. cbv zeta.
  rewrite zlenB_abs_pos, zlenB_indices_where, diff_array_combine, zlen_filter_map_id.
  eexists. reflexivity.
Qed.

Lemma ec_ndiff l idx ref sub : zlen sub = zlen ref ->
  match idx with Some ix => zlen ix | None => loc_len l end = zlen sub ->
  match idx with Some ix => zlen ix | None => loc_len l end -
    zlen (absolute_positions l idx (indices_where (fun b : bool => negb b) (diff_array sub ref) 0))
  = gcount fdiff sub ref.
Proof.
  intros H2 H3. rewrite H3.
  rewrite zlenB_abs_pos, zlenB_indices_where, diff_array_combine, zlen_filter_map_negb.
  rewrite zlenB_combine by exact H2. unfold gcount. lia.
Qed.

Lemma ec_eval_amount l idx ref a s sub : extract_subsequence l idx s = Some sub -> zlen sub = zlen ref ->
  match idx with Some ix => zlen ix | None => loc_len l end = zlen sub ->
  exists lo, eval_enforce_changes l idx ref None (Some a) s
             = Some (mkEv (- Qabs (zq (gcount fdiff sub ref) - a))%Q lo).
Proof.
  intros H1 H2 H3. unfold eval_enforce_changes. rewrite H1.
  replace (zlen sub =? zlen ref) with true by (symmetry; apply Z.eqb_eq; exact H2).
  cbn [negb]. cbv zeta. rewrite (ec_ndiff l idx ref sub H2 H3).
  eexists. reflexivity.
Qed.

(* ------------------------------------------------------------------ indices mode *)

Definition getn (s : dna) (i : Z) : nuc := nth (Z.to_nat i) s nA.
Definition inw (w : loc) (p : Z * nuc) : bool := (lstart w <=? fst p) && (fst p <? lend w).
Definition ibad (s : dna) (p : Z * nuc) : bool := negb (nuc_eqb (getn s (fst p)) (snd p)).

Lemma take_indices_some s idx : Forall (fun i => 0 <= i < zlen s) idx ->
  take_indices s idx = Some (map (getn s) idx).
Proof.
  unfold take_indices. induction idx as [|i idx IH]; intros HF; cbn [mapM map]; [reflexivity|].
  inversion HF as [|? ? Hi HF']; subst.
  destruct (Z.ltb_spec i 0) as [H|H]; [lia|].
  rewrite (nth_error_nth' s nA) by (unfold zlen in Hi; lia).
  rewrite (IH HF'). reflexivity.
Qed.

Lemma gcount_idx s idx tg : gcount fdiff (map (getn s) idx) tg = zlen (filter (ibad s) (combine idx tg)).
Proof.
  unfold gcount. revert tg. induction idx as [|i idx IH]; intros tg; destruct tg as [|t tg];
    cbn [map combine filter]; try reflexivity.
  unfold fdiff at 1, ibad at 1. cbn [fst snd].
  destruct (negb (nuc_eqb (getn s i) t)); rewrite ?zlenB_cons, IH; reflexivity.
Qed.

Lemma filter_split_len {X} (f g : X -> bool) (l : list X) :
  zlen (filter f l) = zlen (filter f (filter (fun x => negb (g x)) l)) + zlen (filter f (filter g l)).
Proof.
  induction l as [|x l IH]; cbn [filter]; [reflexivity|].
  destruct (g x); cbn [negb filter]; destruct (f x); rewrite ?zlenB_cons; lia.
Qed.

Lemma combine_fst_snd {X Y} (l : list (X * Y)) : combine (map fst l) (map snd l) = l.
Proof.
  induction l as [|[x y] l IH]; cbn [map combine fst snd]; [reflexivity|]. rewrite IH. reflexivity.
Qed.

Lemma getn_agree w s s' i : agree_outside w s s' -> 0 <= i -> ~ (lstart w <= i < lend w) ->
  getn s i = getn s' i.
Proof.
  intros [_ Hag] Hi Ho. unfold getn. rewrite <- !nth_default_eq. unfold nth_default.
  rewrite (Hag i Hi Ho). reflexivity.
Qed.

Lemma outside_same w s s' (ps : list (Z * nuc)) : agree_outside w s s' ->
  Forall (fun p => 0 <= fst p) ps ->
  filter (ibad s) (filter (fun p => negb (inw w p)) ps) = filter (ibad s') (filter (fun p => negb (inw w p)) ps).
Proof.
  intros Hag HF. induction ps as [|p ps IH]; cbn [filter]; [reflexivity|].
  inversion HF as [|? ? Hp HF']; subst.
  destruct (inw w p) eqn:E; cbn [negb]; [apply IH; exact HF'|].
  cbn [filter].
  assert (Hb : ibad s p = ibad s' p).
  { unfold ibad. rewrite (getn_agree w s s' (fst p) Hag Hp); [reflexivity|].
    unfold inw in E. apply andb_false_iff in E. destruct E as [E|E]; [apply Z.leb_gt in E|apply Z.ltb_ge in E]; lia. }
  rewrite Hb, (IH HF'). reflexivity.
Qed.

Lemma Forall_combine_fst {Y} (P : Z -> Prop) (idx : list Z) (tg : list Y) : Forall P idx ->
  Forall (fun p => P (fst p)) (combine idx tg).
Proof.
  intros HF. apply Forall_forall. intros [i t] Hin. cbn [fst].
  apply in_combine_l in Hin. rewrite Forall_forall in HF. apply HF. exact Hin.
Qed.

Lemma idx_decomp w s s' idx tg : agree_outside w s s' -> Forall (fun i => 0 <= i) idx ->
  decomp (gcount fdiff (map (getn s) idx) tg) (gcount fdiff (map (getn s') idx) tg)
         (gcount fdiff (map (getn s) (fst (filter_indices idx tg (lstart w) (lend w))))
                       (snd (filter_indices idx tg (lstart w) (lend w))))
         (gcount fdiff (map (getn s') (fst (filter_indices idx tg (lstart w) (lend w))))
                       (snd (filter_indices idx tg (lstart w) (lend w)))).
Proof.
  intros Hag HF. unfold filter_indices. cbn [fst snd].
  rewrite !gcount_idx, !combine_fst_snd.
  change (fun p : Z * nuc => (lstart w <=? fst p) && (fst p <? lend w)) with (inw w).
  exists (zlen (filter (ibad s) (filter (fun p => negb (inw w p)) (combine idx tg)))).
  split; [apply zlenB_nonneg|]. split.
  - apply filter_split_len.
  - rewrite (outside_same w s s' _ Hag) by (apply Forall_combine_fst; exact HF).
    apply filter_split_len.
Qed.

Lemma filter_indices_lengths idx (tg : dna) a b :
  zlen (snd (filter_indices idx tg a b)) = zlen (fst (filter_indices idx tg a b)).
Proof. unfold filter_indices. cbn [fst snd]. rewrite !zlenB_map. reflexivity. Qed.

Lemma filter_indices_range (P : Z -> Prop) idx (tg : dna) a b : Forall P idx ->
  Forall P (fst (filter_indices idx tg a b)).
Proof.
  intros HF. unfold filter_indices. cbn [fst]. apply Forall_forall. intros i Hin.
  apply in_map_iff in Hin. destruct Hin as ([j t] & <- & Hin). cbn [fst].
  apply filter_In in Hin. destruct Hin as [Hin _]. apply in_combine_l in Hin.
  rewrite Forall_forall in HF. apply HF. exact Hin.
Qed.

(* ------------------------------------------------------------------ AvoidChanges *)

Lemma forall_nonneg n idx : Forall (fun i => 0 <= i < n) idx -> Forall (fun i => 0 <= i) idx.
Proof. apply Forall_impl. intros i Hi. lia. Qed.

Theorem avoid_changes_laws : forall l idx tg me w s s',
  wf_spec (SAvoidChanges l idx tg me) (zlen s) -> window_in w (zlen s) -> agree_outside w s s' ->
  local_delta_law (SAvoidChanges l idx tg me) w s s' /\ local_pass_law (SAvoidChanges l idx tg me) w s s'.
Proof.
  intros l idx tg me w s s' Hwf Hw Hag.
  destruct (Z.eqb_spec me 0) as [Hme|Hme].
  2:{ apply self_localized_laws. unfold localized. cbn [localized_raw].
      destruct (Z.eqb_spec me 0) as [E|E]; [contradiction|reflexivity]. }
  subst me. pose proof (agree_zlen _ _ _ Hag) as Hz. destruct Hw as (Hw1 & Hw2 & Hw3).
  destruct idx as [ix|].
  - (* indices mode *)
    cbn [wf_spec] in Hwf. destruct Hwf as (Hlen & HF).
    assert (HF' : Forall (fun i => 0 <= i < zlen s') ix) by (rewrite Hz; exact HF).
    set (ni := fst (filter_indices ix tg (lstart w) (lend w))).
    set (nt := snd (filter_indices ix tg (lstart w) (lend w))).
    assert (HL : localized (SAvoidChanges l (Some ix) tg 0) w true s
                 = LSome (SAvoidChanges l (Some ni) nt 0)).
    { unfold localized. cbn [localized_raw Z.eqb negb]. unfold ni, nt.
      destruct (filter_indices ix tg (lstart w) (lend w)) as [a b]. reflexivity. }
    assert (Hni : Forall (fun i => 0 <= i < zlen s) ni) by (apply filter_indices_range; exact HF).
    assert (Hni' : Forall (fun i => 0 <= i < zlen s') ni) by (rewrite Hz; exact Hni).
    assert (Hnl : zlen nt = zlen ni) by apply filter_indices_lengths.
    destruct (ac_eval l (Some ix) tg 0 s (map (getn s) ix)) as [lo1 E1];
      [apply take_indices_some; exact HF | rewrite zlenB_map; lia|].
    destruct (ac_eval l (Some ix) tg 0 s' (map (getn s') ix)) as [lo2 E2];
      [apply take_indices_some; exact HF' | rewrite zlenB_map; lia|].
    destruct (ac_eval l (Some ni) nt 0 s (map (getn s) ni)) as [lo3 E3];
      [apply take_indices_some; exact Hni | rewrite zlenB_map; lia|].
    destruct (ac_eval l (Some ni) nt 0 s' (map (getn s') ni)) as [lo4 E4];
      [apply take_indices_some; exact Hni' | rewrite zlenB_map; lia|].
    pose proof (idx_decomp w s s' ix tg Hag (forall_nonneg _ _ HF)) as Hdec.
    fold ni nt in Hdec.
    split.
    + eapply delta_from; [exact HL | exact E1 | exact E2 | exact E3 | exact E4 |].
      cbn [score]. apply decomp_delta. exact Hdec.
    + eapply pass_from; [exact HL | exact E1 | exact E2 | exact E4 |].
      cbn [score]. apply (decomp_pass _ _ _ _ Hdec). apply gcount_nonneg.
  - (* location mode *)
    cbn [wf_spec] in Hwf. destruct Hwf as ((Hl1 & Hl2 & Hl3 & Hl4) & Hst & Hlen).
    unfold loc_len in Hlen.
    assert (HS : extract_subsequence l None s = Some (slice s (lstart l) (lend l))).
    { cbn [extract_subsequence]. rewrite extract_fwd by lia. reflexivity. }
    assert (HS' : extract_subsequence l None s' = Some (slice s' (lstart l) (lend l))).
    { cbn [extract_subsequence]. rewrite extract_fwd by lia. reflexivity. }
    destruct (ac_eval l None tg 0 s _ HS) as [lo1 E1]; [rewrite zlenB_slice by lia; lia|].
    destruct (ac_eval l None tg 0 s' _ HS') as [lo2 E2]; [rewrite zlenB_slice by lia; lia|].
    destruct (overlap_region l w) as [nl|] eqn:Ho.
    + destruct (overlapB_some l w nl) as (Ha & Hb & Hc & Hd); [lia | lia | exact Ho |].
      set (tg' := extract (loc_add nl (- lstart l)) tg).
      assert (HL : localized (SAvoidChanges l None tg 0) w true s = LSome (SAvoidChanges nl None tg' 0)).
      { unfold localized. cbn [localized_raw Z.eqb negb]. rewrite Ho. reflexivity. }
      assert (Htg : tg' = slice tg (lstart nl - lstart l) (lend nl - lstart l)).
      { unfold tg'. rewrite extract_fwd; cbn [loc_add lstart lend lstrand]; try lia. reflexivity. }
      assert (HN : extract_subsequence nl None s = Some (slice s (lstart nl) (lend nl))).
      { cbn [extract_subsequence]. rewrite extract_fwd by lia. reflexivity. }
      assert (HN' : extract_subsequence nl None s' = Some (slice s' (lstart nl) (lend nl))).
      { cbn [extract_subsequence]. rewrite extract_fwd by lia. reflexivity. }
      destruct (ac_eval nl None tg' 0 s _ HN) as [lo3 E3];
        [rewrite Htg, !zlenB_slice by lia; lia|].
      destruct (ac_eval nl None tg' 0 s' _ HN') as [lo4 E4];
        [rewrite Htg, !zlenB_slice by lia; lia|].
      assert (Hdec := loc_decomp_fwd fdiff w s s' (lstart l) (lend l) (lstart nl) (lend nl) tg Hag).
      rewrite <- Htg in Hdec.
      specialize (Hdec ltac:(lia) ltac:(lia) ltac:(lia) ltac:(lia) ltac:(lia) ltac:(lia) ltac:(lia) ltac:(lia)).
      split.
      * eapply delta_from; [exact HL | exact E1 | exact E2 | exact E3 | exact E4 |].
        cbn [score]. apply decomp_delta. exact Hdec.
      * eapply pass_from; [exact HL | exact E1 | exact E2 | exact E4 |].
        cbn [score]. apply (decomp_pass _ _ _ _ Hdec). apply gcount_nonneg.
    + pose proof (overlapB_none _ _ Ho) as Hn.
      eapply none_from; [| exact E1 | exact E2 |].
      * unfold localized. cbn [localized_raw Z.eqb negb]. rewrite Ho. reflexivity.
      * cbn [score].
        rewrite (agree_slice w s s' (lstart l) (lend l) Hag) by (try lia; intros i Hi; lia).
        apply Qeq_refl.
Qed.

(* ------------------------------------------------------------------ EnforceChanges *)

Lemma ec_delta_q D D' E E' N N' : decomp D D' E E' -> D <= N -> D' <= N -> E <= N' -> E' <= N' ->
  (- Qabs (zq D' - zq N) - - Qabs (zq D - zq N) == - Qabs (zq E' - zq N') - - Qabs (zq E - zq N'))%Q.
Proof.
  intros (K & HK & -> & ->) H1 H2 H3 H4.
  rewrite (qabs_amount (K + E') N) by lia. rewrite (qabs_amount (K + E) N) by lia.
  rewrite (qabs_amount E' N') by lia. rewrite (qabs_amount E N') by lia.
  rewrite <- !zq_minus. apply zq_eq. lia.
Qed.

Lemma ec_self l idx ref mn am w s : 
  localized (SEnforceChanges l idx ref mn am false) w true s = LSome (SEnforceChanges l idx ref mn am false).
Proof. reflexivity. Qed.

(* EnforceChanges: constraint mode (minimum set) localizes to itself unless amount_percent = 100;
   objective mode with amount_percent = 100 re-targets to the window length, which shifts the score
   by a constant that cancels in the difference *)
Theorem enforce_changes_laws : forall l idx ref mn am is100 w s s',
  wf_spec (SEnforceChanges l idx ref mn am is100) (zlen s) -> window_in w (zlen s) -> agree_outside w s s' ->
  (is100 = true -> mn = None /\ am = Some (zq (match idx with Some ix => zlen ix | None => loc_len l end))) ->
  local_delta_law (SEnforceChanges l idx ref mn am is100) w s s'.
Proof.
  intros l idx ref mn am is100 w s s' Hwf Hw Hag H100.
  destruct is100.
  2:{ apply (self_localized_laws _ w s s'). apply ec_self. }
  destruct (H100 eq_refl) as [-> ->]. clear H100.
  pose proof (agree_zlen _ _ _ Hag) as Hz. destruct Hw as (Hw1 & Hw2 & Hw3).
  destruct idx as [ix|].
  - (* indices mode *)
    cbn [wf_spec] in Hwf. destruct Hwf as (Hlen & HF).
    assert (HF' : Forall (fun i => 0 <= i < zlen s') ix) by (rewrite Hz; exact HF).
    set (ni := fst (filter_indices ix ref (lstart w) (lend w))).
    set (nt := snd (filter_indices ix ref (lstart w) (lend w))).
    assert (HL : localized (SEnforceChanges l (Some ix) ref None (Some (zq (zlen ix))) true) w true s
                 = LSome (SEnforceChanges l (Some ni) nt None (Some (zq (zlen ni))) true)).
    { unfold localized. cbn [localized_raw negb option_map]. unfold ni, nt.
      destruct (filter_indices ix ref (lstart w) (lend w)) as [a b]. reflexivity. }
    assert (Hni : Forall (fun i => 0 <= i < zlen s) ni) by (apply filter_indices_range; exact HF).
    assert (Hni' : Forall (fun i => 0 <= i < zlen s') ni) by (rewrite Hz; exact Hni).
    assert (Hnl : zlen nt = zlen ni) by apply filter_indices_lengths.
    destruct (ec_eval_amount l (Some ix) ref (zq (zlen ix)) s (map (getn s) ix)) as [lo1 E1];
      [apply take_indices_some; exact HF | rewrite zlenB_map; lia | rewrite zlenB_map; lia |].
    destruct (ec_eval_amount l (Some ix) ref (zq (zlen ix)) s' (map (getn s') ix)) as [lo2 E2];
      [apply take_indices_some; exact HF' | rewrite zlenB_map; lia | rewrite zlenB_map; lia |].
    destruct (ec_eval_amount l (Some ni) nt (zq (zlen ni)) s (map (getn s) ni)) as [lo3 E3];
      [apply take_indices_some; exact Hni | rewrite zlenB_map; lia | rewrite zlenB_map; lia |].
    destruct (ec_eval_amount l (Some ni) nt (zq (zlen ni)) s' (map (getn s') ni)) as [lo4 E4];
      [apply take_indices_some; exact Hni' | rewrite zlenB_map; lia | rewrite zlenB_map; lia |].
    pose proof (idx_decomp w s s' ix ref Hag (forall_nonneg _ _ HF)) as Hdec.
    fold ni nt in Hdec.
    eapply delta_from; [exact HL | exact E1 | exact E2 | exact E3 | exact E4 |].
    cbn [score]. apply ec_delta_q; [exact Hdec | | | |].
    + rewrite <- (zlenB_map (getn s) ix). apply gcount_le. rewrite zlenB_map. lia.
    + rewrite <- (zlenB_map (getn s') ix). apply gcount_le. rewrite zlenB_map. lia.
    + rewrite <- (zlenB_map (getn s) ni). apply gcount_le. rewrite zlenB_map. lia.
    + rewrite <- (zlenB_map (getn s') ni). apply gcount_le. rewrite zlenB_map. lia.
  - (* location mode *)
    cbn [wf_spec] in Hwf. destruct Hwf as ((Hl1 & Hl2 & Hl3 & Hl4) & Hst & Hlen).
    unfold loc_len in *.
    assert (HS : extract_subsequence l None s = Some (slice s (lstart l) (lend l))).
    { cbn [extract_subsequence]. rewrite extract_fwd by lia. reflexivity. }
    assert (HS' : extract_subsequence l None s' = Some (slice s' (lstart l) (lend l))).
    { cbn [extract_subsequence]. rewrite extract_fwd by lia. reflexivity. }
    destruct (ec_eval_amount l None ref (zq (lend l - lstart l)) s _ HS) as [lo1 E1];
      [rewrite zlenB_slice by lia; lia | unfold loc_len; rewrite zlenB_slice by lia; lia |].
    destruct (ec_eval_amount l None ref (zq (lend l - lstart l)) s' _ HS') as [lo2 E2];
      [rewrite zlenB_slice by lia; lia | unfold loc_len; rewrite zlenB_slice by lia; lia |].
    destruct (overlap_region l w) as [nl|] eqn:Ho.
    + destruct (overlapB_some l w nl) as (Ha & Hb & Hc & Hd); [lia | lia | exact Ho |].
      set (ref' := extract (loc_add nl (- lstart l)) ref).
      assert (HL : localized (SEnforceChanges l None ref None (Some (zq (lend l - lstart l))) true) w true s
                   = LSome (SEnforceChanges nl None ref' None (Some (zq (lend w - lstart w))) true)).
      { unfold localized. cbn [localized_raw negb option_map]. rewrite Ho. reflexivity. }
      assert (Htg : ref' = slice ref (lstart nl - lstart l) (lend nl - lstart l)).
      { unfold ref'. rewrite extract_fwd; cbn [loc_add lstart lend lstrand]; try lia. reflexivity. }
      assert (HN : extract_subsequence nl None s = Some (slice s (lstart nl) (lend nl))).
      { cbn [extract_subsequence]. rewrite extract_fwd by lia. reflexivity. }
      assert (HN' : extract_subsequence nl None s' = Some (slice s' (lstart nl) (lend nl))).
      { cbn [extract_subsequence]. rewrite extract_fwd by lia. reflexivity. }
      destruct (ec_eval_amount nl None ref' (zq (lend w - lstart w)) s _ HN) as [lo3 E3];
        [rewrite Htg, !zlenB_slice by lia; lia | unfold loc_len; rewrite zlenB_slice by lia; lia |].
      destruct (ec_eval_amount nl None ref' (zq (lend w - lstart w)) s' _ HN') as [lo4 E4];
        [rewrite Htg, !zlenB_slice by lia; lia | unfold loc_len; rewrite zlenB_slice by lia; lia |].
      assert (Hdec := loc_decomp_fwd fdiff w s s' (lstart l) (lend l) (lstart nl) (lend nl) ref Hag).
      rewrite <- Htg in Hdec.
      specialize (Hdec ltac:(lia) ltac:(lia) ltac:(lia) ltac:(lia) ltac:(lia) ltac:(lia) ltac:(lia) ltac:(lia)).
      eapply delta_from; [exact HL | exact E1 | exact E2 | exact E3 | exact E4 |].
      cbn [score]. apply ec_delta_q; [exact Hdec | | | |].
      * rewrite <- (zlenB_slice s (lstart l) (lend l)) by lia. apply gcount_le. rewrite zlenB_slice by lia. lia.
      * rewrite <- (zlenB_slice s' (lstart l) (lend l)) by lia. apply gcount_le. rewrite zlenB_slice by lia. lia.
      * apply (Z.le_trans _ (zlen (slice s (lstart nl) (lend nl)))); [|rewrite zlenB_slice by lia; lia].
        apply gcount_le. rewrite Htg, !zlenB_slice by lia. lia.
      * apply (Z.le_trans _ (zlen (slice s' (lstart nl) (lend nl)))); [|rewrite zlenB_slice by lia; lia].
        apply gcount_le. rewrite Htg, !zlenB_slice by lia. lia.
    + pose proof (overlapB_none _ _ Ho) as Hn.
      refine (proj1 (none_from (SEnforceChanges l None ref None (Some (zq (lend l - lstart l))) true)
                               w s s' _ _ _ E1 E2 _)).
      * unfold localized. cbn [localized_raw negb]. rewrite Ho. reflexivity.
      * cbn [score].
        rewrite (agree_slice w s s' (lstart l) (lend l) Hag) by (try lia; intros i Hi; lia).
        apply Qeq_refl.
Qed.

Theorem enforce_changes_pass : forall l idx ref mn am is100 w s s',
  wf_spec (SEnforceChanges l idx ref mn am is100) (zlen s) -> window_in w (zlen s) -> agree_outside w s s' ->
  is100 = false ->
  local_pass_law (SEnforceChanges l idx ref mn am is100) w s s'.
Proof.
  intros l idx ref mn am is100 w s s' _ _ _ ->.
  apply (self_localized_laws _ w s s'). apply ec_self.
Qed.

(* ------------------------------------------------------------------ EnforceSequence *)

Definition fes (p : nuc * Ascii.ascii) : bool := negb (iupac_matches (snd p) (fst p)).

Lemma es_score wd l s : score (eval_enforce_sequence wd l s) = zq (0 - gcount fes (extract l s) wd).
Proof. unfold eval_enforce_sequence. cbn [score]. rewrite zlenB_indices_where. reflexivity. Qed.

Theorem enforce_sequence_laws : forall wd l w s s',
  wf_spec (SEnforceSequence wd l) (zlen s) -> window_in w (zlen s) -> agree_outside w s s' ->
  local_delta_law (SEnforceSequence wd l) w s s' /\ local_pass_law (SEnforceSequence wd l) w s s'.
Proof.
  intros wd l w s s' Hwf Hw Hag.
  cbn [wf_spec] in Hwf. destruct Hwf as ((Hl1 & Hl2 & Hl3 & Hl4) & Hlen). unfold loc_len in Hlen.
  pose proof (agree_zlen _ _ _ Hag) as Hz. destruct Hw as (Hw1 & Hw2 & Hw3).
  assert (E1 : evaluate (SEnforceSequence wd l) s = Some (eval_enforce_sequence wd l s)) by reflexivity.
  assert (E2 : evaluate (SEnforceSequence wd l) s' = Some (eval_enforce_sequence wd l s')) by reflexivity.
  destruct (overlap_region l w) as [nl|] eqn:Ho.
  - destruct (overlapB_some l w nl) as (Ha & Hb & Hc & Hd); [lia | lia | exact Ho |].
    pose (wd' := pyslice wd (if lstrand l =? -1 then lend l - lend nl else lstart nl - lstart l)
                            (if lstrand l =? -1 then lend l - lstart nl else lend nl - lstart l)).
    assert (HL : localized (SEnforceSequence wd l) w true s = LSome (SEnforceSequence wd' nl)).
    { unfold localized. cbn [localized_raw]. rewrite Ho. reflexivity. }
    assert (E3 : evaluate (SEnforceSequence wd' nl) s = Some (eval_enforce_sequence wd' nl s)) by reflexivity.
    assert (E4 : evaluate (SEnforceSequence wd' nl) s' = Some (eval_enforce_sequence wd' nl s')) by reflexivity.
    assert (Hdec : decomp (gcount fes (extract l s) wd) (gcount fes (extract l s') wd)
                          (gcount fes (extract nl s) wd') (gcount fes (extract nl s') wd')).
    { unfold wd'. destruct (Z.eqb_spec (lstrand l) (-1)) as [E|E].
      - rewrite !(extract_rev l), !(extract_rev nl) by (try lia; congruence).
        rewrite pysliceB_eq by lia.
        apply (loc_decomp_rev fes w s s'); solve [exact Hag | lia].
      - rewrite !(extract_fwd l), !(extract_fwd nl) by (try lia; congruence).
        rewrite pysliceB_eq by lia.
        apply (loc_decomp_fwd fes w s s'); solve [exact Hag | lia]. }
    split.
    + eapply delta_from; [exact HL | exact E1 | exact E2 | exact E3 | exact E4 |].
      rewrite !es_score. apply decomp_delta. exact Hdec.
    + eapply pass_from; [exact HL | exact E1 | exact E2 | exact E4 |].
      rewrite !es_score. apply (decomp_pass _ _ _ _ Hdec). apply gcount_nonneg.
  - pose proof (overlapB_none _ _ Ho) as Hn.
    eapply none_from; [| exact E1 | exact E2 |].
    + unfold localized. cbn [localized_raw]. rewrite Ho. reflexivity.
    + rewrite !es_score. rewrite (extract_agree w s s' l Hag) by lia. apply Qeq_refl.
Qed.

(* ------------------------------------------------------------------ EnforceTerminalGCContent *)

Definition tgc_kept (w e : loc) : bool := match overlap_region w e with Some _ => true | None => false end.

Lemma tgc_dropped mini maxi w s s' e : agree_outside w s s' -> loc_in e (zlen s) ->
  overlap_region w e = None -> tgc_term mini maxi s' e = tgc_term mini maxi s e.
Proof.
  intros Hag (H1 & H2 & H3 & _) Ho. apply overlapB_none in Ho.
  unfold tgc_term. rewrite (extract_agree w s s' e Hag) by lia. reflexivity.
Qed.

Lemma tgc_delta_core mini maxi w s s' ends : agree_outside w s s' ->
  Forall (fun e => loc_in e (zlen s) /\ lstrand e <> -1 /\ lstart e < lend e) ends ->
  (qsum (map (tgc_term mini maxi s') ends) - qsum (map (tgc_term mini maxi s) ends) ==
   qsum (map (tgc_term mini maxi s') (filter (tgc_kept w) ends)) -
   qsum (map (tgc_term mini maxi s) (filter (tgc_kept w) ends)))%Q.
Proof.
  intros Hag HF. induction ends as [|e ends IH]; cbn [filter map].
  - apply Qeq_refl.
  - inversion HF as [|? ? (He & _) HF']; subst. specialize (IH HF').
    destruct (tgc_kept w e) eqn:Hk.
    + cbn [map]. rewrite !qsum_cons. lra.
    + assert (Ho : overlap_region w e = None).
      { unfold tgc_kept in Hk. destruct (overlap_region w e); [discriminate Hk | reflexivity]. }
      rewrite !qsum_cons. rewrite (tgc_dropped mini maxi w s s' e Hag He Ho). lra.
Qed.

Lemma tgc_pass_core mini maxi w s s' ends : agree_outside w s s' ->
  Forall (fun e => loc_in e (zlen s) /\ lstrand e <> -1 /\ lstart e < lend e) ends ->
  (0 <= qsum (map (tgc_term mini maxi s) ends))%Q ->
  (0 <= qsum (map (tgc_term mini maxi s') (filter (tgc_kept w) ends)))%Q ->
  (0 <= qsum (map (tgc_term mini maxi s') ends))%Q.
Proof.
  intros Hag HF. induction ends as [|e ends IH]; cbn [filter map]; intros H1 H2.
  - apply Qle_refl.
  - inversion HF as [|? ? (He & _) HF']; subst. specialize (IH HF').
    rewrite qsum_cons in H1 |- *.
    pose proof (tgc_term_nonpos mini maxi s e) as N1.
    pose proof (tgc_sum_nonpos mini maxi s ends) as N2.
    destruct (tgc_kept w e) eqn:Hk.
    2: assert (Ho : overlap_region w e = None)
      by (unfold tgc_kept in Hk; destruct (overlap_region w e); [discriminate Hk | reflexivity]).
    + cbn [map] in H2. rewrite qsum_cons in H2.
      pose proof (tgc_term_nonpos mini maxi s' e) as N3.
      pose proof (tgc_sum_nonpos mini maxi s' (filter (tgc_kept w) ends)) as N4.
      assert (G : (0 <= qsum (map (tgc_term mini maxi s') ends))%Q) by (apply IH; lra).
      lra.
    + rewrite (tgc_dropped mini maxi w s s' e Hag He Ho).
      assert (G : (0 <= qsum (map (tgc_term mini maxi s') ends))%Q) by (apply IH; [lra | exact H2]).
      lra.
Qed.

(* EnforceTerminalGCContent: localization keeps the ends met by the window; the other ends do not
   change, so the score difference is the same; and a passing specification has every end passing *)
Theorem terminal_gc_laws : forall ws mini maxi ends w s s',
  wf_spec (STerminalGC ws mini maxi ends) (zlen s) -> window_in w (zlen s) -> agree_outside w s s' ->
  local_delta_law (STerminalGC ws mini maxi ends) w s s' /\ local_pass_law (STerminalGC ws mini maxi ends) w s s'.
Proof.
  intros ws mini maxi ends w s s' Hwf Hw Hag. cbn [wf_spec] in Hwf. destruct Hwf as [_ HF].
  assert (HL : localized (STerminalGC ws mini maxi ends) w true s
               = LSome (STerminalGC ws mini maxi (filter (tgc_kept w) ends))) by reflexivity.
  assert (E1 : evaluate (STerminalGC ws mini maxi ends) s = Some (eval_terminal_gc mini maxi ends s))
    by reflexivity.
  assert (E2 : evaluate (STerminalGC ws mini maxi ends) s' = Some (eval_terminal_gc mini maxi ends s'))
    by reflexivity.
  assert (E3 : evaluate (STerminalGC ws mini maxi (filter (tgc_kept w) ends)) s
               = Some (eval_terminal_gc mini maxi (filter (tgc_kept w) ends) s)) by reflexivity.
  assert (E4 : evaluate (STerminalGC ws mini maxi (filter (tgc_kept w) ends)) s'
               = Some (eval_terminal_gc mini maxi (filter (tgc_kept w) ends) s')) by reflexivity.
  split.
  - eapply delta_from; [exact HL | exact E1 | exact E2 | exact E3 | exact E4 |].
    rewrite !tgc_score. apply tgc_delta_core; assumption.
  - eapply pass_from; [exact HL | exact E1 | exact E2 | exact E4 |].
    rewrite !tgc_score. apply tgc_pass_core; assumption.
Qed.
