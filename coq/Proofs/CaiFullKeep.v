(* C07 end to end with the start-codon policy "keep": EnforceTranslation(start_codon="keep") over a
   coding region (forward strand) as only constraint, MaximizeCAI over the same region as only
   objective, the mutation space built from the constraint's nucleotide restrictions.  The first codon
   is frozen (its only allowed variant is the codon found in the original sequence), so it cannot be
   optimised: MaximizeCAI keeps reporting it as a breach location when it is sub-optimal, and
   optimize_locations skips it because its local space is empty (space_size 0).  optimize() still ends,
   the first codon is the original one, EVERY OTHER codon still encodes its residue and is a
   most-frequent synonym, and nothing changes outside the region.

   Three layers:
   - SolverFrozen: the separable-objective theorem of Proofs/SolverE.v when some of the reported units
     have an empty local space: those are skipped (their gap stays what it was), the gaps of all the
     others are closed;
   - the MaximizeCAI instance (as Proofs/CaiEnd.v), with [block_searchable] required only for the
     reported blocks whose local space is not empty;
   - the problem with the StartKeep space (Proofs/TranslationSpaceKeep.v). *)
From Coq Require Import ZArith QArith Bool List Lia Lqa Ascii String.
From DC Require Import Model.Base Model.Loc Model.Bio Model.Pattern Model.MSpace Model.Specs Model.Solver
                       Generated.GenTables
                       Proofs.MSpaceDefs Proofs.MSpaceA Proofs.MSpaceB Proofs.MSpaceC Proofs.MSpaceD Proofs.MSpaceE
                       Proofs.SpecsDefs Proofs.BioA Proofs.SpecsCodon
                       Proofs.SolverA Proofs.SolverB Proofs.SolverC Proofs.SolverE Proofs.Builtins Proofs.CaiEnd
                       Proofs.TranslationSpace Proofs.CaiFull Proofs.TranslationSpaceKeep.
Import ListNotations.
Open Scope Z_scope.

(* ================================================================== the solver, with frozen units *)
Section SolverFrozen.
  Variable spec : Type.
  Variable ev : spec -> dna -> Q * option (list loc).
  Variable localize : spec -> loc -> bool -> dna -> lres spec.
  Variable reinit : bool -> spec -> dna -> spec.
  Variable enforced : spec -> bool.
  Variable best : spec -> option Q.
  Variable boost : spec -> Q.
  Variable opt_heuristic : spec -> option (settings -> lproblem spec -> state spec -> outcome * state spec).
  Variable space : mspace.
  Variable n : Z.
  Hypothesis space_wf : wf_space space.
  Hypothesis space_fits : forall c, In c (choices_list space) -> cend c <= n.

  Variable obj : spec.
  Variable units : list loc.
  Variable gap : loc -> dna -> Q.
  Variable cfg : settings.
  Variable cs : list spec.

  Hypothesis gap_nonpos : forall u s, (gap u s <= 0)%Q.
  Hypothesis ev_score : forall s, good space n s -> (fst (ev obj s) == qsum_gaps units gap s)%Q.
  Hypothesis best_obj : best obj = Some 0%Q.
  Hypothesis boost_obj : (0 < boost obj)%Q.
  Hypothesis no_heuristic : opt_heuristic obj = None.
  Hypothesis units_in : forall u, In u units -> 0 <= lstart u /\ lstart u < lend u /\ lend u <= n.
  Hypothesis units_disjoint : forall i j u v, nth_error units i = Some u -> nth_error units j = Some v -> i <> j ->
    lend u <= lstart v \/ lend v <= lstart u.
  Hypothesis gap_local : forall u s t, In u units -> good space n s -> good space n t ->
    (forall i, lstart u <= i < lend u -> nth_error s (Z.to_nat i) = nth_error t (Z.to_nat i)) ->
    (gap u s == gap u t)%Q.
  Hypothesis constraints_skipped : forall c w s, In c cs ->
    match localize c w true s with
    | LSome c' => enforced (reinit false c' s) = true
    | LNone => True
    | LError => False
    end.

  (* the local space of the unit is empty: optimize_locations skips the location *)
  Definition frozenb (u : loc) : bool := space_size_exact (ms_localized space (lstart u) (lend u)) =? 0.

  Lemma optimize_locations_skip_frozen : forall objectives rest st,
    optimize_locations spec ev localize reinit enforced best boost opt_heuristic cfg space cs objectives obj rest st =
    optimize_locations spec ev localize reinit enforced best boost opt_heuristic cfg space cs objectives obj
      (filter (fun u => negb (frozenb u)) rest) st.
  Proof.
    intros objectives rest. induction rest as [|u rest IH]; intro st; [reflexivity|].
    cbn [optimize_locations filter]. unfold frozenb at 1.
    destruct (space_size_exact (ms_localized space (lstart u) (lend u)) =? 0) eqn:E; cbn [negb].
    - apply IH.
    - cbn [optimize_locations]. rewrite E.
      destruct (choices_span (ms_localized space (lstart u) (lend u))) as [[a b]|]; [|reflexivity].
      destruct (localize_all spec localize cs (mkLoc a b 0) (cur spec st)) as [lcs|]; [|reflexivity].
      destruct (localize_all spec localize
                  (filter (fun o => negb (Qeq_bool (boost o) 0)) objectives) (mkLoc a b 0) (cur spec st))
        as [los|]; [|reflexivity].
      match goal with |- (let '(o, lst) := ?X in _) = _ => destruct X as [o1 lst] end.
      destruct o1; try reflexivity. apply IH.
  Qed.

  (* the units visited: sub-optimal at the start and not frozen *)
  Definition visited (s : dna) : list loc :=
    filter (fun u => negb (frozenb u)) (filter (fun u => negative gap u s) units).

  Theorem optimize_objective_closes_unfrozen_gaps : forall st o st',
    state_good spec space n st ->
    snd (ev obj (cur _ st)) = Some (filter (fun u => negative gap u (cur _ st)) units) ->
    (forall u s, In u units -> negative gap u (cur _ st) = true -> frozenb u = false ->
                 good space n s -> negative gap u s = true ->
                 unit_searchable spec ev localize reinit best boost space n obj gap cfg u s) ->
    optimize_objective spec ev localize reinit enforced best boost opt_heuristic cfg space cs [obj] obj st = (o, st') ->
    o = ODone /\ good space n (cur _ st') /\
    (forall u, In u units -> frozenb u = false -> (gap u (cur _ st') == 0)%Q) /\
    (forall u, In u units -> frozenb u = true -> (gap u (cur _ st') == gap u (cur _ st))%Q) /\
    same_outside (visited (cur _ st)) (cur _ st) (cur _ st').
  Proof.
    intros st o st' [Hg _] Hls Hlocal H. unfold optimize_objective in H.
    destruct (evaluate spec ev obj st) as [e st1] eqn:E.
    apply evaluate_spec in E. destruct E as (He & Hc1 & Hr1).
    pose proof (ev_score (cur _ st) Hg) as Hsc.
    rewrite best_obj in H. subst e.
    destruct (Qeq_bool (fst (ev obj (cur _ st))) 0) eqn:Eq.
    - inversion H; subst o st'. apply Qeq_bool_iff in Eq. rewrite Hc1.
      split; [reflexivity|]. split; [exact Hg|]. split; [|split].
      + intros u Hu _. apply (gsum_zero_each gap gap_nonpos units); [|exact Hu].
        fold (qsum_gaps units gap (cur _ st)). rewrite <- Hsc. exact Eq.
      + intros u _ _. reflexivity.
      + intros i _ _. reflexivity.
    - rewrite Hls in H. rewrite optimize_locations_skip_frozen in H.
      fold (visited (cur _ st)) in H.
      assert (Hnd : NoDup (visited (cur _ st))).
      { unfold visited. apply NoDup_filter, NoDup_filter. exact (units_NoDup n units units_in units_disjoint). }
      assert (Hsub : forall u, In u (visited (cur _ st)) -> In u units).
      { intros u Hin. unfold visited in Hin. apply filter_In in Hin. destruct Hin as [Hin _].
        apply filter_In in Hin. exact (proj1 Hin). }
      assert (Hloc : forall u s, In u (visited (cur _ st)) -> good space n s -> negative gap u s = true ->
                unit_searchable spec ev localize reinit best boost space n obj gap cfg u s).
      { intros u s Hin Hgs Hn. unfold visited in Hin. apply filter_In in Hin. destruct Hin as [Hin Hf].
        apply filter_In in Hin. destruct Hin as [Hu Hneg]. apply negb_true_iff in Hf.
        apply Hlocal; assumption. }
      assert (Hneg : forall u, In u (visited (cur _ st)) -> (gap u (cur _ st1) < 0)%Q).
      { intros u Hin. unfold visited in Hin. apply filter_In in Hin. destruct Hin as [Hin _].
        apply filter_In in Hin. rewrite Hc1. apply negative_lt. exact (proj2 Hin). }
      assert (Hg1 : good space n (cur _ st1)) by (rewrite Hc1; exact Hg).
      pose proof (optimize_locations_outside spec ev localize reinit enforced best boost opt_heuristic
                    space n space_wf space_fits obj units gap cfg cs gap_nonpos boost_obj no_heuristic
                    units_in units_disjoint gap_local constraints_skipped
                    (visited (cur _ st)) st1 o st' Hg1 Hnd Hsub Hloc Hneg H) as Hout.
      destruct (optimize_locations_closes spec ev localize reinit enforced best boost opt_heuristic
                    space n space_wf space_fits obj units gap cfg cs gap_nonpos boost_obj no_heuristic
                    units_in units_disjoint gap_local constraints_skipped
                    (visited (cur _ st)) st1 o st' Hg1 Hnd Hsub Hloc Hneg H)
        as (Ho & Hg' & _ & Hclosed & Hkeep).
      rewrite Hc1 in Hkeep, Hout.
      split; [exact Ho|]. split; [exact Hg'|]. split; [|split; [|exact Hout]].
      + intros u Hu Hf. destruct (negative gap u (cur _ st)) eqn:En.
        * apply Hclosed. unfold visited. apply filter_In. split; [|rewrite Hf; reflexivity].
          apply filter_In. split; [exact Hu | exact En].
        * rewrite Hkeep; [|exact Hu|].
          -- pose proof (gap_nonpos u (cur _ st)) as Hle.
             destruct (Qlt_le_dec (gap u (cur _ st)) 0) as [Hlt|Hge]; [|lra].
             apply negative_lt in Hlt. congruence.
          -- intro Hin. unfold visited in Hin. apply filter_In in Hin. destruct Hin as [Hin _].
             apply filter_In in Hin. destruct Hin as [_ Hin]. congruence.
      + intros u Hu Hf. apply Hkeep; [exact Hu|].
        intro Hin. unfold visited in Hin. apply filter_In in Hin. destruct Hin as [_ Hin].
        rewrite Hf in Hin. discriminate.
  Qed.

  Theorem optimize_closes_unfrozen_gaps : forall passive st o st',
    passive obj = false ->
    state_good spec space n st ->
    snd (ev obj (cur _ st)) = Some (filter (fun u => negative gap u (cur _ st)) units) ->
    (forall u s, In u units -> negative gap u (cur _ st) = true -> frozenb u = false ->
                 good space n s -> negative gap u s = true ->
                 unit_searchable spec ev localize reinit best boost space n obj gap cfg u s) ->
    optimize spec ev localize reinit enforced best boost passive opt_heuristic cfg space cs [obj] st = (o, st') ->
    o = ODone /\ good space n (cur _ st') /\
    (forall u, In u units -> frozenb u = false -> (gap u (cur _ st') == 0)%Q) /\
    (forall u, In u units -> frozenb u = true -> (gap u (cur _ st') == gap u (cur _ st))%Q) /\
    same_outside (visited (cur _ st)) (cur _ st) (cur _ st').
  Proof.
    intros passive st o st' Hp Hg Hls Hlocal H. unfold optimize in H.
    cbn [filter] in H. rewrite Hp, (boost_obj_nonzero spec boost obj boost_obj) in H.
    cbn [negb andb optimize_each] in H.
    destruct (optimize_objective spec ev localize reinit enforced best boost opt_heuristic
                cfg space cs [obj] obj st) as [o1 st1] eqn:E1.
    destruct (optimize_objective_closes_unfrozen_gaps st o1 st1 Hg Hls Hlocal E1)
      as (Ho1 & Hg1 & A & B & C).
    subst o1. inversion H; subst o st'.
    split; [reflexivity|]. split; [exact Hg1|]. split; [exact A|]. split; [exact B | exact C].
  Qed.
End SolverFrozen.

(* ================================================================== MaximizeCAI, with frozen codons *)
(* the local space of codon i of the coding region is empty *)
Definition codon_frozen (space : mspace) (l : loc) (i : Z) : Prop :=
  space_size_exact (ms_localized space (lstart l + 3 * i) (lstart l + 3 * i + 3)) = 0.

(* Proofs/CaiEnd.v (cai_optimize_reaches_every_codon_best_outside_partial) with [block_searchable]
   required only for the reported blocks whose local space is NOT empty: a codon ends as a
   most-frequent synonym when its local space is not empty or when it was one at the start; a position
   is unchanged unless it lies in a codon that was sub-optimal and whose local space is not empty *)
Theorem cai_optimize_frozen_codons_partial :
  forall (lf lb : list (dna * Q)) (l : loc) (space : mspace) (n : Z) (cfg : settings) (cs : list spec)
         (enforced passive : spec -> bool) st o st',
    wf_space space -> (forall c, In c (choices_list space) -> cend c <= n) ->
    wf_spec (SMaximizeCAI lf lb l) n -> lstrand l = 1 ->
    (forall c f b, qassoc c lf = Some f -> qassoc c lb = Some b -> (f <= b)%Q) ->
    (forall c w s, In c cs ->
       match Specs.localized c w true s with
       | LSome c' => enforced c' = true
       | LNone => True
       | LError => False
       end) ->
    passive (SMaximizeCAI lf lb l) = false ->
    state_good spec space n st ->
    (forall e B s, Specs.evaluate (SMaximizeCAI lf lb l) (cur _ st) = Some e ->
       In B (match locs e with Some ls => ls | None => [] end) ->
       space_size_exact (ms_localized space (lstart B) (lend B)) <> 0 ->
       good space n s ->
       block_searchable space n cfg lf lb l B s) ->
    optimize spec b_ev Specs.localized b_reinit enforced (fun _ => Some 0%Q) b_boost passive (fun _ => None)
             cfg space cs [SMaximizeCAI lf lb l] st = (o, st') ->
    o = ODone /\ good space n (cur _ st') /\
    (forall i, 0 <= i < loc_len l / 3 ->
       ~ codon_frozen space l i \/ codon_best lf lb l (cur _ st) i ->
       codon_best lf lb l (cur _ st') i) /\
    (forall p, 0 <= p ->
       (forall i, 0 <= i < loc_len l / 3 -> lstart l + 3 * i <= p < lstart l + 3 * i + 3 ->
          codon_frozen space l i \/ codon_best lf lb l (cur _ st) i) ->
       nth_error (cur _ st') (Z.to_nat p) = nth_error (cur _ st) (Z.to_nat p)).
Proof.
  intros lf lb l space n cfg cs enforced passive st o st' Hwf Hfit Hspec Hs Hfb Hcs Hpas Hst Hblock Hopt.
  cbn [wf_spec] in Hspec. destruct Hspec as (Hl & Hmod & Htf & Htb).
  remember (loc_len l / 3) as k eqn:Ek.
  assert (Hlen : loc_len l = 3 * k) by (pose proof (Z.div_mod (loc_len l) 3); lia).
  assert (Hk : 0 <= k) by (destruct Hl as (? & ? & ? & ?); unfold loc_len in Hlen; lia).
  set (obj := SMaximizeCAI lf lb l) in *.
  assert (Hev : forall s, good space n s -> exists e, Specs.evaluate obj s = Some e /\
            (score e == qsum_gaps (cai_units l) (ugap lf lb) s)%Q /\
            locs e = Some (filter (fun u => negative (ugap lf lb) u s) (cai_units l))).
  { intros s [Hn _]. apply (cai_score_locs lf lb Htf Htb Hfb l s k); try assumption. rewrite Hn. exact Hl. }
  assert (H1 : forall u s, (ugap lf lb u s <= 0)%Q) by (apply ugap_nonpos; exact Hfb).
  assert (H2 : forall s, good space n s -> (fst (b_ev obj s) == qsum_gaps (cai_units l) (ugap lf lb) s)%Q).
  { intros s Hg. destruct (Hev s Hg) as (e & He & Hsc & _). unfold b_ev. rewrite He. exact Hsc. }
  assert (H3 : (0 < b_boost obj)%Q) by (unfold b_boost; lra).
  assert (H4 : forall u, In u (cai_units l) -> 0 <= lstart u /\ lstart u < lend u /\ lend u <= n).
  { intros u Hu. destruct (cai_units_In l k u Hlen Hk Hu) as (i & Hi & E1 & E2).
    destruct Hl as (? & ? & ? & ?). unfold loc_len in Hlen. lia. }
  assert (H5 : forall i j u v, nth_error (cai_units l) i = Some u -> nth_error (cai_units l) j = Some v ->
            i <> j -> lend u <= lstart v \/ lend v <= lstart u).
  { intros i j u v Hi Hj Hne.
    destruct (cai_units_nth l k i u Hlen Hk Hi) as (_ & A1 & A2).
    destruct (cai_units_nth l k j v Hlen Hk Hj) as (_ & B1 & B2). lia. }
  assert (H6 : forall u s t, In u (cai_units l) -> good space n s -> good space n t ->
            (forall i, lstart u <= i < lend u -> nth_error s (Z.to_nat i) = nth_error t (Z.to_nat i)) ->
            (ugap lf lb u s == ugap lf lb u t)%Q).
  { intros u s t Hu [Hns _] [Hnt _] Hag. destruct (H4 u Hu) as (A & B & C).
    unfold ugap, extract. cbn [lstart lend lstrand]. change (1 =? -1) with false. cbv iota.
    rewrite !MSpaceA.pyslice_slice by lia.
    rewrite (MSpaceA.slice_ext s t (lstart u) (lend u) A Hag). reflexivity. }
  assert (H7 : forall c w s, In c cs ->
            match Specs.localized c w true s with
            | LSome c' => enforced (b_reinit false c' s) = true
            | LNone => True
            | LError => False
            end).
  { intros c w s Hc. exact (Hcs c w s Hc). }
  assert (H8 : snd (b_ev obj (cur _ st)) =
               Some (filter (fun u => negative (ugap lf lb) u (cur _ st)) (cai_units l))).
  { destruct (Hev (cur _ st) (proj1 Hst)) as (e & He & _ & Hlocs). unfold b_ev. rewrite He. exact Hlocs. }
  assert (H9 : forall u s, In u (cai_units l) -> negative (ugap lf lb) u (cur _ st) = true ->
            frozenb space u = false ->
            good space n s -> negative (ugap lf lb) u s = true ->
            unit_searchable spec b_ev Specs.localized b_reinit (fun _ => Some 0%Q) b_boost space n obj
                            (ugap lf lb) cfg u s).
  { intros u s Hu Hneg0 Hnf Hg _.
    destruct (Hev (cur _ st) (proj1 Hst)) as (e & He & _ & Hlocs).
    pose proof (Hblock e u s He) as HB. rewrite Hlocs in HB.
    unfold frozenb in Hnf. apply Z.eqb_neq in Hnf.
    specialize (HB (proj2 (filter_In _ _ _) (conj Hu Hneg0)) Hnf Hg).
    destruct HB as (Hsz & Hth & a & b & vs & Hspan & Hla & Hbl & Hvs & t & Ht & Hbest).
    destruct (cai_units_In l k u Hlen Hk Hu) as (i & Hi & E1 & E2).
    destruct (span_in_range space n Hwf Hfit _ _ a b Hspan) as (Ha0 & Hab & Hbn).
    unfold unit_searchable. cbv zeta. split; [exact Hsz|]. split; [exact Hth|].
    set (nl := mkLoc (lstart l + 3 * i) (lstart l + 3 * i + 3) 1).
    exists a, b, (SMaximizeCAI lf lb nl), vs.
    split; [exact Hspan|]. split; [exact Hla|]. split; [exact Hbl|]. split.
    { unfold Specs.localized, obj. cbn [localized_raw].
      rewrite (codon_window_in_codon l k i a b Hlen Hs Hi) by lia. reflexivity. }
    assert (Hsc : forall t', good space n t' -> (fst (b_ev (SMaximizeCAI lf lb nl) t') == ugap lf lb u t')%Q).
    { intros t' [Hn' _].
      assert (Hlnl : loc_len nl = 3 * 1) by (unfold loc_len, nl; cbn [lstart lend]; lia).
      destruct (cai_score_locs lf lb Htf Htb Hfb nl t' 1) as (e' & He' & Hsc' & _);
        [|exact Hlnl|lia|reflexivity|].
      { rewrite Hn'. destruct Hl as (? & ? & ? & ?). unfold loc_len in Hlen. unfold loc_in, nl.
        cbn [lstart lend lstrand]. repeat split; lia. }
      unfold b_ev. rewrite He'. cbn [fst]. rewrite Hsc'.
      unfold qsum_gaps, cai_units. rewrite Hlnl. change (3 * 1 / 3 =? 1) with true. cbv iota.
      cbn [fold_right]. unfold ugap, nl. cbn [lstart lend]. rewrite E1, E2. lra. }
    split.
    { unfold b_reinit, b_boost. split; [reflexivity|]. split; [left; reflexivity|]. split.
      - intros _ t' Hg' _. rewrite (Hsc t' Hg'). apply H1.
      - intros t' Hg' _. rewrite (Hsc t' Hg'), (Hsc s Hg). reflexivity. }
    split; [exact Hvs|]. exists t. split; [exact Ht|].
    assert (Hcb : codon_best lf lb l t i).
    { apply Hbest; [rewrite <- Ek; exact Hi | |]; rewrite (codon_loc_fwd l i Hs); cbn [lstart lend]; lia. }
    destruct Hcb as (f & bb & Hf & Hb & Hfbb).
    rewrite (ugap_codon lf lb l u t i Hs E1 E2). unfold cgap. rewrite Hf, Hb. lra. }
  destruct (optimize_closes_unfrozen_gaps spec b_ev Specs.localized b_reinit enforced
              (fun _ => Some 0%Q) b_boost (fun _ => None) space n Hwf Hfit obj (cai_units l) (ugap lf lb) cfg cs
              H1 H2 eq_refl H3 eq_refl H4 H5 H6 H7 passive st o st' Hpas Hst H8 H9 Hopt)
    as (Ho & Hg & Hclosed & Hkept & Hout).
  (* a codon that is a most-frequent synonym has gap 0, and conversely *)
  assert (Hbest_gap : forall s i u, 0 <= i < k -> lstart u = lstart l + 3 * i -> lend u = lstart l + 3 * i + 3 ->
            codon_best lf lb l s i -> (ugap lf lb u s == 0)%Q).
  { intros s i u Hi E1 E2 (f & bb & Hf & Hb & Hfbb).
    rewrite (ugap_codon lf lb l u s i Hs E1 E2). unfold cgap. rewrite Hf, Hb. lra. }
  assert (Hgap_best : forall s i u, good space n s -> 0 <= i < k ->
            lstart u = lstart l + 3 * i -> lend u = lstart l + 3 * i + 3 ->
            (ugap lf lb u s == 0)%Q -> codon_best lf lb l s i).
  { intros s i u [Hn _] Hi E1 E2 Hz. rewrite (ugap_codon lf lb l u s i Hs E1 E2) in Hz.
    destruct (codon_entries lf lb Htf Htb l s k i) as (f & bb & Hf & Hb & Hc);
      [rewrite Hn; exact Hl | exact Hlen | exact Hs | exact Hi|].
    exists f, bb. split; [exact Hf|]. split; [exact Hb|]. lra. }
  assert (Hfz : forall u i, lstart u = lstart l + 3 * i -> lend u = lstart l + 3 * i + 3 ->
            (frozenb space u = true <-> codon_frozen space l i)).
  { intros u i E1 E2. unfold frozenb, codon_frozen. rewrite E1, E2. apply Z.eqb_eq. }
  split; [exact Ho|]. split; [exact Hg|]. split.
  - intros i Hi Hcase.
    destruct (cai_units_has l k i Hlen Hi) as (u & Hu & E1 & E2).
    apply (Hgap_best _ i u Hg Hi E1 E2).
    destruct (frozenb space u) eqn:Ef.
    + rewrite (Hkept u Hu Ef). apply (Hbest_gap _ i u Hi E1 E2).
      destruct Hcase as [Hnf|Hb]; [|exact Hb]. exfalso. apply Hnf. apply (Hfz u i E1 E2). exact Ef.
    + apply Hclosed; [exact Hu | exact Ef].
  - intros p Hp Hcase. apply Hout; [exact Hp|].
    intros u Hu Hin. unfold visited in Hu. apply filter_In in Hu. destruct Hu as [Hu Hnf].
    apply filter_In in Hu. destruct Hu as [Hu Hneg]. apply negb_true_iff in Hnf.
    destruct (cai_units_In l k u Hlen Hk Hu) as (i & Hi & E1 & E2).
    destruct (Hcase i Hi ltac:(lia)) as [Hf|Hb].
    + apply (Hfz u i E1 E2) in Hf. congruence.
    + pose proof (Hbest_gap _ i u Hi E1 E2 Hb) as Hz.
      apply negative_lt in Hneg. lra.
Qed.

(* ================================================================== the problem with the kept start codon *)
Lemma nuc_eq_dec : forall x y : nuc, {x = y} + {x <> y}.
Proof. decide equality. Qed.

Theorem cai_optimize_end_to_end_keep_start :
  forall (name : string) (T : gtable) (lf lb : list (dna * Q)) (l : loc) (tr : astr) (s0 : dna)
         (cfg : settings) (passive : spec -> bool) st o st',
    In (name, T) genetic_tables -> no_dual_stop T = true ->
    wf_spec (SMaximizeCAI lf lb l) (zlen s0) -> lstrand l = 1 ->
    loc_len l = 3 * zlen tr -> 1 <= zlen tr ->
    tables_consistent T lf lb ->
    64 < st_threshold cfg ->
    let space := from_constraints s0 (restrict_nucleotides (STranslation T l tr StartKeep) false s0) in
    passive (SMaximizeCAI lf lb l) = false ->
    state_good spec space (zlen s0) st ->
    optimize spec b_ev Specs.localized b_reinit tr_enforced (fun _ => Some 0%Q) b_boost passive (fun _ => None)
             cfg space [STranslation T l tr StartKeep] [SMaximizeCAI lf lb l] st = (o, st') ->
    o = ODone /\
    (* the first codon is the one of s0, untouched *)
    slice (cur _ st') (lstart l) (lstart l + 3) = slice s0 (lstart l) (lstart l + 3) /\
    (* every other codon still encodes its residue and is a most-frequent synonym *)
    (forall i, 1 <= i < loc_len l / 3 -> codon_best lf lb l (cur _ st') i) /\
    (forall i aa, 1 <= i < zlen tr -> nth_error tr (Z.to_nat i) = Some aa ->
        codon_aa T (slice (cur _ st') (lstart l + 3 * i) (lstart l + 3 * i + 3)) = Some aa) /\
    zlen (cur _ st') = zlen s0 /\
    (forall i, 0 <= i -> ~ (lstart l <= i < lend l) ->
       nth_error (cur _ st') (Z.to_nat i) = nth_error (cur _ st) (Z.to_nat i)).
Proof.
  intros name T lf lb l tr s0 cfg passive st o st' HT Hnd Hspec Hs Hlen Hne Htab Hth space Hpas Hst Hopt.
  pose proof Hspec as (Hl & Hmod & Htf & Htb).
  destruct Htab as [Hfb Hbest].
  set (n := zlen s0) in *. set (k := zlen tr) in *.
  assert (Hk3 : loc_len l / 3 = k) by (rewrite Hlen, Z.mul_comm; apply Z.div_mul; lia).
  destruct (kspace_wf name T l tr s0 HT Hnd Hl Hs Hlen Hne) as [Hwf Hfit]. fold space in Hwf, Hfit.
  pose proof Hl as (L0 & L1 & L2 & _). pose proof Hlen as Hlen'. unfold loc_len in Hlen'. fold n in L2.
  (* replacing codon i >= 1 by a most-frequent synonym *)
  assert (Hswap : forall s i, good space n s -> 1 <= i < k ->
            exists t, good space n t /\ codon_best lf lb l t i /\
              (forall p, 0 <= p -> ~ (lstart l + 3 * i <= p < lstart l + 3 * i + 3) ->
                 nth_error t (Z.to_nat p) = nth_error s (Z.to_nat p))).
  { intros s i Hg Hi.
    destruct (kgood_codon_aa name T l tr s0 HT Hnd Hl Hs Hlen Hne s i Hg Hi) as [aa [_ Haa]].
    destruct (codon_three l s k i) as (x & y & z & E);
      [rewrite (proj1 Hg); exact Hl | exact Hlen | exact Hs | lia|].
    rewrite E in Haa. destruct (Hbest x y z aa Haa) as (c' & f & b & Hc' & Hl3 & Hf & Hb & Hfb').
    destruct (kcodon_swap name T l tr s0 HT Hnd Hl Hs Hlen Hne s i c' Hg Hi Hl3) as (Hgt & Hci & Hout).
    { rewrite E, Haa. exact Hc'. }
    eexists. split; [exact Hgt|]. split; [|exact Hout].
    exists f, b. rewrite Hci. split; [exact Hf|]. split; [exact Hb | exact Hfb']. }
  (* a codon i >= 1 that is not a most-frequent synonym at the start has a non-empty local space *)
  assert (Hwin : forall i s1 t1 s t, 1 <= i < k ->
            good space n s1 -> good space n t1 -> s1 <> t1 ->
            (forall p, 0 <= p -> ~ (lstart l + 3 * i <= p < lstart l + 3 * i + 3) ->
               nth_error t1 (Z.to_nat p) = nth_error s1 (Z.to_nat p)) ->
            good space n s -> good space n t ->
            (forall p, 0 <= p -> ~ (lstart l + 3 * i <= p < lstart l + 3 * i + 3) ->
               nth_error t (Z.to_nat p) = nth_error s (Z.to_nat p)) ->
            space_size_exact (ms_localized space (lstart l + 3 * i) (lstart l + 3 * i + 3)) <> 0 /\
            space_size_exact (ms_localized space (lstart l + 3 * i) (lstart l + 3 * i + 3)) <= 64 /\
            exists x y vs, choices_span (ms_localized space (lstart l + 3 * i) (lstart l + 3 * i + 3)) = Some (x, y) /\
              lstart l + 3 * i <= x /\ y <= lstart l + 3 * i + 3 /\
              all_variants (ms_localized space (lstart l + 3 * i) (lstart l + 3 * i + 3)) s = Some vs /\ In t vs).
  { intros i s1 t1 s t Hi Hs1 Ht1 Hne1 Hout1 Hgs Hgt Houtt.
    assert (Hi0 : 0 <= i < k) by lia.
    destruct (window_searchable space n Hwf Hfit (lstart l + 3 * i) (lstart l + 3 * i + 3)
                ltac:(lia) ltac:(lia) ltac:(lia)
                (kspace_closed name T l tr s0 HT Hnd Hl Hs Hlen Hne i Hi0)
                (kspace_covered name T l tr s0 HT Hnd Hl Hs Hlen Hne i Hi0)
                s1 t1 s t Hs1 Ht1 Hne1 Hout1 Hgs Hgt Houtt)
      as (Hsz & Hbd & Hex).
    split; [exact Hsz|]. split; [|exact Hex].
    replace (lstart l + 3 * i + 3 - (lstart l + 3 * i)) with 3 in Hbd by lia.
    change (4 ^ 3) with 64 in Hbd. exact Hbd. }
  destruct (cai_optimize_frozen_codons_partial lf lb l space n cfg
              [STranslation T l tr StartKeep] tr_enforced passive st o st' Hwf Hfit Hspec Hs Hfb)
    as (Ho & Hg & Hall & Hout).
  - intros c w s [E|[]]. subst c. unfold Specs.localized. cbn [localized_raw].
    destruct (codon_window l w) as [[[nl sc] ec]|]; [reflexivity | exact I].
  - exact Hpas.
  - exact Hst.
  - intros e B s He HB Hnz Hgs.
    destruct (cai_score_locs lf lb Htf Htb Hfb l (cur _ st) k) as (e' & He' & _ & Hlocs);
      [rewrite (proj1 (proj1 Hst)); exact Hl | exact Hlen | unfold k; lia | exact Hs|].
    rewrite He in He'. inversion He'; subst e'. rewrite Hlocs in HB.
    apply filter_In in HB. destruct HB as [HBu HBneg].
    destruct (cai_units_In l k B Hlen ltac:(unfold k; lia) HBu) as (i & Hi & E1 & E2).
    destruct (Z.eq_dec i 0) as [Ei0|Ei0].
    { (* the first codon: its local space is empty *)
      exfalso. apply Hnz. subst i. rewrite E1, E2.
      replace (lstart l + 3 * 0) with (lstart l) by lia.
      exact (first_codon_frozen name T l tr s0 HT Hnd Hl Hs Hlen Hne (cur _ st) (proj1 Hst)). }
    assert (Hi1 : 1 <= i < k) by lia.
    destruct (Hswap (cur _ st) i (proj1 Hst) Hi1) as (t1 & Hgt1 & Hb1 & Hout1).
    assert (Hne1 : cur _ st <> t1).
    { intro E. rewrite <- E in Hb1. destruct Hb1 as (f & b & Hf & Hb & Hfb').
      unfold negative in HBneg. rewrite (ugap_codon lf lb l B _ i Hs E1 E2) in HBneg.
      unfold cgap in HBneg. rewrite Hf, Hb in HBneg. apply negb_true_iff in HBneg.
      assert (Ht : Qle_bool 0 (- (b - f)) = true) by (apply Qle_bool_iff; lra). congruence. }
    destruct (Hswap s i Hgs Hi1) as (t & Hgt & Hbt & Houtt).
    destruct (Hwin i (cur _ st) t1 s t Hi1 (proj1 Hst) Hgt1 Hne1 Hout1 Hgs Hgt Houtt)
      as (Hsz & Hbd & x & y & vs & Hspan & Hx & Hy & Hvs & Hin).
    unfold block_searchable. cbv zeta. rewrite E1, E2.
    split; [exact Hsz|]. split; [lia|].
    exists x, y, vs. split; [exact Hspan|]. split; [exact Hx|]. split; [exact Hy|]. split; [exact Hvs|].
    exists t. split; [exact Hin|].
    intros j Hj Hj1 Hj2. rewrite (codon_loc_fwd l j Hs) in Hj1, Hj2. cbn [lstart lend] in Hj1, Hj2.
    assert (j = i) by lia. subst j. exact Hbt.
  - exact Hopt.
  - split; [exact Ho|]. split.
    { exact (good_first_codon name T l tr s0 HT Hnd Hl Hs Hlen Hne (cur _ st') Hg). }
    split.
    { intros i Hi. rewrite Hk3 in Hi. apply Hall; [rewrite Hk3; lia|].
      destruct (Z.eq_dec (space_size_exact (ms_localized space (lstart l + 3 * i) (lstart l + 3 * i + 3))) 0)
        as [Ef|Ef]; [right | left; exact Ef].
      destruct (Hswap (cur _ st) i (proj1 Hst) Hi) as (t1 & Hgt1 & Hb1 & Hout1).
      destruct (list_eq_dec nuc_eq_dec (cur _ st) t1) as [E|Hne1]; [rewrite E; exact Hb1|].
      exfalso.
      destruct (Hwin i (cur _ st) t1 (cur _ st) t1 Hi (proj1 Hst) Hgt1 Hne1 Hout1 (proj1 Hst) Hgt1 Hout1)
        as (Hsz & _). exact (Hsz Ef). }
    split.
    { intros i aa Hi Hnth.
      destruct (kgood_codon_aa name T l tr s0 HT Hnd Hl Hs Hlen Hne (cur _ st') i Hg Hi) as (aa' & Hnth' & Haa).
      rewrite Hnth in Hnth'. inversion Hnth'; subst aa'.
      rewrite (codon_of_fwd T l tr s0 Hl Hs Hlen (cur _ st') i (proj1 Hg)) in Haa by (fold k; lia).
      exact Haa. }
    split; [exact (proj1 Hg)|].
    intros p Hp Hnp. apply Hout; [exact Hp|].
    intros i Hi Hin. exfalso. apply Hnp. rewrite Hk3 in Hi. unfold k in Hi. lia.
Qed.
