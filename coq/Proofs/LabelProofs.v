(* C16 lemmas: the label grammar round-trips.  A descriptor (role, name, arguments) rendered in the
   documented syntax -- "@" or "~", the name, arguments between parentheses separated by ", ",
   keyword arguments with ":" or "=", lists with "|", several labels joined by "&" -- is parsed back to
   the same descriptor, and values are typed as documented (quoted -> string, integer, decimal,
   otherwise bare string). *)
From Coq Require Import ZArith Bool List Ascii String Lia Arith.
From DC Require Import Model.Base Model.Label.
Import ListNotations.
Open Scope Z_scope.

(* characters with a meaning in the grammar, and blanks *)
Definition special (c : ascii) : bool :=
  mem c (lit ",&():=|'") || is_space c.
(* an atom: non-empty, no special character *)
Definition plain (s : str) : Prop := s <> [] /\ forallb (fun c => negb (special c)) s = true.

(* decimal rendering of integers *)
Fixpoint render_nat_fuel (fuel : nat) (n : Z) : str :=
  match fuel with
  | O => []
  | S f => if n <? 10 then [ascii_of_nat (Z.to_nat (48 + n))]
           else render_nat_fuel f (n / 10) ++ [ascii_of_nat (Z.to_nat (48 + n mod 10))]
  end.
Definition render_int (z : Z) : str :=
  if z <? 0 then ch "-" :: render_nat_fuel (S (Z.to_nat (- z))) (- z) else render_nat_fuel (S (Z.to_nat z)) z.

(* ------------------------------------------------------------------ *)
(* helpers: membership, characters                                     *)
(* ------------------------------------------------------------------ *)
Lemma mem_In : forall c s, mem c s = true <-> In c s.
Proof.
  intros c s; induction s as [|d s IH]; cbn [mem In].
  - split; [discriminate | contradiction].
  - rewrite orb_true_iff, IH, Ascii.eqb_eq. split; intros [H|H]; subst; auto.
Qed.

Lemma mem_app : forall c a b, mem c (a ++ b) = mem c a || mem c b.
Proof.
  intros c a b; induction a as [|x a IH]; cbn [app mem]; [reflexivity|].
  rewrite IH, orb_assoc; reflexivity.
Qed.

Lemma mem_cons_false : forall c d s, mem c (d :: s) = false -> Ascii.eqb c d = false /\ mem c s = false.
Proof. cbn [mem]; intros c d s H; apply orb_false_iff in H; exact H. Qed.

Definition nospecial (s : str) : Prop := forallb (fun c => negb (special c)) s = true.

Lemma nospecial_free : forall s d, nospecial s -> special d = true -> mem d s = false.
Proof.
  intros s d Hs Hd. destruct (mem d s) eqn:E; [|reflexivity].
  apply mem_In in E. unfold nospecial in Hs. rewrite forallb_forall in Hs.
  apply Hs in E. rewrite Hd in E. discriminate.
Qed.

Lemma nospecial_cons : forall c s, nospecial (c :: s) -> special c = false /\ nospecial s.
Proof.
  unfold nospecial; cbn [forallb]; intros c s H. apply andb_true_iff in H.
  destruct H as [H1 H2]. apply negb_true_iff in H1. auto.
Qed.

Lemma nospecial_app : forall a b, nospecial (a ++ b) -> nospecial a /\ nospecial b.
Proof. unfold nospecial; intros a b H. rewrite forallb_app in H. apply andb_true_iff in H. exact H. Qed.

Lemma special_false_neq : forall c d, special c = false -> special d = true -> Ascii.eqb c d = false.
Proof. intros c d Hc Hd. destruct (Ascii.eqb_spec c d); [subst; congruence | reflexivity]. Qed.

Lemma special_false_space : forall c, special c = false -> is_space c = false.
Proof. unfold special; intros c H. apply orb_false_iff in H. exact (proj2 H). Qed.

Lemma nospecial_nospace : forall s, nospecial s -> forallb (fun x => negb (is_space x)) s = true.
Proof.
  induction s as [|c s IH]; intros H; [reflexivity|].
  apply nospecial_cons in H. destruct H as [Hc Hs]. cbn [forallb].
  rewrite (IH Hs), (special_false_space c Hc). reflexivity.
Qed.

Lemma plain_quoted_none : forall s, plain s -> quoted_inner s = None.
Proof.
  intros s [Hne Hs]. destruct s as [|c s]; [reflexivity|].
  apply nospecial_cons in Hs. destruct Hs as [Hc _].
  unfold quoted_inner. rewrite (special_false_neq c (ch "'") Hc eq_refl). reflexivity.
Qed.

Theorem format_atom_bare : forall s, plain s -> parse_int s = None -> is_decimal s = false ->
  format_atom s = VStr s.
Proof.
  intros s Hp Hi Hd. unfold format_atom. rewrite (plain_quoted_none s Hp), Hi, Hd. reflexivity.
Qed.

Lemma upto_none : forall s, forallb (fun c => negb (Ascii.eqb c (ch "'"))) s = true ->
  upto_last_quote s = None.
Proof.
  induction s as [|a s IH]; cbn [forallb upto_last_quote]; intros H; [reflexivity|].
  apply andb_true_iff in H. destruct H as [H1 H2]. rewrite (IH H2).
  apply negb_true_iff in H1. rewrite H1. reflexivity.
Qed.

Lemma upto_last : forall s, forallb (fun c => negb (Ascii.eqb c (ch "'"))) s = true ->
  upto_last_quote (s ++ [ch "'"]) = Some s.
Proof.
  induction s as [|a s IH]; intros H; [reflexivity|].
  cbn [forallb] in H. apply andb_true_iff in H. destruct H as [_ H2].
  cbn [app upto_last_quote]. rewrite (IH H2). reflexivity.
Qed.

Theorem format_atom_quoted : forall s, forallb (fun c => negb (Ascii.eqb c (ch "'"))) s = true ->
  format_atom (ch "'" :: s ++ [ch "'"]) = VStr s.
Proof.
  intros s H. unfold format_atom, quoted_inner. rewrite Ascii.eqb_refl, (upto_last s H). reflexivity.
Qed.

(* ------------------------------------------------------------------ *)
(* decimal digits                                                      *)
(* ------------------------------------------------------------------ *)
Lemma digit_char : forall n, 0 <= n < 10 ->
  is_digit (ascii_of_nat (Z.to_nat (48 + n))) = true /\ digit_val (ascii_of_nat (Z.to_nat (48 + n))) = n.
Proof.
  intros n H.
  assert (E : n = 0 \/ n = 1 \/ n = 2 \/ n = 3 \/ n = 4 \/ n = 5 \/ n = 6 \/ n = 7 \/ n = 8 \/ n = 9) by lia.
  destruct E as [E|[E|[E|[E|[E|[E|[E|[E|[E|E]]]]]]]]]; subst n; vm_compute; split; reflexivity.
Qed.

Lemma is_digit_not : forall c d, is_digit c = true -> is_digit d = false -> Ascii.eqb c d = false.
Proof. intros c d H1 H2. destruct (Ascii.eqb_spec c d); [subst; congruence | reflexivity]. Qed.

Lemma render_nat_props : forall f n, 0 <= n -> (Z.to_nat n < f)%nat ->
  render_nat_fuel f n <> [] /\ forallb is_digit (render_nat_fuel f n) = true /\
  digits_val (render_nat_fuel f n) = n.
Proof.
  induction f as [|f IH]; intros n Hn Hf; [lia|].
  cbn [render_nat_fuel]. destruct (n <? 10) eqn:E.
  - apply Z.ltb_lt in E. destruct (digit_char n) as [D1 D2]; [lia|].
    split; [discriminate|]. split.
    + cbn [forallb]. rewrite D1. reflexivity.
    + unfold digits_val. cbn [fold_left]. rewrite D2. lia.
  - apply Z.ltb_ge in E.
    assert (Hq : 0 <= n / 10 < n) by (split; [apply Z.div_pos; lia | apply Z.div_lt; lia]).
    destruct (IH (n / 10)) as [I1 [I2 I3]]; [lia | lia |].
    assert (Hm : 0 <= n mod 10 < 10) by (apply Z.mod_pos_bound; lia).
    destruct (digit_char (n mod 10) Hm) as [D1 D2].
    split; [|split].
    + intro A. apply app_eq_nil in A. destruct A as [_ A]. discriminate.
    + rewrite forallb_app, I2. cbn [forallb]. rewrite D1. reflexivity.
    + unfold digits_val in *. rewrite fold_left_app. cbn [fold_left]. rewrite I3, D2.
      pose proof (Z.div_mod n 10 ltac:(lia)) as Hdm. lia.
Qed.

Lemma all_digits_of : forall s, s <> [] -> forallb is_digit s = true -> all_digits s = true.
Proof. intros s Hne H. destruct s; [contradiction | exact H]. Qed.

Lemma quoted_inner_cons_ne : forall c s, Ascii.eqb c (ch "'") = false -> quoted_inner (c :: s) = None.
Proof. intros c s H. unfold quoted_inner. rewrite H. reflexivity. Qed.

Lemma parse_int_neg : forall s, all_digits s = true -> parse_int (ch "-" :: s) = Some (- digits_val s).
Proof. intros s H. unfold parse_int. rewrite Ascii.eqb_refl, H. reflexivity. Qed.

Lemma parse_int_digit : forall c s, is_digit c = true -> all_digits (c :: s) = true ->
  parse_int (c :: s) = Some (digits_val (c :: s)).
Proof.
  intros c s H H0. unfold parse_int.
  rewrite (is_digit_not c (ch "-") H eq_refl), (is_digit_not c (ch "+") H eq_refl), H0. reflexivity.
Qed.

Theorem format_atom_int : forall z, format_atom (render_int z) = VInt z.
Proof.
  intros z. unfold render_int. destruct (z <? 0) eqn:E.
  - apply Z.ltb_lt in E.
    destruct (render_nat_props (S (Z.to_nat (- z))) (- z)) as [R1 [R2 R3]]; [lia | lia |].
    remember (render_nat_fuel (S (Z.to_nat (- z))) (- z)) as s eqn:Es. clear Es.
    unfold format_atom.
    rewrite quoted_inner_cons_ne by reflexivity.
    rewrite parse_int_neg by (apply all_digits_of; assumption).
    rewrite R3. f_equal. lia.
  - apply Z.ltb_ge in E.
    destruct (render_nat_props (S (Z.to_nat z)) z) as [R1 [R2 R3]]; [lia | lia |].
    remember (render_nat_fuel (S (Z.to_nat z)) z) as s eqn:Es. clear Es.
    destruct s as [|c s]; [contradiction|].
    assert (Hc : is_digit c = true).
    { cbn [forallb] in R2. apply andb_true_iff in R2. exact (proj1 R2). }
    unfold format_atom.
    rewrite quoted_inner_cons_ne by (apply is_digit_not; [exact Hc | reflexivity]).
    rewrite (parse_int_digit c s Hc) by (apply all_digits_of; [discriminate | exact R2]).
    rewrite R3. reflexivity.
Qed.

Theorem format_atom_decimal : forall t, plain t -> is_decimal t = true -> parse_int t = None ->
  format_atom t = VFloat t.
Proof.
  intros t Hp Hd Hi. unfold format_atom. rewrite (plain_quoted_none t Hp), Hi, Hd. reflexivity.
Qed.

(* str.split: joining pieces that do not contain the separator and splitting gives the pieces back *)
Fixpoint join (sep : str) (l : list str) : str :=
  match l with
  | [] => []
  | [x] => x
  | x :: l' => x ++ sep ++ join sep l'
  end.
Definition free_of (c : ascii) (s : str) : Prop := mem c s = false.

(* ------------------------------------------------------------------ *)
(* split / join, for a separator whose first character is not in the   *)
(* pieces                                                              *)
(* ------------------------------------------------------------------ *)
Lemma join_one : forall sep x, join sep [x] = x.
Proof. reflexivity. Qed.
Lemma join_cons2 : forall sep x y l, join sep (x :: y :: l) = x ++ sep ++ join sep (y :: l).
Proof. reflexivity. Qed.

Lemma split_aux_cons : forall f sep acc a s, split_aux (S f) sep acc (a :: s) =
  if starts_with sep (a :: s) then rev acc :: split_aux f sep [] (skipn (List.length sep) (a :: s))
  else split_aux f sep (a :: acc) s.
Proof. reflexivity. Qed.

Lemma starts_with_app : forall p m, starts_with p (p ++ m) = true.
Proof.
  induction p as [|x p IH]; intros m; [reflexivity|].
  cbn [app starts_with]. rewrite Ascii.eqb_refl, IH. reflexivity.
Qed.

Lemma skipn_app_exact : forall {X} (p m : list X), skipn (List.length p) (p ++ m) = m.
Proof. induction p as [|x p IH]; intros m; [reflexivity | cbn [List.length app skipn]; apply IH]. Qed.

Lemma firstn_app_exact : forall {X} (p m : list X), firstn (List.length p) (p ++ m) = p.
Proof.
  induction p as [|x p IH]; intros m; [reflexivity|].
  cbn [List.length app firstn]. rewrite IH. reflexivity.
Qed.

Lemma split_aux_piece_more : forall c sep' x f acc more, mem c x = false ->
  split_aux (S (List.length x + f)) (c :: sep') acc (x ++ (c :: sep') ++ more)
  = (rev acc ++ x) :: split_aux f (c :: sep') [] more.
Proof.
  intros c sep' x. induction x as [|a x IH]; intros f acc more Hx.
  - cbn [List.length Nat.add]. change ([] ++ (c :: sep') ++ more) with (c :: (sep' ++ more)).
    rewrite split_aux_cons. change (c :: sep' ++ more) with ((c :: sep') ++ more).
    rewrite starts_with_app, skipn_app_exact, app_nil_r. reflexivity.
  - apply mem_cons_false in Hx. destruct Hx as [Ha Hx].
    cbn [List.length Nat.add].
    change ((a :: x) ++ (c :: sep') ++ more) with (a :: (x ++ (c :: sep') ++ more)).
    rewrite split_aux_cons. cbn [starts_with]. rewrite Ha. cbn [andb].
    rewrite IH by assumption. cbn [rev]. rewrite <- app_assoc. reflexivity.
Qed.

Lemma split_aux_piece_last : forall c sep' x f acc, mem c x = false ->
  split_aux (S (List.length x + f)) (c :: sep') acc x = [rev acc ++ x].
Proof.
  intros c sep' x. induction x as [|a x IH]; intros f acc Hx.
  - cbn [List.length Nat.add split_aux]. rewrite app_nil_r. reflexivity.
  - apply mem_cons_false in Hx. destruct Hx as [Ha Hx].
    cbn [List.length Nat.add]. rewrite split_aux_cons. cbn [starts_with]. rewrite Ha. cbn [andb].
    rewrite IH by assumption. cbn [rev]. rewrite <- app_assoc. reflexivity.
Qed.

Lemma split_aux_join : forall c sep' l, l <> [] -> Forall (free_of c) l ->
  forall f, (List.length (join (c :: sep') l) <= f)%nat ->
  split_aux (S f) (c :: sep') [] (join (c :: sep') l) = l.
Proof.
  intros c sep' l. induction l as [|x l IH]; intros Hne HF f Hf; [contradiction|].
  inversion HF as [|? ? Hx HF']; subst. destruct l as [|y l].
  - rewrite join_one in *.
    replace (S f) with (S (List.length x + (f - List.length x))) by lia.
    rewrite split_aux_piece_last by exact Hx. reflexivity.
  - rewrite join_cons2 in Hf |- *. rewrite !app_length in Hf. cbn [List.length] in Hf.
    replace (S f) with (S (List.length x + S (f - List.length x - 1))) by lia.
    rewrite split_aux_piece_more by exact Hx. cbn [rev app]. f_equal.
    apply IH; [discriminate | assumption | lia].
Qed.

Lemma split_join_gen : forall c sep' l, l <> [] -> Forall (free_of c) l ->
  split (c :: sep') (join (c :: sep') l) = l.
Proof. intros c sep' l Hne HF. unfold split. apply split_aux_join; auto. Qed.

Theorem split_join_char : forall c l, l <> [] -> Forall (free_of c) l -> split [c] (join [c] l) = l.
Proof. intros c l Hne HF. apply split_join_gen; assumption. Qed.

(* ", " separator: pieces without a comma *)
Theorem split_join_comma_space : forall l, l <> [] -> Forall (free_of (ch ",")) l ->
  split (lit ", ") (join (lit ", ") l) = l.
Proof. intros l Hne HF. exact (split_join_gen (ch ",") [ch " "] l Hne HF). Qed.

Lemma plain_free : forall s d, plain s -> special d = true -> free_of d s.
Proof. intros s d [_ Hs] Hd. apply nospecial_free; assumption. Qed.

(* a "|" list of at least two plain atoms is read as the list of the typed atoms *)
Theorem format_value_list : forall atoms, (2 <= List.length atoms)%nat -> Forall plain atoms ->
  format_value (join (lit "|") atoms) = VList (map format_atom atoms).
Proof.
  intros atoms Hlen HF.
  assert (S1 : split (lit "|") (join (lit "|") atoms) = atoms).
  { apply (split_join_char (ch "|") atoms).
    - destruct atoms; [cbn in Hlen; lia | discriminate].
    - eapply Forall_impl; [|exact HF]. intros a Ha. apply plain_free; [exact Ha | reflexivity]. }
  unfold format_value. rewrite S1.
  assert (M : mem (ch "|") (join (lit "|") atoms) = true).
  { destruct atoms as [|x [|y l]]; [cbn in Hlen; lia | cbn in Hlen; lia |].
    rewrite join_cons2. apply mem_In. apply in_or_app. right. left. reflexivity. }
  rewrite M. reflexivity.
Qed.

Lemma format_value_plain : forall v, plain v -> format_value v = format_atom v.
Proof.
  intros v [_ Hv]. unfold format_value. rewrite (nospecial_free v (ch "|") Hv eq_refl). reflexivity.
Qed.

(* one keyword argument, with ":" or "=" *)
Theorem parse_keyword_argument : forall (eq : bool) k v, plain k -> plain v ->
  parse_arg (k ++ [if eq then ch "=" else ch ":"] ++ v) = Some (Kw k (format_atom v)).
Proof.
  intros eq k v Hk Hv.
  pose proof (format_value_plain v Hv) as Fv.
  destruct Hk as [Hk1 Hk2]. destruct Hv as [Hv1 Hv2].
  unfold parse_arg. destruct eq.
  - assert (M1 : mem (ch ":") (k ++ [ch "="] ++ v) = false).
    { rewrite !mem_app, (nospecial_free k (ch ":") Hk2 eq_refl), (nospecial_free v (ch ":") Hv2 eq_refl). reflexivity. }
    assert (M2 : mem (ch "=") (k ++ [ch "="] ++ v) = true).
    { apply mem_In. apply in_or_app. right. left. reflexivity. }
    assert (S1 : split (lit "=") (k ++ [ch "="] ++ v) = [k; v]).
    { apply (split_join_char (ch "=") [k; v]); [discriminate|].
      repeat constructor; apply nospecial_free; auto. }
    rewrite M1, M2, S1, Fv. reflexivity.
  - assert (M1 : mem (ch ":") (k ++ [ch ":"] ++ v) = true).
    { apply mem_In. apply in_or_app. right. left. reflexivity. }
    assert (S1 : split (lit ":") (k ++ [ch ":"] ++ v) = [k; v]).
    { apply (split_join_char (ch ":") [k; v]); [discriminate|].
      repeat constructor; apply nospecial_free; auto. }
    rewrite M1, S1, Fv. reflexivity.
Qed.

Theorem parse_positional_argument : forall v, plain v -> parse_arg v = Some (Pos (format_atom v)).
Proof.
  intros v [_ Hv]. unfold parse_arg.
  rewrite (nospecial_free v (ch ":") Hv eq_refl), (nospecial_free v (ch "=") Hv eq_refl). reflexivity.
Qed.

(* a whole label: role, name, arguments rendered as plain texts [texts] (each a plain atom, or
   key:atom / key=atom), separated by ", " *)
Definition rendered_arg (a : str) (p : parg) : Prop :=
  (exists v, plain v /\ a = v /\ p = Pos (format_atom v)) \/
  (exists eq k v, plain k /\ plain v /\ a = k ++ [if eq : bool then ch "=" else ch ":"] ++ v /\ p = Kw k (format_atom v)).

(* ------------------------------------------------------------------ *)
(* helpers for parse_label                                             *)
(* ------------------------------------------------------------------ *)
Lemma rendered_parse : forall a p, rendered_arg a p -> parse_arg a = Some p.
Proof.
  intros a p [[v [Hv [-> ->]]] | [eq [k [v [Hk [Hv [-> ->]]]]]]].
  - apply parse_positional_argument; assumption.
  - apply parse_keyword_argument; assumption.
Qed.

Lemma rendered_nonempty : forall a p, rendered_arg a p -> a <> [].
Proof.
  intros a p [[v [Hv [-> _]]] | [eq [k [v [Hk [Hv [-> _]]]]]]].
  - exact (proj1 Hv).
  - intro A. apply app_eq_nil in A. destruct A as [A _]. exact (proj1 Hk A).
Qed.

Lemma rendered_free : forall a p c, rendered_arg a p -> special c = true ->
  Ascii.eqb c (ch ":") = false -> Ascii.eqb c (ch "=") = false -> mem c a = false.
Proof.
  intros a p c [[v [Hv [-> _]]] | [eq [k [v [Hk [Hv [-> _]]]]]]] Hc H1 H2.
  - apply nospecial_free; [exact (proj2 Hv) | exact Hc].
  - rewrite !mem_app, (nospecial_free k c (proj2 Hk) Hc), (nospecial_free v c (proj2 Hv) Hc).
    cbn [mem]. destruct eq; [rewrite H2 | rewrite H1]; reflexivity.
Qed.

Lemma Forall2_left : forall {A B} (R : A -> B -> Prop) (P : A -> Prop) l l',
  Forall2 R l l' -> (forall a b, R a b -> P a) -> Forall P l.
Proof.
  intros A B R P l l' HF HP. induction HF as [|a b l l' Hab HF IH]; constructor; eauto.
Qed.

Lemma mem_join : forall c sep l, mem c sep = false -> Forall (free_of c) l -> mem c (join sep l) = false.
Proof.
  intros c sep l Hs. induction l as [|x l IH]; intros HF; [reflexivity|].
  inversion HF as [|? ? Hx HF']; subst. destruct l as [|y l]; [exact Hx|].
  rewrite join_cons2, !mem_app, Hx, Hs, (IH HF'). reflexivity.
Qed.

Lemma parse_args_cons : forall a l, a <> [] -> parse_args (a :: l) =
  match parse_arg a, parse_args l with Some p, Some r => Some (p :: r) | _, _ => None end.
Proof. intros a l H. destruct a; [contradiction | reflexivity]. Qed.

Lemma parse_args_rendered : forall texts args, Forall2 rendered_arg texts args ->
  parse_args texts = Some args.
Proof.
  intros texts args HF. induction HF as [|a p l l' Hap HF IH]; [reflexivity|].
  rewrite parse_args_cons by (eapply rendered_nonempty; exact Hap).
  rewrite (rendered_parse a p Hap), IH. reflexivity.
Qed.

(* strip *)
Lemma strip_id : forall s c t u d, s = c :: t -> s = u ++ [d] ->
  is_space c = false -> is_space d = false -> strip s = s.
Proof.
  intros s c t u d E1 E2 Hc Hd. unfold strip.
  assert (L1 : lstrip s = s) by (rewrite E1; cbn [lstrip]; rewrite Hc; reflexivity).
  rewrite L1.
  assert (R : rev s = d :: rev u) by (rewrite E2, rev_app_distr; reflexivity).
  assert (L2 : lstrip (rev s) = rev s) by (rewrite R; cbn [lstrip]; rewrite Hd; reflexivity).
  rewrite L2. apply rev_involutive.
Qed.

Lemma ends_with_last : forall c u d, ends_with [c] (u ++ [d]) = Ascii.eqb c d.
Proof.
  intros c u d. unfold ends_with. rewrite rev_app_distr. cbn [rev app starts_with].
  apply andb_true_r.
Qed.

(* last_index *)
Lemma last_index_none : forall c s i, mem c s = false -> last_index c s i = None.
Proof.
  intros c s. induction s as [|d s IH]; intros i H; [reflexivity|].
  apply mem_cons_false in H. destruct H as [H1 H2].
  cbn [last_index]. rewrite (IH (S i) H2), H1. reflexivity.
Qed.

Lemma last_index_last : forall c s i, mem c s = false ->
  last_index c (s ++ [c]) i = Some (i + List.length s)%nat.
Proof.
  intros c s. induction s as [|d s IH]; intros i H.
  - cbn [app last_index List.length]. rewrite Ascii.eqb_refl. f_equal. lia.
  - apply mem_cons_false in H. destruct H as [H1 H2].
    cbn [app last_index List.length]. rewrite (IH (S i) H2). f_equal. lia.
Qed.

(* name_split *)
Definition cand (rest : str) (j : nat) : option (str * str) :=
  match nth_error rest j with
  | Some c => if (1 <=? j)%nat && Ascii.eqb c (ch "(") && forallb (fun x => negb (is_space x)) (firstn j rest)
              then match last_index (ch ")") (skipn (S j) rest) 0 with
                   | Some k => Some (firstn j rest, firstn (S k) (skipn (S j) rest))
                   | None => None
                   end
              else None
  | None => None
  end.

Lemma name_split_S : forall f j rest, name_split (S f) j rest =
  match name_split f (S j) rest with Some r => Some r | None => cand rest j end.
Proof. reflexivity. Qed.

Lemma name_split_none : forall rest fuel j0, (forall j, (j0 <= j)%nat -> cand rest j = None) ->
  name_split fuel j0 rest = None.
Proof.
  intros rest fuel. induction fuel as [|f IH]; intros j0 H; [reflexivity|].
  rewrite name_split_S, IH by (intros j Hj; apply H; lia). apply H. lia.
Qed.

Lemma name_split_unique : forall rest n r fuel j0,
  (forall j, j <> n -> cand rest j = None) -> cand rest n = Some r ->
  (j0 <= n < j0 + fuel)%nat -> name_split fuel j0 rest = Some r.
Proof.
  intros rest n r fuel. induction fuel as [|f IH]; intros j0 Hnone Hn Hr; [lia|].
  rewrite name_split_S. destruct (Nat.eq_dec j0 n) as [->|Hne].
  - rewrite name_split_none by (intros j Hj; apply Hnone; lia). exact Hn.
  - rewrite (IH (S j0)) by (auto; lia). reflexivity.
Qed.

Lemma nth_error_unique : forall c a b j, mem c a = false -> mem c b = false ->
  nth_error (a ++ c :: b) j = Some c -> j = List.length a.
Proof.
  intros c a b. induction a as [|x a IH]; intros j Ha Hb E.
  - destruct j as [|j]; [reflexivity|]. cbn [app nth_error] in E.
    apply nth_error_In in E. apply mem_In in E. congruence.
  - apply mem_cons_false in Ha. destruct Ha as [Hx Ha]. destruct j as [|j].
    + cbn [app nth_error] in E. injection E as E. subst x.
      rewrite Ascii.eqb_refl in Hx. discriminate.
    + cbn [app nth_error] in E. cbn [List.length]. f_equal. apply IH; assumption.
Qed.

Lemma name_split_shape : forall name inner, plain name ->
  mem (ch "(") inner = false -> mem (ch ")") inner = false ->
  name_split (S (List.length (name ++ ch "(" :: inner ++ [ch ")"]))) 0 (name ++ ch "(" :: inner ++ [ch ")"])
  = Some (name, inner ++ [ch ")"]).
Proof.
  intros name inner [Hne Hname] Ho Hc.
  apply name_split_unique with (n := List.length name).
  - intros j Hj. unfold cand.
    destruct (nth_error (name ++ ch "(" :: inner ++ [ch ")"]) j) as [c|] eqn:E; [|reflexivity].
    destruct (Ascii.eqb_spec c (ch "(")) as [->|Hd].
    + exfalso. apply Hj. eapply nth_error_unique; [ | | exact E].
      * apply nospecial_free; [exact Hname | reflexivity].
      * rewrite mem_app, Ho. reflexivity.
    + rewrite andb_false_r. reflexivity.
  - unfold cand.
    rewrite nth_error_app2 by lia. rewrite Nat.sub_diag. cbn [nth_error].
    rewrite firstn_app_exact.
    assert (L : (1 <=? List.length name)%nat = true).
    { apply Nat.leb_le. destruct name; [contradiction | cbn [List.length]; lia]. }
    rewrite L, Ascii.eqb_refl, (nospecial_nospace name Hname). cbn [andb].
    assert (Sk : skipn (S (List.length name)) (name ++ ch "(" :: inner ++ [ch ")"]) = inner ++ [ch ")"]).
    { replace (S (List.length name)) with (List.length (name ++ [ch "("])) by (rewrite app_length; cbn [List.length]; lia).
      replace (name ++ ch "(" :: inner ++ [ch ")"]) with ((name ++ [ch "("]) ++ inner ++ [ch ")"])
        by (rewrite <- app_assoc; reflexivity).
      apply skipn_app_exact. }
    rewrite Sk. rewrite (last_index_last (ch ")") inner 0 Hc). cbn [Nat.add].
    rewrite firstn_all2 by (rewrite app_length; cbn [List.length]; lia). reflexivity.
  - rewrite app_length. cbn [List.length]. lia.
Qed.

(* parse_label = strip / complete, then parse_core *)
Definition parse_core (l : str) : option (bool * str * list parg) :=
  match l with
  | r :: rest =>
      if Ascii.eqb r (ch "@") || Ascii.eqb r (ch "~") then
        match name_split (S (List.length rest)) 0 rest with
        | Some (name, inner_close) =>
            let inner := removelast inner_close in
            match parse_args (split (lit ", ") inner) with
            | Some args => Some (Ascii.eqb r (ch "@"), name, args)
            | None => None
            end
        | None => None
        end
      else None
  | [] => None
  end.

Lemma parse_label_core : forall label, parse_label label =
  parse_core (if ends_with (lit ")") (strip label) then strip label else strip label ++ lit "()").
Proof. reflexivity. Qed.

Definition role (constraint : bool) : ascii := if constraint then ch "@" else ch "~".

Lemma parse_core_shape : forall (constraint : bool) name inner, plain name ->
  mem (ch "(") inner = false -> mem (ch ")") inner = false ->
  parse_core (role constraint :: name ++ ch "(" :: inner ++ [ch ")"]) =
  match parse_args (split (lit ", ") inner) with
  | Some args => Some (constraint, name, args)
  | None => None
  end.
Proof.
  intros constraint name inner Hname Ho Hc.
  assert (R1 : Ascii.eqb (role constraint) (ch "@") || Ascii.eqb (role constraint) (ch "~") = true)
    by (destruct constraint; reflexivity).
  assert (R2 : Ascii.eqb (role constraint) (ch "@") = constraint) by (destruct constraint; reflexivity).
  unfold parse_core. rewrite R1, (name_split_shape name inner Hname Ho Hc).
  cbv zeta. rewrite removelast_last, R2. reflexivity.
Qed.

Lemma role_nospace : forall constraint, is_space (role constraint) = false.
Proof. destruct constraint; reflexivity. Qed.

Lemma label_strip : forall (constraint : bool) name inner,
  let L := role constraint :: name ++ ch "(" :: inner ++ [ch ")"] in
  strip L = L /\ ends_with (lit ")") L = true.
Proof.
  intros constraint name inner L.
  assert (E : L = (role constraint :: name ++ ch "(" :: inner) ++ [ch ")"]).
  { unfold L. cbn [app]. rewrite <- app_assoc. reflexivity. }
  split.
  - eapply strip_id; [reflexivity | exact E | apply role_nospace | reflexivity].
  - rewrite E. change (lit ")") with [ch ")"]. rewrite ends_with_last. reflexivity.
Qed.

Theorem parse_label_roundtrip : forall (constraint : bool) name texts args,
  plain name -> Forall2 rendered_arg texts args ->
  parse_label ([if constraint then ch "@" else ch "~"] ++ name ++ lit "(" ++ join (lit ", ") texts ++ lit ")")
  = Some (constraint, name, args).
Proof.
  intros constraint name texts args Hname HF.
  change ([if constraint then ch "@" else ch "~"] ++ name ++ lit "(" ++ join (lit ", ") texts ++ lit ")")
    with (role constraint :: name ++ ch "(" :: join (lit ", ") texts ++ [ch ")"]).
  destruct (label_strip constraint name (join (lit ", ") texts)) as [St En].
  rewrite parse_label_core, St, En.
  assert (Fo : Forall (free_of (ch "(")) texts).
  { eapply Forall2_left; [exact HF|]. intros a b Hab. eapply rendered_free; [exact Hab | | | ]; reflexivity. }
  assert (Fc : Forall (free_of (ch ")")) texts).
  { eapply Forall2_left; [exact HF|]. intros a b Hab. eapply rendered_free; [exact Hab | | | ]; reflexivity. }
  assert (Fm : Forall (free_of (ch ",")) texts).
  { eapply Forall2_left; [exact HF|]. intros a b Hab. eapply rendered_free; [exact Hab | | | ]; reflexivity. }
  rewrite parse_core_shape; [ | exact Hname | apply mem_join; [reflexivity | exact Fo]
                              | apply mem_join; [reflexivity | exact Fc] ].
  destruct texts as [|t texts].
  - inversion HF; subst. reflexivity.
  - rewrite (split_join_comma_space (t :: texts) ltac:(discriminate) Fm).
    rewrite (parse_args_rendered _ _ HF). reflexivity.
Qed.

(* a label without parentheses means no argument *)
Theorem parse_label_no_parentheses : forall (constraint : bool) name, plain name ->
  parse_label ([if constraint then ch "@" else ch "~"] ++ name) = Some (constraint, name, []).
Proof.
  intros constraint name Hname.
  change ([if constraint then ch "@" else ch "~"] ++ name) with (role constraint :: name).
  destruct Hname as [Hne Hns].
  destruct (exists_last Hne) as [u [d E]].
  assert (Hd : special d = false).
  { rewrite E in Hns. apply nospecial_app in Hns. destruct Hns as [_ Hd].
    apply nospecial_cons in Hd. exact (proj1 Hd). }
  assert (E' : role constraint :: name = (role constraint :: u) ++ [d]) by (rewrite E; reflexivity).
  assert (St : strip (role constraint :: name) = role constraint :: name).
  { eapply strip_id; [reflexivity | exact E' | apply role_nospace | apply special_false_space; exact Hd]. }
  assert (En : ends_with (lit ")") (role constraint :: name) = false).
  { rewrite E'. change (lit ")") with [ch ")"]. rewrite ends_with_last.
    destruct (Ascii.eqb_spec (ch ")") d) as [<-|]; [discriminate Hd | reflexivity]. }
  rewrite parse_label_core, St, En.
  change ((role constraint :: name) ++ lit "()") with (role constraint :: name ++ ch "(" :: [] ++ [ch ")"]).
  rewrite parse_core_shape; [reflexivity | split; assumption | reflexivity | reflexivity].
Qed.

(* several specifications joined with "&" (blanks around the labels are ignored) *)
Theorem parse_labels_joined : forall labels,
  labels <> [] -> Forall (free_of (ch "&")) labels ->
  parse_labels (join (lit "&") labels) = map parse_label labels.
Proof.
  intros labels Hne HF. unfold parse_labels.
  change (lit "&") with [ch "&"]. rewrite split_join_char by assumption. reflexivity.
Qed.

Lemma lstrip_app_space : forall l c, is_space c = true ->
  lstrip (l ++ [c]) = match lstrip l with [] => [] | _ => lstrip l ++ [c] end.
Proof.
  induction l as [|a l IH]; intros c Hc; cbn [app lstrip].
  - rewrite Hc. reflexivity.
  - destruct (is_space a) eqn:E; [apply IH; assumption | reflexivity].
Qed.

Lemma strip_blanks : forall l, strip (lit " " ++ l ++ lit " ") = strip l.
Proof.
  intros l. change (lit " " ++ l ++ lit " ") with (ch " " :: l ++ [ch " "]). unfold strip.
  change (lstrip (ch " " :: l ++ [ch " "])) with (lstrip (l ++ [ch " "])).
  rewrite lstrip_app_space by reflexivity.
  destruct (lstrip l) as [|a s] eqn:E; [reflexivity|].
  rewrite rev_app_distr.
  change (rev [ch " "] ++ rev (a :: s)) with (ch " " :: rev (a :: s)).
  change (lstrip (ch " " :: rev (a :: s))) with (lstrip (rev (a :: s))).
  reflexivity.
Qed.

Theorem parse_label_ignores_surrounding_blanks : forall l, parse_label (lit " " ++ l ++ lit " ") = parse_label l.
Proof.
  intros l. rewrite !parse_label_core, strip_blanks. reflexivity.
Qed.
