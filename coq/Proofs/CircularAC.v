(* AvoidChanges in circular problems (after fix F23): every one of the three shifted copies, evaluated
   on the three-copy view, has the score of the specification on the sequence itself; hence the circular
   evaluation passes iff the edit allowance is respected on the sequence. *)
From Coq Require Import ZArith QArith Bool List Lia Ascii String.
From DC Require Import Model.Base Model.Loc Model.Bio Model.Pattern Model.MSpace Model.Specs Model.Solver Model.Circular
                       Proofs.SpecsDefs Proofs.CircularProofs.
Import ListNotations.
Open Scope Z_scope.

Definition indices_inside (idx : option (list Z)) (n : Z) : Prop :=
  match idx with Some is_ => forall i, In i is_ -> 0 <= i < n | None => True end.


(* ---------------------------------------------------------------- auxiliary lemmas *)
Lemma ac_pyslice_slice {X} (l : list X) a b : 0 <= a -> a <= b -> b <= zlen l ->
  pyslice l a b = slice l a b.
Proof.
  intros Ha Hab Hb. unfold pyslice, norm_idx.
  destruct (Z.ltb_spec a 0); [lia|]. destruct (Z.ltb_spec b 0); [lia|].
  rewrite !Z.min_r by lia. reflexivity.
Qed.

Lemma ac_slice_app_right {X} (p r : list X) a b : 0 <= a ->
  slice (p ++ r) (a + zlen p) (b + zlen p) = slice r a b.
Proof.
  intros Ha. unfold slice.
  replace (b + zlen p - (a + zlen p)) with (b - a) by lia.
  f_equal. rewrite skipn_app.
  unfold zlen. rewrite Z2Nat.inj_add by lia. rewrite Nat2Z.id.
  rewrite skipn_all2 by lia. simpl.
  f_equal. lia.
Qed.

Lemma ac_slice_triple (s : dna) a b k : 0 <= a -> a <= b -> b <= zlen s ->
  (k = 0 \/ k = 1 \/ k = 2) ->
  slice (triple s) (a + k * zlen s) (b + k * zlen s) = slice s a b.
Proof.
  intros Ha Hab Hb [-> | [-> | ->]]; unfold triple.
  - rewrite !Z.mul_0_l, !Z.add_0_r. apply slice_app_left; assumption.
  - rewrite !Z.mul_1_l. rewrite ac_slice_app_right by assumption. apply slice_app_left; assumption.
  - rewrite app_assoc.
    replace (2 * zlen s) with (zlen (s ++ s)) by (rewrite c_zlen_app; lia).
    apply ac_slice_app_right; assumption.
Qed.

Lemma ac_extract_shift (l : loc) (s : dna) k :
  0 <= lstart l -> lstart l <= lend l -> lend l <= zlen s -> (k = 0 \/ k = 1 \/ k = 2) ->
  extract (loc_add l (k * zlen s)) (triple s) = extract l s.
Proof.
  intros H0 H1 H2 Hk. unfold extract. simpl.
  assert (Hk' : 0 <= k <= 2) by lia.
  rewrite (ac_pyslice_slice (triple s)) by (rewrite ?zlen_triple; nia).
  rewrite (ac_pyslice_slice s) by assumption.
  rewrite ac_slice_triple by assumption. reflexivity.
Qed.

Lemma ac_nth_error_triple (s : dna) i k : 0 <= i < zlen s -> (k = 0 \/ k = 1 \/ k = 2) ->
  nth_error (triple s) (Z.to_nat (i + k * zlen s)) = nth_error s (Z.to_nat i).
Proof.
  intros Hi Hk. unfold triple. unfold zlen in *.
  destruct Hk as [-> | [-> | ->]].
  - rewrite Z.mul_0_l, Z.add_0_r. apply nth_error_app1. lia.
  - rewrite Z.mul_1_l. rewrite nth_error_app2 by lia. rewrite nth_error_app1 by lia. f_equal. lia.
  - rewrite nth_error_app2 by lia. rewrite nth_error_app2 by lia. f_equal. lia.
Qed.

Lemma ac_take_indices_shift (s : dna) k : (k = 0 \/ k = 1 \/ k = 2) -> forall is_,
  (forall i, In i is_ -> 0 <= i < zlen s) ->
  take_indices (triple s) (map (fun i => i + k * zlen s) is_) = take_indices s is_.
Proof.
  intros Hk. unfold take_indices. induction is_ as [|i r IH]; intros Hin; [reflexivity|].
  simpl. rewrite IH by (intros j Hj; apply Hin; right; exact Hj).
  assert (Hi : 0 <= i < zlen s) by (apply Hin; left; reflexivity).
  assert (Hk' : 0 <= k <= 2) by lia.
  destruct (Z.ltb_spec (i + k * zlen s) 0); [nia|]. destruct (Z.ltb_spec i 0); [lia|].
  rewrite ac_nth_error_triple by assumption. reflexivity.
Qed.

Lemma ac_extract_subsequence_shift l idx s k :
  0 <= lstart l -> lstart l <= lend l -> lend l <= zlen s -> indices_inside idx (zlen s) ->
  (k = 0 \/ k = 1 \/ k = 2) ->
  extract_subsequence (loc_add l (k * zlen s)) (option_map (map (fun i => i + k * zlen s)) idx) (triple s)
  = extract_subsequence l idx s.
Proof.
  intros H0 H1 H2 Hin Hk. destruct idx as [is_|]; simpl.
  - apply ac_take_indices_shift; assumption.
  - f_equal. apply ac_extract_shift; assumption.
Qed.

Lemma ac_zlen_absolute_positions l idx rel : zlen (absolute_positions l idx rel) = zlen rel.
Proof.
  unfold absolute_positions, zlen. destruct idx; [|destruct (lstrand l =? -1)]; rewrite map_length; reflexivity.
Qed.

Lemma ac_score_form l idx tg me s :
  option_map score (eval_avoid_changes l idx tg me s)
  = match extract_subsequence l idx s with
    | None => None
    | Some sub => if negb (zlen sub =? zlen tg) then None
                  else Some (zq (me - zlen (indices_where (fun b : bool => b) (diff_array sub tg) 0)))
    end.
Proof.
  unfold eval_avoid_changes. destruct (extract_subsequence l idx s) as [sub|]; [|reflexivity].
  destruct (negb (zlen sub =? zlen tg)); [reflexivity|]. simpl.
  rewrite ac_zlen_absolute_positions. reflexivity.
Qed.

Lemma ac_recenter_passes L (oe : option evaluation) :
  match option_map (recenter L) oe with Some e => passes e | None => false end
  = match option_map score oe with Some q => Qle_bool 0 q | None => false end.
Proof. destruct oe; reflexivity. Qed.

Lemma ac_length_indices_where {X} (f : X -> bool) : forall l i,
  List.length (indices_where f l i) = List.length (filter f l).
Proof.
  induction l as [|x l IH]; intros i; [reflexivity|]. simpl.
  destruct (f x); simpl; rewrite IH; reflexivity.
Qed.

Lemma ac_length_diff_filter : forall a b : dna,
  List.length (filter (fun b : bool => b) (diff_array a b))
  = List.length (filter (fun p => negb (nuc_eqb (fst p) (snd p))) (combine a b)).
Proof.
  induction a as [|x a IH]; intros [|y b]; try reflexivity. simpl.
  destruct (negb (nuc_eqb x y)); simpl; rewrite IH; reflexivity.
Qed.

(* the score of a copy shifted by k sequence lengths, on the tripled sequence, is the score on the sequence *)
Lemma shifted_copy_score : forall l idx tg me s k,
  0 <= lstart l -> lstart l <= lend l -> lend l <= zlen s -> indices_inside idx (zlen s) ->
  (k = 0 \/ k = 1 \/ k = 2) ->
  option_map score (Specs.evaluate (shift_avoid_changes l idx tg me (k * zlen s)) (triple s))
  = option_map score (eval_avoid_changes l idx tg me s).
Proof.
  intros l idx tg me s k H0 H1 H2 Hin Hk.
  unfold shift_avoid_changes. cbn [Specs.evaluate].
  rewrite !ac_score_form. rewrite ac_extract_subsequence_shift by assumption. reflexivity.
Qed.

Theorem avoid_changes_circular_iff_linear : forall l idx tg me s,
  0 <= lstart l -> lstart l <= lend l -> lend l <= zlen s -> indices_inside idx (zlen s) ->
  circular_all_pass [SAvoidChanges l idx tg me] s
  = match eval_avoid_changes l idx tg me s with Some e => passes e | None => false end.
Proof.
  intros l idx tg me s H0 H1 H2 Hin.
  unfold circular_all_pass, circular_evaluations.
  cbn [flat_map circularized map app forallb].
  rewrite !ac_recenter_passes.
  pose proof (shifted_copy_score l idx tg me s 0 H0 H1 H2 Hin (or_introl eq_refl)) as E0.
  pose proof (shifted_copy_score l idx tg me s 1 H0 H1 H2 Hin (or_intror (or_introl eq_refl))) as E1.
  pose proof (shifted_copy_score l idx tg me s 2 H0 H1 H2 Hin (or_intror (or_intror eq_refl))) as E2.
  rewrite Z.mul_0_l in E0. rewrite Z.mul_1_l in E1.
  rewrite E0, E1, E2.
  destruct (eval_avoid_changes l idx tg me s) as [e|]; [|reflexivity].
  simpl. unfold passes. destruct (Qle_bool 0 (score e)); reflexivity.
Qed.

(* what the score counts: the allowance minus the number of positions of the protected region that differ
   from the target (location form, either strand handled by [extract]) *)
Theorem avoid_changes_score_counts_edits : forall l tg me s e,
  eval_avoid_changes l None tg me s = Some e ->
  score e = zq (me - zlen (filter (fun p => negb (nuc_eqb (fst p) (snd p))) (combine (extract l s) tg))).
Proof.
  intros l tg me s e He.
  pose proof (ac_score_form l None tg me s) as Hs. rewrite He in Hs. simpl in Hs.
  destruct (negb (zlen (extract l s) =? zlen tg)); [discriminate|].
  injection Hs as Hs. rewrite Hs. unfold zlen.
  rewrite ac_length_indices_where, ac_length_diff_filter. reflexivity.
Qed.

