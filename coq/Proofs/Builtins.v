(* Bridge: the abstract solver theorems (C02 / C03) instantiated with the modelled built-in
   specification classes (Model/Specs.v).  The hypotheses [faithful] (C03) and [sound] (C02) that the
   solver theorems ask of arbitrary user code are PROVED here for the built-in classes from the
   C09 / C08 laws, so that "optimize() never lowers the total / keeps every constraint" becomes a
   theorem about problems made of built-in specifications, with no assumption left about them. *)
From Coq Require Import ZArith QArith Bool List Lia Lqa.
From DC Require Import Model.Base Model.Loc Model.Bio Model.Pattern Model.MSpace Model.Specs Model.Solver
                       Proofs.MSpaceDefs Proofs.SpecsDefs Proofs.SpecsLocalA Proofs.SpecsLocalB Proofs.SpecsLocalC Proofs.Hairpins Proofs.Uniquify Proofs.HarmonizePass
                       Proofs.SolverA Proofs.SolverB Proofs.SolverC Proofs.SolverD Proofs.SpecsEval.
Import ListNotations.
Open Scope Z_scope.

(* ---- the instance: built-in classes as the solver's specification type ---- *)
(* evaluate as the solver sees it (score, locations); an ill-formed specification that cannot be
   evaluated (Python exception) is given score 0 / no locations - excluded below by [evaluable] *)
Definition b_ev (sp : spec) (s : dna) : Q * option (list loc) :=
  match Specs.evaluate sp s with Some e => (score e, locs e) | None => (0%Q, None) end.
(* specifications are already initialised (explicit locations and references): re-initialisation on
   a local problem is the identity *)
Definition b_reinit (_ : bool) (sp : spec) (_ : dna) : spec := sp.
(* the model of the classes carries no boost: every boost is 1 *)
Definition b_boost (_ : spec) : Q := 1%Q.

Definition evaluable (sp : spec) (n : Z) : Prop := forall s, zlen s = n -> Specs.evaluate sp s <> None.

(* side conditions of the C09 / C08 theorems (copied from Properties/C09.v, C08.v) *)
Definition b09_side (sp : spec) : Prop :=
  match sp with
  | SEnforceChanges l idx _ mn am is100 =>
      is100 = true -> mn = None /\ am = Some (zq (match idx with Some ix => zlen ix | None => loc_len l end))
  | SMaximizeCAI lf lb _ => forall c f b, qassoc c lf = Some f -> qassoc c lb = Some b -> (f <= b)%Q
  | _ => True
  end.
Definition b09_class (sp : spec) : bool :=
  match sp with SUniquify _ _ _ _ _ => false | _ => true end.
Definition b08_side (sp : spec) : Prop :=
  match sp with
  | SEnforceChanges _ _ _ _ _ is100 => is100 = false
  | SMaximizeCAI lf lb _ => forall c f b, qassoc c lf = Some f -> qassoc c lb = Some b -> (f <= b)%Q
  | _ => True
  end.
Definition b08_class (sp : spec) : bool :=
  match sp with SUniquify _ _ _ _ (Some _) => false | _ => true end.

(* the localized copy of a well-formed built-in specification is again evaluable on sequences of the
   same length (needed because the solver evaluates the localized copy) *)


(* the two dispatch theorems (C09 / C08), re-proved here from the class lemmas *)
Lemma b09_law : forall sp w s s',
  b09_class sp = true -> wf_spec sp (zlen s) -> b09_side sp ->
  window_in w (zlen s) -> agree_outside w s s' ->
  local_delta_law sp w s s'.
Proof.
  intros sp w s s' Hc Hwf Hside Hw Ha.
  destruct sp; try discriminate Hc.
  - apply avoid_pattern_delta; assumption.
  - apply pattern_occ_delta; assumption.
  - apply gc_delta; assumption.
  - apply translation_laws; assumption.
  - apply stop_codons_laws; assumption.
  - apply avoid_changes_laws; assumption.
  - apply enforce_changes_laws; assumption.
  - apply enforce_sequence_laws; assumption.
  - apply enforce_choice_laws.
  - apply rare_codons_laws; assumption.
  - apply maximize_cai_laws; assumption.
  - apply harmonize_laws; assumption.
  - apply hairpins_delta; assumption.
  - apply terminal_gc_laws; assumption.
  - apply length_laws; assumption.
Qed.

Lemma b08_law : forall sp w s s',
  b08_class sp = true -> wf_spec sp (zlen s) -> b08_side sp ->
  window_in w (zlen s) -> agree_outside w s s' ->
  local_pass_law sp w s s'.
Proof.
  intros sp w s s' Hc Hwf Hside Hw Ha.
  destruct sp; try discriminate Hc.
  - apply avoid_pattern_pass; assumption.
  - apply pattern_occ_delta; assumption.
  - apply gc_pass; assumption.
  - apply translation_laws; assumption.
  - apply stop_codons_laws; assumption.
  - apply avoid_changes_laws; assumption.
  - apply enforce_changes_pass; assumption.
  - apply enforce_sequence_laws; assumption.
  - apply enforce_choice_laws.
  - apply rare_codons_laws; assumption.
  - apply maximize_cai_laws; assumption.
  - apply harmonize_pass; assumption.
  - match goal with d : option kdata |- _ => destruct d; [discriminate|] end. apply uniquify_pass; assumption.
  - apply hairpins_pass; assumption.
  - apply terminal_gc_laws; assumption.
  - apply length_laws; assumption.
Qed.

(* the solver's zlen-based agreement is the List.length-based one of the specification lemmas *)
Lemma agree_out_outside : forall a b s s',
  SolverC.agree_out a b s s' -> agree_outside (mkLoc a b 0) s s'.
Proof.
  intros a b s s' [Hl Hn]. split.
  - unfold zlen in Hl. lia.
  - cbn [lstart lend]. exact Hn.
Qed.

Lemma b_ev_some : forall sp s e, Specs.evaluate sp s = Some e -> fst (b_ev sp s) = score e.
Proof. intros sp s e H. unfold b_ev. rewrite H. reflexivity. Qed.

(* ---- C09 => faithful ---- *)
Theorem builtin_faithful : forall (space : mspace) (n : Z) (ob : spec),
  b09_class ob = true -> wf_spec ob n -> b09_side ob -> evaluable ob n ->
  faithful spec b_ev localized b_reinit b_boost space n ob.
Proof.
  intros space n ob Hc Hwf Hside Hev a b s s' Ha Hab Hb [Hlen _] [Hlen' _] Hag.
  subst n.
  pose proof (b09_law ob (mkLoc a b 0) s s' Hc Hwf Hside) as law.
  assert (Hw : window_in (mkLoc a b 0) (zlen s)) by (unfold window_in; cbn [lstart lend]; lia).
  specialize (law Hw (agree_out_outside _ _ _ _ Hag)).
  unfold local_delta_law, delta in law.
  destruct (Specs.evaluate ob s) as [e|] eqn:E; [|exfalso; exact (Hev s eq_refl E)].
  destruct (Specs.evaluate ob s') as [e'|] eqn:E'; [|exfalso; exact (Hev s' Hlen' E')].
  rewrite (b_ev_some _ _ _ E), (b_ev_some _ _ _ E').
  destruct (localized ob (mkLoc a b 0) true s) as [|ob'|]; [| |exact I].
  - lra.
  - unfold b_reinit, b_boost. split; [reflexivity|].
    destruct (Specs.evaluate ob' s) as [l|] eqn:L; [|contradiction].
    destruct (Specs.evaluate ob' s') as [l'|] eqn:L'; [|contradiction].
    rewrite (b_ev_some _ _ _ L), (b_ev_some _ _ _ L'). lra.
Qed.

(* ---- C08 => sound, for constraints not flagged "enforced by nucleotide restrictions" (for the
   flagged ones soundness is membership in the mutation space: C04) ---- *)
Theorem builtin_sound : forall (enforced : spec -> bool) (space : mspace) (n : Z) (c : spec),
  b08_class c = true -> wf_spec c n -> b08_side c -> evaluable c n ->
  (forall w s c', localized c w true s = LSome c' -> enforced c' = false) ->
  sound spec b_ev localized b_reinit enforced space n c.
Proof.
  intros enforced space n c Hc Hwf Hside Hev Henf a b s s' Ha Hab Hb [Hlen _] [Hlen' _] Hag Hp.
  subst n.
  pose proof (b08_law c (mkLoc a b 0) s s' Hc Hwf Hside) as law.
  assert (Hw : window_in (mkLoc a b 0) (zlen s)) by (unfold window_in; cbn [lstart lend]; lia).
  specialize (law Hw (agree_out_outside _ _ _ _ Hag)).
  unfold local_pass_law in law. unfold passes_c in *.
  destruct (Specs.evaluate c s) as [e|] eqn:E; [|exfalso; exact (Hev s eq_refl E)].
  destruct (Specs.evaluate c s') as [e'|] eqn:E'; [|exfalso; exact (Hev s' Hlen' E')].
  rewrite (b_ev_some _ _ _ E) in Hp. rewrite (b_ev_some _ _ _ E').
  unfold passes in law. unfold passesq. specialize (law Hp).
  destruct (localized c (mkLoc a b 0) true s) as [|c'|] eqn:Lc; [| |exact I].
  - apply Qle_bool_iff. apply Qle_bool_iff in Hp. lra.
  - unfold b_reinit. intros H. specialize (H (Henf _ _ _ Lc)).
    destruct (Specs.evaluate c' s') as [l'|] eqn:L'; [|contradiction].
    rewrite (b_ev_some _ _ _ L') in H. unfold passesq in H. exact (law H).
Qed.

(* ---- the solver theorems for problems made of built-in classes ---- *)
Section BuiltinProblems.
  Variable enforced : spec -> bool.
  Variable best : spec -> option Q.
  Variable passive : spec -> bool.
  Variable space : mspace.
  Variable n : Z.
  Hypothesis space_wf : wf_space space.
  Hypothesis space_fits : forall c, In c (choices_list space) -> cend c <= n.

  Theorem builtin_optimize_never_lowers_total : forall cfg cs objs st o st',
    (forall ob, In ob objs -> b09_class ob = true /\ wf_spec ob n /\ b09_side ob /\ evaluable ob n) ->
    state_good spec space n st ->
    optimize spec b_ev localized b_reinit enforced best b_boost passive (fun _ => None) cfg space cs objs st = (o, st') ->
    (total spec b_ev b_boost objs (cur _ st) <= total spec b_ev b_boost objs (cur _ st'))%Q.
  Proof.
    intros cfg cs objs st o st' Hobj Hg Hr.
    eapply optimize_never_lowers_total with (opt_heuristic := fun _ : spec => None)
                                            (space := space) (n := n); try eassumption.
    - intros ob _. reflexivity.
    - intros ob Hin. destruct (Hobj ob Hin) as (H1 & H2 & H3 & H4).
      apply builtin_faithful; assumption.
  Qed.

  Theorem builtin_optimize_keeps_constraints : forall cfg cs objs st o st',
    (forall c, In c cs -> b08_class c = true /\ wf_spec c n /\ b08_side c /\ evaluable c n /\
                          (forall w s c', localized c w true s = LSome c' -> enforced c' = false)) ->
    state_good spec space n st ->
    (forall c, In c cs -> passes_c spec b_ev c (cur _ st)) ->
    optimize spec b_ev localized b_reinit enforced best b_boost passive (fun _ => None) cfg space cs objs st = (o, st') ->
    forall c, In c cs -> passes_c spec b_ev c (cur _ st').
  Proof.
    intros cfg cs objs st o st' Hcs Hg Hp Hr.
    eapply optimize_keeps_constraints with (opt_heuristic := fun _ : spec => None)
                                           (space := space) (n := n); try eassumption.
    - intros ob _. reflexivity.
    - intros c Hin. destruct (Hcs c Hin) as (H1 & H2 & H3 & H4 & H5).
      apply builtin_sound; assumption.
  Qed.
End BuiltinProblems.

(* every well-formed instance of these classes is evaluable, so [evaluable] is not an extra
   assumption for them *)
Theorem wf_evaluable : forall sp n,
  match sp with
  | SAvoidPattern _ _ | SPatternOcc _ _ _ | SGC _ _ _ _ | SEnforceSequence _ _ | SEnforceChoice _ _
  | SAvoidChanges _ _ _ _ | SLength _ _ => True
  | _ => False
  end -> wf_spec sp n -> evaluable sp n.
Proof.
  intros sp n Hcl Hwf s Hlen. subst n.
  destruct sp; try contradiction; cbn [Specs.evaluate]; try discriminate.
  (* SAvoidChanges *)
  destruct indices as [idx|]; cbn [wf_spec] in Hwf.
  - destruct Hwf as [Hz HF].
    destruct (ac_eval l (Some idx) target max_edits s (map (getn s) idx)) as [lo Hlo].
    + cbn [extract_subsequence]. apply take_indices_some. exact HF.
    + rewrite zlenB_map. symmetry. exact Hz.
    + rewrite Hlo. discriminate.
  - destruct Hwf as (Hin & Hst & Hz).
    destruct (ac_eval l None target max_edits s (extract l s)) as [lo Hlo].
    + reflexivity.
    + rewrite extract_zlen by exact Hin. symmetry. exact Hz.
    + rewrite Hlo. discriminate.
Qed.

(* non-vacuity: a concrete objective and constraint meeting all hypotheses *)
Example builtin_ex :
  let ob := SGC (1 # 2) (1 # 2) (Some 4) (mkLoc 0 12 0) in
  b09_class ob = true /\ wf_spec ob 12 /\ b09_side ob /\ b08_class ob = true /\ b08_side ob.
Proof.
  cbn. unfold loc_in. cbn. repeat split; try lia; try discriminate.
Qed.
