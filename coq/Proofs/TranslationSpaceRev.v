(* The synonymous-codon space of EnforceTranslation on the REVERSE strand: the analogue of
   [Section Translation] of Proofs/TranslationSpace.v.  Codon i is the window
   [lend l - 3i - 3, lend l - 3i); its restriction lists the reverse complements of the codons of the
   wanted amino acid. *)
From Coq Require Import ZArith QArith Bool List Lia Lqa Ascii String Sorting.Sorted Permutation.
From DC Require Import Model.Base Model.Loc Model.Bio Model.Pattern Model.MSpace Model.Specs Model.Solver
                       Generated.GenTables
                       Proofs.MSpaceDefs Proofs.MSpaceA Proofs.MSpaceB Proofs.MSpaceC Proofs.MSpaceD
                       Proofs.SpecsDefs Proofs.BioA Proofs.SpecsCodon
                       Proofs.SolverA Proofs.SolverB Proofs.SolverC Proofs.SolverE Proofs.Builtins Proofs.CaiEnd
                       Proofs.TranslationSpace Proofs.CaiEndRev.
Import ListNotations.
Open Scope Z_scope.

Section TranslationRev.
  Variables (name : string) (T : gtable) (l : loc) (tr : astr) (s0 : dna).
  Hypothesis HT : In (name, T) genetic_tables.
  Hypothesis Hnd : no_dual_stop T = true.
  Hypothesis Hl : loc_in l (zlen s0).
  Hypothesis Hs : lstrand l = -1.
  Hypothesis Hlen : loc_len l = 3 * zlen tr.
  Hypothesis Hne : 1 <= zlen tr.

  Let rs := restrict_nucleotides (STranslation T l tr StartNone) false s0.
  Let space := from_constraints s0 rs.
  Let n := zlen s0.
  Let k := zlen tr.

  Lemma codon_choice_rev : forall i aa,
    codon_choice T l (i, aa) =
    mkChoice (lend l - 3 * (i + 1)) (lend l - 3 * i) (nodup_dna (map rc (back_codons T aa))) false.
  Proof.
    intros i aa. unfold codon_choice, std_choice, rchoice, codon_loc. cbn [fst snd]. rewrite Hs. reflexivity.
  Qed.

  Lemma rtrs_perm : Permutation rs (map (codon_choice T l) (combine (zrange 0 k) tr)).
  Proof.
    assert (H : Permutation rs
              (std_choice (codon_loc l 0) (first_choices T tr StartNone (extract (codon_loc l 0) s0)) ::
               map (codon_choice T l) (tl (combine (zrange 0 (zlen tr)) tr))))
      by exact (sort_choice_perm _).
    eapply Permutation_trans; [exact H|]. unfold k.
    destruct tr as [|aa0 tr']; [change (zlen (@nil ascii)) with 0 in Hne; lia|].
    rewrite (zrange_cons' 0 (zlen (aa0 :: tr'))) by lia. apply Permutation_refl.
  Qed.

  Lemma rtrs_elem : forall r, In r rs -> exists i aa, 0 <= i < k /\
    r = mkChoice (lend l - 3 * (i + 1)) (lend l - 3 * i) (nodup_dna (map rc (back_codons T aa))) false.
  Proof.
    intros r Hr. apply (Permutation_in _ rtrs_perm) in Hr. apply in_map_iff in Hr.
    destruct Hr as [[i aa] [E Hin]]. exists i, aa. split.
    - apply in_combine_l in Hin. apply zrange_In in Hin. exact Hin.
    - rewrite <- E. apply codon_choice_rev.
  Qed.

  Lemma rtrs_wf : Forall (wf_restriction n) rs.
  Proof.
    apply Forall_forall. intros r Hr. destruct (rtrs_elem r Hr) as (i & aa & Hi & E). subst r.
    destruct Hl as (H0 & H1 & H2 & _). unfold loc_len in Hlen. fold k in Hlen.
    unfold wf_restriction. cbn [cstart cend cvariants cany].
    split; [lia|]. split; [lia|]. split; [unfold n; lia|]. split; [apply nodup_dna_NoDup|]. split; [|reflexivity].
    apply Forall_forall. intros v Hv. apply (proj1 (nodup_dna_In _ _)) in Hv.
    apply in_map_iff in Hv. destruct Hv as [c [Ec Hc]]. subst v.
    destruct (back_codons_ok T aa c (table_ok_of name T HT Hnd) Hc) as [H3 _].
    unfold zlen. rewrite PatternProofs.rc_length. lia.
  Qed.

  Lemma rtrs_starts_nodup : NoDup (map cstart rs).
  Proof.
    eapply Permutation_NoDup; [apply Permutation_sym, Permutation_map, rtrs_perm|].
    rewrite map_map.
    rewrite (map_ext (fun x => cstart (codon_choice T l x)) (fun x => lend l - 3 * (fst x + 1)))
      by (intros [i aa]; rewrite codon_choice_rev; reflexivity).
    rewrite <- (map_map fst (fun i => lend l - 3 * (i + 1))).
    apply FinFun.Injective_map_NoDup; [intros x y H; lia|].
    apply NoDup_map_fst_combine. apply zrange_NoDup.
  Qed.

  Lemma rtrs_disj : pairwise_disj rs.
  Proof.
    split; [apply (NoDup_map_inv cstart), rtrs_starts_nodup|].
    intros x y Hx Hy.
    destruct (rtrs_elem x Hx) as (i & aa & Hi & Ex). destruct (rtrs_elem y Hy) as (j & bb & Hj & Ey).
    destruct (Z.eq_dec i j) as [E|E].
    - left. apply (NoDup_map_eq cstart rs rtrs_starts_nodup x y Hx Hy). subst x y. cbn [cstart]. lia.
    - right. unfold rdisj. subst x y. cbn [cstart cend]. lia.
  Qed.

  Lemma rtspace_wf : wf_space space /\ (forall c, In c (choices_list space) -> cend c <= n).
  Proof. apply from_constraints_wf. exact rtrs_wf. Qed.

  Lemma rtspace_member : forall t, zlen t = n ->
    (member space t <-> translate T (extract l t) = Some tr).
  Proof.
    intros t Ht. unfold space. rewrite (from_constraints_exact s0 rs t rtrs_wf Ht).
    apply (translation_restrictions_mean_same_protein name T l tr s0 t HT Hnd Hl Hlen Hne Ht).
  Qed.

  Lemma rtspace_closed : forall i, 0 <= i < k ->
    forall c, In c (choices_list space) ->
      Z.max (lend l - 3 * i - 3) (cstart c) < Z.min (lend l - 3 * i) (cend c) ->
      lend l - 3 * i - 3 <= cstart c /\ cend c <= lend l - 3 * i.
  Proof.
    intros i Hi c Hc Hov.
    destruct (disjoint_restrictions_space s0 rs rtrs_wf rtrs_disj) as [H1 _].
    destruct (H1 c Hc) as [E|(r & Hr & A & B)]; [lia|].
    destruct (rtrs_elem r Hr) as (j & aa & Hj & Er). subst r. cbn [cstart cend] in A, B.
    assert (j = i) by lia. subst j. lia.
  Qed.

  Lemma rtspace_covered : forall i, 0 <= i < k ->
    forall p, lend l - 3 * i - 3 <= p < lend l - 3 * i ->
      exists c, In c (choices_list space) /\ cstart c <= p < cend c.
  Proof.
    intros i Hi p Hp.
    destruct (disjoint_restrictions_space s0 rs rtrs_wf rtrs_disj) as [_ H2].
    apply H2. destruct Hl as (H0 & H1 & H3 & _). unfold loc_len in Hlen. fold k in Hlen. lia.
  Qed.

  Lemma codon_of_rev : forall t j, zlen t = n -> 0 <= j < k ->
    codon_of l t j = rc (slice t (lend l - 3 * j - 3) (lend l - 3 * j)).
  Proof.
    intros t j Ht Hj. destruct Hl as (H0 & H1 & H2 & _). unfold loc_len in Hlen. fold k in Hlen.
    unfold codon_of. rewrite (codon_loc_rev l j Hs). unfold extract. cbn [lstart lend lstrand].
    change (-1 =? -1) with true. cbv iota.
    rewrite MSpaceA.pyslice_slice by (unfold n in Ht; lia). f_equal. f_equal. lia.
  Qed.

  Lemma rgood_codon_aa : forall s i, good space n s -> 0 <= i < k ->
    exists aa, codon_aa T (codon_of l s i) = Some aa.
  Proof.
    intros s i [Hn Hm] Hi. apply (rtspace_member s Hn) in Hm. unfold translate in Hm.
    assert (Hls : loc_in l (zlen s)) by (rewrite Hn; exact Hl).
    rewrite (codons_extract l s k Hls Hlen ltac:(unfold k; lia)) in Hm.
    apply (mapM_In_some _ _ _ (codon_of l s i) Hm). apply in_map. apply zrange_In_conv. exact Hi.
  Qed.

  (* replacing codon i of a usable sequence by a synonym gives a usable sequence *)
  Lemma rcodon_swap : forall s i c', good space n s -> 0 <= i < k -> List.length c' = 3%nat ->
    codon_aa T c' = codon_aa T (codon_of l s i) ->
    let t := splice s (lend l - 3 * i - 3) (lend l - 3 * i) (rc c') in
    good space n t /\ codon_of l t i = c' /\
    (forall p, 0 <= p -> ~ (lend l - 3 * i - 3 <= p < lend l - 3 * i) ->
       nth_error t (Z.to_nat p) = nth_error s (Z.to_nat p)).
  Proof.
    intros s i c' Hg Hi Hc3 Haa t. pose proof Hg as [Hn Hm].
    destruct Hl as (H0 & H1 & H2 & H3). unfold loc_len in Hlen. fold k in Hlen. fold n in H2.
    assert (Hzc : zlen (rc c') = lend l - 3 * i - (lend l - 3 * i - 3))
      by (unfold zlen; rewrite PatternProofs.rc_length; lia).
    assert (Ht : zlen t = n).
    { unfold t. rewrite zlen_splice; [exact Hn | lia | lia | lia | exact Hzc]. }
    assert (Hout : forall p, 0 <= p -> ~ (lend l - 3 * i - 3 <= p < lend l - 3 * i) ->
              nth_error t (Z.to_nat p) = nth_error s (Z.to_nat p)).
    { intros p Hp Hnp. unfold t. apply nth_error_splice_out; [lia | lia | lia | exact Hzc | exact Hp | lia]. }
    assert (Hci : codon_of l t i = c').
    { rewrite (codon_of_rev t i Ht Hi). unfold t.
      rewrite slice_splice_same; [apply PatternProofs.rc_involutive | lia | lia | lia | exact Hzc]. }
    split; [|split; [exact Hci | exact Hout]].
    split; [exact Ht|].
    assert (Hlt : loc_in l (zlen t)) by (rewrite Ht; repeat split; assumption).
    assert (Hls : loc_in l (zlen s)) by (rewrite Hn; repeat split; assumption).
    unfold space. apply (from_constraints_exact s0 rs t rtrs_wf Ht).
    unfold space in Hm. apply (from_constraints_exact s0 rs s rtrs_wf Hn) in Hm.
    rewrite Forall_forall in *. intros r Hr. pose proof (Hm r Hr) as Hrs.
    apply (Permutation_in _ rtrs_perm) in Hr. apply in_map_iff in Hr.
    destruct Hr as [[j aa] [E Hin]]. subst r.
    apply in_combine_l in Hin. apply zrange_In in Hin.
    unfold codon_choice in *. cbn [fst snd] in *.
    apply (holds_std l s j k _ Hls Hlen Hin) in Hrs.
    apply (holds_std l t j k _ Hlt Hlen Hin).
    destruct (Z.eq_dec j i) as [E|E].
    - subst j. rewrite Hci. apply (codon_aa_back name T _ aa HT Hnd).
      rewrite Haa. apply (codon_aa_back name T _ aa HT Hnd). exact Hrs.
    - replace (codon_of l t j) with (codon_of l s j); [exact Hrs|].
      rewrite (codon_of_rev t j Ht Hin), (codon_of_rev s j Hn Hin). f_equal.
      apply MSpaceA.slice_ext; [lia|]. intros p Hp. symmetry. apply Hout; lia.
  Qed.
End TranslationRev.
